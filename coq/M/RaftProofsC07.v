(* C07 — the Ready contract of RawNode (M/RawNode.v over M/Raft.v, M/RaftLog.v).
   Per-call theorems over ALL rawnode states (no reachability assumed) unless a
   hypothesis names the log representation invariant [LogContig]. *)
From RV Require Import Base.Prelude Base.IdSet M.Util M.UtilProofs M.Proto M.MemStorage
  M.MemStorageProofs M.Inflights M.Progress M.RaftLog M.Quorum M.ConfChange M.Msg M.Raft
  M.RawNode M.RaftProofs M.RaftLogProofs M.RaftLogProofsOps M.RaftLogProofsSlice
  M.RaftLogProofsHistory.
From RecordUpdate Require Import RecordSet.
Import RecordSetNotations.

Local Open Scope N_scope.

(* ------------------------------------------------------------------ *)
(* small reflection lemmas *)

Lemma hs_eqb_eq a b : hs_eqb a b = true <-> a = b.
Proof.
  unfold hs_eqb. destruct a, b; cbn. split.
  - intros H. apply andb_prop in H. destruct H as [H H3]. apply andb_prop in H.
    destruct H as [H1 H2]. apply N.eqb_eq in H1, H2, H3. congruence.
  - intros H. inversion H; subst. rewrite !N.eqb_refl. reflexivity.
Qed.

Lemma hs_eqb_refl a : hs_eqb a a = true.
Proof. apply hs_eqb_eq. reflexivity. Qed.

Lemma role_eqb_eq a b : role_eqb a b = true <-> a = b.
Proof. destruct a, b; cbn; split; intros; congruence. Qed.

Lemma ss_eqb_eq a b : ss_eqb a b = true <-> a = b.
Proof.
  unfold ss_eqb. destruct a, b; cbn. split.
  - intros H. apply andb_prop in H. destruct H as [H1 H2].
    apply N.eqb_eq in H1. apply role_eqb_eq in H2. congruence.
  - intros H. inversion H; subst. rewrite N.eqb_refl.
    apply andb_true_intro. split; [reflexivity|apply role_eqb_eq; reflexivity].
Qed.

Lemma negb_true b : negb b = true <-> b = false.
Proof. destruct b; cbn; split; congruence. Qed.

(* ------------------------------------------------------------------ *)
(* 9. RawNode::step rejects local messages and responses from unknown peers,
      leaving the node untouched *)

Theorem step_rejects_local n m :
  is_local_msg (m_type m) = true -> rn_step n m = Ok (n, E_STEP_LOCAL_MSG).
Proof. intros H. unfold rn_step. rewrite H. reflexivity. Qed.

Theorem step_rejects_unknown_peer n m :
  is_local_msg (m_type m) = false ->
  is_response_msg (m_type m) = true ->
  get_pr (rn_raft n) (m_from m) = None ->
  rn_step n m = Ok (n, E_STEP_PEER_NOT_FOUND).
Proof. intros H1 H2 H3. unfold rn_step. rewrite H1, H2, H3. reflexivity. Qed.

(* everything else goes to Raft::step, and only the raft field changes *)
Theorem step_forwards n m :
  is_local_msg (m_type m) = false ->
  (is_response_msg (m_type m) = false \/ get_pr (rn_raft n) (m_from m) <> None) ->
  rn_step n m = lift2 n (step (rn_raft n) m).
Proof.
  intros H1 H2. unfold rn_step. rewrite H1.
  destruct H2 as [H2|H2].
  - rewrite H2. cbn [negb]. rewrite orb_true_r. reflexivity.
  - destruct (get_pr (rn_raft n) (m_from m)); [reflexivity|congruence].
Qed.

(* ------------------------------------------------------------------ *)
(* reduce_uncommitted_size only touches r_uncommitted_size *)

Lemma rus_frame r ents :
  exists k, reduce_uncommitted_size r ents = r <| r_uncommitted_size := k |>.
Proof.
  unfold reduce_uncommitted_size.
  assert (Hid : r = r <| r_uncommitted_size := r_uncommitted_size r |>) by (destruct r; reflexivity).
  destruct (negb (is_leader r)); [eexists; exact Hid|].
  match goal with |- context [if ?c then _ else _] => destruct c end; [eexists; exact Hid|].
  match goal with |- context [if ?c then _ else _] => destruct c end; eexists; reflexivity.
Qed.

(* ------------------------------------------------------------------ *)
(* gen_light_ready: exact characterisation *)

Definition ce_of (oe : option (list entry)) : list entry :=
  match oe with Some v => v | None => [] end.

Definition csi_after (csi : N) (ce : list entry) : N :=
  match ce with [] => csi | _ => e_index (List.last ce entry_default) end.

Lemma gen_light_ready_spec n n' lr :
  gen_light_ready n = Ok (n', lr) ->
  exists oe k,
    next_entries_since (r_log (rn_raft n)) (rn_commit_since_index n)
      (Some (r_max_committed_size_per_ready (rn_raft n))) = Ok oe
    /\ lr = mkLR None (ce_of oe) (r_msgs (rn_raft n))
    /\ n' = n <| rn_raft := (rn_raft n) <| r_uncommitted_size := k |> <| r_msgs := [] |> |>
              <| rn_commit_since_index := csi_after (rn_commit_since_index n) (ce_of oe) |>
    /\ (ce_of oe <> [] -> rn_commit_since_index n < csi_after (rn_commit_since_index n) (ce_of oe)).
Proof.
  unfold gen_light_ready. intros H. inv_bind H. rename x into oe.
  destruct (rus_frame (rn_raft n) (ce_of oe)) as [k Hk].
  fold (ce_of oe) in H. rewrite Hk in H.
  inv_bind H. inversion H; subst; clear H.
  exists oe, k. split; [exact Hx|].
  destruct (ce_of oe) as [|e t] eqn:Hce.
  - inversion Hx0; subst. cbn [csi_after]. repeat split; try reflexivity. congruence.
  - match type of Hx0 with (if ?c then _ else _) = _ => destruct c eqn:Hc end; [|discriminate].
    inversion Hx0; subst. cbn [csi_after]. repeat split; try reflexivity.
    intros _. apply N.ltb_lt in Hc. exact Hc.
Qed.

(* the panic of gen_light_ready's assertion, exactly *)
Lemma gen_light_ready_ok_iff n :
  (exists n' lr, gen_light_ready n = Ok (n', lr)) <->
  exists oe, next_entries_since (r_log (rn_raft n)) (rn_commit_since_index n)
      (Some (r_max_committed_size_per_ready (rn_raft n))) = Ok oe
    /\ (ce_of oe <> [] -> rn_commit_since_index n < e_index (List.last (ce_of oe) entry_default)).
Proof.
  split.
  - intros (n' & lr & H). destruct (gen_light_ready_spec _ _ _ H) as (oe & k & A & _ & _ & D).
    exists oe. split; [exact A|]. intros Hne. specialize (D Hne).
    unfold csi_after in D. destruct (ce_of oe); [congruence|exact D].
  - intros (oe & A & B). unfold gen_light_ready. rewrite A. cbn [bind]. fold (ce_of oe).
    destruct (ce_of oe) as [|e t] eqn:Hce; cbn [bind]; [eauto|].
    assert (Hlt : (rn_commit_since_index n <? e_index (List.last (e :: t) entry_default)) = true)
      by (apply N.ltb_lt; apply B; discriminate).
    rewrite Hlt. cbn [bind]. eauto.
Qed.

(* ------------------------------------------------------------------ *)
(* rn_ready: inversion into its parts *)

Definition rec_last_of (ents : list entry) : option (N * N) :=
  match ents with
  | [] => None
  | _ => let e := List.last ents entry_default in Some (e_index e, e_term e)
  end.

Definition nonempty {A} (l : list A) : bool := match l with [] => false | _ => true end.

Definition hs_changed (n : rawnode) : bool :=
  negb (hs_eqb (Raft.hard_state_of (rn_raft n)) (rn_prev_hs n)).

Definition tv_changed (n : rawnode) : bool :=
  negb (hs_vote (Raft.hard_state_of (rn_raft n)) =? hs_vote (rn_prev_hs n))
  || negb (hs_term (Raft.hard_state_of (rn_raft n)) =? hs_term (rn_prev_hs n)).

(* the records kept by ready(): all of them, except that on the first Ready as
   leader the (entry-less, snapshot-less) candidate records are dropped *)
Definition ready_records (n : rawnode) (recs : list ready_record) : Prop :=
  if negb (role_eqb (ss_role (rn_prev_ss n)) Leader) && is_leader (rn_raft n)
  then check_records_empty (rn_records n) = Ok tt /\ recs = []
  else recs = rn_records n.

(* the snapshot part: (snapshot, new commit_since_index, record, must_sync bit) *)
Definition ready_snap (n : rawnode) (x : snapshot * N * option (N * N) * bool) : Prop :=
  match u_snapshot (unst (r_log (rn_raft n))) with
  | Some s =>
      rn_commit_since_index n <= s_index s
      /\ has_next_entries_since (r_log (rn_raft n)) (s_index s) = Ok false
      /\ x = (s, s_index s, Some (s_index s, s_term s), true)
  | None => x = (snap_default, rn_commit_since_index n, None, false)
  end.

Lemma rn_ready_inv n n' rd :
  rn_ready n = Ok (n', rd) ->
  exists recs snap csi rec_snap ms2 n2 light,
    ready_records n recs
    /\ ready_snap n (snap, csi, rec_snap, ms2)
    /\ gen_light_ready (n <| rn_raft := (rn_raft n) <| r_read_states := [] |> |>
                          <| rn_max_number := rn_max_number n + 1 |>
                          <| rn_commit_since_index := csi |>) = Ok (n2, light)
    /\ n' = n2 <| rn_records := recs ++ [mkRR (rn_max_number n + 1)
                                            (rec_last_of (u_entries (unst (r_log (rn_raft n)))))
                                            rec_snap (hs_changed n && tv_changed n)] |>
    /\ rd = mkRd (rn_max_number n + 1)
              (if negb (ss_eqb (soft_state_of (rn_raft n)) (rn_prev_ss n))
               then Some (soft_state_of (rn_raft n)) else None)
              (if hs_changed n then Some (Raft.hard_state_of (rn_raft n)) else None)
              (r_read_states (rn_raft n))
              (u_entries (unst (r_log (rn_raft n))))
              snap
              (negb (is_leader (rn_raft n)) || (hs_changed n && tv_changed n)
               || existsb rr_hs_changed recs)
              light
              ((hs_changed n && tv_changed n) || ms2
               || nonempty (u_entries (unst (r_log (rn_raft n))))).
Proof.
  unfold rn_ready. intros H. inv_bind H. rename x into recs.
  inv_bind H. destruct x as [[[snap csi] rec_snap] ms2].
  inv_bind H. destruct x as [n2 light]. inversion H; subst; clear H.
  exists recs, snap, csi, rec_snap, ms2, n2, light.
  split.
  { unfold ready_records.
    destruct (negb (role_eqb (ss_role (rn_prev_ss n)) Leader) && is_leader (rn_raft n)).
    - inv_bind Hx. destruct x. inversion Hx; subst. split; [exact Hx2|reflexivity].
    - inversion Hx; reflexivity. }
  split.
  { unfold ready_snap. cbn in Hx0.
    destruct (u_snapshot (unst (r_log (rn_raft n)))) as [s|].
    - destruct (s_index s <? rn_commit_since_index n) eqn:E; [discriminate|].
      inv_bind Hx0. destruct x; [discriminate|]. inversion Hx0; subst.
      split; [lia|]. split; [exact Hx2|reflexivity].
    - inversion Hx0; reflexivity. }
  split; [exact Hx1|]. split; reflexivity.
Qed.

(* ------------------------------------------------------------------ *)
(* 3. what a Ready carries: the unstable suffix, the changed hard/soft state,
      number = max_number + 1, and the record that is pushed *)

Theorem ready_entries_are_unstable n n' rd :
  rn_ready n = Ok (n', rd) ->
  rd_entries rd = u_entries (unst (r_log (rn_raft n)))
  /\ rd_read_states rd = r_read_states (rn_raft n)
  /\ rd_number rd = rn_max_number n + 1
  /\ rn_max_number n' = rn_max_number n + 1
  /\ (forall hs, rd_hs rd = Some hs <->
        Raft.hard_state_of (rn_raft n) <> rn_prev_hs n /\ hs = Raft.hard_state_of (rn_raft n))
  /\ (rd_hs rd = None <-> Raft.hard_state_of (rn_raft n) = rn_prev_hs n)
  /\ (forall ss, rd_ss rd = Some ss <->
        soft_state_of (rn_raft n) <> rn_prev_ss n /\ ss = soft_state_of (rn_raft n))
  /\ (rd_ss rd = None <-> soft_state_of (rn_raft n) = rn_prev_ss n)
  /\ rd_snapshot rd = match u_snapshot (unst (r_log (rn_raft n))) with
                      | Some s => s | None => snap_default end
  /\ (exists recs, ready_records n recs /\
        rd_is_persisted_msg rd = negb (is_leader (rn_raft n)) || (hs_changed n && tv_changed n)
                                 || existsb rr_hs_changed recs /\
        rn_records n' = recs ++
          [mkRR (rn_max_number n + 1)
                (rec_last_of (u_entries (unst (r_log (rn_raft n)))))
                (option_map (fun s => (s_index s, s_term s)) (u_snapshot (unst (r_log (rn_raft n)))))
                (hs_changed n && tv_changed n)])
  /\ rn_prev_hs n' = rn_prev_hs n /\ rn_prev_ss n' = rn_prev_ss n
  /\ r_log (rn_raft n') = r_log (rn_raft n)
  /\ r_read_states (rn_raft n') = [] /\ r_msgs (rn_raft n') = [].
Proof.
  intros H. destruct (rn_ready_inv _ _ _ H) as (recs & snap & csi & rec_snap & ms2 & n2 & light
    & Hrec & Hsnap & Hgl & Hn' & Hrd).
  destruct (gen_light_ready_spec _ _ _ Hgl) as (oe & k & Hoe & Hlr & Hn2 & Hlt).
  subst rd n' n2. cbn.
  assert (Hsn : snap = match u_snapshot (unst (r_log (rn_raft n))) with Some s => s | None => snap_default end
                /\ rec_snap = option_map (fun s => (s_index s, s_term s)) (u_snapshot (unst (r_log (rn_raft n))))).
  { unfold ready_snap in Hsnap. destruct (u_snapshot (unst (r_log (rn_raft n)))).
    - destruct Hsnap as (_ & _ & E). inversion E; subst. split; reflexivity.
    - inversion Hsnap; subst. split; reflexivity. }
  destruct Hsn as [Hs1 Hs2].
  repeat split; try reflexivity.
  - unfold hs_changed in H0. destruct (hs_eqb _ _) eqn:E; cbn in H0; [discriminate|].
    intros C. apply hs_eqb_eq in C. congruence.
  - unfold hs_changed in H0. destruct (hs_eqb _ _) eqn:E; cbn in H0; [discriminate|].
    inversion H0; reflexivity.
  - intros [A B]. subst hs. unfold hs_changed.
    destruct (hs_eqb _ _) eqn:E; cbn; [|reflexivity]. apply hs_eqb_eq in E. congruence.
  - unfold hs_changed. destruct (hs_eqb _ _) eqn:E; cbn; [intros _|discriminate].
    apply hs_eqb_eq; exact E.
  - intros E. unfold hs_changed. apply hs_eqb_eq in E. rewrite E. reflexivity.
  - destruct (ss_eqb _ _) eqn:E; cbn in H0; [discriminate|].
    intros C. apply ss_eqb_eq in C. congruence.
  - destruct (ss_eqb _ _) eqn:E; cbn in H0; [discriminate|]. inversion H0; reflexivity.
  - intros [A B]. subst ss.
    destruct (ss_eqb _ _) eqn:E; cbn; [|reflexivity]. apply ss_eqb_eq in E. congruence.
  - destruct (ss_eqb _ _) eqn:E; cbn; [intros _|discriminate]. apply ss_eqb_eq; exact E.
  - intros E. apply ss_eqb_eq in E. rewrite E. reflexivity.
  - exact Hs1.
  - exists recs. split; [exact Hrec|]. split; [reflexivity|]. rewrite Hs2. reflexivity.
Qed.

(* ------------------------------------------------------------------ *)
(* 2. must_sync *)

Theorem must_sync_spec n n' rd :
  rn_ready n = Ok (n', rd) ->
  (rd_must_sync rd = true <->
     rd_entries rd <> []
     \/ (exists s, u_snapshot (unst (r_log (rn_raft n))) = Some s)
     \/ r_term (rn_raft n) <> hs_term (rn_prev_hs n)
     \/ r_vote (rn_raft n) <> hs_vote (rn_prev_hs n)).
Proof.
  intros H. destruct (rn_ready_inv _ _ _ H) as (recs & snap & csi & rec_snap & ms2 & n2 & light
    & Hrec & Hsnap & Hgl & Hn' & Hrd).
  subst rd. cbn [rd_must_sync rd_entries].
  assert (Hms2 : ms2 = true <-> exists s, u_snapshot (unst (r_log (rn_raft n))) = Some s).
  { unfold ready_snap in Hsnap. destruct (u_snapshot (unst (r_log (rn_raft n)))) as [s|].
    - destruct Hsnap as (_ & _ & E). inversion E; subst. split; eauto.
    - inversion Hsnap; subst. split; [discriminate|intros [s C]; discriminate]. }
  assert (Htv : hs_changed n && tv_changed n = true <->
                (r_term (rn_raft n) <> hs_term (rn_prev_hs n) \/ r_vote (rn_raft n) <> hs_vote (rn_prev_hs n))).
  { unfold hs_changed, tv_changed, hs_eqb, Raft.hard_state_of. cbn [hs_term hs_vote hs_commit].
    destruct (r_term (rn_raft n) =? hs_term (rn_prev_hs n)) eqn:E1;
    destruct (r_vote (rn_raft n) =? hs_vote (rn_prev_hs n)) eqn:E2; cbn; split; try tauto; try lia;
      try (intros _; lia). }
  assert (Hne : nonempty (u_entries (unst (r_log (rn_raft n)))) = true <->
                u_entries (unst (r_log (rn_raft n))) <> []).
  { destruct (u_entries _); cbn; split; congruence. }
  rewrite !orb_true_iff, Htv, Hms2, Hne. tauto.
Qed.

(* ------------------------------------------------------------------ *)
(* slice over ALL log states: a non-empty range yields a non-empty result no
   longer than the range (or an error / a panic) *)

Lemma limit_size_nonempty l max : l <> [] -> limit_size l max <> [].
Proof. intros H. apply (limit_size_spec entry_size l max). exact H. Qed.

Lemma limit_size_prefix l max : exists k, (k <= length l)%nat /\ limit_size l max = firstn k l.
Proof. apply (limit_size_spec entry_size l max). Qed.

Lemma limit_size_length l max : (length (limit_size l max) <= length l)%nat.
Proof.
  destruct (limit_size_prefix l max) as (k & Hk & E). rewrite E, firstn_length. lia.
Qed.

Lemma firstn_skipn_nonempty {A} (l : list A) a b :
  (a < b)%nat -> (b <= length l)%nat -> firstn (b - a) (skipn a l) <> [].
Proof.
  intros H1 H2 C. apply (f_equal (@length A)) in C.
  rewrite firstn_length, skipn_length in C. cbn in C. lia.
Qed.

Lemma mem_first_index_of m f : MemStorage.first_index m = Ok f -> f = first_of m.
Proof.
  unfold MemStorage.first_index, first_of. destruct (entries m).
  - destruct (snap_index m =? u64_max); [discriminate|]. intros H; inversion H; reflexivity.
  - intros H; inversion H; reflexivity.
Qed.

Lemma storage_entries_shape m lo hi max ctx m' r :
  storage_entries m lo hi max ctx = Ok (m', SOk r) ->
  lo < hi ->
  r <> [] /\ N.of_nat (length r) <= hi - lo
  /\ first_of m <= lo /\ hi <= first_of m + N.of_nat (length (entries m))
  /\ r = limit_size (firstn (N.to_nat (hi - lo)) (skipn (N.to_nat (lo - first_of m)) (entries m))) max.
Proof.
  unfold storage_entries. intros H Hlt. inv_bind H. rename x into f.
  destruct (lo <? f) eqn:E1; [inversion H|].
  destruct (MemStorage.last_index m =? u64_max); [discriminate|].
  destruct (MemStorage.last_index m + 1 <? hi); [discriminate|].
  destruct (trig_log m && can_async ctx); [inversion H|].
  rewrite Hx in H. cbn [bind] in H.
  apply mem_first_index_of in Hx. subst f.
  destruct (hi <? first_of m) eqn:E2; [discriminate|].
  destruct (N.to_nat (hi - first_of m) <? N.to_nat (lo - first_of m))%nat eqn:E3; [discriminate|].
  destruct (length (entries m) <? N.to_nat (hi - first_of m))%nat eqn:E4; [discriminate|].
  injection H as Hm Hr. subst m' r.
  replace (N.to_nat (hi - first_of m) - N.to_nat (lo - first_of m))%nat
    with (N.to_nat (hi - lo)) by lia.
  split; [|split].
  - apply limit_size_nonempty.
    replace (N.to_nat (hi - lo)) with (N.to_nat (hi - first_of m) - N.to_nat (lo - first_of m))%nat by lia.
    apply firstn_skipn_nonempty; lia.
  - pose proof (limit_size_length
        (firstn (N.to_nat (hi - lo)) (skipn (N.to_nat (lo - first_of m)) (entries m))) max) as L.
    rewrite firstn_length in L. lia.
  - repeat split; try reflexivity; lia.
Qed.

Lemma u_slice_shape u lo hi r :
  u_slice u lo hi = Ok r -> lo < hi ->
  r <> [] /\ N.of_nat (length r) = hi - lo
  /\ u_offset u <= lo /\ hi <= u_offset u + N.of_nat (length (u_entries u))
  /\ r = firstn (N.to_nat (hi - lo)) (skipn (N.to_nat (lo - u_offset u)) (u_entries u)).
Proof.
  unfold u_slice, u_must_check_outofbounds. intros H Hlt.
  destruct (hi <? lo) eqn:E1; [discriminate|].
  destruct ((lo <? u_offset u) || (u_offset u + N.of_nat (length (u_entries u)) <? hi)) eqn:E2;
    [discriminate|].
  cbn in H. inversion H; subst; clear H. apply orb_false_elim in E2. destruct E2 as [E2 E3].
  replace (N.to_nat (hi - u_offset u) - N.to_nat (lo - u_offset u))%nat
    with (N.to_nat (hi - lo)) by lia.
  split; [|split; [|repeat split; lia]].
  - replace (N.to_nat (hi - lo)) with (N.to_nat (hi - u_offset u) - N.to_nat (lo - u_offset u))%nat by lia.
    apply firstn_skipn_nonempty; lia.
  - rewrite firstn_length, skipn_length. lia.
Qed.

Lemma slice_shape l lo hi max v :
  slice l lo hi max = Ok (SOk v) -> lo < hi ->
  v <> [] /\ N.of_nat (length v) <= hi - lo.
Proof.
  unfold slice. intros H Hlt. inv_bind H. destruct x as [e|]; [discriminate|].
  destruct (lo =? hi) eqn:E0; [lia|].
  inv_bind H. destruct x as [early|ents].
  - inversion H; subst; clear H.
    destruct (lo <? u_offset (unst l)) eqn:E1; [|discriminate].
    inv_bind Hx0. destruct x as [ents|e].
    + unfold store_entries in Hx1. inv_bind Hx1. destruct x as [m' r]. cbn in Hx1.
      inversion Hx1; subst r; clear Hx1.
      apply storage_entries_shape in Hx2; [|lia]. destruct Hx2 as (A & B & _).
      destruct (N.of_nat (length ents) <? N.min hi (u_offset (unst l)) - lo); [|discriminate].
      inversion Hx0; subst. split; [exact A|lia].
    + destruct e; discriminate.
  - destruct (lo <? u_offset (unst l)) eqn:E1.
    + inv_bind Hx0. destruct x as [ents0|e]; [|destruct e; discriminate].
      unfold store_entries in Hx1. inv_bind Hx1. destruct x as [m' r]. cbn in Hx1.
      inversion Hx1; subst r; clear Hx1.
      apply storage_entries_shape in Hx2; [|lia]. destruct Hx2 as (A & B & _).
      destruct (N.of_nat (length ents0) <? N.min hi (u_offset (unst l)) - lo) eqn:E2; [discriminate|].
      inversion Hx0; subst ents0; clear Hx0.
      inv_bind H. inversion H; subst; clear H.
      destruct (u_offset (unst l) <? hi) eqn:E3.
      * inv_bind Hx0. inversion Hx0; subst; clear Hx0.
        apply u_slice_shape in Hx1; [|lia]. destruct Hx1 as (A' & B' & _).
        split.
        { apply limit_size_nonempty. destruct ents; [congruence|discriminate]. }
        pose proof (limit_size_length (ents ++ x0) max) as L. rewrite app_length in L. lia.
      * inversion Hx0; subst; clear Hx0. split; [apply limit_size_nonempty; exact A|].
        pose proof (limit_size_length x max) as L. lia.
    + inversion Hx0; subst ents; clear Hx0.
      inv_bind H. inversion H; subst; clear H.
      destruct (u_offset (unst l) <? hi) eqn:E3.
      * inv_bind Hx0. inversion Hx0; subst; clear Hx0.
        apply u_slice_shape in Hx1; [|lia]. destruct Hx1 as (A' & B' & _).
        cbn [app]. split; [apply limit_size_nonempty; exact A'|].
        pose proof (limit_size_length x max) as L. lia.
      * lia.
Qed.

(* next_entries_since / has_next_entries_since agree, over all states *)
Lemma next_entries_since_has l since max oe :
  next_entries_since l since max = Ok oe ->
  exists f ub,
    first_index l = Ok f /\ applied_index_upper_bound l = Ok ub
    /\ since <> u64_max /\ ub < u64_max
    /\ has_next_entries_since l since = Ok (N.max (since + 1) f <? ub + 1)
    /\ (N.max (since + 1) f < ub + 1 ->
          exists v, oe = Some v /\ v <> [] /\ N.of_nat (length v) <= ub + 1 - N.max (since + 1) f
                    /\ slice l (N.max (since + 1) f) (ub + 1) max = Ok (SOk v))
    /\ (ub + 1 <= N.max (since + 1) f -> oe = None).
Proof.
  unfold next_entries_since, has_next_entries_since. intros H.
  destruct (since =? u64_max) eqn:Es; [discriminate|].
  inv_bind H. rename x into f. inv_bind H. rename x into ub.
  destruct (ub =? u64_max) eqn:Eu; [discriminate|].
  assert (Hub : ub <= u64_max).
  { unfold applied_index_upper_bound in Hx0. inversion Hx0. lia. }
  exists f, ub. rewrite Hx, Hx0. cbn [bind]. rewrite Eu.
  split; [reflexivity|]. split; [reflexivity|].
  split; [lia|]. split; [lia|]. split; [reflexivity|]. split.
  - intros Hlt. destruct (N.max (since + 1) f <? ub + 1) eqn:E; [|lia].
    inv_bind H. destruct x as [v|e]; [|discriminate]. inversion H; subst.
    destruct (slice_shape _ _ _ _ _ Hx1 Hlt) as [A B]. exists v. repeat split; auto.
  - intros Hge. destruct (N.max (since + 1) f <? ub + 1) eqn:E; [lia|].
    inversion H; reflexivity.
Qed.

Lemma applied_index_upper_bound_spec l :
  applied_index_upper_bound l =
  Ok (N.min (committed l) (N.min u64_max (persisted l + max_apply_unpersisted_log_limit l))).
Proof. reflexivity. Qed.
(* ------------------------------------------------------------------ *)
(* 1. has_ready() is true exactly when ready() returns something *)

Definition ready_nonempty (rd : ready) : Prop :=
  rd_ss rd <> None \/ rd_hs rd <> None \/ rd_read_states rd <> [] \/ rd_entries rd <> []
  \/ s_index (rd_snapshot rd) <> 0
  \/ lr_committed_entries (rd_light rd) <> [] \/ lr_messages (rd_light rd) <> [].

Lemma nonempty_true {A} (l : list A) : nonempty l = true <-> l <> [].
Proof. destruct l; cbn; split; congruence. Qed.

Lemma rn_has_ready_spec n b :
  rn_has_ready n = Ok b ->
  (b = true <->
     r_msgs (rn_raft n) <> []
     \/ soft_state_of (rn_raft n) <> rn_prev_ss n
     \/ Raft.hard_state_of (rn_raft n) <> rn_prev_hs n
     \/ r_read_states (rn_raft n) <> []
     \/ u_entries (unst (r_log (rn_raft n))) <> []
     \/ (exists s, u_snapshot (unst (r_log (rn_raft n))) = Some s /\ s_index s <> 0)
     \/ has_next_entries_since (r_log (rn_raft n)) (rn_commit_since_index n) = Ok true).
Proof.
  unfold rn_has_ready. intros H.
  fold (nonempty (r_msgs (rn_raft n))) in H.
  fold (nonempty (r_read_states (rn_raft n))) in H.
  fold (nonempty (u_entries (unst (r_log (rn_raft n))))) in H.
  destruct (nonempty (r_msgs (rn_raft n))) eqn:E1.
  { inversion H. apply nonempty_true in E1. tauto. }
  destruct (ss_eqb (soft_state_of (rn_raft n)) (rn_prev_ss n)) eqn:E2; cbn [negb] in H.
  2:{ inversion H. assert (soft_state_of (rn_raft n) <> rn_prev_ss n)
        by (intros C; apply ss_eqb_eq in C; congruence). tauto. }
  destruct (hs_eqb (Raft.hard_state_of (rn_raft n)) (rn_prev_hs n)) eqn:E3; cbn [negb] in H.
  2:{ inversion H. assert (Raft.hard_state_of (rn_raft n) <> rn_prev_hs n)
        by (intros C; apply hs_eqb_eq in C; congruence). tauto. }
  destruct (nonempty (r_read_states (rn_raft n))) eqn:E4.
  { inversion H. apply nonempty_true in E4. tauto. }
  destruct (nonempty (u_entries (unst (r_log (rn_raft n))))) eqn:E5.
  { inversion H. apply nonempty_true in E5. tauto. }
  apply ss_eqb_eq in E2. apply hs_eqb_eq in E3.
  assert (N1 : r_msgs (rn_raft n) = []) by (destruct (r_msgs (rn_raft n)); [reflexivity|discriminate]).
  assert (N4 : r_read_states (rn_raft n) = [])
    by (destruct (r_read_states (rn_raft n)); [reflexivity|discriminate]).
  assert (N5 : u_entries (unst (r_log (rn_raft n))) = [])
    by (destruct (u_entries (unst (r_log (rn_raft n)))); [reflexivity|discriminate]).
  destruct (u_snapshot (unst (r_log (rn_raft n)))) as [s|] eqn:E6.
  - destruct (s_index s =? 0) eqn:E7; cbn [negb] in H.
    + rewrite H. split.
      * intros ->. repeat right. reflexivity.
      * intros [C|[C|[C|[C|[C|[(s' & C & D)|C]]]]]]; try congruence.
        inversion C; subst. lia.
    + inversion H. split; [|reflexivity]. intros _.
      right; right; right; right; right; left. exists s. split; [reflexivity|lia].
  - rewrite H. split.
    + intros ->. repeat right. reflexivity.
    + intros [C|[C|[C|[C|[C|[(s' & C & D)|C]]]]]]; congruence.
Qed.

Theorem has_ready_iff n b n' rd :
  rn_has_ready n = Ok b -> rn_ready n = Ok (n', rd) ->
  (b = true <-> ready_nonempty rd).
Proof.
  intros Hh H. rewrite (rn_has_ready_spec _ _ Hh).
  destruct (rn_ready_inv _ _ _ H) as (recs & snap & csi & rec_snap & ms2 & n2 & light
    & Hrec & Hsnap & Hgl & Hn' & Hrd).
  destruct (gen_light_ready_spec _ _ _ Hgl) as (oe & k & Hoe & Hlr & Hn2 & Hlt).
  cbn in Hoe.
  destruct (ready_entries_are_unstable _ _ _ H) as (R1 & R2 & _ & _ & R3 & R3' & R4 & R4' & R5 & _).
  unfold ready_nonempty. rewrite R1, R2, R5.
  assert (Hl1 : lr_committed_entries (rd_light rd) = ce_of oe) by (subst rd light; reflexivity).
  assert (Hl2 : lr_messages (rd_light rd) = r_msgs (rn_raft n)) by (subst rd light; reflexivity).
  rewrite Hl1, Hl2.
  assert (Hss : rd_ss rd <> None <-> soft_state_of (rn_raft n) <> rn_prev_ss n) by (rewrite R4'; tauto).
  assert (Hhs : rd_hs rd <> None <-> Raft.hard_state_of (rn_raft n) <> rn_prev_hs n) by (rewrite R3'; tauto).
  rewrite Hss, Hhs.
  destruct (next_entries_since_has _ _ _ _ Hoe) as (f & ub & Hf & Hub & _ & _ & Hhas & Hsome & Hnone).
  unfold ready_snap in Hsnap.
  destruct (u_snapshot (unst (r_log (rn_raft n)))) as [s|] eqn:Es.
  - destruct Hsnap as (Hle & Hno & E). inversion E; subst snap csi rec_snap ms2. clear E.
    rewrite Hhas in Hno. inversion Hno as [Hno'].
    assert (Hce : ce_of oe = []) by (rewrite Hnone; [reflexivity|lia]).
    rewrite Hce.
    assert (Hsn : (exists s0, Some s = Some s0 /\ s_index s0 <> 0) <-> s_index s <> 0).
    { split; [intros (s0 & A & B); inversion A; subst; exact B|intros A; eauto]. }
    rewrite Hsn.
    assert (Hnx : has_next_entries_since (r_log (rn_raft n)) (rn_commit_since_index n) = Ok true ->
                  s_index s <> 0).
    { intros C D. assert (rn_commit_since_index n = s_index s) by (clear - Hle D; lia).
      rewrite H0, Hhas in C. rewrite Hno' in C. discriminate. }
    clear - Hnx. tauto.
  - inversion Hsnap; subst snap csi rec_snap ms2. cbn [s_index snap_default].
    assert (Hnx : has_next_entries_since (r_log (rn_raft n)) (rn_commit_since_index n) = Ok true <->
                  ce_of oe <> []).
    { rewrite Hhas. split.
      - intros C. inversion C as [C']. destruct (Hsome ltac:(lia)) as (v & -> & Hv & _). exact Hv.
      - intros C. destruct (N.max (rn_commit_since_index n + 1) f <? ub + 1) eqn:E; [reflexivity|].
        rewrite Hnone in C by lia. cbn in C. congruence. }
    rewrite Hnx.
    assert (Hsn : ~ (exists s0 : snapshot, None = Some s0 /\ s_index s0 <> 0))
      by (intros (s0 & A & _); discriminate).
    clear - Hsn. tauto.
Qed.

(* ------------------------------------------------------------------ *)
(* slice returns a non-empty prefix of the logical range [lo, hi) *)

Definition store_part (l : raft_log) (lo hi : N) : list entry :=
  if lo <? u_offset (unst l) then
    firstn (N.to_nat (N.min hi (u_offset (unst l)) - lo))
           (skipn (N.to_nat (lo - first_of (store l))) (entries (store l)))
  else [].

Definition unst_part (l : raft_log) (lo hi : N) : list entry :=
  if u_offset (unst l) <? hi then
    firstn (N.to_nat (hi - N.max lo (u_offset (unst l))))
           (skipn (N.to_nat (N.max lo (u_offset (unst l)) - u_offset (unst l))) (u_entries (unst l)))
  else [].

Definition log_range (l : raft_log) (lo hi : N) : list entry := store_part l lo hi ++ unst_part l lo hi.

(* the side conditions slice has checked when it answers Ok *)
Definition range_ok (l : raft_log) (lo hi : N) : Prop :=
  lo < u_offset (unst l) ->
     first_of (store l) <= lo /\
     N.min hi (u_offset (unst l)) <= first_of (store l) + N.of_nat (length (entries (store l))).

Lemma firstn_all_ge {A} (l : list A) k : (length l <= k)%nat -> firstn k l = l.
Proof. intros H. apply firstn_all2. exact H. Qed.

Lemma firstn_firstn_prefix {A} (l : list A) k a :
  (k <= a)%nat -> firstn k (firstn a l) = firstn k l.
Proof. intros H. rewrite firstn_firstn. rewrite Nat.min_l by lia. reflexivity. Qed.

Lemma slice_struct l lo hi max v :
  slice l lo hi max = Ok (SOk v) -> lo < hi ->
  range_ok l lo hi /\
  exists k, (1 <= k)%nat /\ (k <= length (log_range l lo hi))%nat /\ v = firstn k (log_range l lo hi).
Proof.
  unfold slice. intros H Hlt. inv_bind H. destruct x as [e|]; [discriminate|].
  destruct (lo =? hi) eqn:E0; [lia|].
  inv_bind H.
  unfold log_range, store_part, unst_part, range_ok.
  destruct (lo <? u_offset (unst l)) eqn:E1.
  - inv_bind Hx0. destruct x0 as [ents0|e]; [|destruct e; inversion Hx0; subst; discriminate].
    unfold store_entries in Hx1. inv_bind Hx1. destruct x0 as [m' r]. cbn in Hx1.
    inversion Hx1; subst r; clear Hx1.
    apply storage_entries_shape in Hx2; [|lia].
    destruct Hx2 as (A & B & Hlo & Hhi & Hr).
    set (S0 := firstn (N.to_nat (N.min hi (u_offset (unst l)) - lo))
                 (skipn (N.to_nat (lo - first_of (store l))) (entries (store l)))) in *.
    destruct (limit_size_prefix S0 max) as (k0 & Hk0 & Ek0). rewrite <- Hr in Ek0.
    assert (Hk0pos : (1 <= k0)%nat).
    { destruct k0; [|lia]. rewrite Ek0 in A. cbn in A. congruence. }
    assert (HS0len : N.of_nat (length S0) <= N.min hi (u_offset (unst l)) - lo).
    { unfold S0. rewrite firstn_length. lia. }
    destruct (N.of_nat (length ents0) <? N.min hi (u_offset (unst l)) - lo) eqn:E2.
    + inversion Hx0; subst x; clear Hx0. inversion H; subst v; clear H.
      split; [intros _; split; lia|].
      exists k0. split; [exact Hk0pos|]. rewrite app_length. split; [lia|].
      rewrite Ek0. rewrite firstn_app.
      replace (k0 - length S0)%nat with 0%nat by lia. cbn [firstn]. rewrite app_nil_r. reflexivity.
    + inversion Hx0; subst x; clear Hx0.
      assert (Hfull : ents0 = S0).
      { rewrite Ek0. apply firstn_all_ge. rewrite Ek0, firstn_length in E2. lia. }
      clear Hr Ek0. subst ents0.
      inv_bind H. inversion H; subst v; clear H.
      destruct (u_offset (unst l) <? hi) eqn:E3.
      * inv_bind Hx0. inversion Hx0; subst x; clear Hx0.
        apply u_slice_shape in Hx1; [|lia].
        destruct Hx1 as (A' & B' & C' & D' & E').
        split; [intros _; split; lia|].
        rewrite <- E'.
        destruct (limit_size_prefix (S0 ++ x0) max) as (k & Hk & Ek).
        exists k. split; [|split; [exact Hk|exact Ek]].
        destruct k; [|lia]. exfalso. cbn in Ek.
        apply (limit_size_nonempty (S0 ++ x0) max); [|exact Ek].
        destruct S0; [congruence|discriminate].
      * inversion Hx0; subst x; clear Hx0.
        split; [intros _; split; lia|].
        rewrite app_nil_r.
        destruct (limit_size_prefix S0 max) as (k & Hk & Ek).
        exists k. split; [|split; [exact Hk|exact Ek]].
        destruct k; [|lia]. exfalso. cbn in Ek.
        apply (limit_size_nonempty S0 max); [exact A|exact Ek].
  - inversion Hx0; subst x; clear Hx0.
    inv_bind H. inversion H; subst v; clear H.
    destruct (u_offset (unst l) <? hi) eqn:E3; [|lia].
    inv_bind Hx0. inversion Hx0; subst x; clear Hx0.
    apply u_slice_shape in Hx1; [|lia].
    destruct Hx1 as (A' & B' & C' & D' & E').
    split; [intros C; lia|].
    rewrite <- E'. cbn [app].
    destruct (limit_size_prefix x0 max) as (k & Hk & Ek).
    exists k. split; [|split; [exact Hk|exact Ek]].
    destruct k; [|lia]. exfalso. cbn in Ek.
    apply (limit_size_nonempty x0 max); [exact A'|exact Ek].
Qed.

(* ------------------------------------------------------------------ *)
(* 5. commit_since_index: never decreases; moves to the last handed-out entry
      or, with a pending snapshot, to the snapshot index (and then no committed
      entry is handed out in that Ready) *)

Definition ready_since (n : rawnode) : N :=
  match u_snapshot (unst (r_log (rn_raft n))) with
  | Some s => s_index s
  | None => rn_commit_since_index n
  end.

Lemma rn_ready_light n n' rd :
  rn_ready n = Ok (n', rd) ->
  exists oe k,
    rn_commit_since_index n <= ready_since n
    /\ next_entries_since (r_log (rn_raft n)) (ready_since n)
         (Some (r_max_committed_size_per_ready (rn_raft n))) = Ok oe
    /\ rd_light rd = mkLR None (ce_of oe) (r_msgs (rn_raft n))
    /\ rn_commit_since_index n' = csi_after (ready_since n) (ce_of oe)
    /\ (ce_of oe <> [] -> ready_since n < csi_after (ready_since n) (ce_of oe))
    /\ ((exists s, u_snapshot (unst (r_log (rn_raft n))) = Some s) -> ce_of oe = [])
    /\ rn_raft n' = (rn_raft n) <| r_read_states := [] |> <| r_uncommitted_size := k |>
                                <| r_msgs := [] |>.
Proof.
  intros H. destruct (rn_ready_inv _ _ _ H) as (recs & snap & csi & rec_snap & ms2 & n2 & light
    & Hrec & Hsnap & Hgl & Hn' & Hrd).
  destruct (gen_light_ready_spec _ _ _ Hgl) as (oe & k & Hoe & Hlr & Hn2 & Hlt).
  cbn in Hoe, Hlt.
  assert (Hcsi : csi = ready_since n /\ rn_commit_since_index n <= csi
                 /\ ((exists s, u_snapshot (unst (r_log (rn_raft n))) = Some s) ->
                     has_next_entries_since (r_log (rn_raft n)) csi = Ok false)).
  { unfold ready_snap in Hsnap. unfold ready_since.
    destruct (u_snapshot (unst (r_log (rn_raft n)))) as [s|].
    - destruct Hsnap as (A & B & C). inversion C; subst. auto.
    - inversion Hsnap; subst. split; [reflexivity|]. split; [lia|]. intros [s C]. discriminate. }
  destruct Hcsi as (-> & Hle & Hno).
  exists oe, k. split; [exact Hle|]. split; [exact Hoe|].
  split; [subst rd light; reflexivity|].
  split; [subst n' n2; reflexivity|].
  split; [exact Hlt|].
  split.
  - intros Hs. specialize (Hno Hs).
    destruct (next_entries_since_has _ _ _ _ Hoe) as (f & ub & _ & _ & _ & _ & Hhas & _ & Hnone).
    rewrite Hhas in Hno. inversion Hno as [Hno'].
    rewrite Hnone; [reflexivity|]. clear - Hno'. lia.
  - subst n' n2. reflexivity.
Qed.

Lemma csi_after_nil csi : csi_after csi [] = csi.
Proof. reflexivity. Qed.

Lemma csi_after_last csi ce : ce <> [] -> csi_after csi ce = e_index (List.last ce entry_default).
Proof. destruct ce; [congruence|reflexivity]. Qed.

Theorem commit_since_monotone_light n n' lr :
  gen_light_ready n = Ok (n', lr) ->
  rn_commit_since_index n <= rn_commit_since_index n'
  /\ (lr_committed_entries lr = [] -> rn_commit_since_index n' = rn_commit_since_index n)
  /\ (lr_committed_entries lr <> [] ->
        rn_commit_since_index n' = e_index (List.last (lr_committed_entries lr) entry_default)
        /\ rn_commit_since_index n < rn_commit_since_index n').
Proof.
  intros H. destruct (gen_light_ready_spec _ _ _ H) as (oe & k & Hoe & Hlr & Hn' & Hlt).
  subst lr n'. cbn [lr_committed_entries rn_commit_since_index set].
  cbn. destruct (ce_of oe) as [|e t] eqn:E.
  - cbn. split; [lia|]. split; [reflexivity|congruence].
  - specialize (Hlt ltac:(discriminate)). split; [lia|]. split; [discriminate|].
    intros _. split; [reflexivity|exact Hlt].
Qed.

Theorem commit_since_monotone_ready n n' rd :
  rn_ready n = Ok (n', rd) ->
  rn_commit_since_index n <= rn_commit_since_index n'
  /\ (forall s, u_snapshot (unst (r_log (rn_raft n))) = Some s ->
        lr_committed_entries (rd_light rd) = []
        /\ rn_commit_since_index n' = s_index s)
  /\ (u_snapshot (unst (r_log (rn_raft n))) = None ->
      lr_committed_entries (rd_light rd) = [] ->
        rn_commit_since_index n' = rn_commit_since_index n)
  /\ (lr_committed_entries (rd_light rd) <> [] ->
        u_snapshot (unst (r_log (rn_raft n))) = None
        /\ rn_commit_since_index n' = e_index (List.last (lr_committed_entries (rd_light rd)) entry_default)
        /\ rn_commit_since_index n < rn_commit_since_index n').
Proof.
  intros H. destruct (rn_ready_light _ _ _ H) as (oe & k & Hle & Hoe & Hl & Hc & Hlt & Hs & _).
  rewrite Hl, Hc. cbn [lr_committed_entries].
  split.
  { destruct (ce_of oe) as [|e t] eqn:E; [cbn; exact Hle|].
    specialize (Hlt ltac:(discriminate)). lia. }
  split.
  { intros s Es. rewrite Hs by eauto. cbn. unfold ready_since. rewrite Es. auto. }
  split.
  { intros Es E. rewrite E. cbn. unfold ready_since. rewrite Es. reflexivity. }
  intros Hne.
  assert (Es : u_snapshot (unst (r_log (rn_raft n))) = None).
  { destruct (u_snapshot (unst (r_log (rn_raft n)))) as [s|] eqn:Es; [|reflexivity].
    exfalso. apply Hne. apply Hs. eauto. }
  split; [exact Es|]. specialize (Hlt Hne).
  rewrite csi_after_last in * by exact Hne.
  unfold ready_since in Hlt. rewrite Es in Hlt. split; [reflexivity|exact Hlt].
Qed.

(* snapshot_ready: a Ready that carries a snapshot carries no committed entries *)
Theorem snapshot_ready n n' rd :
  rn_ready n = Ok (n', rd) ->
  s_index (rd_snapshot rd) <> 0 ->
  lr_committed_entries (rd_light rd) = []
  /\ rn_commit_since_index n' = s_index (rd_snapshot rd)
  /\ u_snapshot (unst (r_log (rn_raft n))) = Some (rd_snapshot rd).
Proof.
  intros H Hs.
  destruct (ready_entries_are_unstable _ _ _ H) as (_ & _ & _ & _ & _ & _ & _ & _ & R5 & _).
  destruct (u_snapshot (unst (r_log (rn_raft n)))) as [s|] eqn:Es.
  - destruct (commit_since_monotone_ready _ _ _ H) as (_ & A & _).
    destruct (A s Es) as [A1 A2]. rewrite R5. auto.
  - rewrite R5 in Hs. cbn in Hs. congruence.
Qed.

(* ------------------------------------------------------------------ *)
(* 4. what is handed out for apply.
   (a) over ALL states: the requested range;
   (b) under the RaftLog representation invariant (C14, M/RaftLogProofs.v): the
       batch is a non-empty prefix of the logical log [abs] between
       max(since+1, first) and min(committed, persisted (+) limit). *)

Definition apply_bound (l : raft_log) : N :=
  N.min (committed l) (N.min u64_max (persisted l + max_apply_unpersisted_log_limit l)).

Lemma apply_bound_is_ll l : apply_bound l = ll_apply_bound l.
Proof. reflexivity. Qed.

Theorem handout_range n n' lr :
  gen_light_ready n = Ok (n', lr) ->
  lr_committed_entries lr <> [] ->
  exists f,
    first_index (r_log (rn_raft n)) = Ok f
    /\ let lo := N.max (rn_commit_since_index n + 1) f in
       let hi := apply_bound (r_log (rn_raft n)) + 1 in
       lo < hi
       /\ slice (r_log (rn_raft n)) lo hi (Some (r_max_committed_size_per_ready (rn_raft n)))
          = Ok (SOk (lr_committed_entries lr))
       /\ 1 <= N.of_nat (length (lr_committed_entries lr)) <= hi - lo.
Proof.
  intros H Hne. destruct (gen_light_ready_spec _ _ _ H) as (oe & k & Hoe & Hlr & _ & _).
  subst lr. cbn [lr_committed_entries] in *.
  destruct (next_entries_since_has _ _ _ _ Hoe) as (f & ub & Hf & Hub & _ & _ & _ & Hsome & Hnone).
  rewrite applied_index_upper_bound_spec in Hub. inversion Hub as [Hub']. fold (apply_bound (r_log (rn_raft n))) in *.
  exists f. split; [exact Hf|]. cbv zeta.
  destruct (N.max (rn_commit_since_index n + 1) f <? apply_bound (r_log (rn_raft n)) + 1) eqn:E.
  - rewrite <- Hub' in *. destruct (Hsome ltac:(clear - E; lia)) as (v & -> & Hv & Hlen & Hsl).
    cbn [ce_of]. split; [clear - E; lia|]. split; [exact Hsl|].
    destruct v; [congruence|]. cbn [length] in *. clear - Hlen. lia.
  - rewrite <- Hub' in *. rewrite Hnone in Hne by (clear - E; lia). cbn in Hne. congruence.
Qed.

(* the requested upper end never exceeds committed, nor persisted (+) limit *)
Lemma apply_bound_le l :
  apply_bound l <= committed l
  /\ apply_bound l <= persisted l + max_apply_unpersisted_log_limit l.
Proof. unfold apply_bound. lia. Qed.

Lemma apply_bound_limit0 l :
  max_apply_unpersisted_log_limit l = 0 -> apply_bound l <= persisted l.
Proof. unfold apply_bound. intros ->. lia. Qed.

(* F8 regression guard: limit = u64::MAX means "everything committed", no panic *)
Theorem handout_limit_max_ok l :
  max_apply_unpersisted_log_limit l = u64_max -> committed l <= u64_max ->
  applied_index_upper_bound l = Ok (committed l).
Proof.
  intros Hl Hc. unfold applied_index_upper_bound. rewrite Hl. f_equal. lia.
Qed.

Lemma ll_slice_props L lo hi max :
  ll_wf L -> ll_first L <= lo -> lo < hi -> hi <= ll_last L + 1 ->
  let v := ll_slice L lo hi max in
  v <> [] /\ contiguous_from lo v /\ N.of_nat (length v) <= hi - lo
  /\ (exists k, v = firstn k (ll_range L lo hi))
  /\ forall k e, nth_error v k = Some e ->
       ll_get L (lo + N.of_nat k) = Some e /\ e_index e = lo + N.of_nat k /\ lo + N.of_nat k < hi.
Proof.
  intros Hw H1 H2 H3 v. subst v. unfold ll_slice.
  pose proof (ll_range_length L lo hi H1 ltac:(lia) H3) as Hlen.
  pose proof (ll_range_contig L lo hi Hw H1) as Hc.
  destruct (limit_size_prefix (ll_range L lo hi) max) as (k0 & Hk0 & Ek).
  assert (Hne : ll_range L lo hi <> []).
  { intros C. rewrite C in Hlen. cbn in Hlen. lia. }
  split; [apply limit_size_nonempty; exact Hne|].
  rewrite Ek.
  split; [apply contig_firstn; exact Hc|].
  split; [rewrite firstn_length; lia|].
  split; [eauto|].
  intros k e Hn.
  assert (Hk : (k < k0)%nat).
  { apply Nat.nlt_ge. intros C. assert (nth_error (firstn k0 (ll_range L lo hi)) k = None).
    { apply nth_error_None. rewrite firstn_length. lia. }
    congruence. }
  rewrite nth_error_firstn_lt in Hn by exact Hk.
  assert (Hkl : (k < length (ll_range L lo hi))%nat) by (apply nth_error_Some; congruence).
  pose proof (ll_range_nth L lo hi (lo + N.of_nat k) H1 ltac:(lia)) as Hg.
  replace (N.to_nat (lo + N.of_nat k - lo)) with k in Hg by lia.
  rewrite Hn in Hg. split; [symmetry; exact Hg|].
  split; [|lia]. apply (ll_get_index L); [exact Hw|symmetry; exact Hg].
Qed.

(* the committed entries of a LightReady / Ready, exactly, under RepInv *)
Theorem handout_abs rw n n' lr :
  RepInv rw (r_log (rn_raft n)) -> rn_commit_since_index n < u64_max ->
  gen_light_ready n = Ok (n', lr) ->
  let l := r_log (rn_raft n) in
  let lo := N.max (rn_commit_since_index n + 1) (ll_first (abs l)) in
  let hi := apply_bound l + 1 in
  lr_committed_entries lr =
    if lo <? hi then ll_slice (abs l) lo hi (Some (r_max_committed_size_per_ready (rn_raft n)))
    else [].
Proof.
  intros HI Hs H l lo hi. destruct (gen_light_ready_spec _ _ _ H) as (oe & k & Hoe & Hlr & _ & _).
  subst lr. cbn [lr_committed_entries].
  rewrite (next_entries_since_abs rw _ _ _ HI Hs) in Hoe. cbv zeta in Hoe.
  inversion Hoe as [Hoe']. subst lo hi l. unfold apply_bound.
  unfold ll_apply_bound.
  destruct (_ <? _); reflexivity.
Qed.

Theorem handout_bound rw n n' lr :
  RepInv rw (r_log (rn_raft n)) -> rn_commit_since_index n < u64_max ->
  gen_light_ready n = Ok (n', lr) ->
  let l := r_log (rn_raft n) in
  let lo := N.max (rn_commit_since_index n + 1) (ll_first (abs l)) in
  contiguous_from lo (lr_committed_entries lr)
  /\ (forall k e, nth_error (lr_committed_entries lr) k = Some e ->
        ll_get (abs l) (lo + N.of_nat k) = Some e /\ e_index e = lo + N.of_nat k)
  /\ (forall e, In e (lr_committed_entries lr) ->
        rn_commit_since_index n < e_index e
        /\ e_index e <= committed l
        /\ e_index e <= persisted l + max_apply_unpersisted_log_limit l
        /\ ll_get (abs l) (e_index e) = Some e)
  /\ (lr_committed_entries lr <> [] -> lo <= apply_bound l)
  /\ (lo <= apply_bound l -> lr_committed_entries lr <> []).
Proof.
  intros HI Hs H l lo.
  pose proof (handout_abs rw n n' lr HI Hs H) as E. cbv zeta in E. fold l lo in E.
  pose proof (apply_bound_le l) as [Hb1 Hb2].
  pose proof (ri_commit rw l HI) as Hcm.
  destruct (lo <? apply_bound l + 1) eqn:Elt.
  - destruct (ll_slice_props (abs l) lo (apply_bound l + 1)
                (Some (r_max_committed_size_per_ready (rn_raft n)))
                (abs_wf rw l HI) ltac:(subst lo; lia) ltac:(lia) ltac:(lia))
      as (P1 & P2 & P3 & P4 & P5).
    rewrite <- E in *.
    split; [exact P2|].
    split; [intros k e Hn; destruct (P5 k e Hn) as (A & B & _); auto|].
    split.
    { intros e Hin. apply In_nth_error in Hin. destruct Hin as [k Hk].
      destruct (P5 k e Hk) as (A & B & C). rewrite B.
      repeat split; try (subst lo; lia). rewrite <- B in A. rewrite <- B. exact A. }
    split; [intros _; lia|intros _; exact P1].
  - rewrite E. split; [exact I|]. split; [intros k e Hn; destruct k; discriminate|].
    split; [intros e []|]. split; [congruence|intros C; lia].
Qed.

(* "only persisted entries are handed out" unless apply-before-persist is enabled *)
Theorem handout_persisted_only rw n n' lr :
  RepInv rw (r_log (rn_raft n)) -> rn_commit_since_index n < u64_max ->
  max_apply_unpersisted_log_limit (r_log (rn_raft n)) = 0 ->
  gen_light_ready n = Ok (n', lr) ->
  forall e, In e (lr_committed_entries lr) -> e_index e <= persisted (r_log (rn_raft n)).
Proof.
  intros HI Hs Hl H e Hin.
  destruct (handout_bound rw n n' lr HI Hs H) as (_ & _ & A & _).
  destruct (A e Hin) as (_ & _ & B & _). rewrite Hl in B. lia.
Qed.

(* ------------------------------------------------------------------ *)
(* 6. on_persist_ready: the record fold *)

Fixpoint take_le (recs : list ready_record) (number : N) : list ready_record :=
  match recs with
  | [] => []
  | rr :: rest => if number <? rr_number rr then [] else rr :: take_le rest number
  end.

Fixpoint drop_le (recs : list ready_record) (number : N) : list ready_record :=
  match recs with
  | [] => []
  | rr :: rest => if number <? rr_number rr then recs else drop_le rest number
  end.

(* one step of the loop body on the accumulator (index, term, snap_index) *)
Definition acc_step (a : N * N * N) (rr : ready_record) : N * N * N :=
  let '(index, t, si) := a in
  let '(index, t, si) := match rr_snapshot rr with
                         | Some (i, _) => (0, 0, i)
                         | None => (index, t, si)
                         end in
  let '(index, t) := match rr_last_entry rr with
                     | Some (i, t2) => (i, t2)
                     | None => (index, t)
                     end in
  (index, t, si).

Definition acc_records (l : list ready_record) (a : N * N * N) : N * N * N :=
  fold_left acc_step l a.

Lemma take_drop_le recs number : recs = take_le recs number ++ drop_le recs number.
Proof.
  induction recs as [|rr rest IH]; [reflexivity|]. cbn.
  destruct (number <? rr_number rr); [reflexivity|]. cbn. f_equal. exact IH.
Qed.

Lemma take_le_all recs number : Forall (fun rr => rr_number rr <= number) (take_le recs number).
Proof.
  induction recs as [|rr rest IH]; cbn; [constructor|].
  destruct (number <? rr_number rr) eqn:E; [constructor|]. constructor; [lia|exact IH].
Qed.

Lemma drop_le_head recs number rr rest :
  drop_le recs number = rr :: rest -> number < rr_number rr.
Proof.
  induction recs as [|a t IH]; cbn; [discriminate|].
  destruct (number <? rr_number a) eqn:E; [|exact IH].
  intros H. inversion H; subst. lia.
Qed.

Theorem fold_records_spec recs number i t si :
  fold_records recs number i t si =
  (let '(i', t', si') := acc_records (take_le recs number) (i, t, si) in
   (drop_le recs number, i', t', si')).
Proof.
  revert i t si. induction recs as [|rr rest IH]; intros i t si; [reflexivity|].
  cbn [fold_records take_le drop_le].
  destruct (number <? rr_number rr); [reflexivity|].
  cbn [acc_records fold_left]. unfold acc_step at 2.
  destruct (rr_snapshot rr) as [[s st]|]; destruct (rr_last_entry rr) as [[ei et]|]; apply IH.
Qed.

(* numbers strictly increase along the queue (they are max_number + 1 at push) *)
Fixpoint numbers_sorted (recs : list ready_record) : Prop :=
  match recs with
  | [] => True
  | rr :: rest => Forall (fun r' => rr_number rr < rr_number r') rest /\ numbers_sorted rest
  end.

Lemma take_le_filter recs number :
  numbers_sorted recs ->
  take_le recs number = filter (fun rr => rr_number rr <=? number) recs
  /\ drop_le recs number = filter (fun rr => number <? rr_number rr) recs.
Proof.
  induction recs as [|rr rest IH]; [split; reflexivity|]. intros [Hh Ht].
  destruct (IH Ht) as [IH1 IH2]. cbn.
  destruct (number <? rr_number rr) eqn:E.
  - assert (E' : (rr_number rr <=? number) = false) by lia. rewrite E'.
    assert (Hall : Forall (fun r' => number < rr_number r') rest).
    { eapply Forall_impl; [|exact Hh]. cbn. intros a Ha. lia. }
    split.
    + clear - Hall. induction rest as [|a t IH]; [reflexivity|]. cbn.
      inversion Hall; subst. assert (E : (rr_number a <=? number) = false) by lia.
      rewrite E. apply IH. assumption.
    + f_equal. clear - Hall. induction rest as [|a t IH]; [reflexivity|]. cbn.
      inversion Hall; subst. assert (E : (number <? rr_number a) = true) by lia.
      rewrite E. f_equal. apply IH. assumption.
  - assert (E' : (rr_number rr <=? number) = true) by lia. rewrite E'.
    split; [f_equal; exact IH1|exact IH2].
Qed.

Lemma take_drop_le_all :
  forall recs number,
    recs = take_le recs number ++ drop_le recs number
    /\ Forall (fun rr => rr_number rr <= number) (take_le recs number)
    /\ (forall rr rest, drop_le recs number = rr :: rest -> number < rr_number rr)
    /\ (numbers_sorted recs ->
          take_le recs number = filter (fun rr => rr_number rr <=? number) recs
          /\ drop_le recs number = filter (fun rr => number <? rr_number rr) recs).
Proof.
  intros recs number. split; [apply take_drop_le|]. split; [apply take_le_all|].
  split; [apply drop_le_head|apply take_le_filter].
Qed.


(* what the accumulator holds *)
Definition last_entry_of (l : list ready_record) (d : N * N) : N * N :=
  fold_left (fun acc rr => match rr_last_entry rr with Some p => p | None => acc end) l d.

Definition no_snap (rr : ready_record) : Prop := rr_snapshot rr = None.

Lemma acc_records_app a b x : acc_records (a ++ b) x = acc_records b (acc_records a x).
Proof. apply fold_left_app. Qed.

Lemma acc_no_snap l i t si :
  Forall no_snap l -> acc_records l (i, t, si) = (last_entry_of l (i, t), si).
Proof.
  revert i t. induction l as [|rr rest IH]; intros i t H; [reflexivity|].
  inversion H; subst. cbn [acc_records fold_left last_entry_of].
  unfold acc_step at 2. unfold no_snap in H2. rewrite H2.
  destruct (rr_last_entry rr) as [[ei et]|]; apply IH; assumption.
Qed.

(* the last snapshot record resets (index, term) to (0, 0) and sets snap_index;
   the entry record of that same Ready and of the later ones then count *)
Lemma acc_last_snap pre rr post s st a :
  rr_snapshot rr = Some (s, st) -> Forall no_snap post ->
  acc_records (pre ++ rr :: post) a =
  (last_entry_of post (match rr_last_entry rr with Some p => p | None => (0, 0) end), s).
Proof.
  intros Hs Hp. rewrite acc_records_app. cbn [acc_records fold_left].
  destruct (acc_records pre a) as [[i t] si].
  unfold acc_step at 2. rewrite Hs.
  destruct (rr_last_entry rr) as [[ei et]|]; apply acc_no_snap; exact Hp.
Qed.

(* rn_on_persist_ready in terms of the fold *)
Theorem on_persist_ready_spec n number n' :
  rn_on_persist_ready n number = Ok n' ->
  exists i t si r1,
    acc_records (take_le (rn_records n) number) (0, 0, 0) = (i, t, si)
    /\ rn_records n' = drop_le (rn_records n) number
    /\ (if negb (si =? 0) then on_persist_snap (rn_raft n) si else Ok (rn_raft n)) = Ok r1
    /\ (if negb (i =? 0) then on_persist_entries r1 i t else Ok r1) = Ok (rn_raft n')
    /\ rn_prev_ss n' = rn_prev_ss n /\ rn_prev_hs n' = rn_prev_hs n
    /\ rn_max_number n' = rn_max_number n
    /\ rn_commit_since_index n' = rn_commit_since_index n.
Proof.
  unfold rn_on_persist_ready. rewrite fold_records_spec.
  destruct (acc_records (take_le (rn_records n) number) (0, 0, 0)) as [[i t] si].
  intros H. inv_bind H. inv_bind H. inversion H; subst; clear H.
  exists i, t, si, x. cbn in *. repeat split; try reflexivity; assumption.
Qed.

(* ------------------------------------------------------------------ *)
(* 7. commit_ready: the unstable part named by the last record becomes stable *)

Local Arguments List.last : simpl never.

Definition rr_default : ready_record := mkRR 0 None None false.

(* the unstable state still is what the record says (nothing was appended or
   restored between ready() and the advance call) *)
Definition stable_ok (u : unstable) (rr : ready_record) : Prop :=
  (forall i t, rr_snapshot rr = Some (i, t) ->
     exists s, u_snapshot u = Some s /\ s_index s = i)
  /\ (forall i t, rr_last_entry rr = Some (i, t) ->
        (rr_snapshot rr = None -> u_snapshot u = None)
        /\ u_entries u <> []
        /\ e_index (List.last (u_entries u) (mkEntry 0 0 0 [] [])) = i
        /\ e_term (List.last (u_entries u) (mkEntry 0 0 0 [] [])) = t).

Definition stabilised (u : unstable) (rr : ready_record) : unstable :=
  match rr_last_entry rr with
  | Some (i, _) => mkUn None [] 0 (i + 1)
  | None => match rr_snapshot rr with
            | Some _ => mkUn None (u_entries u) (u_entries_size u) (u_offset u)
            | None => u
            end
  end.

Definition commit_prev (n : rawnode) (rd : ready) : rawnode :=
  let n := match rd_ss rd with Some ss => n <| rn_prev_ss := ss |> | None => n end in
  match rd_hs rd with Some hs => n <| rn_prev_hs := hs |> | None => n end.

Lemma commit_prev_frame n rd :
  rn_raft (commit_prev n rd) = rn_raft n /\ rn_records (commit_prev n rd) = rn_records n
  /\ rn_max_number (commit_prev n rd) = rn_max_number n
  /\ rn_commit_since_index (commit_prev n rd) = rn_commit_since_index n
  /\ rn_prev_ss (commit_prev n rd) = match rd_ss rd with Some ss => ss | None => rn_prev_ss n end
  /\ rn_prev_hs (commit_prev n rd) = match rd_hs rd with Some hs => hs | None => rn_prev_hs n end.
Proof. unfold commit_prev. destruct (rd_ss rd), (rd_hs rd); repeat split; reflexivity. Qed.

Theorem commit_ready_stabilises n rd n' :
  commit_ready n rd = Ok n' ->
  let rr := List.last (rn_records n) rr_default in
  rn_records n <> []
  /\ rr_number rr = rd_number rd
  /\ stable_ok (unst (r_log (rn_raft n))) rr
  /\ n' = (commit_prev n rd)
            <| rn_raft := (rn_raft n)
                 <| r_log := set_unst (r_log (rn_raft n))
                                      (stabilised (unst (r_log (rn_raft n))) rr) |> |>.
Proof.
  unfold commit_ready. fold (commit_prev n rd).
  destruct (commit_prev_frame n rd) as (F1 & F2 & _).
  rewrite F2, F1. fold rr_default.
  intros H.
  destruct (rn_records n) as [|r0 rs] eqn:Er; [discriminate|]. rewrite <- Er in *.
  set (rr := List.last (rn_records n) rr_default) in *.
  destruct (rr_number rr =? rd_number rd) eqn:En; cbn [negb] in H; [|discriminate].
  inv_bind H. inv_bind H. inversion H; subst n'; clear H.
  split; [rewrite Er; discriminate|]. split; [apply N.eqb_eq; exact En|].
  unfold stable_ok, stabilised.
  destruct (rr_snapshot rr) as [[si st]|] eqn:Es.
  - unfold stable_snap, u_stable_snap in Hx. 
    destruct (u_snapshot (unst (r_log (rn_raft n)))) as [s|] eqn:Eu; [|discriminate].
    destruct (s_index s =? si) eqn:Ei; cbn in Hx; [|discriminate].
    inversion Hx; subst x; clear Hx.
    destruct (rr_last_entry rr) as [[ei et]|] eqn:Ee.
    + unfold stable_entries, u_stable_entries in Hx0. cbn in Hx0.
      destruct (u_entries (unst (r_log (rn_raft n)))) as [|e0 es] eqn:Eue; [discriminate|].
      match type of Hx0 with context [if ?c then _ else _] => destruct c eqn:Ec end; [discriminate|].
      cbn in Hx0. inversion Hx0; subst x0; clear Hx0.
      apply orb_false_elim in Ec. destruct Ec as [Ec1 Ec2].
      apply negb_false_iff in Ec1, Ec2. apply N.eqb_eq in Ec1, Ec2.
      split.
      { split.
        - intros i t Hi. inversion Hi; subst. exists s. split; [reflexivity|lia].
        - intros i t Hi. inversion Hi; subst. split; [discriminate|]. split; [discriminate|].
          split; reflexivity. }
      unfold set_unst. cbn. rewrite Ec1. reflexivity.
    + inversion Hx0; subst x0; clear Hx0.
      split.
      { split.
        - intros i t Hi. inversion Hi; subst. exists s. split; [reflexivity|lia].
        - intros i t Hi. discriminate. }
      reflexivity.
  - inversion Hx; subst x; clear Hx.
    destruct (rr_last_entry rr) as [[ei et]|] eqn:Ee.
    + unfold stable_entries, u_stable_entries in Hx0.
      destruct (u_snapshot (unst (r_log (rn_raft n)))) as [s|] eqn:Eu; [discriminate|].
      destruct (u_entries (unst (r_log (rn_raft n)))) as [|e0 es] eqn:Eue; [discriminate|].
      match type of Hx0 with context [if ?c then _ else _] => destruct c eqn:Ec end; [discriminate|].
      cbn in Hx0. inversion Hx0; subst x0; clear Hx0.
      apply orb_false_elim in Ec. destruct Ec as [Ec1 Ec2].
      apply negb_false_iff in Ec1, Ec2. apply N.eqb_eq in Ec1, Ec2.
      split.
      { split.
        - intros i t Hi. discriminate.
        - intros i t Hi. inversion Hi; subst. split; [reflexivity|]. split; [discriminate|].
          split; reflexivity. }
      unfold set_unst. cbn. rewrite Ec1. reflexivity.
    + inversion Hx0; subst x0; clear Hx0.
      split.
      { split; intros i t Hi; discriminate. }
      destruct (r_log (rn_raft n)); reflexivity.
Qed.

(* commit_ready panics exactly when there is no record, the number differs, or
   the unstable state no longer matches the record *)
Theorem commit_ready_ok_iff n rd :
  (exists n', commit_ready n rd = Ok n') <->
  rn_records n <> []
  /\ rr_number (List.last (rn_records n) rr_default) = rd_number rd
  /\ stable_ok (unst (r_log (rn_raft n))) (List.last (rn_records n) rr_default).
Proof.
  split.
  - intros [n' H]. destruct (commit_ready_stabilises _ _ _ H) as (A & B & C & _). auto.
  - intros (A & B & [C1 C2]). unfold commit_ready. fold (commit_prev n rd).
    destruct (commit_prev_frame n rd) as (F1 & F2 & _).
    rewrite F2, F1. fold rr_default.
    destruct (rn_records n) as [|r0 rs] eqn:Er; [congruence|]. rewrite <- Er in *.
    set (rr := List.last (rn_records n) rr_default) in *.
    apply N.eqb_eq in B. rewrite B. cbn [negb].
    destruct (rr_snapshot rr) as [[si st]|] eqn:Es.
    + destruct (C1 si st eq_refl) as (s & Hs & Hi).
      unfold stable_snap, u_stable_snap. rewrite Hs.
      apply N.eqb_eq in Hi. rewrite Hi. cbn.
      destruct (rr_last_entry rr) as [[ei et]|] eqn:Ee; [|cbn; eauto].
      destruct (C2 ei et eq_refl) as (_ & D2 & D3 & D4).
      unfold stable_entries, u_stable_entries. cbn.
      destruct (u_entries (unst (r_log (rn_raft n)))) as [|e0 es] eqn:Eue; [congruence|].
      apply N.eqb_eq in D3, D4. rewrite D3, D4. cbn. eauto.
    + cbn [bind].
      destruct (rr_last_entry rr) as [[ei et]|] eqn:Ee; [|cbn; eauto].
      destruct (C2 ei et eq_refl) as (D1 & D2 & D3 & D4).
      unfold stable_entries, u_stable_entries. rewrite (D1 eq_refl).
      destruct (u_entries (unst (r_log (rn_raft n)))) as [|e0 es] eqn:Eue; [congruence|].
      apply N.eqb_eq in D3, D4. rewrite D3, D4. cbn. eauto.
Qed.

(* ------------------------------------------------------------------ *)
(* 8. advance_append *)

Lemma rn_advance_append_inv n rd n' light :
  rn_advance_append n rd = Ok (n', light) ->
  exists n1 n2 n3 lr,
    commit_ready n rd = Ok n1
    /\ rn_on_persist_ready n1 (rn_max_number n1) = Ok n2
    /\ gen_light_ready n2 = Ok (n3, lr)
    /\ (is_leader (rn_raft n3) = true \/ lr_messages lr = [])
    /\ hs_term (rn_prev_hs n3) = r_term (rn_raft n3)
    /\ hs_vote (rn_prev_hs n3) = r_vote (rn_raft n3)
    /\ hs_commit (rn_prev_hs n3) <= committed (r_log (rn_raft n3))
    /\ n' = n3 <| rn_prev_hs := Raft.hard_state_of (rn_raft n3) |>
    /\ light = mkLR (if hs_commit (rn_prev_hs n3) <? committed (r_log (rn_raft n3))
                     then Some (committed (r_log (rn_raft n3))) else None)
                    (lr_committed_entries lr) (lr_messages lr).
Proof.
  unfold rn_advance_append. intros H.
  inv_bind H. rename x into n1. inv_bind H. rename x into n2.
  inv_bind H. destruct x as [n3 lr].
  exists n1, n2, n3, lr. split; [exact Hx|]. split; [exact Hx0|]. split; [exact Hx1|].
  match type of H with (if ?c then _ else _) = _ => destruct c eqn:Ec end; [discriminate|].
  inv_bind H. destruct x as [n4 ci].
  match type of H with (if ?c then _ else _) = _ => destruct c eqn:Eh end; [discriminate|].
  inversion H; subst n' light; clear H.
  apply negb_false_iff in Eh. apply hs_eqb_eq in Eh.
  split.
  { apply andb_false_iff in Ec. destruct Ec as [Ec|Ec].
    - left. apply negb_false_iff in Ec. exact Ec.
    - right. destruct (lr_messages lr); [reflexivity|discriminate]. }
  cbn [Raft.hard_state_of hs_commit] in Hx2.
  destruct (hs_commit (rn_prev_hs n3) <? committed (r_log (rn_raft n3))) eqn:Elt.
  - inversion Hx2; subst n4 ci; clear Hx2. cbn in Eh.
    unfold Raft.hard_state_of in Eh. inversion Eh as [[E1 E2]].
    repeat split; try lia; try reflexivity.
  - match type of Hx2 with (if ?c then _ else _) = _ => destruct c eqn:Ee end; [discriminate|].
    inversion Hx2; subst n4 ci; clear Hx2.
    unfold Raft.hard_state_of in Eh.
    repeat split.
    + rewrite <- Eh. reflexivity.
    + rewrite <- Eh. reflexivity.
    + rewrite <- Eh. cbn. lia.
    + unfold Raft.hard_state_of. rewrite Eh. destruct n3; reflexivity.
Qed.

Theorem advance_append_hs n rd n' light :
  rn_advance_append n rd = Ok (n', light) ->
  rn_prev_hs n' = Raft.hard_state_of (rn_raft n')
  /\ (forall c, lr_commit_index light = Some c <->
        hs_commit (match rd_hs rd with Some hs => hs | None => rn_prev_hs n end)
          < committed (r_log (rn_raft n'))
        /\ c = committed (r_log (rn_raft n')))
  /\ (lr_commit_index light = None <->
        hs_commit (match rd_hs rd with Some hs => hs | None => rn_prev_hs n end)
          = committed (r_log (rn_raft n'))).
Proof.
  intros H. destruct (rn_advance_append_inv _ _ _ _ H)
    as (n1 & n2 & n3 & lr & H1 & H2 & H3 & _ & _ & _ & Hle & Hn' & Hl).
  destruct (commit_ready_stabilises _ _ _ H1) as (_ & _ & _ & E1).
  destruct (on_persist_ready_spec _ _ _ H2) as (i & t & si & r1 & _ & _ & _ & _ & _ & P & _).
  destruct (gen_light_ready_spec _ _ _ H3) as (oe & k & _ & _ & E3 & _).
  assert (Hprev : rn_prev_hs n3 = match rd_hs rd with Some hs => hs | None => rn_prev_hs n end).
  { rewrite E3. cbn. rewrite P, E1. cbn. apply (commit_prev_frame n rd). }
  rewrite <- Hprev. subst n' light. cbn.
  split; [reflexivity|].
  destruct (hs_commit (rn_prev_hs n3) <? committed (r_log (rn_raft n3))) eqn:Elt.
  - split.
    + intros c. split; [intros E; inversion E; split; [lia|reflexivity]|intros [_ ->]; reflexivity].
    + split; [discriminate|lia].
  - split.
    + intros c. split; [discriminate|intros [A _]; lia].
    + split; [intros _; lia|reflexivity].
Qed.

(* ------------------------------------------------------------------ *)
(* persisted messages: a leader's messages are released immediately, except
   while a Ready that changes term or vote (this one or an outstanding one) is
   not yet persisted (fix 4e5e493 of /repo) *)

(* the accessors Ready::messages / Ready::persisted_messages *)
Definition rd_messages (rd : ready) : list msg :=
  if rd_is_persisted_msg rd then [] else lr_messages (rd_light rd).
Definition rd_persisted_messages (rd : ready) : list msg :=
  if rd_is_persisted_msg rd then lr_messages (rd_light rd) else [].

Definition changes_tv (n : rawnode) : Prop :=
  r_term (rn_raft n) <> hs_term (rn_prev_hs n) \/ r_vote (rn_raft n) <> hs_vote (rn_prev_hs n).

Lemma ms1_iff n : hs_changed n && tv_changed n = true <-> changes_tv n.
Proof.
  unfold hs_changed, tv_changed, hs_eqb, Raft.hard_state_of, changes_tv.
  cbn [hs_term hs_vote hs_commit].
  destruct (r_term (rn_raft n) =? hs_term (rn_prev_hs n)) eqn:E1;
  destruct (r_vote (rn_raft n) =? hs_vote (rn_prev_hs n)) eqn:E2; cbn; split; try tauto; try lia;
    try (intros _; lia).
Qed.

Theorem ready_persisted_msg_spec n n' rd :
  rn_ready n = Ok (n', rd) ->
  exists recs, ready_records n recs /\
    (rd_is_persisted_msg rd = true <->
       is_leader (rn_raft n) = false
       \/ changes_tv n
       \/ exists rr, In rr recs /\ rr_hs_changed rr = true)
    /\ (rr_hs_changed (List.last (rn_records n') rr_default) = true <-> changes_tv n).
Proof.
  intros H.
  destruct (ready_entries_are_unstable _ _ _ H)
    as (_ & _ & _ & _ & _ & _ & _ & _ & _ & (recs & Hrec & Hp & Hr) & _).
  exists recs. split; [exact Hrec|]. split.
  - rewrite Hp, !orb_true_iff, negb_true, ms1_iff, existsb_exists. tauto.
  - rewrite Hr, last_last. cbn [rr_hs_changed]. apply ms1_iff.
Qed.

(* a Ready whose hard state changes term or vote carries no immediate message:
   all its messages are to be sent after persisting *)
Theorem tv_change_no_immediate_msgs n n' rd :
  rn_ready n = Ok (n', rd) ->
  (forall hs, rd_hs rd = Some hs ->
     (hs_term hs <> hs_term (rn_prev_hs n) \/ hs_vote hs <> hs_vote (rn_prev_hs n)) ->
     rd_messages rd = [] /\ rd_persisted_messages rd = lr_messages (rd_light rd)).
Proof.
  intros H hs Hhs Htv.
  destruct (ready_entries_are_unstable _ _ _ H)
    as (_ & _ & _ & _ & R3 & _).
  apply R3 in Hhs. destruct Hhs as [_ ->].
  destruct (ready_persisted_msg_spec _ _ _ H) as (recs & _ & Hp & _).
  assert (E : rd_is_persisted_msg rd = true).
  { apply Hp. right. left. exact Htv. }
  unfold rd_messages, rd_persisted_messages. rewrite E. split; reflexivity.
Qed.

(* ... and neither does a leader's Ready while such a Ready is outstanding; a
   follower's / candidate's messages always wait *)
Theorem immediate_msgs_only_leader_settled n n' rd :
  rn_ready n = Ok (n', rd) -> rd_messages rd <> [] ->
  is_leader (rn_raft n) = true /\ ~ changes_tv n
  /\ exists recs, ready_records n recs /\ forall rr, In rr recs -> rr_hs_changed rr = false.
Proof.
  intros H Hm.
  destruct (ready_persisted_msg_spec _ _ _ H) as (recs & Hrec & Hp & _).
  unfold rd_messages in Hm. destruct (rd_is_persisted_msg rd) eqn:E; [congruence|].
  assert (Hn : ~ (is_leader (rn_raft n) = false \/ changes_tv n
                  \/ exists rr, In rr recs /\ rr_hs_changed rr = true)).
  { intros C. apply Hp in C. congruence. }
  split; [destruct (is_leader (rn_raft n)); [reflexivity|exfalso; apply Hn; auto]|].
  split; [intros C; apply Hn; auto|].
  exists recs. split; [exact Hrec|]. intros rr Hin.
  destruct (rr_hs_changed rr) eqn:Er; [|reflexivity]. exfalso. apply Hn. right. right. eauto.
Qed.

(* ------------------------------------------------------------------ *)
(* Lifetime level: the history of handed-out committed entries.

   [op] lists every RawNode API call of the model; [exec] runs one and reports
   what the application is handed for apply: the committed entries of the
   Ready / LightReady and, for a Ready, the index of a (non-empty) snapshot. *)

Inductive op :=
| OStep (m : msg) | OTick | OCampaign | OPropose (ctx data : list N)
| OProposeCC (ctx data : list N) (ty ccinfo : N) | OApplyCC (cc : ccv2) | OPing
| OReady | OAdvance (rd : ready) | OAdvanceAppend (rd : ready) | OAdvanceAppendAsync (rd : ready)
| OOnPersistReady (number : N) | OAdvanceApply | OAdvanceApplyTo (a : N)
| OReportUnreachable (id : N) | OReportSnapshot (id : N) (failure : bool)
| ORequestSnapshot | OTransferLeader (id : N) | OReadIndex (ctx : list N)
(* not a library call: the application writes its Storage (append / apply_snapshot /
   compact), which the library only reads; the model keeps the store inside raft_log *)
| OSetStore (m : MemStorage.mem).

Definition out := (option N * list entry)%type.
Definition no_out : out := (None, []).

Definition quiet {A} (x : Res (rawnode * A)) : Res (rawnode * out) :=
  y <- x ;; Ok (fst y, no_out).
Definition quiet1 (x : Res rawnode) : Res (rawnode * out) :=
  y <- x ;; Ok (y, no_out).

Definition exec (n : rawnode) (o : op) : Res (rawnode * out) :=
  match o with
  | OStep m => quiet (rn_step n m)
  | OTick => quiet (rn_tick n)
  | OCampaign => quiet (rn_campaign n)
  | OPropose c d => quiet (rn_propose n c d)
  | OProposeCC c d ty ci => quiet (rn_propose_conf_change n c d ty ci)
  | OApplyCC cc => quiet (rn_apply_conf_change n cc)
  | OPing => quiet1 (rn_ping n)
  | OReady =>
      y <- rn_ready n ;;
      let rd := snd y in
      Ok (fst y, (if s_index (rd_snapshot rd) =? 0 then None else Some (s_index (rd_snapshot rd)),
                  lr_committed_entries (rd_light rd)))
  | OAdvance rd => y <- rn_advance n rd ;; Ok (fst y, (None, lr_committed_entries (snd y)))
  | OAdvanceAppend rd => y <- rn_advance_append n rd ;; Ok (fst y, (None, lr_committed_entries (snd y)))
  | OAdvanceAppendAsync rd => quiet1 (rn_advance_append_async n rd)
  | OOnPersistReady k => quiet1 (rn_on_persist_ready n k)
  | OAdvanceApply => quiet1 (rn_advance_apply n)
  | OAdvanceApplyTo a => quiet1 (rn_advance_apply_to n a)
  | OReportUnreachable id => quiet1 (rn_report_unreachable n id)
  | OReportSnapshot id f => quiet1 (rn_report_snapshot n id f)
  | ORequestSnapshot => quiet (rn_request_snapshot n)
  | OTransferLeader id => quiet1 (rn_transfer_leader n id)
  | OReadIndex c => quiet1 (rn_read_index n c)
  | OSetStore m =>
      Ok (n <| rn_raft := (rn_raft n) <| r_log := set_store (r_log (rn_raft n)) m |> |>, no_out)
  end.

(* calls that hand nothing out leave commit_since_index alone *)
Lemma lift_csi n x n' : lift n x = Ok n' -> rn_commit_since_index n' = rn_commit_since_index n.
Proof. unfold lift. intros H. inv_bind H. inversion H; reflexivity. Qed.

Lemma lift2_csi n x n' c : lift2 n x = Ok (n', c) -> rn_commit_since_index n' = rn_commit_since_index n.
Proof. unfold lift2. intros H. inv_bind H. inversion H; reflexivity. Qed.

Lemma commit_ready_csi n rd n' :
  commit_ready n rd = Ok n' -> rn_commit_since_index n' = rn_commit_since_index n.
Proof.
  intros H. destruct (commit_ready_stabilises _ _ _ H) as (_ & _ & _ & ->). cbn.
  apply (commit_prev_frame n rd).
Qed.

Lemma on_persist_ready_csi n k n' :
  rn_on_persist_ready n k = Ok n' -> rn_commit_since_index n' = rn_commit_since_index n.
Proof.
  intros H. destruct (on_persist_ready_spec _ _ _ H) as (i & t & si & r1 & _ & _ & _ & _ & _ & _ & _ & E).
  exact E.
Qed.

Lemma quiet_ops_csi n o n' ot :
  match o with OReady | OAdvance _ | OAdvanceAppend _ => False | _ => True end ->
  exec n o = Ok (n', ot) ->
  ot = no_out /\ rn_commit_since_index n' = rn_commit_since_index n.
Proof.
  intros Ho H. destruct o; try contradiction; cbn [exec] in H;
    try (inversion H; subst; split; reflexivity); unfold quiet, quiet1 in H;
    inv_bind H; inversion H; subst; clear H; (split; [reflexivity|]).
  - unfold rn_step in Hx. destruct (is_local_msg (m_type m)); [inversion Hx; reflexivity|].
    match type of Hx with (if ?c then _ else _) = _ => destruct c end;
      [destruct x; eapply lift2_csi; exact Hx|inversion Hx; reflexivity].
  - unfold rn_tick in Hx. inv_bind Hx. inversion Hx; reflexivity.
  - destruct x; eapply lift2_csi; exact Hx.
  - destruct x; eapply lift2_csi; exact Hx.
  - destruct x; eapply lift2_csi; exact Hx.
  - unfold rn_apply_conf_change in Hx. inv_bind Hx. inversion Hx; reflexivity.
  - eapply lift_csi; exact Hx.
  - eapply commit_ready_csi; exact Hx.
  - eapply on_persist_ready_csi; exact Hx.
  - eapply lift_csi; exact Hx.
  - eapply lift_csi; exact Hx.
  - unfold rn_report_unreachable in Hx. inv_bind Hx. inversion Hx; reflexivity.
  - unfold rn_report_snapshot in Hx. inv_bind Hx. inversion Hx; reflexivity.
  - destruct x; eapply lift2_csi; exact Hx.
  - unfold rn_transfer_leader in Hx. inv_bind Hx. inversion Hx; reflexivity.
  - unfold rn_read_index in Hx. inv_bind Hx. inversion Hx; reflexivity.
Qed.

(* the assumption under which a batch is cut out of the logical log:
   the RaftLog representation invariant (C14), commit_since_index a proper u64,
   and nothing compacted beyond what was already handed out *)
Definition handout_pre (l : raft_log) (since : N) : Prop :=
  (exists rw, RepInv rw l) /\ since < u64_max /\ ll_first (abs l) <= since + 1.

Lemma last_map_index (l : list entry) :
  l <> [] -> e_index (List.last l entry_default) = List.last (map e_index l) 0.
Proof.
  induction l as [|a [|b l'] IH]; intros H; [congruence|reflexivity|].
  change (List.last (a :: b :: l') entry_default) with (List.last (b :: l') entry_default).
  change (map e_index (a :: b :: l')) with (e_index a :: map e_index (b :: l')).
  change (List.last (e_index a :: map e_index (b :: l')) 0)
    with (List.last (map e_index (b :: l')) 0).
  apply IH. discriminate.
Qed.

(* the core step: a batch starts right after the last handed-out index and moves
   commit_since_index to its last entry *)
Theorem handout_step n n' lr :
  handout_pre (r_log (rn_raft n)) (rn_commit_since_index n) ->
  gen_light_ready n = Ok (n', lr) ->
  contiguous_from (rn_commit_since_index n + 1) (lr_committed_entries lr)
  /\ rn_commit_since_index n' = rn_commit_since_index n + N.of_nat (length (lr_committed_entries lr))
  /\ (forall e, In e (lr_committed_entries lr) ->
        ll_get (abs (r_log (rn_raft n))) (e_index e) = Some e
        /\ e_index e <= apply_bound (r_log (rn_raft n))).
Proof.
  intros ([rw HI] & Hs & Hf) H.
  destruct (handout_bound rw n n' lr HI Hs H) as (Hc & _ & Hin & _).
  replace (N.max (rn_commit_since_index n + 1) (ll_first (abs (r_log (rn_raft n)))))
    with (rn_commit_since_index n + 1) in Hc by lia.
  split; [exact Hc|]. split.
  - destruct (commit_since_monotone_light _ _ _ H) as (_ & A & B).
    destruct (lr_committed_entries lr) as [|e t] eqn:E.
    + rewrite A by reflexivity. cbn. lia.
    + destruct (B ltac:(discriminate)) as [B1 _]. rewrite B1.
      rewrite (last_map_index (e :: t)) by discriminate.
      rewrite (contig_last (e :: t) _ 0 Hc ltac:(discriminate)). cbn [length]. lia.
  - intros e He. destruct (Hin e He) as (_ & A & B & C). split; [exact C|].
    unfold apply_bound.
    pose proof (ri_commit rw _ HI). pose proof (ri_bound rw _ HI).
    assert (e_index e < u64_max).
    { pose proof (ri_commit rw _ HI). pose proof (ri_bound rw _ HI). lia. }
    lia.
Qed.

(* the history variable: [fst h] = where hand-out (re)started (Config.applied, or
   the last installed snapshot), [snd h] = every committed entry handed out since *)
Definition hist := (N * list entry)%type.

Definition hist_step (h : hist) (o : out) : hist :=
  match fst o with
  | Some i => (i, snd o)
  | None => (fst h, snd h ++ snd o)
  end.

(* exactly the indexes start+1 .. commit_since_index, in order: no gap, no
   duplicate, no reordering *)
Definition Hist (n : rawnode) (h : hist) : Prop :=
  contiguous_from (fst h + 1) (snd h)
  /\ rn_commit_since_index n = fst h + N.of_nat (length (snd h)).

Definition op_pre (n : rawnode) (o : op) : Prop :=
  match o with
  | OReady => handout_pre (r_log (rn_raft n)) (ready_since n)
  | OAdvance rd | OAdvanceAppend rd =>
      forall n1 n2, commit_ready n rd = Ok n1 ->
                    rn_on_persist_ready n1 (rn_max_number n1) = Ok n2 ->
                    handout_pre (r_log (rn_raft n2)) (rn_commit_since_index n2)
  | _ => True
  end.

Lemma Hist_extend n n' h ce :
  Hist n h ->
  contiguous_from (rn_commit_since_index n + 1) ce ->
  rn_commit_since_index n' = rn_commit_since_index n + N.of_nat (length ce) ->
  Hist n' (fst h, snd h ++ ce).
Proof.
  intros [H1 H2] Hc Hn. split; cbn [fst snd].
  - apply contig_app; [exact H1|].
    replace (fst h + 1 + N.of_nat (length (snd h))) with (rn_commit_since_index n + 1) by lia.
    exact Hc.
  - rewrite app_length. lia.
Qed.

Lemma advance_append_handout n rd n' light :
  op_pre n (OAdvanceAppend rd) ->
  rn_advance_append n rd = Ok (n', light) ->
  contiguous_from (rn_commit_since_index n + 1) (lr_committed_entries light)
  /\ rn_commit_since_index n' = rn_commit_since_index n + N.of_nat (length (lr_committed_entries light)).
Proof.
  intros Hpre H. destruct (rn_advance_append_inv _ _ _ _ H)
    as (n1 & n2 & n3 & lr & H1 & H2 & H3 & _ & _ & _ & _ & Hn' & Hl).
  specialize (Hpre n1 n2 H1 H2).
  destruct (handout_step _ _ _ Hpre H3) as (A & B & _).
  pose proof (commit_ready_csi _ _ _ H1) as C1. pose proof (on_persist_ready_csi _ _ _ H2) as C2.
  subst n' light. cbn [lr_committed_entries]. rewrite C2, C1 in *. split; [exact A|exact B].
Qed.

Theorem handout_exec n h o n' ot :
  Hist n h -> op_pre n o -> exec n o = Ok (n', ot) -> Hist n' (hist_step h ot).
Proof.
  intros HH Hpre H.
  destruct o;
    try (match type of H with exec _ ?o = _ =>
           destruct (quiet_ops_csi n o n' ot I H) as [-> E] end;
         unfold hist_step, no_out; cbn [fst snd]; rewrite app_nil_r;
         destruct HH as [H1 H2]; split; [exact H1|rewrite E; exact H2]).
  - (* ready *)
    cbn [exec] in H. inv_bind H. destruct x as [n1 rd]. cbn [fst snd] in H.
    inversion H; subst n' ot; clear H. cbn [op_pre] in Hpre.
    destruct (rn_ready_inv _ _ _ Hx) as (recs & snap & csi & rec_snap & ms2 & n2 & light
      & Hrec & Hsnap & Hgl & Hn' & Hrd).
    assert (Hcsi : csi = ready_since n).
    { unfold ready_snap in Hsnap. unfold ready_since.
      destruct (u_snapshot (unst (r_log (rn_raft n)))); [|inversion Hsnap; reflexivity].
      destruct Hsnap as (_ & _ & E). inversion E; reflexivity. }
    subst csi.
    pose proof (fun P => handout_step _ _ _ P Hgl) as HS.
    destruct (HS Hpre) as (A & B & _). clear HS.
    cbn in A, B.
    assert (Hl : rd_light rd = light) by (subst rd; reflexivity).
    assert (Hc' : rn_commit_since_index n1 = rn_commit_since_index n2) by (subst n1; reflexivity).
    rewrite Hl.
    destruct (rn_ready_light _ _ _ Hx) as (oe & k & Hle & _ & Hl2 & _ & _ & Hsn & _).
    rewrite Hl in Hl2.
    assert (Hs5 : rd_snapshot rd = match u_snapshot (unst (r_log (rn_raft n))) with
                                   | Some s => s | None => snap_default end).
    { apply (ready_entries_are_unstable _ _ _ Hx). }
    rewrite Hs5. unfold ready_since in *.
    destruct (u_snapshot (unst (r_log (rn_raft n)))) as [s|] eqn:Es.
    + assert (Hce : lr_committed_entries light = []).
      { rewrite Hl2. cbn. apply Hsn. eauto. }
      rewrite Hce in *. cbn [length] in B.
      destruct (s_index s =? 0) eqn:E0; unfold hist_step; cbn [fst snd].
      * rewrite app_nil_r. destruct HH as [H1 H2]. split; [exact H1|].
        cbn [fst snd]. rewrite Hc', B, <- H2. clear - E0 Hle. lia.
      * split; [exact I|]. cbn [fst snd length]. rewrite Hc', B. reflexivity.
    + cbn [snap_default s_index]. change (0 =? 0) with true. unfold hist_step. cbn [fst snd].
      eapply Hist_extend; [exact HH|exact A|rewrite Hc'; exact B].
  - (* advance *)
    cbn [exec] in H. inv_bind H. destruct x as [n1 lr]. cbn [fst snd] in H.
    inversion H; subst n' ot; clear H.
    unfold rn_advance in Hx. inv_bind Hx. destruct x as [n2 lr2]. cbn [fst snd] in Hx.
    inv_bind Hx. inversion Hx; subst x lr2; clear Hx.
    destruct (advance_append_handout _ _ _ _ Hpre Hx0) as [A B].
    unfold hist_step. cbn [fst snd].
    eapply Hist_extend; [exact HH|exact A|].
    unfold rn_advance_apply_to in Hx1. rewrite (lift_csi _ _ _ Hx1). exact B.
  - (* advance_append *)
    cbn [exec] in H. inv_bind H. destruct x as [n1 lr]. cbn [fst snd] in H.
    inversion H; subst n' ot; clear H.
    destruct (advance_append_handout _ _ _ _ Hpre Hx) as [A B].
    unfold hist_step. cbn [fst snd].
    eapply Hist_extend; [exact HH|exact A|exact B].
Qed.

(* any sequence of calls *)
Inductive run : rawnode -> hist -> rawnode -> hist -> Prop :=
| run_nil n h : run n h n h
| run_cons n h o n1 ot n' h' :
    op_pre n o -> exec n o = Ok (n1, ot) -> run n1 (hist_step h ot) n' h' -> run n h n' h'.

Theorem handout_contiguous n h n' h' : Hist n h -> run n h n' h' -> Hist n' h'.
Proof.
  intros HH R. induction R as [|n h o n1 ot n' h' Hp He R IH]; [exact HH|].
  apply IH. eapply handout_exec; eassumption.
Qed.

(* at construction hand-out starts right after Config.applied *)
Theorem handout_init c st sa dr n :
  rn_new c st sa dr = Ok (inr n) -> Hist n (c_applied c, []).
Proof.
  unfold rn_new. destruct (c_id c =? 0); [discriminate|].
  intros H. inv_bind H. destruct x as [e|r]; inversion H; subst.
  split; cbn; [exact I|lia].
Qed.

(* ------------------------------------------------------------------ *)
(* exactly once: advancing the Ready just produced always succeeds, stabilises
   everything it carried, and the next Ready (nothing else happening) is empty
   of entries / snapshot / hard state / soft state *)

Theorem ready_then_commit n n1 rd :
  rn_ready n = Ok (n1, rd) ->
  exists n2, commit_ready n1 rd = Ok n2
    /\ u_entries (unst (r_log (rn_raft n2))) = []
    /\ u_snapshot (unst (r_log (rn_raft n2))) = None
    /\ (rd_entries rd <> [] ->
          u_offset (unst (r_log (rn_raft n2))) = e_index (List.last (rd_entries rd) entry_default) + 1)
    /\ store (r_log (rn_raft n2)) = store (r_log (rn_raft n))
    /\ committed (r_log (rn_raft n2)) = committed (r_log (rn_raft n))
    /\ persisted (r_log (rn_raft n2)) = persisted (r_log (rn_raft n))
    /\ applied (r_log (rn_raft n2)) = applied (r_log (rn_raft n))
    /\ rn_prev_hs n2 = Raft.hard_state_of (rn_raft n2)
    /\ rn_prev_ss n2 = soft_state_of (rn_raft n2)
    /\ r_read_states (rn_raft n2) = [] /\ r_msgs (rn_raft n2) = []
    /\ rn_commit_since_index n2 = rn_commit_since_index n1
    /\ rn_records n2 = rn_records n1.
Proof.
  intros H.
  destruct (ready_entries_are_unstable _ _ _ H)
    as (R1 & _ & R2 & _ & R3 & R3' & R4 & R4' & _ & (recs & _ & _ & Hr) & Hph & Hps & Hlog & Hrs & Hms).
  destruct (rn_ready_light _ _ _ H) as (oe & k & _ & _ & _ & _ & _ & _ & Hraft).
  set (rr := mkRR (rn_max_number n + 1) (rec_last_of (u_entries (unst (r_log (rn_raft n)))))
               (option_map (fun s => (s_index s, s_term s)) (u_snapshot (unst (r_log (rn_raft n)))))
               (hs_changed n && tv_changed n)) in *.
  assert (Hlast : List.last (rn_records n1) rr_default = rr) by (rewrite Hr; apply last_last).
  assert (Hne : rn_records n1 <> []) by (rewrite Hr; destruct recs; discriminate).
  assert (Hok : stable_ok (unst (r_log (rn_raft n1))) rr).
  { rewrite Hlog. subst rr. split; cbn [rr_snapshot rr_last_entry].
    - intros i t Hs. destruct (u_snapshot (unst (r_log (rn_raft n)))) as [s|]; [|discriminate].
      inversion Hs; subst. eauto.
    - intros i t He. unfold rec_last_of in He.
      destruct (u_entries (unst (r_log (rn_raft n)))) as [|e0 es] eqn:Ee; [discriminate|].
      inversion He; subst. split.
      + destruct (u_snapshot (unst (r_log (rn_raft n)))); [discriminate|reflexivity].
      + split; [discriminate|]. split; reflexivity. }
  destruct (proj2 (commit_ready_ok_iff n1 rd)) as [n2 H2].
  { rewrite Hlast. split; [exact Hne|]. split; [rewrite R2; reflexivity|exact Hok]. }
  exists n2. split; [exact H2|].
  destruct (commit_ready_stabilises _ _ _ H2) as (_ & _ & _ & E).
  rewrite Hlast in E. rewrite Hlog in E.
  destruct (commit_prev_frame n1 rd) as (F1 & F2 & F3 & F4 & F5 & F6).
  subst n2. cbn. unfold stabilised. subst rr. cbn [rr_snapshot rr_last_entry].
  rewrite R1.
  assert (Hhs : match rd_hs rd with Some hs => hs | None => rn_prev_hs n1 end
                = Raft.hard_state_of (rn_raft n)).
  { destruct (rd_hs rd) as [hs|].
    - destruct (proj1 (R3 hs) eq_refl) as [_ ->]. reflexivity.
    - rewrite Hph. symmetry. apply R3'. reflexivity. }
  assert (Hss : match rd_ss rd with Some ss => ss | None => rn_prev_ss n1 end
                = soft_state_of (rn_raft n)).
  { destruct (rd_ss rd) as [ss|].
    - destruct (proj1 (R4 ss) eq_refl) as [_ ->]. reflexivity.
    - rewrite Hps. symmetry. apply R4'. reflexivity. }
  rewrite F4, F2, F5, F6, Hhs, Hss. rewrite Hraft.
  unfold rec_last_of.
  destruct (u_entries (unst (r_log (rn_raft n)))) as [|e0 es] eqn:Ee.
  - destruct (u_snapshot (unst (r_log (rn_raft n)))) as [s|] eqn:Es; cbn;
      rewrite ?Ee, ?Es; repeat split; try reflexivity; try congruence.
  - cbn. repeat split; try reflexivity.
Qed.

Theorem ready_exactly_once n n1 rd n2 n3 rd' :
  rn_ready n = Ok (n1, rd) -> commit_ready n1 rd = Ok n2 -> rn_ready n2 = Ok (n3, rd') ->
  rd_entries rd' = [] /\ rd_hs rd' = None /\ rd_ss rd' = None /\ rd_read_states rd' = []
  /\ rd_snapshot rd' = snap_default /\ rd_must_sync rd' = false
  /\ lr_messages (rd_light rd') = [].
Proof.
  intros H1 H2 H3.
  destruct (ready_then_commit _ _ _ H1) as (n2' & H2' & A1 & A2 & _ & _ & _ & _ & _ & A3 & A4 & A5 & A6 & _).
  rewrite H2 in H2'. inversion H2'; subst n2'; clear H2'.
  destruct (ready_entries_are_unstable _ _ _ H3)
    as (R1 & R1' & _ & _ & _ & R3' & _ & R4' & R5 & _).
  destruct (rn_ready_light _ _ _ H3) as (oe & k & _ & _ & Hl & _).
  assert (Hms : rd_must_sync rd' = false).
  { destruct (rd_must_sync rd') eqn:E; [|reflexivity].
    apply (must_sync_spec _ _ _ H3) in E. rewrite R1, A1, A2 in E.
    rewrite A3 in E. cbn in E.
    destruct E as [E|[[s E]|[E|E]]]; congruence. }
  rewrite R1, R1', R5, A1, A2, A5, Hl. cbn [lr_messages].
  repeat split; try reflexivity; try assumption.
  - apply R3'. symmetry. exact A3.
  - apply R4'. symmetry. exact A4.
Qed.

(* ------------------------------------------------------------------ *)
(* Sample states (for the non-vacuity Examples of Props/C07.v): a single-voter
   node built by RawNode::new, campaigning, its first Ready, the application
   persisting the Ready's entries, advance_append. *)
Module Samples.
  Definition cfg : config :=
    mkCfg 1 10 1 0 1000 8 false false 0 0 0 false false 0%Z u64_max u64_max 0 false.

  Definition store0 : MemStorage.mem :=
    match MemStorage.new_with_conf_state (cs_from [1] []) with
    | Ok m => m | Panic _ => MemStorage.new end.

  Ltac from_ok t := let x := eval vm_compute in t in match x with Ok ?n => exact n end.

  Definition node0 : rawnode.
  Proof.
    let x := eval vm_compute in (rn_new cfg store0 None [15; 15; 15; 15]) in
    match x with Ok (inr ?n) => exact n end.
  Defined.

  (* leader of term 1 with the unstable empty entry (1, 1) *)
  Definition node1 : rawnode. Proof. from_ok (x <- rn_campaign node0 ;; Ok (fst x)). Defined.

  Definition ready1 : rawnode * ready. Proof. from_ok (rn_ready node1). Defined.

  (* the application appends the Ready's entries to its Storage *)
  Definition store1 : MemStorage.mem.
  Proof. from_ok (MemStorage.append store0 (rd_entries (snd ready1))). Defined.

  Definition node2 : rawnode.
  Proof. from_ok (x <- exec (fst ready1) (OSetStore store1) ;; Ok (fst x)). Defined.

  (* the state in which advance_append cuts its batch *)
  Definition node2_mid : rawnode.
  Proof.
    from_ok (n1 <- commit_ready node2 (snd ready1) ;; rn_on_persist_ready n1 (rn_max_number n1)).
  Defined.

  Definition adv : rawnode * light_ready.
  Proof. from_ok (rn_advance_append node2 (snd ready1)). Defined.

  Definition node3 : rawnode := fst adv.

  Definition e1 : entry := mkEntry 0 1 1 [] [].

  (* a follower with a pending snapshot at index 5 *)
  Definition node_snap : rawnode.
  Proof.
    from_ok (l <- log_restore (r_log (rn_raft node0)) (mkSnap 5 1 (cs_from [1] [])) ;;
             Ok (node0 <| rn_raft := (rn_raft node0) <| r_log := l |> |>)).
  Defined.

  (* apply-before-persist with the largest limit (finding F8) and one proposal *)
  Definition node_max : rawnode.
  Proof.
    from_ok (x <- rn_propose (node1 <| rn_raft := set_max_apply_unpersisted_log_limit
                                                    (rn_raft node1) u64_max |>) [] [7] ;;
             Ok (fst x)).
  Defined.
End Samples.
