(* C20, part 2b: EXACT characterisations ("fires iff") for the leaf functions of the
   node model. *)
From RV Require Import Base.Prelude Base.IdSet M.Util M.Proto M.MemStorage M.Inflights
  M.Progress M.RaftLog M.Quorum M.ConfChange M.Msg M.Raft M.RawNode M.RaftProofs M.RaftProofsC20.
From RecordUpdate Require Import RecordSet.
Import RecordSetNotations.

Local Open Scope N_scope.

Lemma role_eqb_eq a b : role_eqb a b = true <-> a = b.
Proof. destruct a, b; cbn; split; intros; congruence. Qed.
Lemma role_eqb_neq a b : role_eqb a b = false <-> a <> b.
Proof. destruct a, b; cbn; split; intros; congruence. Qed.

(* ---- send ---- *)
Definition send_stamped (r : raft) (m : msg) : msg :=
  if m_from m =? INVALID_ID then m <| m_from := r_id r |> else m.

Lemma send_stamped_type r m : m_type (send_stamped r m) = m_type m /\ m_term (send_stamped r m) = m_term m.
Proof. unfold send_stamped. destruct (m_from m =? INVALID_ID); split; reflexivity. Qed.

Theorem send_panics_iff r m s :
  send r m = Panic s <->
  (is_vote_type (m_type m) = true /\ m_term m = 0 /\ s = site_send_vote_term0) \/
  (is_vote_type (m_type m) = false /\ m_term m <> 0 /\ s = site_send_term_set).
Proof.
  unfold send. fold (send_stamped r m).
  destruct (send_stamped_type r m) as [Ety Etm]. rewrite Ety, Etm.
  destruct (is_vote_type (m_type m)) eqn:Ev.
  - destruct (m_term m =? 0) eqn:Ez; cbn [bind].
    + split; [intros H; injection H as <-; left; repeat split; lia|].
      intros [(_ & _ & ->)|(? & _)]; [reflexivity|discriminate].
    + split; [discriminate|]. intros [(_ & ? & _)|(? & _)]; [lia|discriminate].
  - destruct (m_term m =? 0) eqn:Ez; cbn [negb bind].
    + split.
      * destruct (_ && _); discriminate.
      * intros [(? & _)|(_ & ? & _)]; [discriminate|lia].
    + split; [intros H; injection H as <-; right; repeat split; lia|].
      intros [(? & _)|(_ & _ & ->)]; [discriminate|reflexivity].
Qed.

Corollary send_vote_term0_iff r m :
  send r m = Panic site_send_vote_term0 <-> is_vote_type (m_type m) = true /\ m_term m = 0.
Proof.
  rewrite send_panics_iff. split.
  - intros [(A & B & _)|(_ & _ & C)]; [auto|discriminate C].
  - intros [A B]. left. auto.
Qed.

Corollary send_term_set_iff r m :
  send r m = Panic site_send_term_set <-> is_vote_type (m_type m) = false /\ m_term m <> 0.
Proof.
  rewrite send_panics_iff. split.
  - intros [(_ & _ & C)|(A & B & _)]; [discriminate C|auto].
  - intros [A B]. right. auto.
Qed.

(* ---- reset / become_* ---- *)
(* site_draws is a MODEL ARTEFACT: the randomized election timeout is an oracle list;
   the real code draws from thread_rng and cannot fail here. *)
Theorem reset_panics_iff r t s : reset r t = Panic s <-> r_draws r = [] /\ s = site_draws.
Proof.
  unfold reset. cbv zeta.
  destruct (negb (r_term r =? t));
    [change (r_draws (r <| r_term := t |> <| r_vote := INVALID_ID |>)) with (r_draws r)|];
    (destruct (r_draws r) as [|d ds];
     [split; [intros H; injection H as <-; auto|intros [_ ->]; reflexivity]
     |split; [discriminate|intros [? _]; discriminate]]).
Qed.

Theorem become_follower_panics_iff r t l s :
  become_follower r t l = Panic s <-> r_draws r = [] /\ s = site_draws.
Proof.
  unfold become_follower. rewrite <- (reset_panics_iff r t s).
  destruct (reset r t); cbn [bind]; split; congruence.
Qed.

Theorem become_candidate_panics_iff r s :
  become_candidate r = Panic s <->
  (r_state r = Leader /\ s = site_candidate_from_leader) \/
  (r_state r <> Leader /\ r_draws r = [] /\ s = site_draws).
Proof.
  unfold become_candidate, is_leader. destruct (role_eqb (r_state r) Leader) eqn:E.
  - apply role_eqb_eq in E. split.
    + intros H; injection H as <-. left; auto.
    + intros [[_ ->]|[? _]]; [reflexivity|contradiction].
  - apply role_eqb_neq in E. pose proof (reset_panics_iff r (r_term r + 1) s) as R.
    destruct (reset r (r_term r + 1)); cbn [bind].
    + split; [discriminate|]. intros [[? _]|(_ & A & B)]; [contradiction|].
      assert (X : @Ok raft a = Panic s) by (apply R; auto). discriminate X.
    + split.
      * intros H. right. split; [exact E|]. apply R. exact H.
      * intros [[? _]|(_ & A & B)]; [contradiction|]. apply R; auto.
Qed.

Theorem become_pre_candidate_panics_iff r s :
  become_pre_candidate r = Panic s <-> r_state r = Leader /\ s = site_precandidate_from_leader.
Proof.
  unfold become_pre_candidate, is_leader. destruct (role_eqb (r_state r) Leader) eqn:E.
  - apply role_eqb_eq in E. split; [intros H; injection H as <-; auto|intros [_ ->]; reflexivity].
  - apply role_eqb_neq in E. split; [discriminate|intros [? _]; contradiction].
Qed.

(* the no-op entry a new leader appends *)
Definition noop_entry (r : raft) : entry :=
  mkEntry 0 (r_term r) (last_index (r_log r) + 1) [] [].

Lemma pget_map (f : N -> progress -> progress) m id :
  pget (map (fun kp => (fst kp, f (fst kp) (snd kp))) m) id = option_map (f id) (pget m id).
Proof.
  induction m as [|[k p] t IH]; cbn; [reflexivity|].
  destruct (k =? id) eqn:E; [apply N.eqb_eq in E; subst; reflexivity|exact IH].
Qed.

Lemma reset_shape r t r' :
  reset r t = Ok r' ->
  r_log r' = r_log r /\ r_id r' = r_id r /\ r_term r' = t /\ r_state r' = r_state r /\
  r_max_uncommitted_size r' = r_max_uncommitted_size r /\
  forall id, (exists p, get_pr r' id = Some p) <-> (exists p, get_pr r id = Some p).
Proof.
  unfold reset. intros H.
  set (r0 := if negb (r_term r =? t) then r <| r_term := t |> <| r_vote := INVALID_ID |> else r) in *.
  assert (E0 : r_log r0 = r_log r /\ r_id r0 = r_id r /\ r_term r0 = t /\ r_state r0 = r_state r
               /\ r_max_uncommitted_size r0 = r_max_uncommitted_size r
               /\ t_progress (r_prs r0) = t_progress (r_prs r)).
  { subst r0. destruct (r_term r =? t) eqn:E; cbn [negb]; repeat split; try reflexivity.
    apply N.eqb_eq in E. exact E. }
  destruct E0 as (A & B & C & D & F & G).
  destruct (r_draws r0) as [|d ds]; [discriminate|]. injection H as <-. cbn.
  repeat split; try assumption.
  - intros [p Hp]. unfold get_pr in *. cbn in Hp.
    rewrite (pget_map (fun k p0 =>
       if k =? r_id r0
       then set_committed_index (set_matched (pr_reset p0 (last_index (r_log r0) + 1))
              (persisted (r_log r0))) (committed (r_log r0))
       else pr_reset p0 (last_index (r_log r0) + 1))) in Hp.
    rewrite G in Hp. destruct (pget (t_progress (r_prs r)) id); [eauto|discriminate].
  - intros [p Hp]. unfold get_pr in *. cbn.
    rewrite (pget_map (fun k p0 =>
       if k =? r_id r0
       then set_committed_index (set_matched (pr_reset p0 (last_index (r_log r0) + 1))
              (persisted (r_log r0))) (committed (r_log r0))
       else pr_reset p0 (last_index (r_log r0) + 1))).
    rewrite G, Hp. cbn. eauto.
Qed.

(* appending the no-op entry: never refused by the uncommitted-size limit *)
Lemma append_entry_noop rr :
  exists rr1, r_log rr1 = r_log rr /\ r_term rr1 = r_term rr /\
    append_entry rr [entry_default] =
      (x <- log_append (r_log rr) [mkEntry 0 (r_term rr) (last_index (r_log rr) + 1) [] []] ;;
       Ok (rr1 <| r_log := fst x |>, true)).
Proof.
  unfold append_entry, maybe_increase_uncommitted_size.
  destruct (r_max_uncommitted_size rr =? u64_max).
  - exists rr. repeat split.
  - change (data_size [entry_default]) with 0. change (0 =? 0) with true. cbn [orb negb].
    eexists. split; [|split]; [| |reflexivity]; reflexivity.
Qed.

(* the part of become_leader after [reset] *)
Definition bl_tail (r1 : raft) : Res raft :=
  let r2 := r1 <| r_leader_id := r_id r1 |> <| r_state := Leader |> in
  let li := last_index (r_log r2) in
  if negb (li =? persisted (r_log r2)) then Panic site_leader_persisted else
  let r3 := r2 <| r_uncommitted_size := 0 |> <| r_last_log_tail_index := li |> in
  match get_pr r3 (r_id r3) with
  | None => Panic site_self_progress
  | Some pr =>
      let r4 := put_pr r3 (r_id r3) (become_replicate pr) in
      let r5 := r4 <| r_pending_conf_index := li |> in
      x <- append_entry r5 [entry_default] ;;
      let '(r6, ok) := x in
      if ok then Ok r6 else Panic site_leader_noop_dropped
  end.

Lemma become_leader_unfold r :
  become_leader r =
  if role_eqb (r_state r) Follower then Panic site_leader_from_follower
  else r1 <- reset r (r_term r) ;; bl_tail r1.
Proof. reflexivity. Qed.

Lemma bl_tail_panics_iff r1 s :
  bl_tail r1 = Panic s <->
  (last_index (r_log r1) <> persisted (r_log r1) /\ s = site_leader_persisted) \/
  (last_index (r_log r1) = persisted (r_log r1) /\ get_pr r1 (r_id r1) = None /\
   s = site_self_progress) \/
  (last_index (r_log r1) = persisted (r_log r1) /\ (exists p, get_pr r1 (r_id r1) = Some p) /\
   log_append (r_log r1) [mkEntry 0 (r_term r1) (last_index (r_log r1) + 1) [] []] = Panic s).
Proof.
  unfold bl_tail. cbv zeta.
  change (r_log (r1 <| r_leader_id := r_id r1 |> <| r_state := Leader |>)) with (r_log r1).
  destruct (last_index (r_log r1) =? persisted (r_log r1)) eqn:E; cbn [negb].
  2:{ apply N.eqb_neq in E. split.
      - intros H; injection H as <-. left; auto.
      - intros [(_ & ->)|[(A & _)|(A & _)]]; [reflexivity|contradiction|contradiction]. }
  apply N.eqb_eq in E.
  match goal with |- context [get_pr ?a ?b] => change (get_pr a b) with (get_pr r1 (r_id r1)) end.
  destruct (get_pr r1 (r_id r1)) as [p|] eqn:G.
  2:{ split.
      - intros H; injection H as <-. right; left; auto.
      - intros [(A & _)|[(_ & _ & ->)|(_ & [q Q] & _)]]; [contradiction|reflexivity|discriminate]. }
  match goal with |- context [append_entry ?rr _] =>
    destruct (append_entry_noop rr) as (rr1 & Hl & Ht & ->) end.
  match goal with |- context [log_append ?l ?e] =>
    change (log_append l e)
      with (log_append (r_log r1) [mkEntry 0 (r_term r1) (last_index (r_log r1) + 1) [] []]) end.
  destruct (log_append (r_log r1) _) as [x|s2]; cbn [bind].
  - split; [discriminate|].
    intros [(A & _)|[(_ & A & _)|(_ & _ & A)]]; [contradiction|discriminate|discriminate].
  - split.
    + intros H; injection H as <-. right; right. repeat split; eauto.
    + intros [(A & _)|[(_ & A & _)|(_ & _ & A)]]; [contradiction|discriminate|].
      injection A as ->. reflexivity.
Qed.

(* become_leader: the complete decision list.  site_leader_noop_dropped cannot fire (the
   no-op entry has no data, so the uncommitted-size limit never refuses it). *)
Theorem become_leader_panics_iff r s :
  become_leader r = Panic s <->
  (r_state r = Follower /\ s = site_leader_from_follower) \/
  (r_state r <> Follower /\ r_draws r = [] /\ s = site_draws) \/
  (r_state r <> Follower /\ r_draws r <> [] /\
   last_index (r_log r) <> persisted (r_log r) /\ s = site_leader_persisted) \/
  (r_state r <> Follower /\ r_draws r <> [] /\ last_index (r_log r) = persisted (r_log r) /\
   get_pr r (r_id r) = None /\ s = site_self_progress) \/
  (r_state r <> Follower /\ r_draws r <> [] /\ last_index (r_log r) = persisted (r_log r) /\
   (exists p, get_pr r (r_id r) = Some p) /\
   log_append (r_log r) [noop_entry r] = Panic s).
Proof.
  rewrite become_leader_unfold. destruct (role_eqb (r_state r) Follower) eqn:Ef.
  { apply role_eqb_eq in Ef. split.
    - intros H; injection H as <-. left; auto.
    - intros [[_ ->]|[(? & _)|[(? & _)|[(? & _)|(? & _)]]]]; try reflexivity; contradiction. }
  apply role_eqb_neq in Ef.
  pose proof (reset_panics_iff r (r_term r)) as R.
  destruct (reset r (r_term r)) as [r1|s1] eqn:Er; cbn [bind].
  2:{ destruct (proj1 (R s1) eq_refl) as [Hd ->]. split.
      - intros H; injection H as <-. right; left. auto.
      - intros [[? _]|[(_ & _ & ->)|[(_ & A & _)|[(_ & A & _)|(_ & A & _)]]]];
          try contradiction; reflexivity. }
  assert (Hd : r_draws r <> []).
  { intros X. assert (Y : @Ok raft r1 = Panic site_draws) by (apply R; auto). discriminate Y. }
  destruct (reset_shape _ _ _ Er) as (Hl & Hi & Ht & Hs & Hm & Hp).
  rewrite bl_tail_panics_iff. rewrite Hl, Hi, Ht. fold (noop_entry r).
  assert (Gn : get_pr r1 (r_id r) = None <-> get_pr r (r_id r) = None).
  { split; intros X.
    - destruct (get_pr r (r_id r)) eqn:E; [|reflexivity].
      destruct (proj2 (Hp (r_id r)) (ex_intro _ _ E)) as [q Hq]. congruence.
    - destruct (get_pr r1 (r_id r)) eqn:E; [|reflexivity].
      destruct (proj1 (Hp (r_id r)) (ex_intro _ _ E)) as [q Hq]. congruence. }
  rewrite Gn, (Hp (r_id r)). tauto.
Qed.
