(* C20, part 2b: EXACT characterisations ("fires iff") for the leaf functions of the
   node model. *)
From RV Require Import Base.Prelude Base.IdSet M.Util M.Proto M.MemStorage M.Inflights
  M.Progress M.RaftLog M.Quorum M.ConfChange M.Msg M.Raft M.RawNode M.RaftProofs M.RaftProofsC20.
From RecordUpdate Require Import RecordSet.
Import RecordSetNotations.

Local Open Scope N_scope.

Lemma role_eqb_eq a b : role_eqb a b = true <-> a = b.
Proof. destruct a, b; cbn; split; intros; congruence. Qed.
Lemma role_eqb_neq a b : role_eqb a b = false <-> a <> b.
Proof. destruct a, b; cbn; split; intros; congruence. Qed.

(* ---- send ---- *)
Definition send_stamped (r : raft) (m : msg) : msg :=
  if m_from m =? INVALID_ID then m <| m_from := r_id r |> else m.

Lemma send_stamped_type r m : m_type (send_stamped r m) = m_type m /\ m_term (send_stamped r m) = m_term m.
Proof. unfold send_stamped. destruct (m_from m =? INVALID_ID); split; reflexivity. Qed.

Theorem send_panics_iff r m s :
  send r m = Panic s <->
  (is_vote_type (m_type m) = true /\ m_term m = 0 /\ s = site_send_vote_term0) \/
  (is_vote_type (m_type m) = false /\ m_term m <> 0 /\ s = site_send_term_set).
Proof.
  unfold send. fold (send_stamped r m).
  destruct (send_stamped_type r m) as [Ety Etm]. rewrite Ety, Etm.
  destruct (is_vote_type (m_type m)) eqn:Ev.
  - destruct (m_term m =? 0) eqn:Ez; cbn [bind].
    + split; [intros H; injection H as <-; left; repeat split; lia|].
      intros [(_ & _ & ->)|(? & _)]; [reflexivity|discriminate].
    + split; [discriminate|]. intros [(_ & ? & _)|(? & _)]; [lia|discriminate].
  - destruct (m_term m =? 0) eqn:Ez; cbn [negb bind].
    + split.
      * destruct (_ && _); discriminate.
      * intros [(? & _)|(_ & ? & _)]; [discriminate|lia].
    + split; [intros H; injection H as <-; right; repeat split; lia|].
      intros [(? & _)|(_ & _ & ->)]; [discriminate|reflexivity].
Qed.

Corollary send_vote_term0_iff r m :
  send r m = Panic site_send_vote_term0 <-> is_vote_type (m_type m) = true /\ m_term m = 0.
Proof.
  rewrite send_panics_iff. split.
  - intros [(A & B & _)|(_ & _ & C)]; [auto|discriminate C].
  - intros [A B]. left. auto.
Qed.

Corollary send_term_set_iff r m :
  send r m = Panic site_send_term_set <-> is_vote_type (m_type m) = false /\ m_term m <> 0.
Proof.
  rewrite send_panics_iff. split.
  - intros [(_ & _ & C)|(A & B & _)]; [discriminate C|auto].
  - intros [A B]. right. auto.
Qed.

(* ---- reset / become_* ---- *)
(* site_draws is a MODEL ARTEFACT: the randomized election timeout is an oracle list;
   the real code draws from thread_rng and cannot fail here. *)
Theorem reset_panics_iff r t s : reset r t = Panic s <-> r_draws r = [] /\ s = site_draws.
Proof.
  unfold reset. cbv zeta.
  destruct (negb (r_term r =? t));
    [change (r_draws (r <| r_term := t |> <| r_vote := INVALID_ID |>)) with (r_draws r)|];
    (destruct (r_draws r) as [|d ds];
     [split; [intros H; injection H as <-; auto|intros [_ ->]; reflexivity]
     |split; [discriminate|intros [? _]; discriminate]]).
Qed.

Theorem become_follower_panics_iff r t l s :
  become_follower r t l = Panic s <-> r_draws r = [] /\ s = site_draws.
Proof.
  unfold become_follower. rewrite <- (reset_panics_iff r t s).
  destruct (reset r t); cbn [bind]; split; congruence.
Qed.

Theorem become_candidate_panics_iff r s :
  become_candidate r = Panic s <->
  (r_state r = Leader /\ s = site_candidate_from_leader) \/
  (r_state r <> Leader /\ r_draws r = [] /\ s = site_draws).
Proof.
  unfold become_candidate, is_leader. destruct (role_eqb (r_state r) Leader) eqn:E.
  - apply role_eqb_eq in E. split.
    + intros H; injection H as <-. left; auto.
    + intros [[_ ->]|[? _]]; [reflexivity|contradiction].
  - apply role_eqb_neq in E. pose proof (reset_panics_iff r (r_term r + 1) s) as R.
    destruct (reset r (r_term r + 1)); cbn [bind].
    + split; [discriminate|]. intros [[? _]|(_ & A & B)]; [contradiction|].
      assert (X : @Ok raft a = Panic s) by (apply R; auto). discriminate X.
    + split.
      * intros H. right. split; [exact E|]. apply R. exact H.
      * intros [[? _]|(_ & A & B)]; [contradiction|]. apply R; auto.
Qed.

Theorem become_pre_candidate_panics_iff r s :
  become_pre_candidate r = Panic s <-> r_state r = Leader /\ s = site_precandidate_from_leader.
Proof.
  unfold become_pre_candidate, is_leader. destruct (role_eqb (r_state r) Leader) eqn:E.
  - apply role_eqb_eq in E. split; [intros H; injection H as <-; auto|intros [_ ->]; reflexivity].
  - apply role_eqb_neq in E. split; [discriminate|intros [? _]; contradiction].
Qed.

(* the no-op entry a new leader appends *)
Definition noop_entry (r : raft) : entry :=
  mkEntry 0 (r_term r) (last_index (r_log r) + 1) [] [].

Lemma pget_map (f : N -> progress -> progress) m id :
  pget (map (fun kp => (fst kp, f (fst kp) (snd kp))) m) id = option_map (f id) (pget m id).
Proof.
  induction m as [|[k p] t IH]; cbn; [reflexivity|].
  destruct (k =? id) eqn:E; [apply N.eqb_eq in E; subst; reflexivity|exact IH].
Qed.

Lemma reset_shape r t r' :
  reset r t = Ok r' ->
  r_log r' = r_log r /\ r_id r' = r_id r /\ r_term r' = t /\ r_state r' = r_state r /\
  r_max_uncommitted_size r' = r_max_uncommitted_size r /\
  forall id, (exists p, get_pr r' id = Some p) <-> (exists p, get_pr r id = Some p).
Proof.
  unfold reset. intros H.
  set (r0 := if negb (r_term r =? t) then r <| r_term := t |> <| r_vote := INVALID_ID |> else r) in *.
  assert (E0 : r_log r0 = r_log r /\ r_id r0 = r_id r /\ r_term r0 = t /\ r_state r0 = r_state r
               /\ r_max_uncommitted_size r0 = r_max_uncommitted_size r
               /\ t_progress (r_prs r0) = t_progress (r_prs r)).
  { subst r0. destruct (r_term r =? t) eqn:E; cbn [negb]; repeat split; try reflexivity.
    apply N.eqb_eq in E. exact E. }
  destruct E0 as (A & B & C & D & F & G).
  destruct (r_draws r0) as [|d ds]; [discriminate|]. injection H as <-. cbn.
  repeat split; try assumption.
  - intros [p Hp]. unfold get_pr in *. cbn in Hp.
    rewrite (pget_map (fun k p0 =>
       if k =? r_id r0
       then set_committed_index (set_matched (pr_reset p0 (last_index (r_log r0) + 1))
              (persisted (r_log r0))) (committed (r_log r0))
       else pr_reset p0 (last_index (r_log r0) + 1))) in Hp.
    rewrite G in Hp. destruct (pget (t_progress (r_prs r)) id); [eauto|discriminate].
  - intros [p Hp]. unfold get_pr in *. cbn.
    rewrite (pget_map (fun k p0 =>
       if k =? r_id r0
       then set_committed_index (set_matched (pr_reset p0 (last_index (r_log r0) + 1))
              (persisted (r_log r0))) (committed (r_log r0))
       else pr_reset p0 (last_index (r_log r0) + 1))).
    rewrite G, Hp. cbn. eauto.
Qed.

(* appending the no-op entry: never refused by the uncommitted-size limit *)
Lemma append_entry_noop rr :
  exists rr1, r_log rr1 = r_log rr /\ r_term rr1 = r_term rr /\
    append_entry rr [entry_default] =
      (x <- log_append (r_log rr) [mkEntry 0 (r_term rr) (last_index (r_log rr) + 1) [] []] ;;
       Ok (rr1 <| r_log := fst x |>, true)).
Proof.
  unfold append_entry, maybe_increase_uncommitted_size.
  destruct (r_max_uncommitted_size rr =? u64_max).
  - exists rr. repeat split.
  - change (data_size [entry_default]) with 0. change (0 =? 0) with true. cbn [orb negb].
    eexists. split; [|split]; [| |reflexivity]; reflexivity.
Qed.

(* the part of become_leader after [reset] *)
Definition bl_tail (r1 : raft) : Res raft :=
  let r2 := r1 <| r_leader_id := r_id r1 |> <| r_state := Leader |> in
  let li := last_index (r_log r2) in
  let r3 := r2 <| r_uncommitted_size := 0 |> <| r_last_log_tail_index := li |> in
  match get_pr r3 (r_id r3) with
  | None => Panic site_self_progress
  | Some pr =>
      let r4 := put_pr r3 (r_id r3) (become_replicate pr) in
      let r5 := r4 <| r_pending_conf_index := li |> in
      x <- append_entry r5 [entry_default] ;;
      let '(r6, ok) := x in
      if ok then Ok r6 else Panic site_leader_noop_dropped
  end.

Lemma become_leader_unfold r :
  become_leader r =
  if role_eqb (r_state r) Follower then Panic site_leader_from_follower
  else r1 <- reset r (r_term r) ;; bl_tail r1.
Proof. reflexivity. Qed.

Lemma bl_tail_panics_iff r1 s :
  bl_tail r1 = Panic s <->
  (get_pr r1 (r_id r1) = None /\ s = site_self_progress) \/
  ((exists p, get_pr r1 (r_id r1) = Some p) /\
   log_append (r_log r1) [mkEntry 0 (r_term r1) (last_index (r_log r1) + 1) [] []] = Panic s).
Proof.
  unfold bl_tail. cbv zeta.
  match goal with |- context [get_pr ?a ?b] => change (get_pr a b) with (get_pr r1 (r_id r1)) end.
  destruct (get_pr r1 (r_id r1)) as [p|] eqn:G.
  2:{ split.
      - intros H; injection H as <-. left; auto.
      - intros [(_ & ->)|([q Q] & _)]; [reflexivity|discriminate]. }
  match goal with |- context [append_entry ?rr _] =>
    destruct (append_entry_noop rr) as (rr1 & Hl & Ht & ->) end.
  match goal with |- context [log_append ?l ?e] =>
    change (log_append l e)
      with (log_append (r_log r1) [mkEntry 0 (r_term r1) (last_index (r_log r1) + 1) [] []]) end.
  destruct (log_append (r_log r1) _) as [x|s2]; cbn [bind].
  - split; [discriminate|].
    intros [(A & _)|(_ & A)]; [discriminate|discriminate].
  - split.
    + intros H; injection H as <-. right. split; eauto.
    + intros [(A & _)|(_ & A)]; [discriminate|].
      injection A as ->. reflexivity.
Qed.

(* become_leader: the complete decision list.  site_leader_noop_dropped cannot fire (the
   no-op entry has no data, so the uncommitted-size limit never refuses it); the assertion
   last_index = persisted (site_leader_persisted) was removed by /repo 19c179c. *)
Theorem become_leader_panics_iff r s :
  become_leader r = Panic s <->
  (r_state r = Follower /\ s = site_leader_from_follower) \/
  (r_state r <> Follower /\ r_draws r = [] /\ s = site_draws) \/
  (r_state r <> Follower /\ r_draws r <> [] /\
   get_pr r (r_id r) = None /\ s = site_self_progress) \/
  (r_state r <> Follower /\ r_draws r <> [] /\
   (exists p, get_pr r (r_id r) = Some p) /\
   log_append (r_log r) [noop_entry r] = Panic s).
Proof.
  rewrite become_leader_unfold. destruct (role_eqb (r_state r) Follower) eqn:Ef.
  { apply role_eqb_eq in Ef. split.
    - intros H; injection H as <-. left; auto.
    - intros [[_ ->]|[(? & _)|[(? & _)|(? & _)]]]; try reflexivity; contradiction. }
  apply role_eqb_neq in Ef.
  pose proof (reset_panics_iff r (r_term r)) as R.
  destruct (reset r (r_term r)) as [r1|s1] eqn:Er; cbn [bind].
  2:{ destruct (proj1 (R s1) eq_refl) as [Hd ->]. split.
      - intros H; injection H as <-. right; left. auto.
      - intros [[? _]|[(_ & _ & ->)|[(_ & A & _)|(_ & A & _)]]];
          try contradiction; reflexivity. }
  assert (Hd : r_draws r <> []).
  { intros X. assert (Y : @Ok raft r1 = Panic site_draws) by (apply R; auto). discriminate Y. }
  destruct (reset_shape _ _ _ Er) as (Hl & Hi & Ht & Hs & Hm & Hp).
  rewrite bl_tail_panics_iff. rewrite Hl, Hi, Ht. fold (noop_entry r).
  assert (Gn : get_pr r1 (r_id r) = None <-> get_pr r (r_id r) = None).
  { split; intros X.
    - destruct (get_pr r (r_id r)) eqn:E; [|reflexivity].
      destruct (proj2 (Hp (r_id r)) (ex_intro _ _ E)) as [q Hq]. congruence.
    - destruct (get_pr r1 (r_id r)) eqn:E; [|reflexivity].
      destruct (proj1 (Hp (r_id r)) (ex_intro _ _ E)) as [q Hq]. congruence. }
  rewrite Gn, (Hp (r_id r)). tauto.
Qed.

(* ---- Progress::update_state / prepare_send_entries / prepare_send_snapshot ---- *)
Theorem update_state_panics_iff pr last s :
  update_state pr last = Panic s <->
  (pr_state pr = Snapshot /\ s = site_update_state_snapshot) \/
  (pr_state pr = Replicate /\ Inflights.add (ins pr) last = Panic s).
Proof.
  unfold update_state. destruct (pr_state pr).
  - split; [discriminate|]. intros [[? _]|[? _]]; discriminate.
  - destruct (Inflights.add (ins pr) last); cbn [bind].
    + split; [discriminate|]. intros [[? _]|[_ ?]]; discriminate.
    + split; [intros H; injection H as <-; right; auto|].
      intros [[? _]|[_ A]]; [discriminate|]. injection A as ->. reflexivity.
  - split; [intros H; injection H as <-; left; auto|].
    intros [[_ ->]|[? _]]; [reflexivity|discriminate].
Qed.

Theorem prepare_send_entries_panics_iff r m pr t ents s :
  prepare_send_entries r m pr t ents = Panic s <->
  (next_idx pr = 0 /\ s = site_next_idx_underflow) \/
  (next_idx pr <> 0 /\ ents <> [] /\
   update_state pr (e_index (List.last ents entry_default)) = Panic s).
Proof.
  unfold prepare_send_entries. destruct (next_idx pr =? 0) eqn:E.
  - apply N.eqb_eq in E. split; [intros H; injection H as <-; left; auto|].
    intros [[_ ->]|[? _]]; [reflexivity|contradiction].
  - apply N.eqb_neq in E. destruct ents as [|e0 et].
    + split; [discriminate|]. intros [[? _]|(_ & ? & _)]; contradiction.
    + destruct (update_state pr _) eqn:U; cbn [bind].
      * split; [discriminate|]. intros [[? _]|(_ & _ & ?)]; [contradiction|discriminate].
      * split; [intros H; injection H as <-; right; repeat split; auto; discriminate|].
        intros [[? _]|(_ & _ & A)]; [contradiction|]. injection A as ->. reflexivity.
Qed.

Theorem prepare_send_snapshot_panics_iff r m pr to s :
  prepare_send_snapshot r m pr to = Panic s <->
  recent_active pr = true /\
  (raft_snapshot r (pending_request_snapshot pr) to = Panic s \/
   (exists e, raft_snapshot r (pending_request_snapshot pr) to = Ok (SErr e) /\
              e <> SnapshotTemporarilyUnavailable /\ s = site_snapshot_err) \/
   (exists sn, raft_snapshot r (pending_request_snapshot pr) to = Ok (SOk sn) /\
               s_index sn = 0 /\ s = site_snapshot_empty)).
Proof.
  unfold prepare_send_snapshot. destruct (recent_active pr); cbn [negb].
  2:{ split; [discriminate|]. intros [? _]; discriminate. }
  destruct (raft_snapshot r _ to) as [[sn|e]|s1]; cbn [bind].
  - destruct (s_index sn =? 0) eqn:E.
    + apply N.eqb_eq in E. split.
      * intros H; injection H as <-. split; [reflexivity|]. right; right. eauto.
      * intros [_ [A|[(e & A & _)|(sn' & A & _ & ->)]]]; try discriminate. reflexivity.
    + apply N.eqb_neq in E. split; [discriminate|].
      intros [_ [A|[(e & A & _)|(sn' & A & B & _)]]]; try discriminate.
      injection A as <-. contradiction.
  - assert (X : forall e0, e0 <> SnapshotTemporarilyUnavailable ->
              (Panic site_snapshot_err = @Panic (option (msg * progress)) s <->
               true = true /\
               (Ok (@SErr snapshot e0) = Panic s \/
                (exists e1, Ok (@SErr snapshot e0) = Ok (SErr e1) /\
                            e1 <> SnapshotTemporarilyUnavailable /\ s = site_snapshot_err) \/
                (exists sn, Ok (@SErr snapshot e0) = Ok (SOk sn) /\ s_index sn = 0 /\ s = site_snapshot_empty)))).
    { intros e0 He0. split.
      - intros H; injection H as <-. split; [reflexivity|]. right; left. eauto.
      - intros [_ [A|[(e' & A & B & ->)|(sn' & A & _)]]]; try discriminate. reflexivity. }
    destruct e; try (apply X; discriminate).
    split; [discriminate|].
    intros [_ [A|[(e' & A & B & C)|(sn' & A & _)]]]; try discriminate.
    injection A as <-. contradiction.
  - split.
    + intros H; injection H as <-. split; [reflexivity|]. left. reflexivity.
    + intros [_ [A|[(e' & A & _)|(sn' & A & _)]]]; try discriminate. injection A as ->. reflexivity.
Qed.

(* ---- handle_heartbeat: the commit_to range check is the first thing it does ---- *)
Theorem handle_heartbeat_commit_range_iff r m :
  handle_heartbeat r m = Panic site_l_commit_range <->
  committed (r_log r) < m_commit m /\ last_index (r_log r) < m_commit m.
Proof.
  unfold handle_heartbeat, RaftLog.commit_to.
  destruct (m_commit m <=? committed (r_log r)) eqn:E1; cbn [bind].
  - split; [|lia]. intros H. exfalso.
    match type of H with (if ?c then _ else _) = _ => destruct c end.
    + apply send_request_snapshot_sites_ok in H. vm_compute in H. intuition discriminate.
    + apply send_sites_ok in H. vm_compute in H. intuition discriminate.
  - destruct (last_index (r_log r) <? m_commit m) eqn:E2; cbn [bind].
    + split; [lia|reflexivity].
    + split; [|lia]. intros H. exfalso.
      match type of H with (if ?c then _ else _) = _ => destruct c end.
      * apply send_request_snapshot_sites_ok in H. vm_compute in H. intuition discriminate.
      * apply send_sites_ok in H. vm_compute in H. intuition discriminate.
Qed.

(* after the range check, only the snapshot-request reply can still fail *)
Theorem handle_heartbeat_panics r m s :
  handle_heartbeat r m = Panic s ->
  (s = site_l_commit_range /\ committed (r_log r) < m_commit m /\ last_index (r_log r) < m_commit m) \/
  (r_pending_request_snapshot r <> INVALID_INDEX /\
   exists l', RaftLog.commit_to (r_log r) (m_commit m) = Ok l' /\
              send_request_snapshot (r <| r_log := l' |>) = Panic s).
Proof.
  unfold handle_heartbeat. intros H. apply bind_panic in H. destruct H as [H|(l' & Hc & H)].
  - left. pose proof H as H'. apply l_commit_to_sites_ok in H'. destruct H' as [<-|[]].
    split; [reflexivity|].
    unfold RaftLog.commit_to in H. destruct (m_commit m <=? committed (r_log r)) eqn:E; [discriminate|].
    destruct (last_index (r_log r) <? m_commit m) eqn:E2; [lia|discriminate].
  - cbv beta in H. change (r_pending_request_snapshot (r <| r_log := l' |>)) with (r_pending_request_snapshot r) in H.
    destruct (r_pending_request_snapshot r =? INVALID_INDEX) eqn:E; cbn [negb] in H.
    + exfalso. apply send_panics_iff in H. cbn in H.
      destruct H as [(A & _)|(_ & A & _)]; [discriminate|contradiction].
    + right. apply N.eqb_neq in E. split; [exact E|]. eauto.
Qed.

(* ---- maybe_commit (Raft): since /repo e9967b2 only the log-level call can fail ---- *)
Theorem maybe_commit_panics_iff r s :
  maybe_commit r = Panic s <->
  RaftLog.maybe_commit (r_log r) (fst (prs_maximal_committed_index (r_prs r))) (r_term r) = Panic s.
Proof.
  unfold maybe_commit. destruct (RaftLog.maybe_commit _ _ _) as [[l' b]|s1]; cbn [bind].
  - split; [|discriminate]. destruct b; [destruct (get_pr r (r_id r))|]; discriminate.
  - split; intros H; injection H as ->; reflexivity.
Qed.

Corollary maybe_commit_no_self_progress r : maybe_commit r <> Panic site_self_progress.
Proof.
  intros H. apply maybe_commit_sites_ok in H. vm_compute in H. intuition discriminate.
Qed.

Corollary on_persist_entries_no_self_progress r i t :
  on_persist_entries r i t <> Panic site_self_progress.
Proof.
  intros H. apply on_persist_entries_sites_ok in H. vm_compute in H. intuition discriminate.
Qed.

(* ---- load_state ---- *)
Theorem load_state_panics_iff r hs s :
  load_state r hs = Panic s <->
  s = site_load_state /\ (hs_commit hs < committed (r_log r) \/ last_index (r_log r) < hs_commit hs).
Proof.
  unfold load_state.
  destruct ((hs_commit hs <? committed (r_log r)) || (last_index (r_log r) <? hs_commit hs)) eqn:E.
  - split; [intros H; injection H as <-; split; [reflexivity|lia]|intros [-> _]; reflexivity].
  - split; [discriminate|]. intros [_ ?]. lia.
Qed.

(* ---- commit_apply_internal ---- *)
Definition auto_leave_now (r : raft) (app : N) : bool :=
  auto_leave (conf_of r) && (applied (r_log r) <=? r_pending_conf_index r)
  && (r_pending_conf_index r <=? app) && is_leader r.

Theorem commit_apply_internal_panics_iff r app skip s :
  commit_apply_internal r app skip = Panic s <->
  (skip = false /\ applied_to (r_log r) app = Panic s) \/
  (skip = true /\ app = 0 /\ s = site_commit_apply_assert) \/
  (auto_leave_now r app = true /\
   (exists l', (if skip then (if app =? 0 then Panic site_commit_apply_assert
                              else Ok (applied_to_unchecked (r_log r) app))
                else applied_to (r_log r) app) = Ok l' /\
      (append_entry (r <| r_log := l' |>) [mkEntry EntryConfChangeV2 0 0 [] []] = Panic s \/
       (exists r1, append_entry (r <| r_log := l' |>) [mkEntry EntryConfChangeV2 0 0 [] []] = Ok (r1, false)
                   /\ s = site_autoleave_dropped)))).
Proof.
  unfold commit_apply_internal, auto_leave_now.
  destruct skip; cbn [negb].
  - destruct (app =? 0) eqn:E0; cbn [bind].
    + apply N.eqb_eq in E0. split.
      * intros H; injection H as <-. right; left. auto.
      * intros [[? _]|[(_ & _ & ->)|(_ & l' & A & _)]]; [discriminate|reflexivity|discriminate].
    + apply N.eqb_neq in E0.
      change (conf_of (r <| r_log := applied_to_unchecked (r_log r) app |>)) with (conf_of r).
      change (is_leader (r <| r_log := applied_to_unchecked (r_log r) app |>)) with (is_leader r).
      change (r_pending_conf_index (r <| r_log := applied_to_unchecked (r_log r) app |>))
        with (r_pending_conf_index r).
      destruct (auto_leave (conf_of r) && (applied (r_log r) <=? r_pending_conf_index r)
                && (r_pending_conf_index r <=? app) && is_leader r).
      * destruct (append_entry _ _) as [[r1 ok]|s1] eqn:Ea; cbn [bind].
        -- destruct ok; cbn [negb].
           ++ split; [discriminate|].
              intros [[? _]|[(_ & ? & _)|(_ & l' & A & [B|(r2 & B & _)])]]; try discriminate; try contradiction;
                injection A as <-; congruence.
           ++ split.
              ** intros H; injection H as <-. right; right. split; [reflexivity|].
                 eexists. split; [reflexivity|]. right. eauto.
              ** intros [[? _]|[(_ & ? & _)|(_ & l' & A & [B|(r2 & B & ->)])]]; try discriminate; try contradiction;
                   [injection A as <-; congruence|reflexivity].
        -- split.
           ++ intros H; injection H as <-. right; right. split; [reflexivity|].
              eexists. split; [reflexivity|]. left. exact Ea.
           ++ intros [[? _]|[(_ & ? & _)|(_ & l' & A & [B|(r2 & B & _)])]]; try discriminate; try contradiction;
                injection A as <-; congruence.
      * split; [discriminate|].
        intros [[? _]|[(_ & ? & _)|(? & _)]]; try discriminate; contradiction.
  - destruct (applied_to (r_log r) app) as [l'|s1] eqn:Ea; cbn [bind].
    + change (conf_of (r <| r_log := l' |>)) with (conf_of r).
      change (is_leader (r <| r_log := l' |>)) with (is_leader r).
      change (r_pending_conf_index (r <| r_log := l' |>)) with (r_pending_conf_index r).
      destruct (auto_leave (conf_of r) && (applied (r_log r) <=? r_pending_conf_index r)
                && (r_pending_conf_index r <=? app) && is_leader r).
      * destruct (append_entry _ _) as [[r1 ok]|s2] eqn:Eb; cbn [bind].
        -- destruct ok; cbn [negb].
           ++ split; [discriminate|].
              intros [[_ ?]|[(? & _)|(_ & l2 & A & [B|(r2 & B & _)])]]; try discriminate;
                injection A as <-; congruence.
           ++ split.
              ** intros H; injection H as <-. right; right. split; [reflexivity|].
                 eexists. split; [reflexivity|]. right. eauto.
              ** intros [[_ ?]|[(? & _)|(_ & l2 & A & [B|(r2 & B & ->)])]]; try discriminate;
                   [injection A as <-; congruence|reflexivity].
        -- split.
           ++ intros H; injection H as <-. right; right. split; [reflexivity|].
              eexists. split; [reflexivity|]. left. exact Eb.
           ++ intros [[_ ?]|[(? & _)|(_ & l2 & A & [B|(r2 & B & _)])]]; try discriminate;
                injection A as <-; congruence.
      * split; [discriminate|].
        intros [[_ ?]|[(? & _)|(? & _)]]; discriminate.
    + split.
      * intros H; injection H as <-. left; auto.
      * intros [[_ A]|[(? & _)|(_ & l2 & A & _)]]; try discriminate. injection A as ->. reflexivity.
Qed.

(* ---- handle_append_entries ---- *)
Lemma send_append_resp_ok r m :
  m_type m = MsgAppendResponse -> m_term m = 0 -> exists r', send r m = Ok r'.
Proof.
  intros Ht Hz. destruct (send r m) as [r'|s] eqn:E; [eauto|].
  apply send_panics_iff in E. rewrite Ht, Hz in E. cbn in E.
  destruct E as [(A & _)|(_ & A & _)]; [discriminate|contradiction].
Qed.

Theorem handle_append_entries_panics_iff r m s :
  handle_append_entries r m = Panic s <->
  (r_pending_request_snapshot r <> INVALID_INDEX /\ send_request_snapshot r = Panic s) \/
  (r_pending_request_snapshot r = INVALID_INDEX /\ committed (r_log r) <= m_index m /\
   (maybe_append (r_log r) (m_index m) (m_log_term m) (m_commit m) (m_entries m) = Panic s \/
    exists l', maybe_append (r_log r) (m_index m) (m_log_term m) (m_commit m) (m_entries m)
               = Ok (l', None) /\
      (find_conflict_by_term l' (N.min (m_index m) (last_index l')) (m_log_term m) = Panic s \/
       exists hi, find_conflict_by_term l' (N.min (m_index m) (last_index l')) (m_log_term m)
                  = Ok (hi, None) /\ s = site_hint_term))).
Proof.
  unfold handle_append_entries.
  destruct (r_pending_request_snapshot r =? INVALID_INDEX) eqn:Ep; cbn [negb].
  2:{ apply N.eqb_neq in Ep. split; [intros H; left; auto|].
      intros [[_ A]|[A _]]; [exact A|contradiction]. }
  apply N.eqb_eq in Ep.
  destruct (m_index m <? committed (r_log r)) eqn:Ei.
  { split.
    - intros H. exfalso. apply send_panics_iff in H. cbn in H.
      destruct H as [(A & _)|(_ & A & _)]; [discriminate|contradiction].
    - intros [[A _]|(_ & A & _)]; [contradiction|lia]. }
  destruct (maybe_append _ _ _ _ _) as [[l' res]|s1] eqn:Em; cbn [bind].
  2:{ split.
      - intros H; injection H as <-. right. split; [exact Ep|]. split; [lia|]. left. reflexivity.
      - intros [[A _]|(_ & _ & [A|(l' & A & _)])]; [contradiction| |discriminate].
        injection A as ->. reflexivity. }
  destruct res as [[ci last_idx]|].
  { split.
    - intros H. exfalso. apply send_panics_iff in H. cbn in H.
      destruct H as [(A & _)|(_ & A & _)]; [discriminate|contradiction].
    - intros [[A _]|(_ & _ & [A|(l2 & A & _)])]; [contradiction|discriminate|discriminate]. }
  change (r_log (r <| r_log := l' |>)) with l'.
  destruct (find_conflict_by_term l' _ _) as [[hi oht]|s2] eqn:Ef; cbn [bind].
  2:{ split.
      - intros H; injection H as <-. right. split; [exact Ep|]. split; [lia|]. right.
        exists l'. split; [reflexivity|]. left. exact Ef.
      - intros [[A _]|(_ & _ & [A|(l2 & A & [B|(hi & B & _)])])]; try contradiction; try discriminate;
          injection A as <-; congruence. }
  destruct oht as [ht|].
  { split.
    - intros H. exfalso. apply send_panics_iff in H. cbn in H.
      destruct H as [(A & _)|(_ & A & _)]; [discriminate|contradiction].
    - intros [[A _]|(_ & _ & [A|(l2 & A & [B|(hi2 & B & _)])])]; try contradiction; try discriminate;
        injection A as <-; congruence. }
  split.
  - intros H; injection H as <-. right. split; [exact Ep|]. split; [lia|]. right.
    exists l'. split; [reflexivity|]. right. eauto.
  - intros [[A _]|(_ & _ & [A|(l2 & A & [B|(hi2 & B & ->)])])]; try contradiction; try discriminate;
      [injection A as <-; congruence|reflexivity].
Qed.

(* ---- RawNode: every assert ---- *)
Definition rn_apply_rd (n : rawnode) (rd : ready) : rawnode :=
  let n := match rd_ss rd with Some ss => n <| rn_prev_ss := ss |> | None => n end in
  match rd_hs rd with Some hs => n <| rn_prev_hs := hs |> | None => n end.

Lemma rn_apply_rd_fields n rd :
  rn_records (rn_apply_rd n rd) = rn_records n /\ rn_raft (rn_apply_rd n rd) = rn_raft n.
Proof. unfold rn_apply_rd. destruct (rd_ss rd), (rd_hs rd); split; reflexivity. Qed.

Definition last_record (n : rawnode) : ready_record :=
  List.last (rn_records n) (mkRR 0 None None false).

Theorem commit_ready_panics_iff n rd s :
  commit_ready n rd = Panic s <->
  (rn_records n = [] /\ s = site_rn_records_back) \/
  (rn_records n <> [] /\ rr_number (last_record n) <> rd_number rd /\ s = site_rn_number) \/
  (rn_records n <> [] /\ rr_number (last_record n) = rd_number rd /\
   ((exists i t, rr_snapshot (last_record n) = Some (i, t) /\
                 stable_snap (r_log (rn_raft n)) i = Panic s) \/
    (exists l1, (match rr_snapshot (last_record n) with
                 | Some (i, _) => stable_snap (r_log (rn_raft n)) i
                 | None => Ok (r_log (rn_raft n))
                 end) = Ok l1 /\
       exists i t, rr_last_entry (last_record n) = Some (i, t) /\ stable_entries l1 i t = Panic s))).
Proof.
  unfold commit_ready. fold (rn_apply_rd n rd).
  destruct (rn_apply_rd_fields n rd) as [Er Ef]. rewrite Er, Ef. unfold last_record.
  destruct (rn_records n) as [|rr0 rest] eqn:Erec.
  - split; [intros H; injection H as <-; left; auto|].
    intros [[_ ->]|[(A & _)|(A & _)]]; [reflexivity|contradiction|contradiction].
  - set (rr := List.last (rr0 :: rest) (mkRR 0 None None false)).
    assert (Hne : rr0 :: rest <> []) by discriminate.
    destruct (rr_number rr =? rd_number rd) eqn:En; cbn [negb].
    2:{ apply N.eqb_neq in En. split.
        - intros H; injection H as <-. right; left. auto.
        - intros [[A _]|[(_ & _ & ->)|(_ & A & _)]]; [discriminate|reflexivity|contradiction]. }
    apply N.eqb_eq in En.
    destruct (rr_snapshot rr) as [[i t]|] eqn:Es.
    + destruct (stable_snap (r_log (rn_raft n)) i) as [l1|s1] eqn:E1; cbn [bind].
      * destruct (rr_last_entry rr) as [[i2 t2]|] eqn:El.
        -- destruct (stable_entries l1 i2 t2) as [l2|s2] eqn:E2; cbn [bind].
           ++ split; [discriminate|].
              intros [[A _]|[(_ & A & _)|(_ & _ & [(i' & t' & A & B)|(l1' & A & i' & t' & B & C)])]];
                try discriminate; try contradiction.
              ** injection A as <- <-. congruence.
              ** injection A as <-. injection B as <- <-. congruence.
           ++ split.
              ** intros H; injection H as <-. right; right. repeat split; auto. right.
                 exists l1. split; [reflexivity|]. eauto.
              ** intros [[A _]|[(_ & A & _)|(_ & _ & [(i' & t' & A & B)|(l1' & A & i' & t' & B & C)])]];
                   try discriminate; try contradiction.
                 --- injection A as <- <-. congruence.
                 --- injection A as <-. injection B as <- <-. rewrite E2 in C. injection C as ->. reflexivity.
        -- split; [discriminate|].
           intros [[A _]|[(_ & A & _)|(_ & _ & [(i' & t' & A & B)|(l1' & A & i' & t' & B & C)])]];
             try discriminate; try contradiction.
           injection A as <- <-. congruence.
      * split.
        -- intros H; injection H as <-. right; right. repeat split; auto. left. eauto.
        -- intros [[A _]|[(_ & A & _)|(_ & _ & [(i' & t' & A & B)|(l1' & A & _)])]];
             try discriminate; try contradiction.
           injection A as <- <-. rewrite E1 in B. injection B as ->. reflexivity.
    + cbn [bind].
      destruct (rr_last_entry rr) as [[i2 t2]|] eqn:El.
      * destruct (stable_entries (r_log (rn_raft n)) i2 t2) as [l2|s2] eqn:E2; cbn [bind].
        -- split; [discriminate|].
           intros [[A _]|[(_ & A & _)|(_ & _ & [(i' & t' & A & B)|(l1' & A & i' & t' & B & C)])]];
             try discriminate; try contradiction.
           injection A as <-. injection B as <- <-. congruence.
        -- split.
           ++ intros H; injection H as <-. right; right. repeat split; auto. right.
              eexists. split; [reflexivity|]. eauto.
           ++ intros [[A _]|[(_ & A & _)|(_ & _ & [(i' & t' & A & B)|(l1' & A & i' & t' & B & C)])]];
                try discriminate; try contradiction.
              injection A as <-. injection B as <- <-. rewrite E2 in C. injection C as ->. reflexivity.
      * split; [discriminate|].
        intros [[A _]|[(_ & A & _)|(_ & _ & [(i' & t' & A & B)|(l1' & A & i' & t' & B & C)])]];
          try discriminate; contradiction.
Qed.

Theorem gen_light_ready_panics_iff n s :
  gen_light_ready n = Panic s <->
  next_entries_since (r_log (rn_raft n)) (rn_commit_since_index n)
    (Some (r_max_committed_size_per_ready (rn_raft n))) = Panic s \/
  (exists ce, next_entries_since (r_log (rn_raft n)) (rn_commit_since_index n)
                (Some (r_max_committed_size_per_ready (rn_raft n))) = Ok (Some ce) /\
     ce <> [] /\ e_index (List.last ce entry_default) <= rn_commit_since_index n /\
     s = site_rn_commit_since).
Proof.
  unfold gen_light_ready.
  destruct (next_entries_since _ _ _) as [oe|s1]; cbn [bind].
  2:{ split; [intros H; injection H as <-; left; reflexivity|].
      intros [A|(ce & A & _)]; [injection A as ->; reflexivity|discriminate]. }
  destruct oe as [ce|].
  2:{ cbn [bind]. split; [discriminate|]. intros [A|(ce & A & _)]; discriminate. }
  destruct ce as [|e0 et].
  { cbn [bind]. split; [discriminate|]. intros [A|(ce & A & B & _)]; [discriminate|].
    injection A as <-. contradiction. }
  destruct (rn_commit_since_index n <? e_index (List.last (e0 :: et) entry_default)) eqn:E; cbn [bind].
  - split; [discriminate|]. intros [A|(ce & A & _ & B & _)]; [discriminate|].
    injection A as <-. lia.
  - split.
    + intros H; injection H as <-. right. eexists. split; [reflexivity|].
      split; [discriminate|]. split; [lia|reflexivity].
    + intros [A|(ce & A & _ & _ & ->)]; [discriminate|reflexivity].
Qed.

Theorem check_records_empty_panics_iff l s :
  check_records_empty l = Panic s <->
  exists pre rr post, l = pre ++ rr :: post /\
    (forall x, In x pre -> rr_last_entry x = None /\ rr_snapshot x = None) /\
    ((rr_last_entry rr <> None /\ s = site_rn_record_entry) \/
     (rr_last_entry rr = None /\ rr_snapshot rr <> None /\ s = site_rn_record_snap)).
Proof.
  induction l as [|rr t IH]; cbn [check_records_empty].
  - split; [discriminate|]. intros (pre & rr & post & A & _). destruct pre; discriminate.
  - destruct (rr_last_entry rr) as [le|] eqn:El.
    + split.
      * intros H; injection H as <-. exists [], rr, t. split; [reflexivity|].
        split; [intros x []|]. left. split; [congruence|reflexivity].
      * intros (pre & rr' & post & A & B & C). destruct pre as [|p pre'].
        -- injection A as <- <-. destruct C as [[_ ->]|[X _]]; [reflexivity|congruence].
        -- injection A as <- ->. destruct (B _ (or_introl eq_refl)) as [X _]. congruence.
    + destruct (rr_snapshot rr) as [sn|] eqn:Es.
      * split.
        -- intros H; injection H as <-. exists [], rr, t. split; [reflexivity|].
           split; [intros x []|]. right. repeat split; congruence.
        -- intros (pre & rr' & post & A & B & C). destruct pre as [|p pre'].
           ++ injection A as <- <-. destruct C as [[X _]|(_ & _ & ->)]; [congruence|reflexivity].
           ++ injection A as <- ->. destruct (B _ (or_introl eq_refl)) as [_ X]. congruence.
      * rewrite IH. split.
        -- intros (pre & rr' & post & A & B & C). exists (rr :: pre), rr', post.
           split; [cbn; congruence|]. split; [|exact C].
           intros x [<-|Hx]; [auto|apply B; exact Hx].
        -- intros (pre & rr' & post & A & B & C). destruct pre as [|p pre'].
           ++ injection A as <- <-. destruct C as [[X _]|(_ & X & _)]; congruence.
           ++ injection A as <- ->. exists pre', rr', post. split; [reflexivity|].
              split; [|exact C]. intros x Hx. apply B. right. exact Hx.
Qed.

(* rn_ready: the state handed to gen_light_ready *)
Definition rn_ready_pre (n : rawnode) (csi : N) : rawnode :=
  n <| rn_raft := (rn_raft n) <| r_read_states := [] |> |> <| rn_max_number := rn_max_number n + 1 |>
    <| rn_commit_since_index := csi |>.

Definition became_leader (n : rawnode) : bool :=
  negb (role_eqb (ss_role (rn_prev_ss n)) Leader) && is_leader (rn_raft n).

Theorem rn_ready_panics n s :
  rn_ready n = Panic s ->
  (became_leader n = true /\ check_records_empty (rn_records n) = Panic s) \/
  ((became_leader n = false \/ check_records_empty (rn_records n) = Ok tt) /\
   ((exists sn, u_snapshot (unst (r_log (rn_raft n))) = Some sn /\
      (s_index sn < rn_commit_since_index n /\ s = site_rn_snap_since \/
       rn_commit_since_index n <= s_index sn /\
         (has_next_entries_since (r_log (rn_raft n)) (s_index sn) = Panic s \/
          has_next_entries_since (r_log (rn_raft n)) (s_index sn) = Ok true /\ s = site_rn_snap_entries \/
          has_next_entries_since (r_log (rn_raft n)) (s_index sn) = Ok false /\
            gen_light_ready (rn_ready_pre n (s_index sn)) = Panic s))) \/
    (u_snapshot (unst (r_log (rn_raft n))) = None /\
     gen_light_ready (rn_ready_pre n (rn_commit_since_index n)) = Panic s))).
Proof.
  unfold rn_ready. fold (became_leader n). intros H.
  apply bind_panic in H. destruct H as [H|(recs & Hrecs & H)].
  { destruct (became_leader n) eqn:Eb; [|discriminate].
    left. split; [reflexivity|].
    apply bind_panic in H. destruct H as [H|(u & _ & H)]; [exact H|discriminate]. }
  right. split.
  { destruct (became_leader n); [|left; reflexivity]. right.
    destruct (check_records_empty (rn_records n)) as [[]|]; [reflexivity|discriminate]. }
  cbv beta zeta in H.
  change (r_log (rn_raft n <| r_read_states := [] |>)) with (r_log (rn_raft n)) in H.
  destruct (u_snapshot (unst (r_log (rn_raft n)))) as [sn|] eqn:Es.
  - left. exists sn. split; [reflexivity|].
    destruct (s_index sn <? rn_commit_since_index n) eqn:El; cbn [bind] in H.
    + injection H as <-. left. split; [lia|reflexivity].
    + right. split; [lia|].
      destruct (has_next_entries_since (r_log (rn_raft n)) (s_index sn)) as [b|s1]; cbn [bind] in H.
      * destruct b; cbn [bind] in H.
        -- injection H as <-. right; left. auto.
        -- right; right. split; [reflexivity|].
           apply bind_panic in H. destruct H as [H|(y & _ & H)]; [exact H|].
           destruct y; discriminate.
      * injection H as <-. left. reflexivity.
  - right. split; [reflexivity|]. cbn [bind] in H.
    apply bind_panic in H. destruct H as [H|(y & _ & H)]; [exact H|].
    destruct y; discriminate.
Qed.

Theorem rn_ready_snap_since_iff n :
  rn_ready n = Panic site_rn_snap_since <->
  (became_leader n = false \/ check_records_empty (rn_records n) = Ok tt) /\
  exists sn, u_snapshot (unst (r_log (rn_raft n))) = Some sn /\ s_index sn < rn_commit_since_index n.
Proof.
  split.
  - intros H. apply rn_ready_panics in H. destruct H as [[_ H]|[Hc H]].
    + apply check_records_empty_sites_ok in H. vm_compute in H. intuition discriminate.
    + split; [exact Hc|].
      destruct H as [(sn & Es & [[A _]|(_ & [A|[(_ & A)|(_ & A)]])])|(_ & A)].
      * eauto.
      * apply has_next_entries_since_sites_ok in A. vm_compute in A. intuition discriminate.
      * discriminate.
      * apply gen_light_ready_sites_ok in A. vm_compute in A. intuition discriminate.
      * apply gen_light_ready_sites_ok in A. vm_compute in A. intuition discriminate.
  - intros [Hc (sn & Es & Hlt)]. unfold rn_ready. fold (became_leader n).
    assert (R : exists recs, (if became_leader n then _ <- check_records_empty (rn_records n) ;; Ok []
                              else Ok (rn_records n)) = Ok recs).
    { destruct Hc as [Hc|Hc]; rewrite Hc; [eauto|]. destruct (became_leader n); cbn; eauto. }
    destruct R as [recs ->]. cbn [bind]. cbv zeta.
    change (r_log (rn_raft n <| r_read_states := [] |>)) with (r_log (rn_raft n)).
    rewrite Es. destruct (s_index sn <? rn_commit_since_index n) eqn:E; [reflexivity|lia].
Qed.

(* rn_advance_append: the three bookkeeping asserts *)
Theorem rn_advance_append_panics n rd s :
  rn_advance_append n rd = Panic s ->
  commit_ready n rd = Panic s \/
  exists n1, commit_ready n rd = Ok n1 /\
   (rn_on_persist_ready n1 (rn_max_number n1) = Panic s \/
    exists n2, rn_on_persist_ready n1 (rn_max_number n1) = Ok n2 /\
     (gen_light_ready n2 = Panic s \/
      exists n3 light, gen_light_ready n2 = Ok (n3, light) /\
       ((is_leader (rn_raft n3) = false /\ lr_messages light <> [] /\ s = site_rn_new_msg) \/
        (committed (r_log (rn_raft n3)) < hs_commit (rn_prev_hs n3) /\ s = site_rn_commit_eq) \/
        (hs_commit (rn_prev_hs n3) <= committed (r_log (rn_raft n3)) /\
         (r_term (rn_raft n3) <> hs_term (rn_prev_hs n3) \/
          r_vote (rn_raft n3) <> hs_vote (rn_prev_hs n3)) /\ s = site_rn_hs_eq)))).
Proof.
  unfold rn_advance_append. intros H.
  apply bind_panic in H. destruct H as [H|(n1 & E1 & H)]; [left; exact H|].
  right. exists n1. split; [exact E1|].
  apply bind_panic in H. destruct H as [H|(n2 & E2 & H)]; [left; exact H|].
  right. exists n2. split; [exact E2|].
  apply bind_panic in H. destruct H as [H|([n3 light] & E3 & H)]; [left; exact H|].
  right. exists n3, light. split; [exact E3|]. cbv beta iota in H.
  destruct (negb (is_leader (rn_raft n3)) && match lr_messages light with [] => false | _ => true end) eqn:Em.
  { injection H as <-. left. apply andb_prop in Em. destruct Em as [A B].
    apply negb_true_iff in A. split; [exact A|]. split; [|reflexivity].
    destruct (lr_messages light); [discriminate|discriminate]. }
  unfold Raft.hard_state_of in H. cbn [hs_commit hs_term hs_vote] in H.
  destruct (hs_commit (rn_prev_hs n3) <? committed (r_log (rn_raft n3))) eqn:Ec; cbn [bind] in H.
  - cbn in H. unfold hs_eqb in H. cbn in H.
    destruct ((r_term (rn_raft n3) =? hs_term (rn_prev_hs n3)) &&
              (r_vote (rn_raft n3) =? hs_vote (rn_prev_hs n3)) &&
              (committed (r_log (rn_raft n3)) =? committed (r_log (rn_raft n3)))) eqn:Eh; cbn [negb] in H;
      [discriminate|].
    injection H as <-. right; right. split; [lia|]. split; [|reflexivity].
    rewrite N.eqb_refl, andb_true_r in Eh. apply andb_false_iff in Eh.
    destruct Eh as [A|A]; apply N.eqb_neq in A; auto.
  - destruct (committed (r_log (rn_raft n3)) =? hs_commit (rn_prev_hs n3)) eqn:Ee; cbn [negb bind] in H.
    + unfold hs_eqb in H. cbn in H.
      destruct ((r_term (rn_raft n3) =? hs_term (rn_prev_hs n3)) &&
                (r_vote (rn_raft n3) =? hs_vote (rn_prev_hs n3)) &&
                (committed (r_log (rn_raft n3)) =? hs_commit (rn_prev_hs n3))) eqn:Eh; cbn [negb] in H;
        [discriminate|].
      injection H as <-. right; right. split; [lia|]. split; [|reflexivity].
      rewrite Ee, andb_true_r in Eh. apply andb_false_iff in Eh.
      destruct Eh as [A|A]; apply N.eqb_neq in A; auto.
    + injection H as <-. right; left. split; [lia|reflexivity].
Qed.

(* ---- maybe_send_append: the underflow site ---- *)
Theorem maybe_send_append_underflow r to pr ae :
  maybe_send_append r to pr ae = Panic site_next_idx_underflow ->
  next_idx pr = 0 /\ is_paused pr = false /\ pending_request_snapshot pr = INVALID_INDEX.
Proof.
  unfold maybe_send_append. intros H.
  destruct (is_paused pr); [discriminate|].
  assert (Snap : forall x : Res (raft * progress * bool),
            x = (y <- prepare_send_snapshot r (msg_default <| m_to := to |>) pr to ;;
                 match y with
                 | None => Ok (r, pr, false)
                 | Some (m', pr') => r' <- send r m' ;; Ok (r', pr', true)
                 end) -> x = Panic site_next_idx_underflow -> False).
  { intros x -> X. apply bind_panic in X. destruct X as [X|(y & _ & X)].
    - apply prepare_send_snapshot_sites_ok in X. vm_compute in X. intuition discriminate.
    - destruct y as [[m' pr']|]; [|discriminate].
      apply bind_panic in X. destruct X as [X|(? & _ & X)]; [|discriminate].
      apply send_sites_ok in X. vm_compute in X. intuition discriminate. }
  cbv zeta in H.
  destruct (pending_request_snapshot pr =? INVALID_INDEX) eqn:Ep; cbn [negb] in H.
  2:{ exfalso. eapply Snap; [reflexivity|exact H]. }
  apply N.eqb_eq in Ep.
  apply bind_panic in H. destruct H as [H|(ents & _ & H)].
  { apply log_entries_sites_ok in H. vm_compute in H. intuition discriminate. }
  cbv beta in H.
  match type of H with (if ?c then _ else _) = _ => destruct c end; [discriminate|].
  destruct (next_idx pr =? 0) eqn:E0; [apply N.eqb_eq in E0; auto|].
  exfalso. apply bind_panic in H. destruct H as [H|(t & _ & H)].
  { apply term_sites_ok in H. vm_compute in H. intuition discriminate. }
  cbv beta in H. destruct t as [t|e], ents as [ents|e'].
  - apply bind_panic in H. destruct H as [H|([[msgs' pr'] b] & _ & H)].
    + destruct (r_batch_append r); [|discriminate].
      apply try_batching_sites_ok in H. vm_compute in H. intuition discriminate.
    + cbv beta iota in H. destruct b; [discriminate|].
      apply bind_panic in H. destruct H as [H|([m' pr''] & _ & H)].
      * apply prepare_send_entries_panics_iff in H.
        destruct H as [[A _]|(_ & _ & A)]; [lia|].
        apply update_state_sites_ok in A. vm_compute in A. intuition discriminate.
      * cbv beta iota in H. apply bind_panic in H. destruct H as [H|(? & _ & H)]; [|discriminate].
        apply send_sites_ok in H. vm_compute in H. intuition discriminate.
  - destruct e'; try discriminate; eapply Snap; try reflexivity; exact H.
  - eapply Snap; [reflexivity|exact H].
  - destruct e'; try discriminate; eapply Snap; try reflexivity; exact H.
Qed.

(* ---- two more sites that can never fire ---- *)
(* an entry without data is never refused by the uncommitted-size limit *)
Lemma append_entry_empty_data rr e :
  e_data e = [] -> forall r1, append_entry rr [e] <> Ok (r1, false).
Proof.
  intros He r1 H. unfold append_entry, maybe_increase_uncommitted_size in H.
  destruct (r_max_uncommitted_size rr =? u64_max).
  - cbn [negb] in H. inv_bind H. discriminate.
  - assert (Z : data_size [e] = 0) by (unfold data_size; cbn; rewrite He; reflexivity).
    rewrite Z in H. change (0 =? 0) with true in H. cbn [orb negb] in H. inv_bind H. discriminate.
Qed.

Theorem commit_apply_internal_never_autoleave_dropped r app skip :
  commit_apply_internal r app skip <> Panic site_autoleave_dropped.
Proof.
  intros H. apply commit_apply_internal_panics_iff in H.
  destruct H as [[_ H]|[(_ & _ & H)|(_ & l' & _ & [H|(r1 & H & _)])]].
  - apply applied_to_sites_ok in H. vm_compute in H. intuition discriminate.
  - discriminate H.
  - apply append_entry_sites_ok in H. vm_compute in H. intuition discriminate.
  - eapply append_entry_empty_data; [|exact H]. reflexivity.
Qed.

(* "site X is never returned by f": walk every path; a callee whose table does not contain
   the site is dismissed by its table *)
Ltac pnot_leaf :=
  match goal with
  | H : _ = Panic ?s |- False =>
      let L := fresh in
      eassert (L : In s _) by (eauto with sites nocore); vm_compute in L; intuition discriminate
  end.

Ltac pnot_step :=
  match goal with
  | H : Ok _ = Panic _ |- _ => discriminate H
  | H : Panic _ = Panic _ |- False => injection H as H; vm_compute in H; discriminate H
  | H : bind ?a ?f = Panic ?s |- False =>
      apply bind_panic in H; destruct H as [H | (? & ? & H)]; cbv beta in H
  | H : (match ?x with _ => _ end) = Panic ?s |- False => destruct x eqn:?; cbv beta iota in H
  end.

Ltac pnot := repeat (first [ pnot_leaf | pnot_step ]).

(* vote_resp_msg_type is only called on a vote or pre-vote request *)
Theorem step_never_vote_resp_type r m : step r m <> Panic site_vote_resp_type.
Proof.
  intros H. unfold step in H. cbv beta zeta in H. pnot.
  unfold vote_resp_msg_type in H.
  destruct (m_type m =? MsgRequestVote); [discriminate H|].
  destruct (m_type m =? MsgRequestPreVote); [discriminate H|].
  discriminate Heqb0.
Qed.

