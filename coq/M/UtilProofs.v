(* Theorems about M/Util.v: varint/entry sizes and [limit_size]. *)
From RV Require Import Base.Prelude M.Util.

Local Open Scope N_scope.

(* ---------- sizes ---------- *)
Lemma varint_len_bounds : forall v, 1 <= varint_len v <= 10.
Proof.
  intros v. unfold varint_len.
  repeat match goal with |- context [if ?c then _ else _] => destruct c end; lia.
Qed.

Lemma varint_field_size_pos : forall v, v <> 0 -> 2 <= varint_field_size v.
Proof.
  intros v Hv. unfold varint_field_size.
  destruct (v =? 0) eqn:E; [lia|]. pose proof (varint_len_bounds v). lia.
Qed.

(* an entry with a non-zero index occupies at least two bytes *)
Lemma entry_size_pos : forall e, e_index e <> 0 -> 0 < entry_size e.
Proof.
  intros e He. unfold entry_size.
  pose proof (varint_field_size_pos (e_index e) He). lia.
Qed.

(* the all-default entry encodes to nothing *)
Lemma entry_size_default : entry_size (mkEntry 0 0 0 [] []) = 0.
Proof. reflexivity. Qed.

(* ---------- total_size ---------- *)
Section Limit.
  Context {A : Type} (sz : A -> N).

  Lemma total_size_cons : forall e l, total_size sz (e :: l) = sz e + total_size sz l.
  Proof. reflexivity. Qed.

  Lemma total_size_app : forall a b,
      total_size sz (a ++ b) = total_size sz a + total_size sz b.
  Proof.
    induction a as [|e a IH]; intros b; cbn [app].
    - unfold total_size at 2. cbn [fold_right]. lia.
    - rewrite !total_size_cons, IH. lia.
  Qed.

  Lemma limit_count_le : forall l size max, (limit_count sz l size max <= length l)%nat.
  Proof.
    induction l as [|e t IH]; intros size max; cbn [limit_count length]; [lia|].
    destruct (size =? 0) eqn:E0.
    - specialize (IH (size + sz e) max). lia.
    - destruct (size + sz e <=? max) eqn:E1; [|lia].
      specialize (IH (size + sz e) max). lia.
  Qed.

  (* accumulated size already positive: the prefix taken keeps the sum within max *)
  Lemma limit_count_bound : forall l size max,
      0 < size ->
      let k := limit_count sz l size max in
      k = O \/ size + total_size sz (firstn k l) <= max.
  Proof.
    induction l as [|e t IH]; intros size max Hpos; cbn [limit_count].
    - left; reflexivity.
    - destruct (size =? 0) eqn:E0; [lia|].
      destruct (size + sz e <=? max) eqn:E1; [|left; reflexivity].
      right. cbn [firstn]. rewrite total_size_cons.
      destruct (IH (size + sz e) max ltac:(lia)) as [Hk|Hk].
      + rewrite Hk. cbn [firstn]. unfold total_size. cbn [fold_right]. lia.
      + lia.
  Qed.

  (* ... and it is maximal: one more element would exceed max *)
  Lemma limit_count_maximal : forall l size max,
      0 < size ->
      let k := limit_count sz l size max in
      (k < length l)%nat ->
      max < size + total_size sz (firstn (S k) l).
  Proof.
    induction l as [|e t IH]; intros size max Hpos; cbn [limit_count length].
    - intros H; lia.
    - destruct (size =? 0) eqn:E0; [lia|].
      destruct (size + sz e <=? max) eqn:E1.
      + intros Hlt.
        specialize (IH (size + sz e) max ltac:(lia) ltac:(lia)).
        change (firstn (S (S (limit_count sz t (size + sz e) max))) (e :: t))
          with (e :: firstn (S (limit_count sz t (size + sz e) max)) t).
        rewrite total_size_cons. lia.
      + intros _. cbn [firstn]. rewrite total_size_cons.
        unfold total_size. cbn [fold_right]. lia.
  Qed.

  (* zero-size elements are free: they neither count towards max nor as "the
     one element" that is always returned *)
  Lemma limit_count_zero_head : forall e t max,
      sz e = 0 ->
      limit_count sz (e :: t) 0 max = S (limit_count sz t 0 max).
  Proof.
    intros e t max He. cbn [limit_count]. rewrite He.
    replace (0 + 0) with 0 by lia. reflexivity.
  Qed.

  Lemma limit_count_pos_head : forall e t max,
      limit_count sz (e :: t) 0 max = S (limit_count sz t (sz e) max).
  Proof.
    intros e t max. cbn [limit_count].
    replace (0 + sz e) with (sz e) by lia. reflexivity.
  Qed.

  Definition head_pos (l : list A) : Prop :=
    match l with e :: _ => 0 < sz e | [] => True end.

  Lemma limit_size_by_prefix : forall l max,
      exists k, (k <= length l)%nat /\ limit_size_by sz l max = firstn k l.
  Proof.
    intros l max. unfold limit_size_by.
    assert (Hall : exists k, (k <= length l)%nat /\ l = firstn k l).
    { exists (length l). split; [lia|]. symmetry; apply firstn_all. }
    destruct (length l <=? 1)%nat; [exact Hall|].
    destruct max as [m|]; [|exact Hall].
    destruct (m =? NO_LIMIT); [exact Hall|].
    exists (limit_count sz l 0 m). split; [apply limit_count_le|reflexivity].
  Qed.

  Lemma limit_size_by_nonempty : forall l max,
      l <> [] -> limit_size_by sz l max <> [].
  Proof.
    intros l max Hl. unfold limit_size_by.
    destruct (length l <=? 1)%nat; [exact Hl|].
    destruct max as [m|]; [|exact Hl].
    destruct (m =? NO_LIMIT); [exact Hl|].
    destruct l as [|e t]; [congruence|].
    rewrite limit_count_pos_head. cbn [firstn]. discriminate.
  Qed.

  Lemma limit_size_by_unchanged : forall l max,
      max = None \/ max = Some NO_LIMIT \/ (length l <= 1)%nat ->
      limit_size_by sz l max = l.
  Proof.
    intros l max H. unfold limit_size_by.
    destruct (length l <=? 1)%nat eqn:El; [reflexivity|].
    destruct H as [H|[H|H]]; subst; [reflexivity| |lia].
    rewrite N.eqb_refl. reflexivity.
  Qed.

  Lemma limit_size_by_within : forall l m,
      head_pos l ->
      let r := limit_size_by sz l (Some m) in
      m <> NO_LIMIT ->
      total_size sz r <= m \/ length r = 1%nat.
  Proof.
    intros l m Hpos r Hm. subst r. unfold limit_size_by.
    destruct (length l <=? 1)%nat eqn:El.
    - destruct l as [|e [|e' t]]; cbn [length] in *; [|right; reflexivity|lia].
      left. unfold total_size. cbn [fold_right]. lia.
    - destruct (m =? NO_LIMIT) eqn:Em; [lia|].
      destruct l as [|e t]; [cbn in El; lia|].
      cbn [head_pos] in Hpos.
      rewrite limit_count_pos_head. cbn [firstn]. rewrite total_size_cons.
      destruct (limit_count_bound t (sz e) m Hpos) as [Hk|Hk].
      + right. rewrite Hk. reflexivity.
      + left. exact Hk.
  Qed.

  Lemma limit_size_by_maximal : forall l m,
      head_pos l ->
      let r := limit_size_by sz l (Some m) in
      (length r < length l)%nat ->
      m < total_size sz (firstn (S (length r)) l).
  Proof.
    intros l m Hpos r. subst r. unfold limit_size_by.
    destruct (length l <=? 1)%nat eqn:El; [lia|].
    destruct (m =? NO_LIMIT) eqn:Em; [lia|].
    destruct l as [|e t]; [cbn in El; lia|].
    cbn [head_pos] in Hpos.
    rewrite limit_count_pos_head.
    pose proof (limit_count_le t (sz e) m) as Hle.
    rewrite firstn_length. cbn [length].
    rewrite Nat.min_l by lia.
    intros Hlt.
    pose proof (limit_count_maximal t (sz e) m Hpos ltac:(lia)) as Hmax.
    change (firstn (S (S (limit_count sz t (sz e) m))) (e :: t))
      with (e :: firstn (S (limit_count sz t (sz e) m)) t).
    rewrite total_size_cons. exact Hmax.
  Qed.
End Limit.

(* The specification of limit_size: a prefix of the input, non-empty when the
   input is, within [max] unless it is a single entry, maximal (the next entry
   would exceed [max]), and the identity when max is None/NO_LIMIT or there is at
   most one entry.  The size clauses need the first element to have a non-zero
   size (true of every entry with a non-zero index, [entry_size_pos]); without it
   they fail, see [limit_size_zero_size_exceeds]. *)
Theorem limit_size_spec : forall {A} (sz : A -> N) (l : list A) (max : option N),
    let r := limit_size_by sz l max in
    (exists k, (k <= length l)%nat /\ r = firstn k l)
    /\ (l <> [] -> r <> [])
    /\ (max = None \/ max = Some NO_LIMIT \/ (length l <= 1)%nat -> r = l)
    /\ (head_pos sz l ->
        forall m, max = Some m ->
          (m <> NO_LIMIT -> total_size sz r <= m \/ length r = 1%nat)
          /\ ((length r < length l)%nat -> m < total_size sz (firstn (S (length r)) l))).
Proof.
  intros A sz l max r. subst r.
  split; [apply limit_size_by_prefix|].
  split; [apply limit_size_by_nonempty|].
  split; [apply limit_size_by_unchanged|].
  intros Hpos m ->. split.
  - intros Hm. apply limit_size_by_within; assumption.
  - apply limit_size_by_maximal; assumption.
Qed.

(* Counterexample to "within max unless single" without the positivity premise:
   an all-default entry followed by a 5-byte one, max = 1: both are returned. *)
Example limit_size_zero_size_exceeds :
  let e0 := mkEntry 0 0 0 [] [] in
  let e1 := mkEntry 0 1 1 [7] [] in
  limit_size [e0; e1] (Some 1) = [e0; e1]
  /\ total_size entry_size [e0; e1] = 7.
Proof. split; reflexivity. Qed.
