(* Per-step theorems about the node model M/Raft.v. *)
From RV Require Import Base.Prelude Base.IdSet M.Util M.Proto M.MemStorage M.Inflights
  M.Progress M.RaftLog M.Quorum M.ConfChange M.Msg M.Raft.
From RecordUpdate Require Import RecordSet.
Import RecordSetNotations.

Local Open Scope N_scope.

Lemma bind_ok {A B} (a : Res A) (f : A -> Res B) (b : B) :
  bind a f = Ok b -> exists x, a = Ok x /\ f x = Ok b.
Proof. destruct a as [x|s]; cbn; [eauto|discriminate]. Qed.

Ltac inv_bind H :=
  let x := fresh "x" in let Hx := fresh "Hx" in
  apply bind_ok in H; destruct H as (x & Hx & H).

(* term and vote are untouched *)
Definition same_tv (r r' : raft) : Prop := r_term r' = r_term r /\ r_vote r' = r_vote r.

Lemma same_tv_refl r : same_tv r r. Proof. split; reflexivity. Qed.
Lemma same_tv_trans a b c : same_tv a b -> same_tv b c -> same_tv a c.
Proof. unfold same_tv; intuition congruence. Qed.

Lemma send_same_tv r m r' : send r m = Ok r' -> same_tv r r'.
Proof.
  unfold send. intros H. inv_bind H. inversion H; subst. split; reflexivity.
Qed.

Lemma reset_same_term r r' : reset r (r_term r) = Ok r' -> same_tv r r'.
Proof.
  unfold reset. rewrite N.eqb_refl. cbn [negb].
  destruct (r_draws r) as [|d ds]; [discriminate|]. intros H. inversion H; subst.
  split; reflexivity.
Qed.

Lemma become_follower_same_term r l r' :
  become_follower r (r_term r) l = Ok r' -> same_tv r r'.
Proof.
  unfold become_follower. intros H. inv_bind H. inversion H; subst.
  apply reset_same_term in Hx. destruct Hx. split; cbn; assumption.
Qed.

Lemma maybe_commit_by_vote_same_tv r m r' : maybe_commit_by_vote r m = Ok r' -> same_tv r r'.
Proof.
  unfold maybe_commit_by_vote. intros H.
  destruct ((m_commit m =? 0) || (m_commit_term m =? 0)); [inversion H; apply same_tv_refl|].
  destruct ((m_commit m <=? committed (r_log r)) || is_leader r); [inversion H; apply same_tv_refl|].
  inv_bind H. destruct x as [l' b].
  destruct (negb b); [inversion H; split; reflexivity|].
  match type of H with (if ?c then _ else _) = _ => destruct c end;
    [inversion H; split; reflexivity|].
  inv_bind H. destruct x; [|inversion H; split; reflexivity].
  apply become_follower_same_term in H. destruct H as [H1 H2]. split; [exact H1|exact H2].
Qed.

(* ------------------------------------------------------------------ *)
(* C16: handling a pre-vote request never changes the receiver's term or vote *)
Theorem prevote_req_no_change r m r' c :
  m_type m = MsgRequestPreVote -> step r m = Ok (r', c) -> same_tv r r'.
Proof.
  intros Ht H. unfold step in H. rewrite Ht in H.
  change (MsgRequestPreVote =? MsgRequestVote) with false in H.
  change (MsgRequestPreVote =? MsgRequestPreVote) with true in H.
  change (MsgRequestPreVote =? MsgAppend) with false in H.
  change (MsgRequestPreVote =? MsgHeartbeat) with false in H.
  change (MsgRequestPreVote =? MsgSnapshot) with false in H.
  change (MsgRequestPreVote =? MsgHup) with false in H.
  change (MsgRequestPreVote =? MsgRequestPreVoteResponse) with false in H.
  cbn [orb andb negb] in H.
  inv_bind H.
  (* the term-handling prologue yields either an early return or the unchanged state *)
  assert (Hpre : match x with inl (r1, _) => same_tv r r1 | inr r1 => r1 = r end).
  { clear H. destruct (m_term m =? 0); [inversion Hx; reflexivity|].
    destruct (r_term r <? m_term m).
    - match type of Hx with (if ?c then _ else _) = _ => destruct c end;
        inversion Hx; [apply same_tv_refl|reflexivity].
    - destruct (m_term m <? r_term r); [|inversion Hx; reflexivity].
      rewrite andb_false_r in Hx. inv_bind Hx. inversion Hx; subst.
      apply send_same_tv in Hx0. exact Hx0. }
  destruct x as [[r1 c1]|r1].
  - inversion H; subst. exact Hpre.
  - subst r1. cbn [orb] in H.
    inv_bind H. inv_bind H.
    match type of H with (if ?c then _ else _) = _ => destruct c end.
    + inv_bind H. inversion H; subst. apply send_same_tv in Hx2. exact Hx2.
    + inv_bind H. inv_bind H. inv_bind H. inversion H; subst.
      apply send_same_tv in Hx3. apply maybe_commit_by_vote_same_tv in Hx4.
      eapply same_tv_trans; eassumption.
Qed.

(* C16: the lease — while a leader was heard from within election_timeout, a
   higher-term vote or pre-vote request that is not a forced transfer changes
   nothing at all and produces no message *)
Theorem lease_ignores_vote_requests r m :
  (m_type m = MsgRequestVote \/ m_type m = MsgRequestPreVote) ->
  r_term r < m_term m ->
  r_check_quorum r = true -> r_leader_id r <> INVALID_ID ->
  r_election_elapsed r < r_election_timeout r ->
  list_eqb (m_context m) CAMPAIGN_TRANSFER = false ->
  step r m = Ok (r, E_OK).
Proof.
  intros Ht Hterm Hcq Hlead Hel Hctx. unfold step.
  assert (Hz : (m_term m =? 0) = false) by (apply N.eqb_neq; lia).
  rewrite Hz.
  assert (Hlt : (r_term r <? m_term m) = true) by (apply N.ltb_lt; exact Hterm).
  rewrite Hlt, Hcq, Hctx.
  assert (Hl : (r_leader_id r =? INVALID_ID) = false) by (apply N.eqb_neq; exact Hlead).
  rewrite Hl.
  assert (He : (r_election_elapsed r <? r_election_timeout r) = true) by (apply N.ltb_lt; exact Hel).
  rewrite He.
  destruct Ht as [Ht|Ht]; rewrite Ht; reflexivity.
Qed.

(* ------------------------------------------------------------------ *)
(* C03: the election restriction.  A vote or pre-vote is granted only to a
   candidate whose last (term, index) is at least the voter's own. *)

Definition same_msgs (r r' : raft) : Prop := r_msgs r' = r_msgs r.

Lemma send_msgs r m r' : send r m = Ok r' -> exists m', r_msgs r' = r_msgs r ++ [m'] /\
  m_type m' = m_type m /\ m_reject m' = m_reject m /\ m_to m' = m_to m.
Proof.
  unfold send. intros H. inv_bind H. inversion H; subst. cbn.
  eexists. split; [reflexivity|].
  assert (Hx1 : m_type x = m_type m /\ m_reject x = m_reject m /\ m_to x = m_to m).
  { clear H. destruct (is_vote_type _).
    - destruct (m_term _ =? 0); inversion Hx; subst.
      destruct (m_from m =? INVALID_ID); cbn; auto.
    - destruct (negb _); [discriminate|].
      destruct (_ && _); inversion Hx; subst; destruct (m_from m =? INVALID_ID); cbn; auto. }
  destruct Hx1 as (A & B & C0).
  destruct ((m_type x =? MsgRequestVote) || (m_type x =? MsgRequestPreVote));
    [destruct (0 <? r_priority r)%Z|]; cbn; auto.
Qed.

Lemma reset_msgs_log r t r' : reset r t = Ok r' -> r_msgs r' = r_msgs r /\ r_log r' = r_log r.
Proof.
  unfold reset. intros H.
  destruct (negb (r_term r =? t)); cbn in H;
  match type of H with match ?d with _ => _ end = _ => destruct d end;
    try discriminate; inversion H; subst; split; reflexivity.
Qed.

Lemma become_follower_msgs_log r t l r' :
  become_follower r t l = Ok r' ->
  r_msgs r' = r_msgs r /\ r_log r' = set_limit (r_log r) 0.
Proof.
  unfold become_follower. intros H. inv_bind H. inversion H; subst. cbn.
  apply reset_msgs_log in Hx. destruct Hx as [A B]. rewrite A, B. split; reflexivity.
Qed.

Lemma is_up_to_date_set_limit l k i t :
  is_up_to_date (set_limit l k) i t = is_up_to_date l i t.
Proof. reflexivity. Qed.

Lemma maybe_commit_by_vote_msgs r m r' : maybe_commit_by_vote r m = Ok r' -> r_msgs r' = r_msgs r.
Proof.
  unfold maybe_commit_by_vote. intros H.
  destruct ((m_commit m =? 0) || (m_commit_term m =? 0)); [inversion H; reflexivity|].
  destruct ((m_commit m <=? committed (r_log r)) || is_leader r); [inversion H; reflexivity|].
  inv_bind H. destruct x as [l' b].
  destruct (negb b); [inversion H; reflexivity|].
  match type of H with (if ?c then _ else _) = _ => destruct c end; [inversion H; reflexivity|].
  inv_bind H. destruct x; [|inversion H; reflexivity].
  apply become_follower_msgs_log in H. destruct H as [A _]. rewrite A. reflexivity.
Qed.

Definition is_vote_resp (x : msg) : bool :=
  (m_type x =? MsgRequestVoteResponse) || (m_type x =? MsgRequestPreVoteResponse).

Theorem vote_grant_restricted r m r' c :
  (m_type m = MsgRequestVote \/ m_type m = MsgRequestPreVote) ->
  step r m = Ok (r', c) ->
  exists new, r_msgs r' = r_msgs r ++ new /\
    forall x, In x new -> is_vote_resp x = true -> m_reject x = false ->
      is_up_to_date (r_log r) (m_index m) (m_log_term m) = Ok true /\
      ((last_index (r_log r) <? m_index m) || (r_priority r <=? get_priority m)%Z) = true.
Proof.
  intros Ht H. unfold step in H.
  inv_bind H.
  (* prologue: early return sends at most a rejection; otherwise log (up to the limit),
     priority and msgs are those of r *)
  assert (Hpre : match x with
                 | inl (r1, _) => exists new, r_msgs r1 = r_msgs r ++ new /\
                                   forall y, In y new -> is_vote_resp y = true -> m_reject y = true
                 | inr r1 => r_msgs r1 = r_msgs r /\ r_priority r1 = r_priority r /\
                             (r_log r1 = r_log r \/ r_log r1 = set_limit (r_log r) 0)
                 end).
  { clear H. destruct (m_term m =? 0); [inversion Hx; auto|].
    destruct (r_term r <? m_term m).
    - match type of Hx with (if ?c then _ else _) = _ => destruct c end.
      { inversion Hx. exists []. rewrite app_nil_r. split; [reflexivity|]. intros y [] . }
      match type of Hx with (if ?c then _ else _) = _ => destruct c end; [inversion Hx; auto|].
      match type of Hx with (if ?c then _ else _) = _ => destruct c end;
        inv_bind Hx; inversion Hx; subst;
        pose proof (become_follower_msgs_log _ _ _ _ Hx0) as [A B];
        (split; [exact A|split; [|right; exact B]]);
        unfold become_follower in Hx0; inv_bind Hx0; inversion Hx0; subst; cbn;
        unfold reset in Hx1;
        destruct (negb (r_term r =? m_term m)); cbn in Hx1;
        match type of Hx1 with match ?d with _ => _ end = _ => destruct d end;
        try discriminate; inversion Hx1; reflexivity.
    - destruct (m_term m <? r_term r); [|inversion Hx; auto].
      match type of Hx with (if ?c then _ else _) = _ => destruct c end.
      + inv_bind Hx. inversion Hx; subst. apply send_msgs in Hx0.
        destruct Hx0 as (m' & A & B & _). exists [m']. split; [exact A|].
        intros y [<-|[]] Hy. unfold is_vote_resp in Hy. rewrite B in Hy. cbn in Hy. discriminate.
      + match type of Hx with (if ?c then _ else _) = _ => destruct c end.
        * inv_bind Hx. inversion Hx; subst. apply send_msgs in Hx0.
          destruct Hx0 as (m' & A & _ & B & _). exists [m']. split; [exact A|].
          intros y [<-|[]] _. rewrite B. reflexivity.
        * inversion Hx. exists []. rewrite app_nil_r. split; [reflexivity|]. intros y []. }
  destruct x as [[r1 c1]|r1].
  - inversion H; subst. destruct Hpre as (new & A & B). exists new. split; [exact A|].
    intros y Hy Hv Hr. specialize (B y Hy Hv). congruence.
  - destruct Hpre as (Hm & Hp & Hl).
    assert (Hhup : (m_type m =? MsgHup) = false) by (destruct Ht as [E|E]; rewrite E; reflexivity).
    rewrite Hhup in H.
    assert (Hv : ((m_type m =? MsgRequestVote) || (m_type m =? MsgRequestPreVote)) = true)
      by (destruct Ht as [E|E]; rewrite E; reflexivity).
    rewrite Hv in H.
    inv_bind H. inv_bind H.
    assert (Hutd : is_up_to_date (r_log r) (m_index m) (m_log_term m) = Ok x).
    { destruct Hl as [E|E]; rewrite E in Hx0; [exact Hx0|].
      rewrite is_up_to_date_set_limit in Hx0. exact Hx0. }
    assert (Hli : last_index (r_log r1) = last_index (r_log r))
      by (destruct Hl as [E|E]; rewrite E; reflexivity).
    match type of H with (if ?c then _ else _) = _ => destruct c eqn:Hc end.
    + inv_bind H.
      apply andb_prop in Hc. destruct Hc as [Hc Hprio]. apply andb_prop in Hc. destruct Hc as [_ Hu].
      subst x.
      apply send_msgs in Hx2. destruct Hx2 as (m' & A & _).
      exists [m']. split.
      { destruct (m_type m =? MsgRequestVote); inversion H; subst; cbn; rewrite A, Hm; reflexivity. }
      intros y _ _ _. split; [exact Hutd|]. rewrite <- Hli, <- Hp. exact Hprio.
    + inv_bind H. inv_bind H. inv_bind H. inversion H; subst.
      apply send_msgs in Hx3. destruct Hx3 as (m' & A & _ & B & _).
      apply maybe_commit_by_vote_msgs in Hx4.
      exists [m']. split; [rewrite Hx4, A, Hm; reflexivity|].
      intros y [<-|[]] _ Hr. rewrite B in Hr. cbn in Hr. discriminate.
Qed.
