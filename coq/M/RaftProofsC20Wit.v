(* C20, part 4: KNOWN REACHABLE PANICS.  Concrete small states of the node model on
   which a library call returns [Panic site] although the caller follows the
   Ready/advance contract and every message is one a library peer can produce.
   Each witness is checked by computation ([vm_compute]); where it is cheap the
   offending state is itself PRODUCED by model API calls from an ordinary state, so
   that the witness is a schedule and not only a state.  These theorems are used to
   adjudicate fixes in the real code: after a fix in /repo the corresponding model
   function changes and the witness stops being provable. *)
From RV Require Import Base.Prelude Base.IdSet M.Util M.Proto M.MemStorage M.Inflights
  M.Progress M.RaftLog M.Quorum M.ConfChange M.Msg M.Raft M.RawNode.
From RecordUpdate Require Import RecordSet.
Import RecordSetNotations.

Local Open Scope N_scope.

Module C20W.

Definition k_cs3 : conf_state := mkCS [1; 2; 3] [] [] [] false.
Definition k_conf3 : conf := mkConf [1; 2; 3] [] [] [] false.
Definition k_ent (t i : N) : entry := mkEntry EntryNormal t i [] [].
Definition k_fresh_pr (next : N) : progress := set_recent_active (pr_new next 4) true.
Definition k_rep (m nx : N) (infl : inflights) : progress :=
  mkPr m nx Replicate false 0 0 true infl 0 0.
Definition k_infl (l : list N) : inflights := mkInf 0 (length l) l 4 None true.

(* ------------------------------------------------------------------ *)
(* (i) F9: a node that has never seen a term (term 0), pre-vote on, priority 5,
   receives a pre-vote request of term 1 from member 2 whose priority is lower: the
   request is REJECTED, the rejection carries term = self.term = 0, and [send]
   fatals "term should be set when sending MsgRequestPreVoteResponse". *)
Definition k_fresh_log : raft_log :=
  mkLog (mkMem hs_default k_cs3 [] 0 0 false false None) (u_new 1) 0 0 0 0.
Definition k_fresh : raft :=
  mkRaft 0 0 1 [] k_fresh_log 4 u64_max 0 Follower true 0 None 0 (ro_new 0) 0 0 false true false
         false false 1 10 15 10 20 5%Z u64_max 0 0 u64_max
         (mkTr [(1, k_fresh_pr 1); (2, k_fresh_pr 1); (3, k_fresh_pr 1)] k_conf3 [] 4 false)
         [] [12; 13; 14] None.
Definition k_prevote : msg :=
  msg_default <| m_type := MsgRequestPreVote |> <| m_to := 1 |> <| m_from := 2 |> <| m_term := 1 |>
    <| m_priority := 1%Z |>.

(* ------------------------------------------------------------------ *)
(* (ii) a leader removes ITSELF by a simple conf change (entry 3, committed, being
   applied) while entry 4 is still in flight: store 1..4, entry 4 written but its
   persistence not yet reported (persisted = 3), follower 3 has acknowledged 4,
   follower 2 has it in flight. *)
Definition k_store4 : MemStorage.mem :=
  mkMem (mkHS 2 1 3) k_cs3
        [k_ent 1 1; k_ent 1 2; mkEntry EntryConfChangeV2 2 3 [9] []; k_ent 2 4] 0 0
        false false None.
Definition k_leader : raft :=
  mkRaft 2 1 1 [] (mkLog k_store4 (u_new 5) 3 3 2 0) 4 u64_max 0 Leader true 1 None 3 (ro_new 0)
         0 0 false false false false false 1 10 15 10 20 0%Z u64_max 0 2 u64_max
         (mkTr [(1, k_rep 3 5 (Inflights.new 4)); (2, k_rep 3 5 (k_infl [4]));
                (3, k_rep 4 5 (Inflights.new 4))] k_conf3 [] 4 false)
         [] [12; 13; 14] None.
Definition k_remove_self : ccv2 := mkV2 Auto [(RemoveNode, 1)].
(* the state after the application applied the removal *)
Definition k_self_removed : raft :=
  match raft_apply_conf_change k_leader k_remove_self with Ok (r, _) => r | Panic _ => k_leader end.
(* follower 2 acknowledges entry 4 *)
Definition k_ack4 : msg :=
  msg_default <| m_type := MsgAppendResponse |> <| m_to := 1 |> <| m_from := 2 |> <| m_term := 2 |>
    <| m_index := 4 |> <| m_commit := 3 |>.

(* ------------------------------------------------------------------ *)
(* (iii) F7: single voter.  It was leader of term 1 with entry 3 handed to the
   application by an asynchronous Ready (advance_append_async: the entry has left
   [unstable], the store has it, persisted is still 2).  A vote request of term 5 from
   an unknown node 9 is accepted by RawNode::step (requests are not filtered) and
   makes it a follower of term 5.  Its election timeout then fires: it wins its own
   election inside [hup] and [become_leader] asserts last_index = persisted. *)
Definition k_cs1 : conf_state := mkCS [1] [] [] [] false.
Definition k_solo_log : raft_log :=
  mkLog (mkMem (mkHS 1 1 2) k_cs1 [k_ent 1 1; k_ent 1 2; k_ent 1 3] 0 0 false false None)
        (u_new 4) 2 2 2 0.
Definition k_solo_leader : raft :=
  mkRaft 1 1 1 [] k_solo_log 4 u64_max 0 Leader true 1 None 0 (ro_new 0) 0 0 false false false
         false false 1 10 15 10 20 0%Z u64_max 0 2 u64_max
         (mkTr [(1, k_rep 2 4 (Inflights.new 4))] (mkConf [1] [] [] [] false) [] 4 false)
         [] [12; 13; 14] None.
Definition k_solo_node : rawnode := mkRN k_solo_leader (mkSS 1 Leader) (mkHS 1 1 2) 3 [] 2.
Definition k_vote9 : msg :=
  msg_default <| m_type := MsgRequestVote |> <| m_to := 1 |> <| m_from := 9 |> <| m_term := 5 |>
    <| m_index := 2 |> <| m_log_term := 1 |>.
Fixpoint ticks (k : nat) (n : rawnode) : Res rawnode :=
  match k with O => Ok n | S k' => x <- rn_tick n ;; ticks k' (fst x) end.

(* ------------------------------------------------------------------ *)
(* (iv) F8: a quiet leader (everything persisted, committed and applied; no Ready
   pending) whose application sets max_apply_unpersisted_log_limit = u64::MAX
   ("no limit"). *)
Definition k_store3 : MemStorage.mem :=
  mkMem (mkHS 2 1 3) k_cs3 [k_ent 1 1; k_ent 1 2; k_ent 2 3] 0 0 false false None.
Definition k_quiet_leader : raft :=
  mkRaft 2 1 1 [] (mkLog k_store3 (u_new 4) 3 3 3 0) 4 u64_max 0 Leader true 1 None 0 (ro_new 0)
         0 0 false false false false false 1 10 15 10 20 0%Z u64_max 0 2 u64_max
         (mkTr [(1, k_rep 3 4 (Inflights.new 4)); (2, k_rep 3 4 (Inflights.new 4));
                (3, k_rep 3 4 (Inflights.new 4))] k_conf3 [] 4 false)
         [] [12; 13; 14] None.
Definition k_quiet_node : rawnode := mkRN k_quiet_leader (mkSS 1 Leader) (mkHS 2 1 3) 7 [] 3.
Definition k_limit_node : rawnode :=
  k_quiet_node <| rn_raft := set_max_apply_unpersisted_log_limit k_quiet_leader u64_max |>.

(* ------------------------------------------------------------------ *)
(* (v) batching.  Leader of term 2 with batch_append, log 1..3, commit 1.  Follower 2
   is in Replicate with matched = 1 and entries 2, 3 in flight (next = 4).
   Schedule: a heartbeat response from 2 (matched < last_index) makes the leader queue
   an EMPTY MsgAppend(index 3); before the next Ready a rejection of the in-flight
   append at index 2 arrives (messages reordered), next falls back to 2 and the
   re-sent entries [2; 3] are MERGED into the queued empty message, because
   is_continuous_ents answers true for a message without entries. *)
Definition k_batch_leader : raft :=
  mkRaft 2 1 1 [] (mkLog k_store3 (u_new 4) 1 3 1 0) 4 u64_max 0 Leader true 1 None 0 (ro_new 0)
         0 0 false false false true false 1 10 15 10 20 0%Z u64_max 0 2 u64_max
         (mkTr [(1, k_rep 3 4 (Inflights.new 4)); (2, k_rep 1 4 (k_infl [2; 3]));
                (3, k_rep 1 4 (k_infl [2; 3]))] k_conf3 [] 4 false)
         [] [12; 13; 14] None.
Definition k_hb_resp : msg :=
  msg_default <| m_type := MsgHeartbeatResponse |> <| m_to := 1 |> <| m_from := 2 |>
    <| m_term := 2 |> <| m_commit := 1 |>.
Definition k_reject2 : msg :=
  msg_default <| m_type := MsgAppendResponse |> <| m_to := 1 |> <| m_from := 2 |> <| m_term := 2 |>
    <| m_index := 2 |> <| m_reject := true |> <| m_reject_hint := 1 |> <| m_log_term := 1 |>
    <| m_commit := 1 |>.
Definition k_after_hb : raft :=
  match step k_batch_leader k_hb_resp with Ok (r, _) => r | Panic _ => k_batch_leader end.
Definition k_after_reject : raft :=
  match step k_after_hb k_reject2 with Ok (r, _) => r | Panic _ => k_after_hb end.
(* the non-contiguous message *)
Definition k_bad_append : msg :=
  match r_msgs k_after_reject with m :: _ => m | [] => msg_default end.
(* the progress of 2 just before the re-send: Probe, next = 2 *)
Definition k_pr2_probe : progress :=
  mkPr 1 2 Probe false 0 0 true (Inflights.reset (k_infl [2; 3])) 0 1.
(* a follower 2 of the same term that holds exactly the leader's entries 1..3 *)
Definition k_follower2 : raft :=
  mkRaft 2 1 2 [] (mkLog k_store3 (u_new 4) 1 3 1 0) 4 u64_max 0 Follower true 1 None 0 (ro_new 0)
         0 0 false false false true false 1 10 15 10 20 0%Z u64_max 0 2 u64_max
         (mkTr [(1, k_rep 0 4 (Inflights.new 4)); (2, k_rep 0 4 (Inflights.new 4));
                (3, k_rep 0 4 (Inflights.new 4))] k_conf3 [] 4 false)
         [] [12; 13; 14] None.

End C20W.
Import C20W.

(* ================================================================== *)
(* (i) *)
Theorem known_prevote_term0_witness :
  exists r m,
    r_term r = 0 /\ r_state r = Follower /\ r_pre_vote r = true /\
    m_type m = MsgRequestPreVote /\ m_term m = 1 /\
    (exists p, get_pr r (m_from m) = Some p) /\          (* sent by a member *)
    (get_priority m < r_priority r)%Z /\                 (* rejected: lower priority *)
    step r m = Panic site_send_vote_term0 /\
    forall n, rn_raft n = r -> rn_step n m = Panic site_send_vote_term0.
Proof.
  exists k_fresh, k_prevote. repeat split; try (vm_compute; reflexivity).
  - eexists. vm_compute. reflexivity.
  - intros n Hn. unfold rn_step. rewrite Hn.
    change (is_local_msg (m_type k_prevote)) with false. cbv iota.
    change (is_response_msg (m_type k_prevote)) with false.
    rewrite orb_true_r.
    assert (E : step k_fresh k_prevote = Panic site_send_vote_term0) by (vm_compute; reflexivity).
    rewrite E. reflexivity.
Qed.

(* ================================================================== *)
(* (ii) *)
Theorem known_self_removed_leader_commit_witness :
  exists r cc r1 cs m,
    r_state r = Leader /\ (exists p, get_pr r (r_id r) = Some p) /\
    raft_apply_conf_change r cc = Ok (r1, Some cs) /\    (* the leader applies its own removal *)
    r_state r1 = Leader /\ get_pr r1 (r_id r1) = None /\
    m_type m = MsgAppendResponse /\ m_reject m = false /\ m_term m = r_term r1 /\
    (exists p, get_pr r1 (m_from m) = Some p) /\         (* from a remaining member *)
    m_index m <= last_index (r_log r1) /\                (* acknowledging an existing entry *)
    step r1 m = Panic site_self_progress /\
    forall n, rn_raft n = r1 -> rn_step n m = Panic site_self_progress.
Proof.
  exists k_leader, k_remove_self, k_self_removed.
  eexists. exists k_ack4.
  split; [reflexivity|]. split; [eexists; vm_compute; reflexivity|].
  split; [vm_compute; reflexivity|].
  split; [vm_compute; reflexivity|]. split; [vm_compute; reflexivity|].
  split; [reflexivity|]. split; [reflexivity|]. split; [vm_compute; reflexivity|].
  split; [eexists; vm_compute; reflexivity|].
  split; [vm_compute; discriminate|].
  assert (E : step k_self_removed k_ack4 = Panic site_self_progress) by (vm_compute; reflexivity).
  split; [exact E|].
  intros n Hn. unfold rn_step. rewrite Hn.
  change (is_local_msg (m_type k_ack4)) with false. cbv iota.
  assert (G : exists p, get_pr k_self_removed (m_from k_ack4) = Some p)
    by (eexists; vm_compute; reflexivity).
  destruct G as [p G]. rewrite G. cbn [orb]. rewrite E. reflexivity.
Qed.

Theorem known_self_removed_leader_persist_witness :
  exists r cc r1 cs i t,
    r_state r = Leader /\ (exists p, get_pr r (r_id r) = Some p) /\
    raft_apply_conf_change r cc = Ok (r1, Some cs) /\
    r_state r1 = Leader /\ get_pr r1 (r_id r1) = None /\
    persisted (r_log r1) < i /\ i <= last_index (r_log r1) /\   (* a written, not yet reported entry *)
    RaftLog.term (r_log r1) i = Ok (SOk t) /\
    on_persist_entries r1 i t = Panic site_self_progress.
Proof.
  exists k_leader, k_remove_self, k_self_removed.
  eexists. exists 4, 2.
  split; [reflexivity|]. split; [eexists; vm_compute; reflexivity|].
  split; [vm_compute; reflexivity|].
  split; [vm_compute; reflexivity|]. split; [vm_compute; reflexivity|].
  split; [vm_compute; reflexivity|]. split; [vm_compute; discriminate|].
  split; vm_compute; reflexivity.
Qed.

(* ================================================================== *)
(* (iii) *)
Theorem known_leader_unpersisted_tail_witness :
  exists n m n1 n2,
    r_state (rn_raft n) = Leader /\
    voter_ids (conf_of (rn_raft n)) = [r_id (rn_raft n)] /\      (* single voter *)
    persisted (r_log (rn_raft n)) < last_index (r_log (rn_raft n)) /\  (* async-written tail *)
    u_entries (unst (r_log (rn_raft n))) = [] /\
    m_type m = MsgRequestVote /\ r_term (rn_raft n) < m_term m /\
    rn_step n m = Ok (n1, E_OK) /\                    (* accepted: steps down to term 5 *)
    r_state (rn_raft n1) = Follower /\ r_term (rn_raft n1) = m_term m /\
    ticks 11 n1 = Ok n2 /\ r_state (rn_raft n2) = Follower /\
    rn_tick n2 = Panic site_leader_persisted /\
    tick (rn_raft n2) = Panic site_leader_persisted.
Proof.
  exists k_solo_node, k_vote9. eexists. eexists.
  split; [reflexivity|]. split; [vm_compute; reflexivity|].
  split; [vm_compute; reflexivity|]. split; [reflexivity|].
  split; [reflexivity|]. split; [vm_compute; reflexivity|].
  split; [vm_compute; reflexivity|].
  split; [reflexivity|]. split; [reflexivity|].
  split; [vm_compute; reflexivity|].
  split; [reflexivity|]. split; vm_compute; reflexivity.
Qed.

(* ================================================================== *)
(* (iv) *)
Theorem known_apply_limit_overflow_witness :
  exists n n1,
    r_state (rn_raft n) = Leader /\ rn_has_ready n = Ok false /\
    1 <= persisted (r_log (rn_raft n)) /\
    n1 = n <| rn_raft := set_max_apply_unpersisted_log_limit (rn_raft n) u64_max |> /\
    rn_has_ready n1 = Panic site_l_overflow /\
    (exists l, rn_ready n1 = Panic site_l_overflow /\ l = r_log (rn_raft n1) /\
       next_entries_since l (rn_commit_since_index n1) None = Panic site_l_overflow /\
       has_next_entries_since l (rn_commit_since_index n1) = Panic site_l_overflow).
Proof.
  exists k_quiet_node, k_limit_node.
  split; [reflexivity|]. split; [vm_compute; reflexivity|].
  split; [vm_compute; discriminate|]. split; [reflexivity|].
  split; [vm_compute; reflexivity|].
  eexists. split; [vm_compute; reflexivity|]. split; [reflexivity|].
  split; vm_compute; reflexivity.
Qed.

(* ================================================================== *)
(* (v) *)
Definition first_entry_index (m : msg) : N :=
  match m_entries m with e :: _ => e_index e | [] => 0 end.

(* the function-level statement: maybe_send_append yields a non-contiguous MsgAppend *)
Theorem known_batch_noncontiguous_witness :
  exists r to pr r' pr' m,
    r_state r = Leader /\ r_batch_append r = true /\
    pr_state pr = Probe /\ next_idx pr = matched pr + 1 /\ is_paused pr = false /\
    (* the only queued message is an EMPTY MsgAppend to the same peer *)
    (exists q, r_msgs r = [q] /\ m_type q = MsgAppend /\ m_to q = to /\ m_entries q = []) /\
    maybe_send_append r to pr true = Ok (r', pr', true) /\
    r_msgs r' = [m] /\ m_type m = MsgAppend /\ m_to m = to /\ m_entries m <> [] /\
    m_index m + 1 <> first_entry_index m.
Proof.
  exists (put_pr k_after_hb 2 k_pr2_probe), 2, k_pr2_probe.
  eexists. eexists. eexists.
  split; [vm_compute; reflexivity|]. split; [vm_compute; reflexivity|].
  split; [reflexivity|]. split; [vm_compute; reflexivity|]. split; [reflexivity|].
  split. { eexists. split; [vm_compute; reflexivity|]. repeat split. }
  split; [vm_compute; reflexivity|].
  split; [reflexivity|]. split; [reflexivity|]. split; [reflexivity|].
  split; vm_compute; discriminate.
Qed.

(* the same as a schedule of two [step] calls on an ordinary leader, and its effect on a
   follower that holds exactly the leader's log: the follower ACCEPTS the message and
   acknowledges index m_index + |entries| = 5, beyond its (and the leader's) last
   index 3; the leader then records matched = 5 for it. *)
Theorem known_batch_noncontiguous_schedule_witness :
  exists r hb rj r1 r2 m f f' ack r3,
    r_state r = Leader /\ r_batch_append r = true /\ r_msgs r = [] /\
    m_type hb = MsgHeartbeatResponse /\ m_type rj = MsgAppendResponse /\ m_reject rj = true /\
    step r hb = Ok (r1, E_OK) /\ step r1 rj = Ok (r2, E_OK) /\
    r_msgs r2 = [m] /\ m_type m = MsgAppend /\ m_index m = 3 /\
    map e_index (m_entries m) = [2; 3] /\
    (* follower side *)
    r_state f = Follower /\ r_log f = r_log r /\ last_index (r_log f) = 3 /\
    step f m = Ok (f', E_OK) /\ r_msgs f' = [ack] /\
    m_type ack = MsgAppendResponse /\ m_reject ack = false /\ m_index ack = 5 /\
    last_index (r_log f') = 3 /\
    (* leader side *)
    step r2 (ack <| m_from := 2 |>) = Ok (r3, E_OK) /\
    option_map matched (get_pr r3 2) = Some 5 /\ last_index (r_log r3) = 3.
Proof.
  exists k_batch_leader, k_hb_resp, k_reject2, k_after_hb, k_after_reject, k_bad_append,
         k_follower2.
  eexists. eexists. eexists.
  split; [reflexivity|]. split; [reflexivity|]. split; [reflexivity|].
  split; [reflexivity|]. split; [reflexivity|]. split; [reflexivity|].
  split; [vm_compute; reflexivity|]. split; [vm_compute; reflexivity|].
  split; [vm_compute; reflexivity|]. split; [vm_compute; reflexivity|].
  split; [vm_compute; reflexivity|]. split; [vm_compute; reflexivity|].
  split; [reflexivity|]. split; [reflexivity|]. split; [vm_compute; reflexivity|].
  split; [vm_compute; reflexivity|]. split; [reflexivity|].
  split; [reflexivity|]. split; [reflexivity|]. split; [reflexivity|].
  split; [vm_compute; reflexivity|].
  split; [vm_compute; reflexivity|].
  split; vm_compute; reflexivity.
Qed.
