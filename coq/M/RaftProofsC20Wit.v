(* C20, part 4: KNOWN REACHABLE PANICS and REGRESSION GUARDS.  Concrete small states of the
   node model on which a library call returns [Panic site] although the caller follows the
   Ready/advance contract and every message is one a library peer can produce
   ((i) term-0 pre-vote reject: OPEN).  (ii) self-removed leader, (iii) unpersisted tail,
   (iv) apply-limit overflow, (v) non-contiguous batching and (vi) campaign on a removed
   node were fixed in /repo (e9967b2, 19c179c, 63caa76, cc6f146, 8deb47c) while this file was written:
   their witnesses are now guards stating that the same calls in the same states return
   Ok, plus the general theorems behind the fixes.
   Each witness is checked by computation ([vm_compute]); where it is cheap the
   offending state is itself PRODUCED by model API calls from an ordinary state, so
   that the witness is a schedule and not only a state.  These theorems are used to
   adjudicate fixes in the real code: after a fix in /repo the corresponding model
   function changes and the witness stops being provable. *)
From RV Require Import Base.Prelude Base.IdSet M.Util M.Proto M.MemStorage M.Inflights
  M.Progress M.RaftLog M.Quorum M.ConfChange M.Msg M.Raft M.RawNode.
From RecordUpdate Require Import RecordSet.
Import RecordSetNotations.

Local Open Scope N_scope.

Module C20W.

Definition k_cs3 : conf_state := mkCS [1; 2; 3] [] [] [] false.
Definition k_conf3 : conf := mkConf [1; 2; 3] [] [] [] false.
Definition k_ent (t i : N) : entry := mkEntry EntryNormal t i [] [].
Definition k_fresh_pr (next : N) : progress := set_recent_active (pr_new next 4) true.
Definition k_rep (m nx : N) (infl : inflights) : progress :=
  mkPr m nx Replicate false 0 0 true infl 0 0.
Definition k_infl (l : list N) : inflights := mkInf 0 (length l) l 4 None true.

(* ------------------------------------------------------------------ *)
(* (i) F9: a node that has never seen a term (term 0), pre-vote on, priority 5,
   receives a pre-vote request of term 1 from member 2 whose priority is lower: the
   request is REJECTED, the rejection carries term = self.term = 0, and [send]
   fatals "term should be set when sending MsgRequestPreVoteResponse". *)
Definition k_fresh_log : raft_log :=
  mkLog (mkMem hs_default k_cs3 [] 0 0 false false None) (u_new 1) 0 0 0 0.
Definition k_fresh : raft :=
  mkRaft 0 0 1 [] k_fresh_log 4 u64_max 0 Follower true 0 None 0 (ro_new 0) 0 0 false true false
         false false 1 10 15 10 20 5%Z u64_max 0 0 u64_max
         (mkTr [(1, k_fresh_pr 1); (2, k_fresh_pr 1); (3, k_fresh_pr 1)] k_conf3 [] 4 false)
         [] [12; 13; 14] None.
Definition k_prevote : msg :=
  msg_default <| m_type := MsgRequestPreVote |> <| m_to := 1 |> <| m_from := 2 |> <| m_term := 1 |>
    <| m_priority := 1%Z |>.

(* ------------------------------------------------------------------ *)
(* (ii) a leader removes ITSELF by a simple conf change (entry 3, committed, being
   applied) while entry 4 is still in flight: store 1..4, entry 4 written but its
   persistence not yet reported (persisted = 3), follower 3 has acknowledged 4,
   follower 2 has it in flight. *)
Definition k_store4 : MemStorage.mem :=
  mkMem (mkHS 2 1 3) k_cs3
        [k_ent 1 1; k_ent 1 2; mkEntry EntryConfChangeV2 2 3 [9] []; k_ent 2 4] 0 0
        false false None.
Definition k_leader : raft :=
  mkRaft 2 1 1 [] (mkLog k_store4 (u_new 5) 3 3 2 0) 4 u64_max 0 Leader true 1 None 3 (ro_new 0)
         0 0 false false false false false 1 10 15 10 20 0%Z u64_max 0 2 u64_max
         (mkTr [(1, k_rep 3 5 (Inflights.new 4)); (2, k_rep 3 5 (k_infl [4]));
                (3, k_rep 4 5 (Inflights.new 4))] k_conf3 [] 4 false)
         [] [12; 13; 14] None.
Definition k_remove_self : ccv2 := mkV2 Auto [(RemoveNode, 1)].
(* the state after the application applied the removal *)
Definition k_self_removed : raft :=
  match raft_apply_conf_change k_leader k_remove_self with Ok (r, _) => r | Panic _ => k_leader end.
(* follower 2 acknowledges entry 4 *)
Definition k_ack4 : msg :=
  msg_default <| m_type := MsgAppendResponse |> <| m_to := 1 |> <| m_from := 2 |> <| m_term := 2 |>
    <| m_index := 4 |> <| m_commit := 3 |>.

(* ------------------------------------------------------------------ *)
(* (iii) F7: single voter.  It was leader of term 1 with entry 3 handed to the
   application by an asynchronous Ready (advance_append_async: the entry has left
   [unstable], the store has it, persisted is still 2).  A vote request of term 5 from
   an unknown node 9 is accepted by RawNode::step (requests are not filtered) and
   makes it a follower of term 5.  Its election timeout then fires: it wins its own
   election inside [hup] and [become_leader] asserts last_index = persisted. *)
Definition k_cs1 : conf_state := mkCS [1] [] [] [] false.
Definition k_solo_log : raft_log :=
  mkLog (mkMem (mkHS 1 1 2) k_cs1 [k_ent 1 1; k_ent 1 2; k_ent 1 3] 0 0 false false None)
        (u_new 4) 2 2 2 0.
Definition k_solo_leader : raft :=
  mkRaft 1 1 1 [] k_solo_log 4 u64_max 0 Leader true 1 None 0 (ro_new 0) 0 0 false false false
         false false 1 10 15 10 20 0%Z u64_max 0 2 u64_max
         (mkTr [(1, k_rep 2 4 (Inflights.new 4))] (mkConf [1] [] [] [] false) [] 4 false)
         [] [12; 13; 14] None.
Definition k_solo_node : rawnode := mkRN k_solo_leader (mkSS 1 Leader) (mkHS 1 1 2) 3 [] 2.
Definition k_vote9 : msg :=
  msg_default <| m_type := MsgRequestVote |> <| m_to := 1 |> <| m_from := 9 |> <| m_term := 5 |>
    <| m_index := 2 |> <| m_log_term := 1 |>.
Fixpoint ticks (k : nat) (n : rawnode) : Res rawnode :=
  match k with O => Ok n | S k' => x <- rn_tick n ;; ticks k' (fst x) end.

(* ------------------------------------------------------------------ *)
(* (iv) F8: a quiet leader (everything persisted, committed and applied; no Ready
   pending) whose application sets max_apply_unpersisted_log_limit = u64::MAX
   ("no limit"). *)
Definition k_store3 : MemStorage.mem :=
  mkMem (mkHS 2 1 3) k_cs3 [k_ent 1 1; k_ent 1 2; k_ent 2 3] 0 0 false false None.
Definition k_quiet_leader : raft :=
  mkRaft 2 1 1 [] (mkLog k_store3 (u_new 4) 3 3 3 0) 4 u64_max 0 Leader true 1 None 0 (ro_new 0)
         0 0 false false false false false 1 10 15 10 20 0%Z u64_max 0 2 u64_max
         (mkTr [(1, k_rep 3 4 (Inflights.new 4)); (2, k_rep 3 4 (Inflights.new 4));
                (3, k_rep 3 4 (Inflights.new 4))] k_conf3 [] 4 false)
         [] [12; 13; 14] None.
Definition k_quiet_node : rawnode := mkRN k_quiet_leader (mkSS 1 Leader) (mkHS 2 1 3) 7 [] 3.
Definition k_limit_node : rawnode :=
  k_quiet_node <| rn_raft := set_max_apply_unpersisted_log_limit k_quiet_leader u64_max |>.

(* ------------------------------------------------------------------ *)
(* (v) batching.  Leader of term 2 with batch_append, log 1..3, commit 1.  Follower 2
   is in Replicate with matched = 1 and entries 2, 3 in flight (next = 4).
   Schedule: a heartbeat response from 2 (matched < last_index) makes the leader queue
   an EMPTY MsgAppend(index 3); before the next Ready a rejection of the in-flight
   append at index 2 arrives (messages reordered), next falls back to 2 and the
   re-sent entries [2; 3] WERE merged into the queued empty message, because
   is_continuous_ents answered true for a message without entries (fixed, cc6f146). *)
Definition k_batch_leader : raft :=
  mkRaft 2 1 1 [] (mkLog k_store3 (u_new 4) 1 3 1 0) 4 u64_max 0 Leader true 1 None 0 (ro_new 0)
         0 0 false false false true false 1 10 15 10 20 0%Z u64_max 0 2 u64_max
         (mkTr [(1, k_rep 3 4 (Inflights.new 4)); (2, k_rep 1 4 (k_infl [2; 3]));
                (3, k_rep 1 4 (k_infl [2; 3]))] k_conf3 [] 4 false)
         [] [12; 13; 14] None.
Definition k_hb_resp : msg :=
  msg_default <| m_type := MsgHeartbeatResponse |> <| m_to := 1 |> <| m_from := 2 |>
    <| m_term := 2 |> <| m_commit := 1 |>.
Definition k_reject2 : msg :=
  msg_default <| m_type := MsgAppendResponse |> <| m_to := 1 |> <| m_from := 2 |> <| m_term := 2 |>
    <| m_index := 2 |> <| m_reject := true |> <| m_reject_hint := 1 |> <| m_log_term := 1 |>
    <| m_commit := 1 |>.
Definition k_after_hb : raft :=
  match step k_batch_leader k_hb_resp with Ok (r, _) => r | Panic _ => k_batch_leader end.
Definition k_after_reject : raft :=
  match step k_after_hb k_reject2 with Ok (r, _) => r | Panic _ => k_after_hb end.
(* the progress of 2 just before the re-send: Probe, next = 2 *)
Definition k_pr2_probe : progress :=
  mkPr 1 2 Probe false 0 0 true (Inflights.reset (k_infl [2; 3])) 0 1.
(* a follower 2 of the same term that holds exactly the leader's entries 1..3 *)
Definition k_follower2 : raft :=
  mkRaft 2 1 2 [] (mkLog k_store3 (u_new 4) 1 3 1 0) 4 u64_max 0 Follower true 1 None 0 (ro_new 0)
         0 0 false false false true false 1 10 15 10 20 0%Z u64_max 0 2 u64_max
         (mkTr [(1, k_rep 0 4 (Inflights.new 4)); (2, k_rep 0 4 (Inflights.new 4));
                (3, k_rep 0 4 (Inflights.new 4))] k_conf3 [] 4 false)
         [] [12; 13; 14] None.

(* ------------------------------------------------------------------ *)
(* (vi) a node that has been REMOVED from the group (it applied its own removal: it is
   neither in the configuration {2,3} nor in its progress map, promotable = false) whose
   application calls RawNode::campaign().  Raft::step grants votes without a membership
   check, so the two remaining voters answer; on the second grant the node wins and
   become_leader unwraps its own Progress. *)
Definition k_removed : raft :=
  mkRaft 2 2 1 [] (mkLog k_store3 (u_new 4) 3 3 3 0) 4 u64_max 0 Follower false 2 None 0 (ro_new 0)
         0 0 false false false false false 1 10 15 10 20 0%Z u64_max 0 0 u64_max
         (mkTr [(2, k_fresh_pr 4); (3, k_fresh_pr 4)] (mkConf [2; 3] [] [] [] false) [] 4 false)
         [] [12; 13; 14] None.
Definition k_removed_node : rawnode := mkRN k_removed (mkSS 2 Follower) (mkHS 2 2 3) 7 [] 3.
Definition k_grant (from : N) : msg :=
  msg_default <| m_type := MsgRequestVoteResponse |> <| m_to := 1 |> <| m_from := from |>
    <| m_term := 3 |>.

End C20W.
Import C20W.

(* ================================================================== *)
(* (i) *)
Theorem known_prevote_term0_witness :
  exists r m,
    r_term r = 0 /\ r_state r = Follower /\ r_pre_vote r = true /\
    m_type m = MsgRequestPreVote /\ m_term m = 1 /\
    (exists p, get_pr r (m_from m) = Some p) /\          (* sent by a member *)
    (get_priority m < r_priority r)%Z /\                 (* rejected: lower priority *)
    step r m = Panic site_send_vote_term0 /\
    forall n, rn_raft n = r -> rn_step n m = Panic site_send_vote_term0.
Proof.
  exists k_fresh, k_prevote. repeat split; try (vm_compute; reflexivity).
  - eexists. vm_compute. reflexivity.
  - intros n Hn. unfold rn_step. rewrite Hn.
    change (is_local_msg (m_type k_prevote)) with false. cbv iota.
    change (is_response_msg (m_type k_prevote)) with false.
    rewrite orb_true_r.
    assert (E : step k_fresh k_prevote = Panic site_send_vote_term0) by (vm_compute; reflexivity).
    rewrite E. reflexivity.
Qed.

(* ================================================================== *)
(* (ii) FIXED in /repo e9967b2 (maybe_commit / on_persist_entries no longer unwrap the
   leader's own Progress).  REGRESSION GUARDS: in exactly the former witness states the
   calls now return Ok.  Before the fix both returned [Panic site_self_progress]. *)
Theorem fixed_self_removed_leader_commit_guard :
  exists r cc r1 cs m r2,
    r_state r = Leader /\ (exists p, get_pr r (r_id r) = Some p) /\
    raft_apply_conf_change r cc = Ok (r1, Some cs) /\    (* the leader applies its own removal *)
    r_state r1 = Leader /\ get_pr r1 (r_id r1) = None /\
    m_type m = MsgAppendResponse /\ m_reject m = false /\ m_term m = r_term r1 /\
    (exists p, get_pr r1 (m_from m) = Some p) /\         (* from a remaining member *)
    m_index m <= last_index (r_log r1) /\                (* acknowledging an existing entry *)
    committed (r_log r1) = 3 /\
    step r1 m = Ok (r2, E_OK) /\
    committed (r_log r2) = 4 /\ r_state r2 = Leader /\ get_pr r2 (r_id r2) = None /\
    map (fun x => (m_type x, m_to x, m_commit x)) (r_msgs r2) = [(MsgAppend, 2, 4); (MsgAppend, 3, 4)] /\
    forall n, rn_raft n = r1 -> rn_step n m = Ok (n <| rn_raft := r2 |>, E_OK).
Proof.
  exists k_leader, k_remove_self, k_self_removed.
  eexists. exists k_ack4. eexists.
  split; [reflexivity|]. split; [eexists; vm_compute; reflexivity|].
  split; [vm_compute; reflexivity|].
  split; [vm_compute; reflexivity|]. split; [vm_compute; reflexivity|].
  split; [reflexivity|]. split; [reflexivity|]. split; [vm_compute; reflexivity|].
  split; [eexists; vm_compute; reflexivity|].
  split; [vm_compute; discriminate|].
  split; [vm_compute; reflexivity|].
  match goal with |- ?A /\ _ => assert (E : A) by (vm_compute; reflexivity) end.
  split; [exact E|].
  split; [reflexivity|]. split; [reflexivity|]. split; [vm_compute; reflexivity|].
  split; [reflexivity|].
  intros n Hn. unfold rn_step. rewrite Hn.
  change (is_local_msg (m_type k_ack4)) with false. cbv iota.
  assert (G : exists p, get_pr k_self_removed (m_from k_ack4) = Some p)
    by (eexists; vm_compute; reflexivity).
  destruct G as [p G]. rewrite G. cbn [orb]. rewrite E. reflexivity.
Qed.

Theorem fixed_self_removed_leader_persist_guard :
  exists r cc r1 cs i t r2,
    r_state r = Leader /\ (exists p, get_pr r (r_id r) = Some p) /\
    raft_apply_conf_change r cc = Ok (r1, Some cs) /\
    r_state r1 = Leader /\ get_pr r1 (r_id r1) = None /\
    persisted (r_log r1) < i /\ i <= last_index (r_log r1) /\   (* a written, not yet reported entry *)
    RaftLog.term (r_log r1) i = Ok (SOk t) /\
    on_persist_entries r1 i t = Ok r2 /\
    persisted (r_log r2) = i /\ r2 = r1 <| r_log := set_persisted (r_log r1) i |>.
Proof.
  exists k_leader, k_remove_self, k_self_removed.
  eexists. exists 4, 2. eexists.
  split; [reflexivity|]. split; [eexists; vm_compute; reflexivity|].
  split; [vm_compute; reflexivity|].
  split; [vm_compute; reflexivity|]. split; [vm_compute; reflexivity|].
  split; [vm_compute; reflexivity|]. split; [vm_compute; discriminate|].
  split; [vm_compute; reflexivity|].
  split; [vm_compute; reflexivity|].
  split; vm_compute; reflexivity.
Qed.

(* the general statements behind the guards *)
Theorem maybe_commit_self_removed r :
  get_pr r (r_id r) = None ->
  maybe_commit r =
    (x <- RaftLog.maybe_commit (r_log r) (fst (prs_maximal_committed_index (r_prs r))) (r_term r) ;;
     Ok (r <| r_log := fst x |>, snd x)).
Proof.
  intros G. unfold maybe_commit.
  destruct (RaftLog.maybe_commit _ _ _) as [[l' b]|s]; cbn [bind]; [|reflexivity].
  destruct b; [rewrite G|]; reflexivity.
Qed.

Theorem on_persist_entries_self_removed r i t :
  get_pr r (r_id r) = None ->
  on_persist_entries r i t = (x <- maybe_persist (r_log r) i t ;; Ok (r <| r_log := fst x |>)).
Proof.
  intros G. unfold on_persist_entries.
  destruct (maybe_persist _ _ _) as [[l' b]|s]; cbn [bind]; [|reflexivity].
  destruct (b && is_leader _); [|reflexivity].
  change (get_pr (r <| r_log := l' |>) (r_id (r <| r_log := l' |>))) with (get_pr r (r_id r)).
  rewrite G. reflexivity.
Qed.

(* ================================================================== *)
(* (iii) F7, FIXED in /repo 19c179c (become_leader no longer asserts last_index =
   persisted).  REGRESSION GUARD: in the former witness schedule the election timeout now
   makes the single voter leader of term 6 with its unpersisted tail; nothing beyond the
   persisted index is committed.  Before the fix rn_tick returned
   [Panic site_leader_persisted]. *)
Theorem fixed_leader_unpersisted_tail_guard :
  exists n m n1 n2 n3,
    r_state (rn_raft n) = Leader /\
    voter_ids (conf_of (rn_raft n)) = [r_id (rn_raft n)] /\      (* single voter *)
    persisted (r_log (rn_raft n)) < last_index (r_log (rn_raft n)) /\  (* async-written tail *)
    u_entries (unst (r_log (rn_raft n))) = [] /\
    m_type m = MsgRequestVote /\ r_term (rn_raft n) < m_term m /\
    rn_step n m = Ok (n1, E_OK) /\                    (* accepted: steps down to term 5 *)
    r_state (rn_raft n1) = Follower /\ r_term (rn_raft n1) = m_term m /\
    ticks 11 n1 = Ok n2 /\ r_state (rn_raft n2) = Follower /\
    rn_tick n2 = Ok (n3, true) /\
    r_state (rn_raft n3) = Leader /\ r_term (rn_raft n3) = 6 /\
    last_index (r_log (rn_raft n3)) = 4 /\ persisted (r_log (rn_raft n3)) = 2 /\
    committed (r_log (rn_raft n3)) = 2.
Proof.
  exists k_solo_node, k_vote9. eexists. eexists. eexists.
  split; [reflexivity|]. split; [vm_compute; reflexivity|].
  split; [vm_compute; reflexivity|]. split; [reflexivity|].
  split; [reflexivity|]. split; [vm_compute; reflexivity|].
  split; [vm_compute; reflexivity|].
  split; [reflexivity|]. split; [reflexivity|].
  split; [vm_compute; reflexivity|].
  split; [reflexivity|]. split; [vm_compute; reflexivity|].
  split; [reflexivity|]. split; [reflexivity|].
  split; [vm_compute; reflexivity|]. split; reflexivity.
Qed.

(* ================================================================== *)
(* (iv) FIXED in /repo 63caa76 (applied_index_upper_bound saturates).  REGRESSION GUARD:
   in the former witness state has_ready / ready now answer.  Before the fix both
   returned [Panic site_l_overflow]. *)
Theorem fixed_apply_limit_overflow_guard :
  exists n n1,
    r_state (rn_raft n) = Leader /\ rn_has_ready n = Ok false /\
    1 <= persisted (r_log (rn_raft n)) /\
    n1 = n <| rn_raft := set_max_apply_unpersisted_log_limit (rn_raft n) u64_max |> /\
    rn_has_ready n1 = Ok false /\
    (exists n2 rd, rn_ready n1 = Ok (n2, rd) /\ lr_committed_entries (rd_light rd) = [] /\
       rd_entries rd = [] /\ rd_hs rd = None) /\
    next_entries_since (r_log (rn_raft n1)) (rn_commit_since_index n1) None = Ok None /\
    has_next_entries_since (r_log (rn_raft n1)) (rn_commit_since_index n1) = Ok false.
Proof.
  exists k_quiet_node, k_limit_node.
  split; [reflexivity|]. split; [vm_compute; reflexivity|].
  split; [vm_compute; discriminate|]. split; [reflexivity|].
  split; [vm_compute; reflexivity|].
  split. { eexists. eexists. split; [vm_compute; reflexivity|]. repeat split. }
  split; vm_compute; reflexivity.
Qed.

Theorem applied_index_upper_bound_total l :
  applied_index_upper_bound l
  = Ok (N.min (committed l) (N.min u64_max (persisted l + max_apply_unpersisted_log_limit l))).
Proof. reflexivity. Qed.

(* ================================================================== *)
(* (v) FIXED in /repo cc6f146 (is_continuous_ents anchors an empty message at its index). *)
Definition first_entry_index (m : msg) : N :=
  match m_entries m with e :: _ => e_index e | [] => 0 end.

(* the index after which entries merged into [m] must start *)
Definition batch_anchor (m : msg) : N :=
  match m_entries m with
  | [] => m_index m
  | _ => e_index (List.last (m_entries m) entry_default)
  end.

(* GENERAL THEOREM: whenever try_batching merges a non-empty [ents] into a queued message
   [m] (the first queued MsgAppend to [to]), the entries start right after [m]'s anchor;
   nothing else in the queue changes. *)
Theorem try_batching_contiguous r to msgs : forall pr ents msgs' pr',
  ents <> [] ->
  try_batching r to msgs pr ents = Ok (msgs', pr', true) ->
  exists pre m post,
    msgs = pre ++ m :: post /\
    msgs' = pre ++ (m <| m_entries := m_entries m ++ ents |> <| m_commit := committed (r_log r) |>)
                   :: post /\
    m_type m = MsgAppend /\ m_to m = to /\
    (forall q, In q pre -> (m_type q =? MsgAppend) && (m_to q =? to) = false) /\
    e_index (hd entry_default ents) = batch_anchor m + 1.
Proof.
  induction msgs as [|m rest IH]; intros pr ents msgs' pr' Hne H; cbn [try_batching] in H.
  - discriminate.
  - destruct ((m_type m =? MsgAppend) && (m_to m =? to)) eqn:Hm.
    + destruct ents as [|e0 et]; [congruence|].
      destruct (negb (is_continuous_ents m (e0 :: et))) eqn:Hc; [discriminate|].
      destruct (update_state pr _) as [pr1|s]; cbn [bind] in H; [|discriminate].
      injection H as <- <-.
      exists [], m, rest. apply andb_prop in Hm. destruct Hm as [Ht Hto].
      apply N.eqb_eq in Ht. apply N.eqb_eq in Hto.
      split; [reflexivity|]. split; [reflexivity|]. split; [exact Ht|]. split; [exact Hto|].
      split; [intros q []|].
      apply negb_false_iff in Hc. unfold is_continuous_ents in Hc. apply N.eqb_eq in Hc.
      unfold batch_anchor. cbn [hd]. symmetry. exact Hc.
    + destruct (try_batching r to rest pr ents) as [[[rest' pr1] b]|s] eqn:E; cbn [bind] in H;
        [|discriminate].
      injection H as <- <- ->.
      destruct (IH _ _ _ _ Hne E) as (pre & m0 & post & E1 & E2 & Ht & Hto & Hpre & Hc).
      exists (m :: pre), m0, post. subst rest rest'.
      split; [reflexivity|]. split; [reflexivity|]. split; [exact Ht|]. split; [exact Hto|].
      split; [|exact Hc].
      intros q [<-|Hq]; [exact Hm|apply Hpre; exact Hq].
Qed.

(* REGRESSION GUARD, function level: in the former witness state (queue = one EMPTY
   MsgAppend(index 3) to peer 2, progress of 2 = Probe with next = 2) the entries [2; 3]
   are no longer merged: a second, contiguous MsgAppend(index 1) is queued.  Before the
   fix the result was the single message MsgAppend(index 3, entries [2; 3]). *)
Theorem fixed_batch_noncontiguous_guard :
  exists r to pr r' pr' q m,
    r_state r = Leader /\ r_batch_append r = true /\
    pr_state pr = Probe /\ next_idx pr = matched pr + 1 /\ is_paused pr = false /\
    r_msgs r = [q] /\ m_type q = MsgAppend /\ m_to q = to /\ m_entries q = [] /\ m_index q = 3 /\
    maybe_send_append r to pr true = Ok (r', pr', true) /\
    r_msgs r' = [q; m] /\ m_type m = MsgAppend /\ m_to m = to /\
    map e_index (m_entries m) = [2; 3] /\ m_index m = 1 /\
    m_index m + 1 = first_entry_index m.
Proof.
  exists (put_pr k_after_hb 2 k_pr2_probe), 2, k_pr2_probe.
  eexists. eexists. eexists. eexists.
  split; [vm_compute; reflexivity|]. split; [vm_compute; reflexivity|].
  split; [reflexivity|]. split; [vm_compute; reflexivity|]. split; [reflexivity|].
  split; [vm_compute; reflexivity|].
  split; [reflexivity|]. split; [reflexivity|]. split; [reflexivity|]. split; [reflexivity|].
  split; [vm_compute; reflexivity|].
  split; [reflexivity|]. split; [reflexivity|]. split; [reflexivity|].
  split; [reflexivity|]. split; reflexivity.
Qed.

(* REGRESSION GUARD, schedule level: heartbeat response, then the reordered rejection.
   The leader now holds two well-formed messages; a follower holding exactly the
   leader's entries 1..3 acknowledges index 3 (= 1 + 2), not 5. *)
Theorem fixed_batch_noncontiguous_schedule_guard :
  exists r hb rj r1 r2 q m f f' ack,
    r_state r = Leader /\ r_batch_append r = true /\ r_msgs r = [] /\
    m_type hb = MsgHeartbeatResponse /\ m_type rj = MsgAppendResponse /\ m_reject rj = true /\
    step r hb = Ok (r1, E_OK) /\ step r1 rj = Ok (r2, E_OK) /\
    r_msgs r2 = [q; m] /\
    m_type q = MsgAppend /\ m_index q = 3 /\ m_entries q = [] /\
    m_type m = MsgAppend /\ m_index m = 1 /\ map e_index (m_entries m) = [2; 3] /\
    (* follower side *)
    r_state f = Follower /\ r_log f = r_log r /\ last_index (r_log f) = 3 /\
    step f m = Ok (f', E_OK) /\ r_msgs f' = [ack] /\
    m_type ack = MsgAppendResponse /\ m_reject ack = false /\ m_index ack = 3 /\
    last_index (r_log f') = 3.
Proof.
  exists k_batch_leader, k_hb_resp, k_reject2, k_after_hb, k_after_reject.
  eexists. eexists. exists k_follower2. eexists. eexists.
  split; [reflexivity|]. split; [reflexivity|]. split; [reflexivity|].
  split; [reflexivity|]. split; [reflexivity|]. split; [reflexivity|].
  split; [vm_compute; reflexivity|]. split; [vm_compute; reflexivity|].
  split; [vm_compute; reflexivity|].
  split; [reflexivity|]. split; [reflexivity|]. split; [reflexivity|].
  split; [reflexivity|]. split; [reflexivity|]. split; [reflexivity|].
  split; [reflexivity|]. split; [reflexivity|]. split; [vm_compute; reflexivity|].
  split; [vm_compute; reflexivity|]. split; [reflexivity|].
  split; [reflexivity|]. split; [reflexivity|]. split; [reflexivity|].
  vm_compute; reflexivity.
Qed.

(* ================================================================== *)
(* (vi) found by this work, FIXED in /repo 8deb47c (hup returns at once on a node that is
   not promotable).  REGRESSION GUARD: campaign() on the removed node is a no-op.  Before
   the fix the node became candidate, the two remaining voters granted, and the second
   grant returned [Panic site_self_progress] from become_leader. *)
Theorem fixed_removed_node_campaign_guard :
  exists n,
    get_pr (rn_raft n) (r_id (rn_raft n)) = None /\               (* not tracked: removed *)
    voters_contains (conf_of (rn_raft n)) (r_id (rn_raft n)) = false /\
    r_promotable (rn_raft n) = false /\ r_state (rn_raft n) = Follower /\
    rn_campaign n = Ok (n, E_OK).
Proof.
  exists k_removed_node.
  split; [vm_compute; reflexivity|]. split; [vm_compute; reflexivity|].
  split; [reflexivity|]. split; [reflexivity|]. vm_compute. reflexivity.
Qed.

(* the general statement behind the guard *)
Theorem hup_not_promotable r tl : r_promotable r = false -> hup r tl = Ok r.
Proof. intros H. unfold hup. destruct (is_leader r); [reflexivity|]. rewrite H. reflexivity. Qed.
