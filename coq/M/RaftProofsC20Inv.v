(* C20, part 3: NodeInv (node-local consistency) and the node-LOCAL panic sites it excludes.
   NodeInv r :=  every tracked Progress has a well-formed Inflights window
                 (InflightsProofs.Inv) and next_idx >= 1,
             /\  the ReadOnly queue and pending map agree (RoInv).
   [safe P x] is the combined statement "if x = Ok a then P a, and if x = Panic s then s is
   not a node-local site"; one lemma per model function gives preservation of NodeInv
   and absence of the local sites at once. *)
From RV Require Import Base.Prelude Base.IdSet M.Util M.Proto M.MemStorage M.Inflights
  M.InflightsProofs M.Progress M.RaftLog M.Quorum M.ConfChange M.Msg M.Raft M.RawNode
  M.RaftProofs M.RaftProofsC20 M.RaftProofsC20Iff.
From RecordUpdate Require Import RecordSet.
Import RecordSetNotations.

Local Open Scope N_scope.

(* ================================================================== *)
(* the invariant *)
Definition pr_ok (p : progress) : Prop := InflightsProofs.Inv (ins p) /\ 1 <= next_idx p.

Definition PrsOk (m : list (N * progress)) : Prop := forall id p, pget m id = Some p -> pr_ok p.

Definition RoInv (ro : read_only) : Prop := ro_queue ro = map fst (ro_pending ro).

Definition NodeInv (r : raft) : Prop := PrsOk (t_progress (r_prs r)) /\ RoInv (r_read_only r).

(* the node-local sites *)
Definition inflights_sites : list N :=
  [site_add_full; site_add_dbg_count; site_add_dbg_start; site_add_dbg_incoming; site_add_next;
   site_setcap_dbg_len; site_setcap_slice; site_free_index; site_first_index; site_count_underflow].
Definition local_sites : list N :=
  inflights_sites ++ [site_update_state_snapshot; site_next_idx_underflow; site_ro_missing; site_pr_unwrap].

Definition safe {A} (P : A -> Prop) (x : Res A) : Prop :=
  match x with Ok a => P a | Panic s => ~ In s local_sites end.

Lemma safe_ok {A} (P : A -> Prop) a : P a -> safe P (Ok a).
Proof. exact (fun H => H). Qed.

Lemma notin_b (s : N) L : existsb (N.eqb s) L = false -> ~ In s L.
Proof.
  intros H Hin. assert (X : existsb (N.eqb s) L = true).
  { apply existsb_exists. exists s. split; [exact Hin|apply N.eqb_refl]. }
  congruence.
Qed.

Lemma safe_panic {A} (P : A -> Prop) s : existsb (N.eqb s) local_sites = false -> safe P (Panic s).
Proof. apply notin_b. Qed.

Lemma safe_bind {A B} (Q : A -> Prop) (P : B -> Prop) (a : Res A) (f : A -> Res B) :
  safe Q a -> (forall x, a = Ok x -> Q x -> safe P (f x)) -> safe P (bind a f).
Proof. destruct a as [x|s]; cbn; [intros Hq Hf; apply Hf; auto|auto]. Qed.

Lemma safe_mono {A} (Q P : A -> Prop) (x : Res A) :
  safe Q x -> (forall a, x = Ok a -> Q a -> P a) -> safe P x.
Proof. destruct x; cbn; auto. Qed.

Definition disj (A B : list N) : bool := forallb (fun x => negb (existsb (N.eqb x) B)) A.

Lemma disj_notin A B s : disj A B = true -> In s A -> ~ In s B.
Proof.
  intros H Ha. unfold disj in H. rewrite forallb_forall in H. specialize (H s Ha).
  apply negb_true_iff in H. apply notin_b. exact H.
Qed.

(* a call whose site table is disjoint from the local sites *)
Lemma safe_from_sites {A} (x : Res A) (L : list N) :
  (forall s, x = Panic s -> In s L) -> disj L local_sites = true -> safe (fun _ => True) x.
Proof.
  intros Hs Hd. destruct x as [a|s]; unfold safe; [exact I|].
  eapply disj_notin; [exact Hd|]. apply Hs. reflexivity.
Qed.

Lemma safe_panic_inv {A} (P : A -> Prop) x s : safe P x -> x = Panic s -> ~ In s local_sites.
Proof. intros H ->. exact H. Qed.
Lemma safe_ok_inv {A} (P : A -> Prop) x a : safe P x -> x = Ok a -> P a.
Proof. intros H ->. exact H. Qed.

(* ================================================================== *)
(* Inflights / Progress *)
Lemma refines_ok s o : refines_step s o -> exists s', Inflights.step s o = Ok s' /\ Inv s'.
Proof. intros (s' & A & B & _). eauto. Qed.

Lemma inf_reset_inv s : Inv s -> Inv (Inflights.reset s).
Proof. intros H. destruct (refines_ok _ _ (reset_refines s H)) as (s' & A & B). cbn in A. congruence. Qed.
Lemma inf_maybe_free_inv s : Inv s -> Inv (Inflights.maybe_free_buffer s).
Proof. intros H. destruct (refines_ok _ _ (maybe_free_refines s H)) as (s' & A & B). cbn in A. congruence. Qed.
Lemma inf_add_ok s x : Inv s -> Inflights.full s = false -> exists s', Inflights.add s x = Ok s' /\ Inv s'.
Proof. intros H F. exact (refines_ok _ _ (add_refines s x H F)). Qed.
Lemma inf_free_to_ok s x : Inv s -> exists s', Inflights.free_to s x = Ok s' /\ Inv s'.
Proof. intros H. exact (refines_ok _ _ (free_to_refines s x H)). Qed.
Lemma inf_free_first_ok s : Inv s -> exists s', Inflights.free_first_one s = Ok s' /\ Inv s'.
Proof. intros H. exact (refines_ok _ _ (free_first_refines s H)). Qed.
Lemma inf_set_cap_ok s c : Inv s -> exists s', Inflights.set_cap s c = Ok s' /\ Inv s'.
Proof. intros H. exact (refines_ok _ _ (set_cap_refines s c H)). Qed.

Lemma pr_ok_new n mi : 1 <= n -> pr_ok (pr_new n mi).
Proof. intros H. split; [apply Inv_new|exact H]. Qed.
Lemma pr_ok_set_recent_active p b : pr_ok p -> pr_ok (set_recent_active p b).
Proof. exact (fun H => H). Qed.
Lemma pr_ok_reset p n : pr_ok p -> 1 <= n -> pr_ok (pr_reset p n).
Proof. intros [A _] H. split; [apply inf_reset_inv; exact A|exact H]. Qed.
Lemma pr_ok_become_probe p : pr_ok p -> pr_ok (become_probe p).
Proof.
  intros [A _]. unfold become_probe. destruct (pr_state p); (split; [apply inf_reset_inv; exact A|cbn; lia]).
Qed.
Lemma pr_ok_become_replicate p : pr_ok p -> pr_ok (become_replicate p).
Proof. intros [A _]. split; [apply inf_reset_inv; exact A|cbn; lia]. Qed.
Lemma pr_ok_become_snapshot p i : pr_ok p -> pr_ok (become_snapshot p i).
Proof. intros [A B]. split; [apply inf_reset_inv; exact A|exact B]. Qed.
Lemma pr_ok_maybe_update p n : pr_ok p -> pr_ok (fst (maybe_update p n)).
Proof.
  intros [A B]. unfold maybe_update. cbn [fst].
  destruct (matched p <? n); cbn;
    match goal with |- pr_ok (if ?c then _ else _) => destruct c eqn:? end; split; cbn in *; auto; lia.
Qed.
Lemma pr_ok_update_committed p c : pr_ok p -> pr_ok (update_committed p c).
Proof. intros H. unfold update_committed. destruct (_ <? _); exact H. Qed.
Lemma pr_ok_maybe_decr_to p a b c : pr_ok p -> pr_ok (fst (maybe_decr_to p a b c)).
Proof.
  intros [A B]. unfold maybe_decr_to.
  repeat match goal with |- context [if ?c then _ else _] => destruct c eqn:? end; cbn; split; cbn in *; auto; lia.
Qed.
Lemma pr_ok_misc p :
  pr_ok p -> pr_ok (resume p) /\ pr_ok (pause p) /\ pr_ok (snapshot_failure p) /\
  (forall v, pr_ok (set_pending_request_snapshot p v)) /\ (forall v, pr_ok (set_commit_group_id p v)) /\
  (forall v, pr_ok (set_committed_index p v)) /\ (forall v, pr_ok (set_matched p v)).
Proof.
  intros H. repeat match goal with |- _ /\ _ => split | |- forall _, _ => intro end; exact H.
Qed.
Lemma pr_ok_set_ins p i : pr_ok p -> Inv i -> pr_ok (set_ins p i).
Proof. intros [_ B] A. split; assumption. Qed.

Lemma update_state_ok p last :
  pr_ok p -> is_paused p = false -> exists p', update_state p last = Ok p' /\ pr_ok p'.
Proof.
  intros [A B] Hp. unfold update_state, is_paused in *. destruct (pr_state p).
  - eexists. split; [reflexivity|]. split; assumption.
  - destruct (inf_add_ok (ins p) last A Hp) as (i & E & Hi). rewrite E. cbn [bind].
    eexists. split; [reflexivity|]. split; [exact Hi|cbn; lia].
  - discriminate.
Qed.

(* ================================================================== *)
(* progress maps (no sortedness is needed) *)
Lemma pget_pput_same m id p : pget (pput m id p) id = Some p.
Proof.
  induction m as [|[k q] t IH]; cbn [pput pget].
  - rewrite N.eqb_refl. reflexivity.
  - destruct (id <? k) eqn:E1; cbn [pget].
    + rewrite N.eqb_refl. reflexivity.
    + destruct (id =? k) eqn:E2; cbn [pget].
      * rewrite N.eqb_refl. reflexivity.
      * rewrite N.eqb_sym, E2. exact IH.
Qed.

Lemma pget_pput_other m id p id' : id' <> id -> pget (pput m id p) id' = pget m id'.
Proof.
  intros Hne. induction m as [|[k q] t IH]; cbn [pput pget].
  - destruct (id =? id') eqn:E; [apply N.eqb_eq in E; congruence|reflexivity].
  - destruct (id <? k) eqn:E1; cbn [pget].
    + destruct (id =? id') eqn:E; [apply N.eqb_eq in E; congruence|reflexivity].
    + destruct (id =? k) eqn:E2; cbn [pget].
      * apply N.eqb_eq in E2. subst k.
        destruct (id =? id') eqn:E; [apply N.eqb_eq in E; congruence|reflexivity].
      * destruct (k =? id'); [reflexivity|exact IH].
Qed.

Lemma PrsOk_pput m id p : PrsOk m -> pr_ok p -> PrsOk (pput m id p).
Proof.
  intros H Hp id' p' G. destruct (N.eq_dec id' id) as [->|Hne].
  - rewrite pget_pput_same in G. injection G as <-. exact Hp.
  - rewrite pget_pput_other in G by exact Hne. eapply H; exact G.
Qed.

Lemma pget_pdel m id id' p : pget (pdel m id) id' = Some p -> pget m id' = Some p.
Proof.
  induction m as [|[k q] t IH]; cbn [pdel pget]; [discriminate|].
  destruct (k =? id) eqn:E1.
  - intros G. specialize (IH G). destruct (k =? id') eqn:E2; [|exact IH].
    apply N.eqb_eq in E1, E2. subst.
    exfalso. clear IH. induction t as [|[k q'] t IH]; cbn in G; [discriminate|].
    destruct (k =? id') eqn:E; [apply IH; exact G|].
    cbn in G. rewrite E in G. apply IH. exact G.
  - cbn [pget]. destruct (k =? id'); [auto|exact IH].
Qed.

Lemma PrsOk_pdel m id : PrsOk m -> PrsOk (pdel m id).
Proof. intros H id' p G. apply pget_pdel in G. eapply H; exact G. Qed.

Lemma PrsOk_apply_changes chs : forall m n mi, 1 <= n -> PrsOk m -> PrsOk (apply_changes m chs n mi).
Proof.
  induction chs as [|[id [|]] rest IH]; intros m n mi Hn H; cbn [apply_changes]; [exact H| |].
  - apply IH; [exact Hn|]. apply PrsOk_pput; [exact H|]. apply pr_ok_new. exact Hn.
  - apply IH; [exact Hn|]. apply PrsOk_pdel. exact H.
Qed.

Lemma PrsOk_fresh ids n mi : 1 <= n -> PrsOk (fresh_progress ids n mi).
Proof.
  intros Hn id p G. unfold fresh_progress in G.
  induction ids as [|k t IH]; cbn in G; [discriminate|].
  destruct (k =? id); [injection G as <-; apply pr_ok_new; exact Hn|apply IH; exact G].
Qed.

Lemma PrsOk_map (f : N -> progress -> progress) m :
  (forall k p, pr_ok p -> pr_ok (f k p)) -> PrsOk m ->
  PrsOk (map (fun kp => (fst kp, f (fst kp) (snd kp))) m).
Proof.
  intros Hf H id p G. rewrite pget_map in G.
  destruct (pget m id) as [q|] eqn:E; [|discriminate]. injection G as <-. apply Hf. eapply H; exact E.
Qed.

Lemma pget_in_pids m id : In id (pids m) -> exists p, pget m id = Some p.
Proof.
  induction m as [|[k q] t IH]; cbn; [intros []|].
  intros [->|H]; [rewrite N.eqb_refl; eauto|].
  destruct (k =? id); [eauto|apply IH; exact H].
Qed.

(* ================================================================== *)
(* ReadOnly *)
Lemma list_eqb_refl l : list_eqb l l = true.
Proof. induction l as [|x t IH]; cbn; [reflexivity|]. rewrite N.eqb_refl. exact IH. Qed.

Lemma ro_find_in p x : In x (map fst p) -> exists v, ro_find p x = Some v.
Proof.
  induction p as [|[k v] t IH]; cbn; [intros []|].
  intros [->|H]; [rewrite list_eqb_refl; eauto|].
  destruct (list_eqb k x); [eauto|apply IH; exact H].
Qed.

Lemma ro_update_keys p ctx v : map fst (ro_update p ctx v) = map fst p.
Proof.
  induction p as [|[k w] t IH]; cbn; [reflexivity|].
  destruct (list_eqb k ctx); cbn; [reflexivity|]. rewrite IH. reflexivity.
Qed.

Lemma RoInv_new o : RoInv (ro_new o).
Proof. reflexivity. Qed.

Lemma ro_add_request_inv ro i req id ro' :
  RoInv ro -> ro_add_request ro i req id = Ok ro' -> RoInv ro'.
Proof.
  unfold ro_add_request, RoInv. intros H E. inv_bind E.
  destruct (ro_find (ro_pending ro) x); injection E as <-; [exact H|].
  cbn. rewrite map_app, H. reflexivity.
Qed.

Lemma ro_recv_ack_inv ro id ctx : RoInv ro -> RoInv (fst (ro_recv_ack ro id ctx)).
Proof.
  unfold ro_recv_ack, RoInv. intros H. destruct (ro_find (ro_pending ro) ctx); cbn; [|exact H].
  rewrite ro_update_keys. exact H.
Qed.

Lemma ro_position_ok ro q : forall ctx i,
  incl q (map fst (ro_pending ro)) ->
  exists o, ro_position ro q ctx i = Ok o /\
            match o with Some j => (i <= j < i + length q)%nat | None => True end.
Proof.
  induction q as [|x t IH]; intros ctx i Hin; cbn [ro_position].
  - exists None. auto.
  - destruct (ro_find_in (ro_pending ro) x (Hin x (or_introl eq_refl))) as [v ->].
    destruct (list_eqb x ctx).
    + exists (Some i). split; [reflexivity|]. cbn [length]. lia.
    + destruct (IH ctx (S i)) as (o & E & Ho).
      { intros y Hy. apply Hin. right. exact Hy. }
      exists o. split; [exact E|]. destruct o; [cbn [length]; lia|exact I].
Qed.

Lemma ro_pop_ok k : forall ro acc,
  RoInv ro -> (k <= length (ro_queue ro))%nat ->
  exists ro' rss, ro_pop ro k acc = Ok (ro', rss) /\ RoInv ro'.
Proof.
  induction k as [|k IH]; intros ro acc H Hk; cbn [ro_pop].
  - eauto.
  - unfold RoInv in H. destruct ro as [o p q]. cbn in *.
    destruct p as [|[k0 v0] pt]; cbn in H; subst q; cbn in Hk; [lia|].
    cbn [ro_find]. rewrite list_eqb_refl. cbn [ro_remove]. rewrite list_eqb_refl.
    apply IH; [reflexivity|]. cbn. rewrite map_length in *. lia.
Qed.

Lemma ro_advance_ok ro ctx :
  RoInv ro -> exists ro' rss, ro_advance ro ctx = Ok (ro', rss) /\ RoInv ro'.
Proof.
  intros H. unfold ro_advance.
  destruct (ro_position_ok ro (ro_queue ro) ctx 0) as (o & E & Ho).
  { rewrite H. apply incl_refl. }
  rewrite E. cbn [bind]. destruct o as [j|]; [|eauto].
  apply ro_pop_ok; [exact H|lia].
Qed.
