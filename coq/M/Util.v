(* Model of /repo/src/util.rs [limit_size] and of the protobuf size of an
   [eraftpb::Entry] (rust-protobuf 2.28 generated [Entry::compute_size], file
   target/.../build/raft-proto-*/out/protos/eraftpb.rs).

   Entry fields (proto3, a field is encoded only when non-default):
     1 entry_type (enum, varint)   2 term (uint64)   3 index (uint64)
     4 data (bytes)   6 context (bytes)   5 sync_log (bool, deprecated, not modelled)
   All field numbers are < 16, so every tag is one byte.
   Model assumptions (documented, not checked): [unknown_fields] is empty
   (entries built in memory never carry any) and byte lengths are < 2^32, so the
   [u32] additions of [compute_size] and the [u64] accumulation of [limit_size]
   (which would need > 2^32 entries to overflow) do not wrap.  No proofs here. *)
From RV Require Import Base.Prelude.

Local Open Scope N_scope.

(* The deprecated [sync_log] field (5, bool, costs 2 bytes when true) is never
   set by raft-rs; it is assumed false and not modelled. *)
Record entry := mkEntry {
  e_type : N;             (* 0 EntryNormal, 1 EntryConfChange, 2 EntryConfChangeV2 *)
  e_term : N;
  e_index : N;
  e_data : list N;        (* bytes, each < 256 *)
  e_context : list N      (* bytes, each < 256 *)
}.

(* protobuf::rt::compute_raw_varint64_size *)
Definition varint_len (v : N) : N :=
  if v <? 128 then 1                            (* 2^7  *)
  else if v <? 16384 then 2                     (* 2^14 *)
  else if v <? 2097152 then 3                   (* 2^21 *)
  else if v <? 268435456 then 4                 (* 2^28 *)
  else if v <? 34359738368 then 5               (* 2^35 *)
  else if v <? 4398046511104 then 6             (* 2^42 *)
  else if v <? 562949953421312 then 7           (* 2^49 *)
  else if v <? 72057594037927936 then 8         (* 2^56 *)
  else if v <? 9223372036854775808 then 9       (* 2^63 *)
  else 10.

(* rt::value_size / rt::enum_size for a field number < 16: tag byte + varint;
   omitted when the value is the proto3 default 0 *)
Definition varint_field_size (v : N) : N :=
  if v =? 0 then 0 else 1 + varint_len v.

(* rt::bytes_size for a field number < 16; omitted when empty *)
Definition bytes_field_size (b : list N) : N :=
  match b with
  | [] => 0
  | _ => 1 + varint_len (N.of_nat (length b)) + N.of_nat (length b)
  end.

(* <Entry as protobuf::Message>::compute_size *)
Definition entry_size (e : entry) : N :=
  varint_field_size (e_type e)
  + varint_field_size (e_term e)
  + varint_field_size (e_index e)
  + bytes_field_size (e_data e)
  + bytes_field_size (e_context e).

(* util::entry_approximate_size *)
Definition entry_approximate_size (e : entry) : N :=
  N.of_nat (length (e_data e)) + N.of_nat (length (e_context e)) + 12.

Definition NO_LIMIT : N := u64_max.

Section LimitSize.
  Context {A : Type} (sz : A -> N).

  (* The [take_while(..).count()] of limit_size: [size] is the closure's captured
     accumulator.  NB the test is [size == 0], not "first element": as long as
     the accumulated size is still 0 the next element is taken unconditionally. *)
  Fixpoint limit_count (l : list A) (size max : N) : nat :=
    match l with
    | [] => O
    | e :: t =>
        let size' := size + sz e in
        if size =? 0 then S (limit_count t size' max)
        else if size' <=? max then S (limit_count t size' max)
        else O
    end.

  Definition limit_size_by (l : list A) (max : option N) : list A :=
    if (length l <=? 1)%nat then l
    else match max with
         | None => l
         | Some m => if m =? NO_LIMIT then l else firstn (limit_count l 0 m) l
         end.
End LimitSize.

Definition limit_size : list entry -> option N -> list entry :=
  limit_size_by entry_size.

(* total encoded size of a list of entries *)
Definition total_size {A} (sz : A -> N) (l : list A) : N :=
  fold_right (fun e acc => sz e + acc) 0 l.
