(* C10, part 8 — the proposal clause: from a converged star, one MsgPropose with a normal
   entry is stepped into the leader, the leader persists it (what the application does with
   the Ready), and the star rounds carry it to every follower and commit it everywhere.
   Built on M/RaftProofsC10Star.v.  See the header of Props/C10.v. *)
From RV Require Import Base.Prelude Base.IdSet Base.IdSetProofs M.Util M.UtilProofs M.Proto
  M.MemStorage M.MemStorageProofs M.Inflights M.InflightsProofs M.Progress M.RaftLog
  M.RaftLogProofs M.RaftLogProofsOps M.RaftLogProofsStore M.RaftLogProofsSlice
  M.RaftLogProofsHistory M.Quorum M.ConfChange M.Msg M.Raft M.RaftProofs M.RaftProofsC15
  M.RaftProofsC09 M.RaftProofsC10 M.RaftProofsC10Pair M.RaftProofsC10Star.
From RecordUpdate Require Import RecordSet.
Import RecordSetNotations.

Local Open Scope N_scope.

(* ================================================================== *)
(* 8.1 the two new steps of the schedule                               *)
(* ================================================================== *)

(* the application proposes one normal entry with data d (a local message) *)
Definition prop_msg (d : list N) : msg :=
  msg_default <| m_type := MsgPropose |> <| m_entries := [mkEntry EntryNormal 0 0 d []] |>.

(* the leader persists its unstable entries - what the application does with the Ready that
   carries them: write them to the storage (MemStorage::append), tell the log they are
   stable (RaftLog::stable_entries), and report the persistence (Raft::on_persist_entries) *)
Definition persist_leader (L : raft) : Res raft :=
  let lg := r_log L in
  match u_entries (unst lg) with
  | [] => Ok L
  | e0 :: rest =>
      st' <- MemStorage.append (store lg) (e0 :: rest) ;;
      let e := List.last (e0 :: rest) (mkEntry 0 0 0 [] []) in
      lg2 <- stable_entries (set_store lg st') (e_index e) (e_term e) ;;
      on_persist_entries (L <| r_log := lg2 |>) (e_index e) (e_term e)
  end.

Definition propose_persist (L : raft) (d : list N) : Res raft :=
  x <- step L (prop_msg d) ;; persist_leader (fst x).

(* the stamped entry *)
Definition new_ent (L : raft) (d : list N) : entry :=
  mkEntry EntryNormal (r_term L) (last_index (r_log L) + 1) d [].

(* Raft::step on the proposal, for a leader that tracks itself, has no transfer pending and
   no limit on the uncommitted size: append, then broadcast *)
Lemma step_propose L d ps :
  r_state L = Leader -> get_pr L (r_id L) = Some ps -> r_lead_transferee L = None ->
  r_max_uncommitted_size L = u64_max ->
  step L (prop_msg d) =
  (x <- log_append (r_log L) [new_ent L d] ;;
   r3 <- bcast_append (L <| r_log := fst x |>) ;; Ok (r3, E_OK)).
Proof.
  intros Hs Hg Ht Hm. unfold step. cbn [prop_msg m_term m_type].
  change (m_term (prop_msg d)) with 0. change (0 =? 0) with true. cbn [bind].
  change (m_type (prop_msg d)) with MsgPropose.
  change (MsgPropose =? MsgHup) with false. change (MsgPropose =? MsgRequestVote) with false.
  change (MsgPropose =? MsgRequestPreVote) with false. cbn [orb]. rewrite Hs.
  unfold step_leader. change (m_type (prop_msg d)) with MsgPropose.
  change (MsgPropose =? MsgBeat) with false. change (MsgPropose =? MsgCheckQuorum) with false.
  change (MsgPropose =? MsgPropose) with true. cbv iota.
  change (m_entries (prop_msg d)) with [mkEntry EntryNormal 0 0 d []]. rewrite Hg, Ht.
  change (m_ccinfo (prop_msg d)) with (@nil N).
  cbn [filter_conf_changes].
  change (is_conf_entry (mkEntry EntryNormal 0 0 d [])) with false. cbn [negb].
  unfold append_entry, maybe_increase_uncommitted_size. rewrite Hm, N.eqb_refl. cbn [negb].
  cbn [stamp e_type e_data e_context]. unfold new_ent.
  destruct (log_append (r_log L) _) as [[l' z]|s]; cbn [bind fst]; [|reflexivity].
  destruct (bcast_append _); reflexivity.
Qed.

(* ================================================================== *)
(* 8.2 the logical log with one more entry                             *)
(* ================================================================== *)

Lemma ll_append1_ents LL e :
  e_index e = ll_last LL + 1 -> ll_ents (ll_append LL [e]) = ll_ents LL ++ [e].
Proof.
  intros He. unfold ll_append. cbn [ll_ents]. rewrite He. f_equal. apply firstn_all2.
  unfold ll_last. lia.
Qed.

Lemma ll_append1_base LL e : ll_base (ll_append LL [e]) = ll_base LL.
Proof. reflexivity. Qed.

Lemma ll_append1_last LL e :
  e_index e = ll_last LL + 1 -> ll_last (ll_append LL [e]) = ll_last LL + 1.
Proof.
  intros He. unfold ll_last at 1. rewrite (ll_append1_ents LL e He), ll_append1_base, app_length.
  cbn [length]. unfold ll_last. lia.
Qed.

Lemma ll_append1_term_low LL e i :
  e_index e = ll_last LL + 1 -> i <= ll_last LL ->
  ll_term (ll_append LL [e]) i = ll_term LL i.
Proof.
  intros He Hi. unfold ll_term. rewrite (ll_append1_last LL e He), ll_append1_base.
  change (ll_bterm (ll_append LL [e])) with (ll_bterm LL).
  destruct (i <? ll_base LL) eqn:E1; cbn [orb]; [reflexivity|].
  destruct (ll_last LL + 1 <? i) eqn:E2; [lia|]. destruct (ll_last LL <? i) eqn:E3; [lia|].
  destruct (i =? ll_base LL) eqn:E4; [reflexivity|].
  rewrite (ll_get_append_below LL e [] i) by lia. reflexivity.
Qed.

Lemma ll_append1_term_new LL e :
  e_index e = ll_last LL + 1 ->
  ll_term (ll_append LL [e]) (ll_last LL + 1) = SOk (e_term e).
Proof.
  intros He. unfold ll_term. rewrite (ll_append1_last LL e He), ll_append1_base.
  destruct (ll_last LL + 1 <? ll_base LL) eqn:E1; [unfold ll_last in E1; lia|].
  rewrite N.ltb_irrefl. cbn [orb].
  destruct (ll_last LL + 1 =? ll_base LL) eqn:E2; [unfold ll_last in E2; lia|].
  unfold ll_get. rewrite ll_append1_base.
  destruct (ll_last LL + 1 <=? ll_base LL) eqn:E3; [unfold ll_last in E3; lia|].
  rewrite (ll_append1_ents LL e He).
  rewrite nth_error_app2 by (unfold ll_last; lia).
  replace (N.to_nat (ll_last LL + 1 - ll_base LL - 1) - length (ll_ents LL))%nat with O
    by (unfold ll_last; lia).
  reflexivity.
Qed.

(* ranges of the old log are prefixes of the ranges of the new one *)
Lemma ll_range_append1 LL e p :
  e_index e = ll_last LL + 1 -> ll_base LL <= p -> p <= ll_last LL ->
  ll_range (ll_append LL [e]) (p + 1) (ll_last LL + 1 + 1) =
  ll_range LL (p + 1) (ll_last LL + 1) ++ [e].
Proof.
  intros He Hb Hp. unfold ll_range. rewrite ll_append1_base, (ll_append1_ents LL e He).
  set (k := N.to_nat (p + 1 - ll_base LL - 1)).
  assert (Hk : (k <= length (ll_ents LL))%nat) by (subst k; unfold ll_last in Hp; lia).
  rewrite skipn_app. replace (k - length (ll_ents LL))%nat with O by lia. cbn [skipn].
  assert (Hl : length (skipn k (ll_ents LL)) = N.to_nat (ll_last LL + 1 - (p + 1))).
  { rewrite skipn_length. subst k. unfold ll_last. lia. }
  rewrite firstn_app. rewrite Hl.
  rewrite (firstn_all2 (skipn k (ll_ents LL))) by lia.
  rewrite (firstn_all2 (skipn k (ll_ents LL))) by lia.
  f_equal. replace (N.to_nat (ll_last LL + 1 + 1 - (p + 1)) - N.to_nat (ll_last LL + 1 - (p + 1)))%nat
    with 1%nat by lia. reflexivity.
Qed.

Lemma firstn_app_le {A} (a b : list A) k : exists k', firstn k a = firstn k' (a ++ b).
Proof.
  exists (Nat.min k (length a)). rewrite firstn_app.
  replace (Nat.min k (length a) - length a)%nat with O by lia. cbn [firstn]. rewrite app_nil_r.
  destruct (Nat.le_ge_cases k (length a)) as [H|H].
  - rewrite Nat.min_l by exact H. reflexivity.
  - rewrite Nat.min_r by exact H. rewrite !firstn_all2 by lia. reflexivity.
Qed.

(* ================================================================== *)
(* 8.3 the invariants of the pair proof, carried to the longer log     *)
(* ================================================================== *)
Section Transfer.

Variables (LL : LL) (T l f lo : N) (e : entry).
Hypothesis HLL : LeaderLog LL.
Hypothesis Hlo : ll_base LL <= lo.
Hypothesis He : e_index e = ll_last LL + 1.
Hypothesis HeT : e_term e = T.
Hypothesis HT : T <> 0.
Hypothesis Hbound : ll_last LL + 1 < u64_max.

Lemma LeaderLog_ext : LeaderLog (ll_append LL [e]).
Proof.
  constructor.
  - unfold ll_wf. rewrite ll_append1_base, (ll_append1_ents LL e He). apply contig_app.
    + apply (lg_wf _ HLL).
    + cbn. split; [|exact I]. rewrite He. unfold ll_last. lia.
  - intros x Hx. rewrite (ll_append1_ents LL e He) in Hx. apply in_app_or in Hx.
    destruct Hx as [Hx|[<-|[]]]; [apply (lg_nz _ HLL); exact Hx|congruence].
  - rewrite (ll_append1_last LL e He). exact Hbound.
Qed.

Lemma snd_app_ext x : snd_app LL T l f lo x -> snd_app (ll_append LL [e]) T l f lo x.
Proof.
  intros (A1 & A2 & A3 & A4 & A5 & A6 & k & A7).
  split; [exact A1|]. split; [exact A2|]. split; [exact A3|]. split; [exact A4|].
  split; [rewrite (ll_append1_last LL e He); lia|].
  split; [rewrite (ll_append1_term_low LL e _ He) by lia; exact A6|].
  rewrite (ll_append1_last LL e He), (ll_range_append1 LL e (m_index x) He) by lia.
  rewrite A7. apply firstn_app_le.
Qed.

Lemma qmsg_ok_ext a x : qmsg_ok LL T l f lo a x -> qmsg_ok (ll_append LL [e]) T l f lo a x.
Proof. intros [H|H]; [left; apply snd_app_ext; exact H|right; exact H]. Qed.

Lemma PrInv_ext b pr : PrInv LL lo b pr -> PrInv (ll_append LL [e]) lo b pr.
Proof.
  intros [P1 P2 P3 P4 P5 P6 P7 P8]. constructor; auto. rewrite (ll_append1_last LL e He). lia.
Qed.

(* a follower that agrees up to the old last index and holds nothing above it *)
Lemma Agree_ext FL a :
  Agree LL FL lo a -> a = ll_last LL -> ll_last FL = ll_last LL ->
  Agree (ll_append LL [e]) FL lo (ll_last LL).
Proof.
  intros [G1 G2 G3 G4 G5] Ea Hl. subst a. constructor.
  - exact G1.
  - rewrite (ll_append1_last LL e He). lia.
  - exact G3.
  - intros i Hi. rewrite (ll_append1_term_low LL e i He) by lia. apply G4. exact Hi.
  - intros i Hi. rewrite (ll_append1_last LL e He) in Hi. assert (i = ll_last LL + 1) by lia. subst i.
    rewrite (ll_append1_term_new LL e He), HeT. rewrite (term_beyond_last FL) by lia.
    intros E. inversion E. congruence.
Qed.

End Transfer.

(* ================================================================== *)
(* 8.4 the leader's log through the proposal and the persistence       *)
(* ================================================================== *)

Lemma log_append_unst lg e0 t lg1 z :
  log_append lg (e0 :: t) = Ok (lg1, z) ->
  u_snapshot (unst lg1) = u_snapshot (unst lg) /\
  exists pre, u_entries (unst lg1) = pre ++ e0 :: t.
Proof.
  unfold log_append. intros H. destruct (e_index e0 =? 0); [discriminate|].
  destruct (_ <? committed lg); [discriminate|]. inv_bind H. inversion H; subst lg1 z; clear H.
  unfold u_truncate_and_append in Hx. inv_bind Hx. inversion Hx; subst x; clear Hx. cbn.
  assert (Hs : u_snapshot x0 = u_snapshot (unst lg)).
  { destruct (_ =? _); [inversion Hx0; reflexivity|].
    destruct (_ <=? _); [inversion Hx0; reflexivity|]. inv_bind Hx0. inversion Hx0; reflexivity. }
  split; [exact Hs|]. eexists. reflexivity.
Qed.

(* below the unstable offset the log reads the storage *)
Lemma term_stable rw lg i :
  RepInv rw lg -> u_snapshot (unst lg) = None -> i < u_offset (unst lg) ->
  ll_base (abs lg) <= i -> i <= ll_last (abs lg) ->
  RaftLog.term lg i = storage_term (store lg) i.
Proof.
  intros HI Hs Hi Hb Hl. unfold RaftLog.term. rewrite (abs_base_first rw lg HI). cbn [bind].
  unfold ll_first. destruct (ll_base (abs lg) + 1 =? 0) eqn:E0; [lia|].
  rewrite (abs_last rw lg HI).
  replace (ll_base (abs lg) + 1 - 1) with (ll_base (abs lg)) by lia.
  destruct (i <? ll_base (abs lg)) eqn:E1; [lia|]. destruct (ll_last (abs lg) <? i) eqn:E2; [lia|].
  cbn [orb]. unfold u_maybe_term. destruct (i <? u_offset (unst lg)) eqn:E3; [|lia].
  rewrite Hs. reflexivity.
Qed.

(* the log after appending one entry of term T at last + 1 *)
Lemma propose_log rw lg e :
  RepInv rw lg -> u_snapshot (unst lg) = None -> committed lg <= ll_last (abs lg) ->
  e_index e = ll_last (abs lg) + 1 -> ll_last (abs lg) + 1 < u64_max ->
  exists lg1 z,
    log_append lg [e] = Ok (lg1, z) /\ RepInv rw lg1 /\ abs lg1 = ll_append (abs lg) [e] /\
    committed lg1 = committed lg /\ persisted lg1 = persisted lg /\
    persisted lg1 <= ll_last (abs lg) /\
    u_snapshot (unst lg1) = None /\ u_entries (unst lg1) <> [] /\
    List.last (u_entries (unst lg1)) (mkEntry 0 0 0 [] []) = e.
Proof.
  intros HI Hs Hc He Hb.
  pose proof (ri_persisted rw lg HI) as [Hp _]. pose proof (ll_last_upper rw lg HI) as Hup.
  destruct (log_append_ok rw lg e [] HI) as (lg1 & Hok & HI1 & Habs & Hcm & Hpe & _).
  - cbn. auto.
  - lia.
  - lia.
  - lia.
  - cbn [length]. lia.
  - exists lg1. eexists. split; [exact Hok|]. split; [exact HI1|]. split; [exact Habs|].
    split; [exact Hcm|]. split; [exact Hpe|]. split; [lia|].
    destruct (log_append_unst _ _ _ _ _ Hok) as (S1 & pre & S2).
    split; [congruence|]. rewrite S2. split; [destruct pre; discriminate|]. apply last_last.
Qed.

(* writing the unstable entries to the storage, marking them stable, and reporting them *)
Lemma persist_log rw lg1 e T :
  RepInv rw lg1 -> u_snapshot (unst lg1) = None -> u_entries (unst lg1) <> [] ->
  List.last (u_entries (unst lg1)) (mkEntry 0 0 0 [] []) = e -> e_term e = T ->
  ll_term (abs lg1) (ll_last (abs lg1)) = SOk T -> ll_base (abs lg1) < ll_last (abs lg1) ->
  persisted lg1 < ll_last (abs lg1) ->
  exists st' lg2,
    MemStorage.append (store lg1) (u_entries (unst lg1)) = Ok st' /\
    stable_entries (set_store lg1 st') (e_index e) (e_term e) = Ok lg2 /\
    e_index e = ll_last (abs lg1) /\
    RepInv rw lg2 /\ abs lg2 = abs lg1 /\ committed lg2 = committed lg1 /\
    maybe_persist lg2 (ll_last (abs lg1)) T = Ok (set_persisted lg2 (ll_last (abs lg1)), true).
Proof.
  intros HI Hs Hne Hl HeT Hterm Hbl Hp.
  destruct (store_append_unstable_ok rw lg1 HI Hs) as (st' & Happ & HI' & Habs' & _ & Hsk & _).
  set (lgs := set_store lg1 st') in *.
  destruct (stable_entries_ok rw lgs HI' Hs Hne Hsk) as (Hidx & lg2 & Hst & HI2 & Habs2 & U1 & U2 & U3 & U4 & C1 & C2 & _).
  change (u_entries (unst lgs)) with (u_entries (unst lg1)) in Hidx, Hst. rewrite Hl in Hidx, Hst.
  rewrite Habs' in Hidx, U2.
  exists st', lg2. split; [exact Happ|]. split; [exact Hst|]. split; [exact Hidx|].
  split; [exact HI2|]. split; [congruence|]. split; [rewrite C1; reflexivity|].
  unfold maybe_persist. rewrite U3, U2.
  assert (Hpe : persisted lg2 = persisted lg1) by (rewrite C2; reflexivity). rewrite Hpe.
  destruct (persisted lg1 <? ll_last (abs lg1)) eqn:E1; [|lia].
  destruct (ll_last (abs lg1) <? ll_last (abs lg1) + 1) eqn:E2; [|lia]. cbn [andb].
  assert (Habs21 : abs lg2 = abs lg1) by congruence.
  rewrite <- (term_stable rw lg2 (ll_last (abs lg1)) HI2 U3) by (rewrite ?U2, ?Habs21; lia).
  rewrite (term_abs rw lg2 _ HI2), Habs21, Hterm. cbn [bind term_ok_eq]. rewrite N.eqb_refl. reflexivity.
Qed.

(* ================================================================== *)
(* 8.5 the leader through propose + persist, decomposed                *)
(* ================================================================== *)

Lemma propose_persist_parts rwl L d ps L2 :
  r_state L = Leader -> get_pr L (r_id L) = Some ps -> r_lead_transferee L = None ->
  r_max_uncommitted_size L = u64_max ->
  RepInv rwl (r_log L) -> u_snapshot (unst (r_log L)) = None ->
  committed (r_log L) <= last_index (r_log L) -> last_index (r_log L) + 1 < u64_max ->
  r_term L <> 0 ->
  propose_persist L d = Ok L2 ->
  let LL1 := ll_append (abs (r_log L)) [new_ent L d] in
  let last1 := last_index (r_log L) + 1 in
  exists lg1 L1 lg2,
    RepInv rwl lg1 /\ abs lg1 = LL1 /\ committed lg1 = committed (r_log L) /\
    bcast_append (L <| r_log := lg1 |>) = Ok L1 /\ r_log L1 = lg1 /\
    RepInv rwl lg2 /\ abs lg2 = LL1 /\ committed lg2 = committed (r_log L) /\
    maybe_persist lg2 last1 (r_term L) = Ok (set_persisted lg2 last1, true) /\
    RepInv rwl (set_persisted lg2 last1) /\
    on_persist_entries (L1 <| r_log := lg2 |>) last1 (r_term L) = Ok L2.
Proof.
  intros Hs Hg Htr Hmx HI Hsn Hc Hb HT H. cbv zeta.
  set (last1 := last_index (r_log L) + 1).
  pose proof (abs_last rwl _ HI) as Hlast.
  unfold propose_persist in H. rewrite (step_propose L d ps Hs Hg Htr Hmx) in H.
  assert (Hei : e_index (new_ent L d) = ll_last (abs (r_log L)) + 1) by (cbn; rewrite Hlast; reflexivity).
  destruct (propose_log rwl (r_log L) (new_ent L d) HI Hsn ltac:(lia) Hei ltac:(lia))
    as (lg1 & z & Hap & HI1 & Habs1 & Hcm1 & Hpe1 & Hpe1' & Hsn1 & Hne1 & Hl1).
  rewrite Hap in H. cbn [bind fst] in H.
  destruct (bcast_append (L <| r_log := lg1 |>)) as [L1|s] eqn:Hbc; cbn [bind fst] in H; [|discriminate].
  pose proof (bcast_append_log _ _ Hbc) as Hlog1. cbn in Hlog1.
  change (r_log (L <| r_log := lg1 |>)) with lg1 in Hlog1.
  unfold persist_leader in H. rewrite Hlog1 in H.
  assert (Hlast1 : ll_last (abs lg1) = last1).
  { rewrite Habs1, (ll_append1_last _ _ Hei). subst last1. rewrite Hlast. reflexivity. }
  assert (Hterm1 : ll_term (abs lg1) (ll_last (abs lg1)) = SOk (r_term L)).
  { rewrite Hlast1. subst last1. rewrite Hlast, Habs1.
    rewrite (ll_append1_term_new _ _ Hei). reflexivity. }
  destruct (persist_log rwl lg1 (new_ent L d) (r_term L) HI1 Hsn1 Hne1 Hl1 eq_refl Hterm1)
    as (st' & lg2 & Happ & Hst & Hidx & HI2 & Habs2 & Hcm2 & Hmp).
  { rewrite Hlast1. subst last1. rewrite Habs1, ll_append1_base. rewrite Hlast. unfold ll_last. lia. }
  { rewrite Hlast1. subst last1. rewrite Hlast. lia. }
  destruct (u_entries (unst lg1)) as [|e0 rest] eqn:Eu; [congruence|].
  rewrite Happ in H. cbn [bind] in H. rewrite Hl1 in H. rewrite Hst in H. cbn [bind] in H.
  change (e_term (new_ent L d)) with (r_term L) in H, Hst.
  rewrite Hidx, Hlast1 in H. rewrite Hlast1 in Hmp.
  destruct (maybe_persist_ok rwl lg2 last1 (r_term L) HI2) as (l' & b' & Hmp' & HI3 & _).
  rewrite Hmp in Hmp'. inversion Hmp'; subst l' b'.
  exists lg1, L1, lg2. split; [exact HI1|]. split; [exact Habs1|]. split; [exact Hcm1|].
  split; [exact Hbc|]. split; [exact Hlog1|]. split; [exact HI2|]. split; [congruence|].
  split; [congruence|]. split; [exact Hmp|]. split; [exact HI3|exact H].
Qed.

(* ================================================================== *)
(* 8.6 one follower's pair invariant through propose + persist         *)
(* ================================================================== *)
Section ProposeView.

Variables (LL : LL) (T l f lo : N) (rw rwl : bool) (l0 : raft_log).
Hypothesis HLL : LeaderLog LL.
Hypothesis Hlo : ll_base LL <= lo.
Hypothesis HloT : exists t, ll_term LL lo = SOk t.
Hypothesis HT : T <> 0.
Hypothesis Hlf : l <> f.

Lemma propose_PairInv Hb a L F pr e lg1 L1 lg2 L2 :
  PairInv LL T l f lo rw l0 Hb a L F -> get_pr L f = Some pr -> matched pr = ll_last LL ->
  last_index (r_log F) = ll_last LL ->
  e_index e = ll_last LL + 1 -> e_term e = T -> ll_last LL + 1 < u64_max ->
  RepInv rwl lg1 -> abs lg1 = ll_append LL [e] ->
  bcast_append (L <| r_log := lg1 |>) = Ok L1 -> r_log L1 = lg1 ->
  RepInv rwl lg2 -> abs lg2 = ll_append LL [e] ->
  maybe_persist lg2 (ll_last LL + 1) T = Ok (set_persisted lg2 (ll_last LL + 1), true) ->
  RepInv rwl (set_persisted lg2 (ll_last LL + 1)) ->
  on_persist_entries (L1 <| r_log := lg2 |>) (ll_last LL + 1) T = Ok L2 ->
  PairInv (ll_append LL [e]) T l f lo rw (set_persisted lg2 (ll_last LL + 1)) Hb (ll_last LL) L2 F /\
  (exists pr2, get_pr L2 f = Some pr2 /\ matched pr2 = ll_last LL) /\
  conf_of L2 = conf_of L.
Proof.
  intros [HC (pr0 & Hg0 & HP) HF HFq Hq HH Htm] Hg Hm HlF He HeT Hbd HI1 Habs1 Hbc Hlog1 HI2 Habs2 Hmp HI3 Hop.
  rewrite Hg in Hg0. inversion Hg0; subst pr0; clear Hg0.
  set (LL1 := ll_append LL [e]) in *. set (last1 := ll_last LL + 1) in *.
  set (lg3 := set_persisted lg2 last1) in *.
  assert (HLL1 : LeaderLog LL1) by (eapply LeaderLog_ext; eassumption).
  assert (Hlo1 : ll_base LL1 <= lo) by exact Hlo.
  assert (HloT1 : exists t, ll_term LL1 lo = SOk t).
  { destruct HloT as [t Ht]. exists t. unfold LL1. rewrite (ll_append1_term_low LL e lo He); [exact Ht|].
    pose proof (pi_lo _ _ _ _ HP). lia. }
  assert (Ha : a = ll_last LL).
  { pose proof (pi_b _ _ _ _ HP). pose proof (ag_lastL _ _ _ _ (fi_agree _ _ _ _ _ _ _ HF)). lia. }
  subst a.
  assert (HP1 : PrInv LL1 lo (ll_last LL) pr) by (eapply PrInv_ext; eassumption).
  pose proof HC as [C1 C2 C3 C4 C5 C6 C7 C8].
  (* after the append, before the broadcast *)
  set (r2 := L <| r_log := lg1 |>) in *.
  assert (HC2 : LCore T l lg1 r2) by (constructor; cbn; auto; apply same_ents_refl).
  destruct (bcast_append_lstep LL1 T l f lo HLL1 Hlo1 HloT1 HT Hlf rwl lg1 HI1 Habs1 (ll_last LL) r2 pr L1
              HC2 Hg HP1 Hbc) as (p1 & B1 & (new1 & B2 & B2f) & B3 & B4 & B5).
  destruct (lfr_fields _ _ B1) as [Bt Be].
  pose proof (lfr_LCore _ _ _ _ _ B1 HC2) as HCL1. pose proof HCL1 as [D1 D2 D3 D4 D5 D6 D7 D8].
  (* the persistence report *)
  unfold on_persist_entries in Hop.
  change (r_log (L1 <| r_log := lg2 |>)) with lg2 in Hop. fold last1 in Hop. rewrite Hmp in Hop.
  cbn [bind] in Hop. fold lg3 in Hop.
  set (r3 := L1 <| r_log := lg2 |> <| r_log := lg3 |>) in *.
  assert (HC3 : LCore T l lg3 r3) by (constructor; cbn; auto; apply same_ents_refl).
  assert (Habs3 : abs lg3 = LL1) by (unfold lg3; rewrite <- Habs2; apply abs_ext; reflexivity).
  assert (Hg3 : get_pr r3 f = Some p1) by exact B3.
  assert (Hl3 : is_leader r3 = true) by (unfold is_leader; change (r_state r3) with (r_state L1); rewrite D1; reflexivity).
  rewrite Hl3 in Hop. cbn [andb] in Hop.
  assert (Hid3 : r_id r3 = l) by exact D3. rewrite Hid3 in Hop.
  assert (S3 : exists p2, lstep LL1 T l f lo (ll_last LL) r3 p1 L2 p2).
  { destruct (get_pr r3 l) as [ps1|] eqn:Hgs.
    2:{ assert (L2 = r3) by congruence. subst L2. exists p1. apply lstep_refl'; assumption. }
    destruct (maybe_update ps1 last1) as [ps2 u].
    eapply (lstep_trans_ex LL1 T l f lo lg3 (ll_last LL) r3 p1 (put_pr r3 l ps2) p1);
      [exact HC3|apply (put_lstep LL1 T l f lo (ll_last LL) r3 p1 l ps2 Hg3 B4 Hlf)|].
    intros HC4 Hg4 HP4. destruct u.
    - inv_bind Hop. destruct x as [r5 c5].
      eapply (lstep_trans_ex LL1 T l f lo lg3 (ll_last LL) _ p1 r5 p1); [exact HC4| |].
      + eapply maybe_commit_lstep; eassumption.
      + intros HC5 Hg5 HP5. destruct (c5 && should_bcast_commit r5).
        * eapply bcast_append_lstep; eassumption.
        * assert (L2 = r5) by congruence. subst L2. exists p1. apply lstep_refl'; assumption.
    - match goal with Ho : Ok _ = Ok L2 |- _ => inversion Ho; subst L2 end.
      exists p1. apply lstep_refl'; assumption. }
  destruct S3 as (p2 & E1 & (new2 & E2 & E2f) & E3 & E4 & E5).
  destruct (lfr_fields _ _ E1) as [Et Ee].
  pose proof (lfr_LCore _ _ _ _ _ E1 HC3) as HCL2.
  assert (Hmsgs : r_msgs L2 = r_msgs L ++ new1 ++ new2).
  { rewrite E2. change (r_msgs r3) with (r_msgs L1). rewrite B2. change (r_msgs r2) with (r_msgs L).
    rewrite <- app_assoc. reflexivity. }
  destruct (pkey_inv _ _ B5) as (K1 & K2 & _). destruct (pkey_inv _ _ E5) as (K3 & K4 & _).
  split; [|split].
  - constructor.
    + exact HCL2.
    + exists p2. auto.
    + destruct HF as [F1 F2 F3 F4 F5 F6 F7]. constructor; auto.
      * eapply Agree_ext; try eassumption; [reflexivity|].
        rewrite <- (abs_last rw _ F4). exact HlF.
    + exact HFq.
    + rewrite Hmsgs. unfold to_peer. rewrite filter_app. apply Forall_app. split.
      * eapply Forall_impl; [|exact Hq]. intros x. eapply qmsg_ok_ext; eassumption.
      * apply Forall_to_peer. apply Forall_app. split.
        -- eapply Forall_impl; [|exact B2f]. intros x Hx Hto. left. apply Hx. exact Hto.
        -- eapply Forall_impl; [|exact E2f]. intros x Hx Hto. left. apply Hx. exact Hto.
    + rewrite Et. change (r_heartbeat_timeout r3) with (r_heartbeat_timeout L1). rewrite Bt. exact HH.
    + destruct Htm as [Htm|[Htm1 Htm2]]; [left; exact Htm|right]. split; [exact Htm1|].
      intros Hempty. rewrite Ee. change (r_heartbeat_elapsed r3) with (r_heartbeat_elapsed L1). rewrite Be.
      apply Htm2. rewrite Hmsgs in Hempty. unfold to_peer in *. rewrite filter_app in Hempty.
      apply app_eq_nil in Hempty. apply Hempty.
  - exists p2. split; [exact E3|]. congruence.
  - destruct E1 as [E1 _]. destruct B1 as [B1 _]. unfold conf_of.
    (* the configuration is not touched: only t_progress of the tracker changes *)
    assert (Hc1 : t_conf (r_prs L1) = t_conf (r_prs L)).
    { apply bcast_append_fr in Hbc. destruct Hbc as (_ & _ & _ & Hc & _). exact Hc. }
    assert (Hc2 : t_conf (r_prs L2) = t_conf (r_prs L1)).
    { clear - Hop Hl3. destruct (get_pr r3 l) as [ps1|]; [|assert (L2 = r3) by congruence; subst L2; reflexivity].
      destruct (maybe_update ps1 last1) as [ps2 u]. destruct u.
      - inv_bind Hop. destruct x as [r5 c5]. apply maybe_commit_fr in Hx. destruct Hx as (_ & _ & _ & Hc & _).
        destruct (c5 && should_bcast_commit r5).
        + apply bcast_append_fr in Hop. destruct Hop as (_ & _ & _ & Hc' & _). unfold conf_of in *.
          rewrite Hc', Hc. reflexivity.
        + assert (L2 = r5) by congruence. subst L2. exact Hc.
      - inversion Hop; subst L2. reflexivity. }
    congruence.
Qed.

End ProposeView.

(* ================================================================== *)
(* 8.7 the leader's own Progress and commit index after the report     *)
(* ================================================================== *)

Lemma on_persist_own r idx t lg r' ps :
  on_persist_entries r idx t = Ok r' ->
  maybe_persist (r_log r) idx t = Ok (lg, true) -> r_state r = Leader ->
  get_pr r (r_id r) = Some ps -> matched ps < idx ->
  (exists p, get_pr r' (r_id r) = Some p /\ matched p = idx) /\
  committed (r_log r') <= N.max (committed lg) (last_index lg).
Proof.
  intros H Hmp Hs Hg Hm. unfold on_persist_entries in H. rewrite Hmp in H. cbn [bind] in H.
  set (r3 := r <| r_log := lg |>) in *.
  assert (Hl : is_leader r3 = true) by (unfold is_leader; change (r_state r3) with (r_state r); rewrite Hs; reflexivity).
  rewrite Hl in H. cbn [andb] in H.
  change (r_id r3) with (r_id r) in H. change (get_pr r3 (r_id r)) with (get_pr r (r_id r)) in H.
  rewrite Hg in H.
  pose proof (maybe_update_fields ps idx Hm) as (U1 & _).
  assert (U2 : snd (maybe_update ps idx) = true).
  { unfold maybe_update. cbn [snd]. apply N.ltb_lt. exact Hm. }
  destruct (maybe_update ps idx) as [ps2 u]. cbn [fst snd] in U1, U2. subst u.
  assert (Hps2 : matched ps2 = idx) by exact U1.
  set (r4 := put_pr r3 (r_id r) ps2) in *.
  inv_bind H. destruct x as [r5 c5].
  pose proof (maybe_commit_matched _ _ _ Hx) as Hsm5.
  pose proof (maybe_commit_log _ _ _ Hx) as Hml. change (r_log r4) with lg in Hml.
  destruct (log_maybe_commit_facts _ _ _ _ _ Hml) as (_ & M2 & _).
  assert (Hown5 : option_map matched (get_pr r5 (r_id r)) = Some idx).
  { rewrite Hsm5. unfold r4. rewrite get_pr_put_same. cbn. congruence. }
  assert (Hfin : option_map matched (get_pr r' (r_id r)) = Some idx /\ r_log r' = r_log r5).
  { destruct (c5 && should_bcast_commit r5).
    - split; [rewrite (bcast_append_matched _ _ H); exact Hown5|apply bcast_append_log; exact H].
    - assert (r' = r5) by congruence. subst r'. auto. }
  destruct Hfin as [Hf1 Hf2]. split.
  - destruct (get_pr r' (r_id r)) as [p|]; [|discriminate]. exists p. split; [reflexivity|].
    cbn in Hf1. congruence.
  - rewrite Hf2. destruct M2 as [M2|[M2 M2']]; lia.
Qed.

(* ================================================================== *)
(* 8.8 the star: a proposal is replicated and committed everywhere     *)
(* ================================================================== *)
Section StarPropose.

Variables (LL : LL) (T l : N) (rw rwl : bool) (l0 : raft_log) (lof : N -> N).
Hypothesis HLL : LeaderLog LL.
Hypothesis HT : T <> 0.
Hypothesis Hl0 : RepInv rwl l0.
Hypothesis Habs0 : abs l0 = LL.

Local Notation StarInv := (StarInv LL T l rw l0 lof).

(* MAIN 8 (star_propose), invariant form.  From a star that satisfies the star invariant
   and has converged (every follower's matched = last, every follower's log ends at last),
   the leader takes one proposal and persists it; then the star rounds run. *)
Theorem star_propose Hb L Fs d ps L2 N1 K L' Fs' :
  StarInv Hb L Fs -> Fs <> [] -> 1 <= Hb ->
  (* converged, and the followers hold nothing above the leader's last index *)
  (forall F, In F Fs -> exists pr, get_pr L (r_id F) = Some pr /\ matched pr = ll_last LL) ->
  (forall F, In F Fs -> last_index (r_log F) = ll_last LL) ->
  (* the leader *)
  RepInv rwl (r_log L) -> u_snapshot (unst (r_log L)) = None -> ll_last LL + 1 < u64_max ->
  get_pr L l = Some ps -> matched ps = ll_last LL -> r_max_uncommitted_size L = u64_max ->
  (* the voters: the leader and some of the followers, at least one follower *)
  incoming (conf_of L) <> [] ->
  (forall v, In v (incoming (conf_of L)) \/ In v (outgoing (conf_of L)) ->
             v = l \/ In v (map r_id Fs)) ->
  (exists F, In F Fs /\ (In (r_id F) (incoming (conf_of L)) \/ In (r_id F) (outgoing (conf_of L)))) ->
  (* the run *)
  propose_persist L d = Ok L2 ->
  (forall F, In F Fs -> (star_bound Hb (ll_last LL + 1) (lof (r_id F)) <= N1)%nat) ->
  (N.to_nat (Hb + 1) <= K)%nat ->
  star_rounds (N1 + K) L2 Fs = Ok (L', Fs') ->
  let LL1 := ll_append LL [new_ent L d] in
  committed (r_log L') = ll_last LL + 1 /\
  Forall2 (fun F F' => fol_done LL1 lof L' F F' /\ committed (r_log F') = ll_last LL + 1) Fs Fs'.
Proof.
  intros HS Hne HH Hconv Hlastf HIL Hsn Hbd Hgl Hml Hmx Hinc Hvot Hvf Hpp HN HK Hrun LL1.
  destruct HS as [Hnd Hall]. rewrite Forall_forall in Hall.
  (* the leader's static facts, from any follower's pair invariant *)
  assert (HC : LCore T l l0 L).
  { destruct Fs as [|F0 t]; [congruence|]. destruct (Hall F0 ltac:(left; reflexivity)) as (_ & _ & _ & a & HI).
    apply (pv_core _ _ _ _ _ _ _ _ _ _ _ HI). }
  pose proof HC as [C1 C2 C3 C4 C5 C6 C7 C8].
  assert (HabsL : abs (r_log L) = LL).
  { rewrite <- Habs0. destruct C4 as (A & B & _). apply abs_ext; assumption. }
  pose proof (abs_last rwl _ HIL) as HlastL. rewrite HabsL in HlastL.
  pose proof (ri_commit rwl _ HIL) as HcL. rewrite HabsL in HcL.
  rewrite <- C3 in Hgl.
  destruct (propose_persist_parts rwl L d ps L2 C1 Hgl C6 Hmx HIL Hsn ltac:(lia) ltac:(lia)
              ltac:(rewrite C2; exact HT) Hpp)
    as (lg1 & L1 & lg2 & HI1 & Habs1 & Hcm1 & Hbc & Hlog1 & HI2 & Habs2 & Hcm2 & Hmp & HI3 & Hop).
  rewrite HabsL, HlastL, C2 in *. fold LL1 in Habs1, Habs2.
  set (e := new_ent L d) in *.
  assert (He : e_index e = ll_last LL + 1) by (unfold e; cbn; rewrite HlastL; reflexivity).
  assert (HeT : e_term e = T) by (unfold e; cbn; exact C2).
  set (lg3 := set_persisted lg2 (ll_last LL + 1)) in *.
  assert (Habs3 : abs lg3 = LL1) by (unfold lg3; rewrite <- Habs2; apply abs_ext; reflexivity).
  assert (HLL1 : LeaderLog LL1) by (apply (LeaderLog_ext LL T (ll_base LL) e HLL ltac:(lia) He HeT HT Hbd)).
  assert (Hlast1 : ll_last LL1 = ll_last LL + 1) by (apply ll_append1_last; exact He).
  assert (HlastT : ll_term LL1 (ll_last LL1) = SOk T).
  { rewrite Hlast1. unfold LL1. rewrite (ll_append1_term_new LL e He). congruence. }
  (* every follower's pair invariant in the new world *)
  assert (Hfol : forall F, In F Fs ->
            FolInv LL1 T l rw lg3 lof Hb L2 F /\
            (exists pr2, get_pr L2 (r_id F) = Some pr2 /\ matched pr2 = ll_last LL) /\
            conf_of L2 = conf_of L).
  { intros F HF. destruct (Hall F HF) as (Hlg & Hlo & HloT & a & HI).
    destruct (Hconv F HF) as (pr & Hg & Hm).
    destruct (propose_PairInv LL T l (r_id F) (lof (r_id F)) rw rwl l0 HLL Hlo HloT HT Hlg Hb a L F pr e
                lg1 L1 lg2 L2 HI Hg Hm (Hlastf F HF) He HeT Hbd HI1 Habs1 Hbc Hlog1 HI2 Habs2 Hmp HI3 Hop)
      as (HI' & Hpr2 & Hcf).
    split; [|split; [exact Hpr2|exact Hcf]].
    unfold FolInv. split; [exact Hlg|]. split; [exact Hlo|]. split.
    - destruct HloT as [t Ht]. exists t. unfold LL1. rewrite (ll_append1_term_low LL e _ He); [exact Ht|].
      destruct (pv_pr _ _ _ _ _ _ _ _ _ _ _ HI) as (pr0 & Hg0 & HP0). rewrite Hg in Hg0.
      inversion Hg0; subst pr0. pose proof (pi_lo _ _ _ _ HP0). lia.
    - exists (ll_last LL). exact HI'. }
  assert (HS2 : RaftProofsC10Star.StarInv LL1 T l rw lg3 lof Hb L2 Fs).
  { split; [exact Hnd|]. apply Forall_forall. intros F HF. apply (Hfol F HF). }
  assert (Hconf2 : conf_of L2 = conf_of L).
  { destruct Fs as [|F0 t]; [congruence|]. apply (Hfol F0 ltac:(left; reflexivity)). }
  (* the leader's own progress and commit index *)
  pose proof (bcast_append_fr _ _ Hbc) as (F1 & _ & _ & _ & F5 & _).
  pose proof (bcast_append_matched _ _ Hbc l) as Hown1.
  change (get_pr (L <| r_log := lg1 |>) l) with (get_pr L l) in Hown1. rewrite C3 in Hgl.
  rewrite Hgl in Hown1. cbn in Hown1.
  destruct (get_pr L1 l) as [ps1|] eqn:Hg1; [|discriminate]. cbn in Hown1.
  assert (Hps1 : matched ps1 = ll_last LL) by congruence.
  destruct (on_persist_own (L1 <| r_log := lg2 |>) (ll_last LL + 1) T lg3 L2 ps1 Hop Hmp)
    as ((pown & Hgo & Hmo) & Hcom2).
  { change (r_state (L1 <| r_log := lg2 |>)) with (r_state L1). rewrite F1. exact C1. }
  { change (r_id (L1 <| r_log := lg2 |>)) with (r_id L1). rewrite F5.
    change (r_id (L <| r_log := lg1 |>)) with (r_id L). rewrite C3. exact Hg1. }
  { lia. }
  change (r_id (L1 <| r_log := lg2 |>)) with (r_id L1) in Hgo. rewrite F5 in Hgo.
  change (r_id (L <| r_log := lg1 |>)) with (r_id L) in Hgo. rewrite C3 in Hgo.
  assert (Hcom2' : committed (r_log L2) <= ll_last LL + 1).
  { pose proof (abs_last rwl _ HI3) as Hl3. rewrite Habs3, Hlast1 in Hl3. rewrite Hl3 in Hcom2.
    change (committed lg3) with (committed lg2) in Hcom2. lia. }
  assert (HCI2 : CommitInv (ll_last LL1) L2).
  { rewrite Hlast1. split; [exact Hcom2'|]. intros Hav. exfalso.
    destruct Hvf as (Fv & HFv & Hv). rewrite <- Hconf2 in Hv.
    destruct (Hav _ Hv) as (p & Hp & Hpm).
    destruct (Hfol Fv HFv) as (_ & (pr2 & Hg2 & Hm2) & _). rewrite Hg2 in Hp. inversion Hp; subst p. lia. }
  destruct (star_commit LL1 T l rw rwl lg3 lof HLL1 HT HI3 Habs3 HlastT Hb L2 Fs N1 K L' Fs' pown
              HS2 Hne HH
              ltac:(intros F HF; rewrite Hlast1; apply HN; exact HF)
              ltac:(rewrite Hconf2; exact Hinc)
              ltac:(intros v Hv; rewrite Hconf2 in Hv; apply Hvot; exact Hv)
              Hgo ltac:(rewrite Hlast1; exact Hmo) HCI2 HK Hrun) as [R1 R2].
  rewrite Hlast1 in R1, R2. split; [exact R1|exact R2].
Qed.

End StarPropose.

(* ================================================================== *)
(* 8.9 the theorem with explicit hypotheses                            *)
(* ================================================================== *)

Lemma Forall2_In_r {A B} (P : A -> B -> Prop) xs ys y :
  Forall2 P xs ys -> In y ys -> exists x, In x xs /\ P x y.
Proof.
  induction 1 as [|x0 y0 xs ys Hp _ IH]; intros Hy; [destruct Hy|].
  destruct Hy as [<-|Hy]; [exists x0; split; [left; reflexivity|exact Hp]|].
  destruct (IH Hy) as (x & Hx & Hpx). exists x. split; [right; exact Hx|exact Hpx].
Qed.

(* what is reached for follower Fc after the proposal *)
Definition prop_done (L Lc : raft) (d : list N) (L' : raft) (Fc F' : raft) : Prop :=
  r_id F' = r_id Fc /\
  (exists pr', get_pr L' (r_id Fc) = Some pr' /\ matched pr' = last_index (r_log L) + 1) /\
  Agree (ll_append (abs (r_log L)) [new_ent Lc d]) (abs (r_log F'))
        (start_matched L (r_id Fc)) (last_index (r_log L) + 1) /\
  committed (r_log F') = last_index (r_log L) + 1.

(* MAIN 8 (star_propose_all).  A star that starts as in star_convergence runs N0 rounds and
   reaches (Lc, Fsc).  In that converged state: the leader's log is well formed with no
   pending snapshot, it has no uncommitted-size limit, its own Progress has
   matched = last_index (its log is persisted), every follower's log ends at the leader's
   last index (it holds nothing above it), the voters are the leader and some of the
   followers, at least one follower is a voter.  The application proposes one normal entry
   (MsgPropose stepped into Lc), the leader persists it (persist_leader), and N1 + K star
   rounds run, N1 the convergence bound for the longer log and K >= heartbeat_timeout + 1.
   Then the leader has committed the new entry (commit index last_index + 1), and for every
   follower: the leader's Progress has matched = last_index + 1, the follower's log agrees
   with the leader's new log up to last_index + 1 (it holds the new entry's index with the
   leader's term), and its commit index is last_index + 1. *)
Theorem star_propose_all :
  forall (L : raft) (Fs : list raft) (rwl rwf : bool) (N0 : nat) (Lc : raft) (Fsc : list raft)
         (pl : progress) (d : list N) (L2 : raft) (N1 K : nat) (L' : raft) (Fs' : list raft),
  (* the first run *)
  star_leader L rwl -> Fs <> [] -> NoDup (map r_id Fs) -> Forall (star_start L rwf) Fs ->
  (forall F, In F Fs ->
     (N.to_nat (r_heartbeat_timeout L + 2) *
      N.to_nat (pair_measure_bound (last_index (r_log L)) (start_matched L (r_id F))) <= N0)%nat) ->
  star_rounds N0 L Fs = Ok (Lc, Fsc) ->
  (* the converged state *)
  RepInv rwl (r_log Lc) -> u_snapshot (unst (r_log Lc)) = None ->
  last_index (r_log L) + 1 < u64_max -> r_max_uncommitted_size Lc = u64_max ->
  (forall Fc, In Fc Fsc -> last_index (r_log Fc) = last_index (r_log L)) ->
  get_pr Lc (r_id L) = Some pl -> matched pl = last_index (r_log L) ->
  incoming (conf_of Lc) <> [] ->
  (forall v, In v (incoming (conf_of Lc)) \/ In v (outgoing (conf_of Lc)) ->
             v = r_id L \/ In v (map r_id Fsc)) ->
  (exists Fc, In Fc Fsc /\
     (In (r_id Fc) (incoming (conf_of Lc)) \/ In (r_id Fc) (outgoing (conf_of Lc)))) ->
  (* the proposal, the persistence, the second run *)
  propose_persist Lc d = Ok L2 ->
  (forall F, In F Fs ->
     (N.to_nat (r_heartbeat_timeout L + 2) *
      N.to_nat (pair_measure_bound (last_index (r_log L) + 1) (start_matched L (r_id F))) <= N1)%nat) ->
  (N.to_nat (r_heartbeat_timeout L + 1) <= K)%nat ->
  star_rounds (N1 + K) L2 Fsc = Ok (L', Fs') ->
  committed (r_log L') = last_index (r_log L) + 1 /\
  Forall2 (prop_done L Lc d L') Fsc Fs'.
Proof.
  intros L Fs rwl rwf N0 Lc Fsc pl d L2 N1 K L' Fs' HL Hne Hnd Hall HN Hrun1
         HIc Hsn Hbd Hmx Hlastf Hgl Hml Hinc Hvot Hvf Hpp HN1 HK Hrun2.
  destruct (star_start_StarInv L Fs rwl rwf HL Hnd Hall) as [HLL HS].
  destruct HL as (Ls & Lt & Lrep & Lnz & Lb & Ltr & Lcq & Lro & LH).
  pose proof (abs_last rwl _ Lrep) as Hlast. rewrite Hlast in *.
  set (LL := abs (r_log L)) in *.
  destruct (star_converges LL (r_term L) (r_id L) rwf rwl (r_log L) (start_matched L)
              HLL Lt Lrep eq_refl (r_heartbeat_timeout L) L Fs N0 Lc Fsc HS LH
              ltac:(intros F HF; unfold star_bound; apply HN; exact HF) Hrun1) as [HSc HFc].
  pose proof (Forall2_ids _ _ _ HFc) as Hids.
  assert (Hnec : Fsc <> []).
  { intros E. subst Fsc. inversion HFc. subst Fs. congruence. }
  destruct (star_propose LL (r_term L) (r_id L) rwf rwl (r_log L) (start_matched L) HLL Lt eq_refl
              (r_heartbeat_timeout L) Lc Fsc d pl L2 N1 K L' Fs' HSc Hnec LH) as [R1 R2];
    try assumption.
  - intros Fc HFcin. destruct (Forall2_In_r _ _ _ _ HFc HFcin) as (F & _ & E & pr' & Hg & Hm & _).
    exists pr'. rewrite E. auto.
  - intros Fc HFcin. destruct (Forall2_In_r _ _ _ _ HFc HFcin) as (F & HF & E & _).
    unfold star_bound. rewrite E. apply HN1. exact HF.
  - split; [exact R1|]. eapply Forall2_impl_in; [|exact R2].
    intros Fc F' _ ((E & Hp & Ag) & Hc). unfold prop_done.
    assert (Hl1 : ll_last (ll_append LL [new_ent Lc d]) = ll_last LL + 1).
    { apply ll_append1_last. cbn.
      destruct HSc as [_ HAc]. destruct Fsc as [|F0 t]; [congruence|].
      pose proof (Forall_inv HAc) as (_ & _ & _ & a & HI).
      destruct (lc_log _ _ _ _ (pv_core _ _ _ _ _ _ _ _ _ _ _ HI)) as (A & B & _).
      unfold last_index. rewrite A, B. fold (last_index (r_log L)). rewrite Hlast. reflexivity. }
    rewrite Hl1 in Hp, Ag. rewrite Hlast. fold LL. split; [exact E|]. split; [exact Hp|]. split; [exact Ag|exact Hc].
Qed.

(* ================================================================== *)
(* example: the 3-node star of M/RaftProofsC10Star.v, continued        *)
(* ================================================================== *)

(* the converged state after the 191 rounds of sp_run *)
Definition pp_mid : raft * list raft :=
  match star_rounds (188 + 3) sp_L [sp_F2; sp_F3] with Ok x => x | Panic _ => (sp_L, []) end.
Definition pp_Lc : raft := fst pp_mid.
Definition pp_Fsc : list raft := snd pp_mid.

Lemma pp_mid_ok : star_rounds (188 + 3) sp_L [sp_F2; sp_F3] = Ok (pp_Lc, pp_Fsc).
Proof. vm_compute. reflexivity. Qed.

(* the leader's log in the converged state: same storage, commit index 5 *)
Lemma pp_Lc_log : r_log pp_Lc = mkLog xp_storeL (u_new 6) 5 5 0 0.
Proof. vm_compute. reflexivity. Qed.

Lemma pp_Lc_inv : RepInv false (r_log pp_Lc).
Proof.
  rewrite pp_Lc_log.
  assert (E : mkLog xp_storeL (u_new 6) 5 5 0 0 = set_committed xp_logL 5) by reflexivity.
  rewrite E. apply RepInv_set_committed; [exact xp_logL_inv|vm_compute; discriminate|vm_compute; discriminate|].
  intros _. vm_compute. discriminate.
Qed.

Definition pp_pl : progress :=
  match get_pr pp_Lc 1 with Some p => p | None => xp_pr_probe end.

(* facts about the converged state, each computed on the goal (so that the kernel checks
   them with the virtual machine) *)
Lemma pp_conf : conf_of pp_Lc = mkConf [1; 2; 3] [] [] [] false.
Proof. vm_compute. reflexivity. Qed.
Lemma pp_ids : map r_id pp_Fsc = [2; 3].
Proof. vm_compute. reflexivity. Qed.
Lemma pp_lasts : Forall (fun Fc => last_index (r_log Fc) = last_index (r_log sp_L)) pp_Fsc.
Proof. vm_compute. repeat constructor. Qed.
Lemma pp_own : get_pr pp_Lc (r_id sp_L) = Some pp_pl /\ matched pp_pl = last_index (r_log sp_L).
Proof. vm_compute. split; reflexivity. Qed.
Lemma pp_misc :
  u_snapshot (unst (r_log pp_Lc)) = None /\ last_index (r_log sp_L) + 1 < u64_max /\
  r_max_uncommitted_size pp_Lc = u64_max.
Proof. vm_compute. repeat split; reflexivity. Qed.
Lemma pp_voter : exists Fc, In Fc pp_Fsc /\ r_id Fc = 2.
Proof. vm_compute. eexists. split; [left; reflexivity|reflexivity]. Qed.

(* 251 = (heartbeat_timeout + 2) * pair_measure_bound 6 0 + heartbeat_timeout + 1 *)
Lemma pp_applies L2 L' Fs' :
  propose_persist pp_Lc [42] = Ok L2 ->
  star_rounds (248 + 3) L2 pp_Fsc = Ok (L', Fs') ->
  committed (r_log L') = last_index (r_log sp_L) + 1 /\
  Forall2 (prop_done sp_L pp_Lc [42] L') pp_Fsc Fs'.
Proof.
  intros Hpp Hrun.
  destruct pp_misc as (M1 & M2 & M3). destruct pp_own as [O1 O2].
  apply (star_propose_all sp_L [sp_F2; sp_F3] false false (188 + 3) pp_Lc pp_Fsc pp_pl [42] L2 248 3 L' Fs'
           sp_leader ltac:(discriminate)); try assumption.
  all: clear Hpp Hrun.
  - repeat constructor; cbn; intuition discriminate.
  - exact sp_start.
  - intros F [<-|[<-|[]]]; vm_compute; lia.
  - exact pp_mid_ok.
  - exact pp_Lc_inv.
  - apply Forall_forall. exact pp_lasts.
  - rewrite pp_conf. discriminate.
  - rewrite pp_conf, pp_ids. cbn. intros v [Hv|[]]. destruct Hv as [<-|[<-|[<-|[]]]]; [left; reflexivity|right; left; reflexivity|right; right; left; reflexivity].
  - destruct pp_voter as (Fc & HIn & E). exists Fc. split; [exact HIn|]. left. rewrite pp_conf, E. cbn. right. left. reflexivity.
  - intros F [<-|[<-|[]]]; vm_compute; lia.
  - vm_compute. lia.
Qed.

(* and everything runs (computed): the proposed entry (data [42]) is entry 6 of every log,
   and everybody has committed it *)
Definition pp_L2 : raft :=
  match propose_persist pp_Lc [42] with Ok x => x | Panic _ => pp_Lc end.

Lemma pp_L2_ok : propose_persist pp_Lc [42] = Ok pp_L2.
Proof. vm_compute. reflexivity. Qed.

Definition pp_end : raft * list raft :=
  match star_rounds (248 + 3) pp_L2 pp_Fsc with Ok x => x | Panic _ => (pp_L2, []) end.

Lemma pp_run :
  star_rounds (248 + 3) pp_L2 pp_Fsc = Ok pp_end /\
  committed (r_log (fst pp_end)) = 6 /\
  map (fun F => log_entries (r_log F) 6 None) (fst pp_end :: snd pp_end) =
    [Ok (SOk [mkEntry EntryNormal 2 6 [42] []]); Ok (SOk [mkEntry EntryNormal 2 6 [42] []]);
     Ok (SOk [mkEntry EntryNormal 2 6 [42] []])] /\
  map (fun F => committed (r_log F)) (snd pp_end) = [6; 6] /\
  map r_id (snd pp_end) = [2; 3].
Proof. vm_compute. repeat split; reflexivity. Qed.
