(* C20 extension, part 2: node level.  Under LI rw r (= RepInv rw (r_log r)) no function of
   M/Raft.v returns a shape site.  Only the log matters here: the Ok-form preservation
   lemmas of M/RaftProofsRepInv.v give LI of every intermediate state. *)
From RV Require Import Base.Prelude Base.IdSet M.Util M.UtilProofs M.Proto M.MemStorage
  M.MemStorageProofs M.Inflights M.Progress M.RaftLog M.Quorum M.ConfChange M.Msg M.Raft
  M.RawNode M.RaftProofs M.RaftLogProofs M.RaftLogProofsOps M.RaftLogProofsStore
  M.RaftLogProofsSlice M.RaftLogProofsHistory M.RaftProofsRepInv
  M.RaftProofsC20 M.RaftProofsC20Inv M.RaftProofsC20Shape.
From RecordUpdate Require Import RecordSet.
Import RecordSetNotations.

Local Open Scope N_scope.

(* ------------------------------------------------------------------ *)
(* automation *)
Create HintDb nops.

Lemma bind_assoc' {A B C} (a : Res A) (f : A -> Res B) (g : B -> Res C) :
  bind (bind a f) g = bind a (fun x => bind (f x) g).
Proof. destruct a; reflexivity. Qed.

(* LI of a state expression, by reduction of the record updates *)
Ltac solve_li :=
  lazymatch goal with
  | |- LI _ _ => unfold LI; cbn; solve_li
  | |- RepInv _ (set_limit _ _) => apply RepInv_set_limit; solve_li
  | |- RepInv _ _ => assumption
  end.

Ltac solve_room := unfold room in *; cbn; lia.

(* facts about the result of a call, from its Ok equation *)
Ltac frame_fact E Heq :=
  (* Heq : r_log x = r_log INPUT *)
  match type of Heq with
  | r_log ?x = ?R =>
      let rw := match goal with H : RepInv ?rw _ |- _ => rw end in
      assert (RepInv rw (r_log x)) by (rewrite Heq; cbn; first [assumption|apply RepInv_set_limit; assumption]);
      let T := eval cbn in R in
      assert (last_index (r_log x) = last_index T) by (rewrite Heq; reflexivity);
      clear Heq
  end.

Ltac the_rw :=
  match goal with
  | H : RepInv ?rw _ |- _ => rw
  | H : LI ?rw _ |- _ => rw
  end.

(* split a preservation fact into its parts, in normal form *)
Ltac split_fact Q :=
  unfold LI in Q;
  repeat match type of Q with
         | _ /\ _ => let A := fresh "Q" in destruct Q as [A Q]; split_fact A
         end;
  try match type of Q with
      | same_su ?a ?b => apply same_su_last in Q
      end.

Ltac pres_with lem E :=
  let rw := the_rw in let Q := fresh "Q" in
  pose proof E as Q; eapply (lem rw) in Q;
  [ split_fact Q | first [solve_li|solve_room|assumption] .. ].

Ltac fwd E :=
  let F := fresh "F" in
  lazymatch type of E with
  | Raft.maybe_commit _ = Ok (_, _) => pres_with maybe_commit_pres E
  | append_entry _ _ = Ok (_, _) => pres_with append_entry_pres E
  | become_leader _ = Ok _ => pres_with become_leader_pres E
  | RaftLog.commit_to _ _ = Ok _ => pres_with commit_to_pres E
  | RaftLog.maybe_commit _ _ _ = Ok (_, _) => pres_with log_maybe_commit_pres E
  | maybe_persist _ _ _ = Ok (_, _) => pres_with maybe_persist_pres E
  | applied_to _ _ = Ok _ => pres_with applied_to_pres E
  | campaign_real _ _ = Ok _ => pres_with campaign_real_pres E
  | campaign_pre _ = Ok _ => pres_with campaign_pre_pres E
  | poll _ _ _ = Ok (_, _) => pres_with poll_pres E
  | hup _ _ = Ok _ => pres_with hup_pres E
  | maybe_commit_by_vote _ _ = Ok _ => pres_with maybe_commit_by_vote_pres E
  | handle_append_response _ _ = Ok _ => pres_with handle_append_response_pres E
  | post_conf_change _ = Ok (_, _) => pres_with post_conf_change_pres E
  | send _ _ = Ok _ => pose proof (send_log _ _ _ E) as F; frame_fact E F
  | maybe_send_append _ _ _ _ = Ok (_, _, _) =>
      pose proof (maybe_send_append_log _ _ _ _ _ _ _ E) as F; frame_fact E F
  | send_append_to _ _ = Ok _ => pose proof (send_append_to_log _ _ _ E) as F; frame_fact E F
  | send_append_aggressively _ _ = Ok _ =>
      pose proof (send_append_aggressively_log _ _ _ E) as F; frame_fact E F
  | bcast_append _ = Ok _ => pose proof (bcast_append_log _ _ E) as F; frame_fact E F
  | bcast_heartbeat_with_ctx _ _ = Ok _ =>
      pose proof (bcast_heartbeat_with_ctx_log _ _ _ E) as F; frame_fact E F
  | bcast_heartbeat _ = Ok _ => pose proof (bcast_heartbeat_log _ _ E) as F; frame_fact E F
  | send_timeout_now _ _ = Ok _ => pose proof (send_timeout_now_log _ _ _ E) as F; frame_fact E F
  | send_request_snapshot _ = Ok _ =>
      pose proof (send_request_snapshot_log _ _ E) as F; frame_fact E F
  | send_vote_requests _ _ _ _ _ _ _ = Ok _ =>
      pose proof (send_vote_requests_log _ _ _ _ _ _ _ _ E) as F; frame_fact E F
  | handle_ready_read_index _ _ _ = Ok (_, _) =>
      pose proof (handle_ready_read_index_log _ _ _ _ _ E) as F; frame_fact E F
  | respond_reads _ _ = Ok _ => pose proof (respond_reads_log _ _ _ E) as F; frame_fact E F
  | reset _ _ = Ok _ => pose proof (reset_log _ _ _ E) as F; frame_fact E F
  | become_candidate _ = Ok _ => pose proof (become_candidate_log _ _ E) as F; frame_fact E F
  | become_pre_candidate _ = Ok _ => pose proof (become_pre_candidate_log _ _ E) as F; frame_fact E F
  | become_follower _ _ _ = Ok _ => pose proof (become_follower_log _ _ _ _ E) as F; frame_fact E F
  | _ => idtac
  end.

Ltac dtuple x :=
  let T := type of x in
  lazymatch T with
  | prod _ _ => let a := fresh "a" in let b := fresh "b" in destruct x as [a b]; dtuple a
  | _ => idtac
  end.

Ltac nstep :=
  lazymatch goal with
  | |- nops (Ok _) => exact I
  | |- nops (Panic _) => apply notin_b; vm_compute; reflexivity
  | |- nops (bind (Ok _) _) => cbn [bind]; cbv beta
  | |- nops (bind (Panic _) _) => cbn [bind]
  | |- nops (bind (match ?x with _ => _ end) _) => destruct x eqn:?
  | |- nops (bind (bind _ _) _) => rewrite bind_assoc'
  | |- nops (bind _ _) =>
      apply nops_bind; [ solve [ typeclasses eauto with nops ] | ];
      let x := fresh "x" in let E := fresh "E" in
      intros x E; cbv beta; dtuple x; cbv beta iota;
      fwd E
  | |- nops (match ?x with _ => _ end) => destruct x eqn:?
  | |- nops _ => solve [ typeclasses eauto with nops ]
  end.

Ltac snops := cbv beta zeta; repeat nstep.

#[export] Hint Extern 2 (LI _ _) => solve_li : nops.
#[export] Hint Extern 2 (RepInv _ _) => solve_li : nops.
#[export] Hint Extern 2 (room _ _) => solve_room : nops.
(* a callee whose site table has no shape site *)
#[export] Hint Extern 9 (nops _) =>
  eapply nops_only; [intros ? ?; eauto with sites nocore|vm_compute; reflexivity] : nops.

(* ------------------------------------------------------------------ *)
(* leaf users *)
Lemma term_nops rw l i : RepInv rw l -> nops (RaftLog.term l i).
Proof. intros H. apply nops_total. apply (term_total rw); exact H. Qed.
#[export] Hint Extern 1 (nops (RaftLog.term _ _)) => let rw := the_rw in eapply (term_nops rw) : nops.

Lemma last_term_nops rw l : RepInv rw l -> nops (last_term l).
Proof. intros H. apply nops_total. apply (last_term_total rw); exact H. Qed.
#[export] Hint Extern 1 (nops (last_term _)) => let rw := the_rw in eapply (last_term_nops rw) : nops.

Lemma is_up_to_date_nops rw l i t : RepInv rw l -> nops (is_up_to_date l i t).
Proof. intros H. apply nops_total. apply (is_up_to_date_total rw); exact H. Qed.
#[export] Hint Extern 1 (nops (is_up_to_date _ _ _)) => let rw := the_rw in eapply (is_up_to_date_nops rw) : nops.

Lemma match_term_nops rw l i t : RepInv rw l -> nops (match_term l i t).
Proof. intros H. apply nops_total. apply (match_term_total rw); exact H. Qed.
#[export] Hint Extern 1 (nops (match_term _ _ _)) => let rw := the_rw in eapply (match_term_nops rw) : nops.

Lemma first_index_nops rw l : RepInv rw l -> nops (RaftLog.first_index l).
Proof. intros H. apply nops_total. destruct (first_index_total rw l H) as (f & E & _). eauto. Qed.
#[export] Hint Extern 1 (nops (RaftLog.first_index _)) => let rw := the_rw in eapply (first_index_nops rw) : nops.

Lemma commit_info_nops rw l : RepInv rw l -> nops (commit_info l).
Proof.
  intros H. destruct (commit_info l) as [v|s] eqn:E; [exact I|].
  apply (commit_info_only rw l H) in E. subst. apply notin_b. vm_compute. reflexivity.
Qed.
#[export] Hint Extern 1 (nops (commit_info _)) => let rw := the_rw in eapply (commit_info_nops rw) : nops.

Lemma log_entries_nops rw l i mx : RepInv rw l -> nops (log_entries l i mx).
Proof. intros H. apply nops_total. apply (log_entries_total rw); exact H. Qed.
#[export] Hint Extern 1 (nops (log_entries _ _ _)) => let rw := the_rw in eapply (log_entries_nops rw) : nops.

Lemma find_conflict_by_term_nops rw l i t : RepInv rw l -> nops (find_conflict_by_term l i t).
Proof.
  intros H. destruct (find_conflict_by_term l i t) as [v|s] eqn:E; [exact I|].
  apply (find_conflict_by_term_only rw l H) in E. subst. apply notin_b. vm_compute. reflexivity.
Qed.
#[export] Hint Extern 1 (nops (find_conflict_by_term _ _ _)) => let rw := the_rw in eapply (find_conflict_by_term_nops rw) : nops.

Lemma log_maybe_commit_nops rw l mi t : RepInv rw l -> nops (RaftLog.maybe_commit l mi t).
Proof. intros H. unfold RaftLog.maybe_commit. snops. Qed.
#[export] Hint Extern 1 (nops (RaftLog.maybe_commit _ _ _)) => let rw := the_rw in eapply (log_maybe_commit_nops rw) : nops.

Lemma maybe_persist_nops rw l i t : RepInv rw l -> nops (maybe_persist l i t).
Proof. intros H. apply nops_total. apply (maybe_persist_total rw); exact H. Qed.
#[export] Hint Extern 1 (nops (maybe_persist _ _ _)) => let rw := the_rw in eapply (maybe_persist_nops rw) : nops.

Lemma storage_term_nops rw l i : RepInv rw l -> nops (storage_term (store l) i).
Proof. intros H. apply nops_total. apply (storage_term_total rw); exact H. Qed.
#[export] Hint Extern 1 (nops (storage_term (store _) _)) => let rw := the_rw in eapply (storage_term_nops rw) : nops.

(* ---- node level ---- *)
Lemma commit_to_current_term_nops rw r : LI rw r -> nops (commit_to_current_term r).
Proof. intros H. unfold commit_to_current_term. unfold LI in H. snops. Qed.
#[export] Hint Extern 1 (nops (commit_to_current_term _)) => let rw := the_rw in eapply (commit_to_current_term_nops rw) : nops.

(* Storage::snapshot never answers an error other than "temporarily unavailable" *)
Lemma raft_snapshot_err r ri to e :
  raft_snapshot r ri to = Ok (SErr e) -> e = SnapshotTemporarilyUnavailable.
Proof.
  unfold raft_snapshot. intros H.
  assert (S : forall x, storage_snapshot (store (r_log r)) ri to = Ok x -> snd x = SErr e ->
              e = SnapshotTemporarilyUnavailable).
  { intros x X Y. unfold storage_snapshot in X. destruct (trig_snap _).
    - injection X as <-. cbn in Y. congruence.
    - inv_bind X. injection X as <-. cbn in Y. discriminate. }
  destruct (r_snap_app r) as [a|].
  - assert (F : forall y, (if (a <? ri) || (a =? 0) then Ok (SErr SnapshotTemporarilyUnavailable)
                           else t <- storage_term (store (r_log r)) a ;;
                                match t with
                                | SOk t0 => Ok (SOk (mkSnap a t0 (cs (store (r_log r)))))
                                | SErr _ => Ok (SErr SnapshotTemporarilyUnavailable)
                                end) = Ok (SErr y) -> y = SnapshotTemporarilyUnavailable).
    { intros y Y. destruct (_ || _); [congruence|]. inv_bind Y. destruct x; congruence. }
    destruct (u_snapshot (unst (r_log r))) as [s|]; [destruct (ri <=? s_index s); [discriminate|]|];
      eapply F; exact H.
  - unfold log_snapshot in H.
    destruct (u_snapshot (unst (r_log r))) as [s|]; [destruct (ri <=? s_index s); [discriminate|]|];
      inv_bind H; injection H as H; eapply S; eassumption.
Qed.

Lemma raft_snapshot_nops rw r ri to : LI rw r -> nops (raft_snapshot r ri to).
Proof. intros H. unfold raft_snapshot, LI in *. snops. Qed.
#[export] Hint Extern 1 (nops (raft_snapshot _ _ _)) => let rw := the_rw in eapply (raft_snapshot_nops rw) : nops.

Lemma prepare_send_snapshot_nops rw r m pr to : LI rw r -> nops (prepare_send_snapshot r m pr to).
Proof.
  intros H. unfold prepare_send_snapshot. destruct (negb _); [exact I|]. cbv zeta.
  apply nops_bind; [eapply raft_snapshot_nops; exact H|]. intros x E.
  destruct x as [s|e]; [snops|].
  apply raft_snapshot_err in E. subst e. exact I.
Qed.
#[export] Hint Extern 1 (nops (prepare_send_snapshot _ _ _ _)) => let rw := the_rw in eapply (prepare_send_snapshot_nops rw) : nops.

Lemma maybe_send_append_nops rw r to pr ae : LI rw r -> nops (maybe_send_append r to pr ae).
Proof. intros H. unfold maybe_send_append. unfold LI in H. snops. Qed.
#[export] Hint Extern 1 (nops (maybe_send_append _ _ _ _)) => let rw := the_rw in eapply (maybe_send_append_nops rw) : nops.

Lemma send_append_to_nops rw r to : LI rw r -> nops (send_append_to r to).
Proof. intros H. unfold send_append_to. unfold LI in H. snops. Qed.
#[export] Hint Extern 1 (nops (send_append_to _ _)) => let rw := the_rw in eapply (send_append_to_nops rw) : nops.

Lemma send_append_aggressively_loop_nops rw fuel : forall r to pr,
  LI rw r -> nops (send_append_aggressively_loop fuel r to pr).
Proof.
  induction fuel as [|f IH]; intros r to pr H; cbn [send_append_aggressively_loop]; unfold LI in H; snops.
Qed.
#[export] Hint Extern 1 (nops (send_append_aggressively_loop _ _ _ _)) =>
  let rw := the_rw in eapply (send_append_aggressively_loop_nops rw) : nops.

Lemma send_append_aggressively_nops rw r to : LI rw r -> nops (send_append_aggressively r to).
Proof. intros H. unfold send_append_aggressively. unfold LI in H. snops. Qed.
#[export] Hint Extern 1 (nops (send_append_aggressively _ _)) =>
  let rw := the_rw in eapply (send_append_aggressively_nops rw) : nops.

Lemma for_each_peer_nops rw (f : raft -> N -> Res raft) ids self :
  (forall r0 id, LI rw r0 -> nops (f r0 id)) ->
  (forall r0 id r1, f r0 id = Ok r1 -> r_log r1 = r_log r0) ->
  forall r, LI rw r -> nops (for_each_peer ids self f r).
Proof.
  intros Hf Hl. induction ids as [|id rest IH]; intros r H; cbn [for_each_peer]; [exact I|].
  destruct (id =? self); [apply IH; exact H|].
  apply nops_bind; [apply Hf; exact H|]. intros x E. apply IH.
  eapply LI_same; [eapply Hl; exact E|exact H].
Qed.

Lemma for_each_peer_log (f : raft -> N -> Res raft) ids self :
  (forall r0 id r1, f r0 id = Ok r1 -> r_log r1 = r_log r0) ->
  forall r r', for_each_peer ids self f r = Ok r' -> r_log r' = r_log r.
Proof.
  intros Hl. induction ids as [|id rest IH]; intros r r' E; cbn [for_each_peer] in E.
  - injection E as <-. reflexivity.
  - destruct (id =? self); [apply IH; exact E|].
    inv_bind E. apply IH in E. rewrite E. eapply Hl; exact Hx.
Qed.

Lemma bcast_append_nops rw r : LI rw r -> nops (bcast_append r).
Proof.
  intros H. unfold bcast_append. apply (for_each_peer_nops rw); [| |exact H].
  - intros r0 id H0. apply (send_append_to_nops rw). exact H0.
  - intros r0 id r1 E. eapply send_append_to_log; exact E.
Qed.
#[export] Hint Extern 1 (nops (bcast_append _)) => let rw := the_rw in eapply (bcast_append_nops rw) : nops.

Lemma maybe_commit_nops rw r : LI rw r -> nops (Raft.maybe_commit r).
Proof. intros H. unfold Raft.maybe_commit. unfold LI in H. snops. Qed.
#[export] Hint Extern 1 (nops (Raft.maybe_commit _)) => let rw := the_rw in eapply (maybe_commit_nops rw) : nops.

Lemma append_entry_nops rw r es :
  LI rw r -> room (N.of_nat (length es)) r -> nops (append_entry r es).
Proof.
  intros H Hr. unfold append_entry.
  destruct (maybe_increase_uncommitted_size r es) as [r1 ok] eqn:E.
  assert (El : r_log r1 = r_log r).
  { unfold maybe_increase_uncommitted_size in E.
    repeat match type of E with (if ?c then _ else _) = _ => destruct c end; injection E as <- _; reflexivity. }
  destruct (negb ok); [exact I|]. rewrite El.
  apply nops_bind; [|intros; exact I]. apply nops_total.
  assert (Et : forall t, exists v, log_append (r_log r) (stamp es t (last_index (r_log r) + 1)) = Ok v).
  { intros t. apply (log_append_stamp_total rw); [exact H|exact Hr]. }
  apply Et.
Qed.
#[export] Hint Extern 1 (nops (append_entry _ _)) => let rw := the_rw in eapply (append_entry_nops rw) : nops.

Lemma become_leader_nops rw r : LI rw r -> room 1 r -> nops (become_leader r).
Proof. intros H Hr. unfold become_leader. unfold LI in H. snops. Qed.
#[export] Hint Extern 1 (nops (become_leader _)) => let rw := the_rw in eapply (become_leader_nops rw) : nops.

Lemma poll_gen_nops rw (rc : raft -> Res raft) r from v :
  (forall r0, LI rw r0 -> room 1 r0 -> nops (rc r0)) ->
  LI rw r -> room 1 r -> nops (poll_gen rc r from v).
Proof.
  intros Hrc H Hr. unfold poll_gen. unfold LI in H. cbv zeta.
  match goal with |- nops (match ?x with _ => _ end) => destruct x end; [exact I|snops|].
  match goal with |- nops (if ?c then _ else _) => destruct c end; [|snops].
  apply nops_bind; [apply Hrc; [solve_li|solve_room]|]. intros; exact I.
Qed.

Lemma send_vote_requests_nops rw ids : forall r vm t c ct tr,
  LI rw r -> nops (send_vote_requests ids r vm t c ct tr).
Proof.
  induction ids as [|id rest IH]; intros r vm t c ct tr H; cbn [send_vote_requests]; unfold LI in H; snops.
Qed.
#[export] Hint Extern 1 (nops (send_vote_requests _ _ _ _ _ _ _)) =>
  let rw := the_rw in eapply (send_vote_requests_nops rw) : nops.

Lemma campaign_real_nops rw tr r : LI rw r -> room 1 r -> nops (campaign_real tr r).
Proof.
  intros H Hr. unfold campaign_real. unfold LI in H.
  apply nops_bind; [snops|]. intros r1 E1. fwd E1.
  apply nops_bind.
  { apply (poll_gen_nops rw); [intros; apply notin_b; vm_compute; reflexivity|solve_li|solve_room]. }
  intros [r2 res] E2.
  assert (Q : LI rw r2).
  { eapply (poll_gen_pres rw) in E2; [exact E2|intros ? ? X; discriminate X|solve_li|solve_room]. }
  unfold LI in Q. snops.
Qed.
#[export] Hint Extern 1 (nops (campaign_real _ _)) => let rw := the_rw in eapply (campaign_real_nops rw) : nops.

Lemma poll_nops rw r from v : LI rw r -> room 1 r -> nops (poll r from v).
Proof.
  intros H Hr. unfold poll. apply (poll_gen_nops rw); [|exact H|exact Hr].
  intros r0 H0 Hr0. apply (campaign_real_nops rw); assumption.
Qed.
#[export] Hint Extern 1 (nops (poll _ _ _)) => let rw := the_rw in eapply (poll_nops rw) : nops.

Lemma campaign_pre_nops rw r : LI rw r -> room 1 r -> nops (campaign_pre r).
Proof. intros H Hr. unfold campaign_pre. unfold LI in H. snops. Qed.
#[export] Hint Extern 1 (nops (campaign_pre _)) => let rw := the_rw in eapply (campaign_pre_nops rw) : nops.

(* the membership-change scan: inside the log, every page is non-empty *)
Lemma has_unapplied_nops rw r lo hi :
  LI rw r -> ll_first (abs (r_log r)) <= lo -> hi <= last_index (r_log r) + 1 ->
  nops (has_unapplied_conf_changes r lo hi).
Proof.
  intros H H1 H2. unfold has_unapplied_conf_changes. destruct (_ <=? _); [exact I|].
  apply nops_total. apply (scan_conf_total rw); [exact H|exact H1| |lia].
  rewrite <- (abs_last rw _ H). exact H2.
Qed.

Lemma hup_nops rw r tl : LI rw r -> room 1 r -> nops (hup r tl).
Proof.
  intros H Hr. unfold hup. unfold LI in H.
  destruct (is_leader r); [exact I|]. destruct (negb (r_promotable r)); [exact I|].
  pose proof (RepInv_committed_le_last rw _ H) as Hc.
  assert (Hlow : forall low,
            (match u_maybe_first_index (unst (r_log r)) with
             | Some i => Ok i
             | None => fi <- RaftLog.first_index (r_log r) ;; Ok (N.max (applied (r_log r) + 1) fi)
             end) = Ok low -> ll_first (abs (r_log r)) <= low).
  { intros low E. destruct (first_index_total rw _ H) as (f & Ef & ->).
    destruct (u_maybe_first_index (unst (r_log r))) as [i|] eqn:Eu.
    - injection E as <-. unfold RaftLog.first_index in Ef. rewrite Eu in Ef. injection Ef as <-. lia.
    - rewrite Ef in E. cbn [bind] in E. injection E as <-. lia. }
  apply nops_bind.
  { destruct (u_maybe_first_index (unst (r_log r))); [exact I|]. snops. }
  intros low E. cbv zeta.
  apply nops_bind; [apply (has_unapplied_nops rw); [exact H|apply Hlow; exact E|lia]|].
  intros b _. snops.
Qed.
#[export] Hint Extern 1 (nops (hup _ _)) => let rw := the_rw in eapply (hup_nops rw) : nops.

Lemma maybe_commit_by_vote_nops rw r m : LI rw r -> nops (maybe_commit_by_vote r m).
Proof.
  intros H. unfold maybe_commit_by_vote. unfold LI in H.
  destruct (_ || _); [exact I|]. cbv zeta. destruct (_ || _); [exact I|].
  apply nops_bind; [snops|]. intros [l' b] E. cbv beta iota.
  pose proof E as Q. apply (log_maybe_commit_pres rw) in Q; [|exact H]. destruct Q as [Q1 Q2].
  destruct (negb b); [exact I|]. destruct (_ && _); [exact I|].
  apply nops_bind; [|intros c _; snops].
  apply (has_unapplied_nops rw); [exact Q1| |].
  - cbn. rewrite (same_su_abs _ _ Q2). pose proof (base_le_committed rw _ H). unfold ll_first. lia.
  - cbn. pose proof (RepInv_committed_le_last rw _ Q1). lia.
Qed.
#[export] Hint Extern 1 (nops (maybe_commit_by_vote _ _)) =>
  let rw := the_rw in eapply (maybe_commit_by_vote_nops rw) : nops.

Lemma send_request_snapshot_nops rw r : LI rw r -> nops (send_request_snapshot r).
Proof.
  intros H. unfold send_request_snapshot. cbv zeta.
  destruct (term_at_last_ok rw _ H) as [t ->]. cbn [bind]. snops.
Qed.
#[export] Hint Extern 1 (nops (send_request_snapshot _)) =>
  let rw := the_rw in eapply (send_request_snapshot_nops rw) : nops.

Lemma handle_heartbeat_nops rw r m : LI rw r -> nops (handle_heartbeat r m).
Proof. intros H. unfold handle_heartbeat. unfold LI in H. snops. Qed.
#[export] Hint Extern 1 (nops (handle_heartbeat _ _)) => let rw := the_rw in eapply (handle_heartbeat_nops rw) : nops.

(* an inbound MsgAppend as a library peer builds it: consecutive indexes (append_wf), entry
   terms >= 1, and an anchor that is inside the receiver's log or has a non-zero term *)
Definition append_wf2 (li : N) (m : msg) : Prop :=
  append_wf m /\ nz_terms (m_entries m) /\ (m_index m <= li \/ m_log_term m <> 0).

Lemma handle_append_entries_nops rw r m :
  LI rw r -> append_wf2 (last_index (r_log r)) m -> nops (handle_append_entries r m).
Proof.
  intros H ((W1 & W2) & W3 & W4). unfold handle_append_entries. unfold LI in H.
  destruct (negb _); [apply (send_request_snapshot_nops rw); exact H|].
  destruct (_ <? _); [snops|]. cbv zeta.
  apply nops_bind.
  { destruct (maybe_append _ _ _ _ _) as [v|s] eqn:E; [exact I|].
    apply (maybe_append_only rw _ H) in E; try assumption.
    - subst. apply notin_b. vm_compute. reflexivity.
    - rewrite <- (abs_last rw _ H). exact W4. }
  intros [l' res] E. cbv beta iota.
  pose proof E as Q. apply (maybe_append_pres rw) in Q; try assumption. destruct Q as (Q & _).
  destruct res as [[ci li]|]; snops.
Qed.

Lemma post_conf_change_nops rw r : LI rw r -> nops (post_conf_change r).
Proof.
  intros H. unfold post_conf_change. unfold LI in H. cbv zeta.
  match goal with |- nops (if ?c then _ else _) => destruct c end; [exact I|].
  match goal with |- nops (if ?c then _ else _) => destruct c end; [exact I|].
  apply nops_bind; [snops|]. intros [r1 b] E1. fwd E1. cbv beta iota.
  assert (Hfl : forall r0 id r2,
            match get_pr r0 id with
            | Some pr => y <- maybe_send_append r0 id pr false ;;
                         (let '(r', pr', _) := y in Ok (put_pr r' id pr'))
            | None => Panic site_pr_unwrap
            end = Ok r2 -> r_log r2 = r_log r0).
  { intros r0 id r2 E. destruct (get_pr r0 id); [|discriminate].
    inv_bind E. destruct x as [[r' pr'] b']. injection E as <-.
    apply maybe_send_append_log in Hx. exact Hx. }
  apply nops_bind.
  { destruct b; [snops|].
    apply (for_each_peer_nops rw); [|exact Hfl|solve_li].
    intros r0 id H0. unfold LI in H0. snops. }
  intros r2 E2.
  assert (Q2 : RepInv rw (r_log r2)).
  { destruct b.
    - apply bcast_append_log in E2. rewrite E2. assumption.
    - apply (for_each_peer_log _ _ _ Hfl) in E2. rewrite E2. assumption. }
  snops.
Qed.
#[export] Hint Extern 1 (nops (post_conf_change _)) => let rw := the_rw in eapply (post_conf_change_nops rw) : nops.

Lemma restore_nops rw r s : LI rw r -> s_index s < u64_max -> nops (restore r s).
Proof.
  intros H Hb. unfold restore. unfold LI in H.
  destruct (_ <? _); [exact I|]. destruct (negb _); [snops|]. cbv zeta.
  destruct (negb _); [exact I|].
  apply nops_bind; [snops|]. intros mt _.
  match goal with |- nops (if ?c then _ else _) => destruct c end; [snops|].
  apply nops_bind; [snops|]. intros l' E.
  pose proof E as Q. apply (log_restore_pres rw) in Q; [|exact H|exact Hb]. destruct Q as (Q & _).
  destruct (ConfChange.restore _ _) as [[c' ids']|e]; [|snops].
  apply nops_bind; [apply (post_conf_change_nops rw); solve_li|]. intros [r1 cs1] _. snops.
Qed.
#[export] Hint Extern 1 (nops (restore _ _)) => let rw := the_rw in eapply (restore_nops rw) : nops.

Lemma handle_snapshot_nops rw r m :
  LI rw r -> s_index (m_snapshot m) < u64_max -> nops (handle_snapshot r m).
Proof. intros H Hb. unfold handle_snapshot. unfold LI in H. snops. Qed.

Lemma handle_append_response_nops rw r m : LI rw r -> nops (handle_append_response r m).
Proof. intros H. unfold handle_append_response. unfold LI in H. snops. Qed.
#[export] Hint Extern 1 (nops (handle_append_response _ _)) =>
  let rw := the_rw in eapply (handle_append_response_nops rw) : nops.

Lemma handle_heartbeat_response_nops rw r m : LI rw r -> nops (handle_heartbeat_response r m).
Proof. intros H. unfold handle_heartbeat_response. unfold LI in H. snops. Qed.
#[export] Hint Extern 1 (nops (handle_heartbeat_response _ _)) =>
  let rw := the_rw in eapply (handle_heartbeat_response_nops rw) : nops.

Lemma handle_transfer_leader_nops rw r m : LI rw r -> nops (handle_transfer_leader r m).
Proof. intros H. unfold handle_transfer_leader. unfold LI in H. snops. Qed.
#[export] Hint Extern 1 (nops (handle_transfer_leader _ _)) =>
  let rw := the_rw in eapply (handle_transfer_leader_nops rw) : nops.

(* message precondition for the shape sites: C14's msg_wf plus, for MsgAppend, the two
   facts a library peer guarantees (entry terms >= 1; anchor in range or of non-zero term) *)
Definition msg_wf2 (li : N) (m : msg) : Prop :=
  msg_wf li m /\ (m_type m = MsgAppend -> append_wf2 li m).

Lemma step_leader_nops rw r m :
  LI rw r -> msg_wf (last_index (r_log r)) m -> nops (step_leader r m).
Proof.
  intros H (_ & Wp & _ & _). unfold step_leader. unfold LI in H. cbv zeta.
  destruct (quorum_recently_active (r_prs r) (r_id r)) as [prs' active].
  destruct (filter_conf_changes r (m_entries m) (m_ccinfo m) 0) as [[r1 ents] ok] eqn:Ef.
  pose proof (filter_conf_changes_log _ _ _ _ _ _ _ Ef) as El.
  pose proof (RaftProofsC09.filter_length _ _ _ _ _ _ _ Ef) as Hlen.
  assert (H1 : RepInv rw (r_log r1)) by (rewrite El; exact H).
  destruct (m_type m =? MsgBeat); [snops|].
  destruct (m_type m =? MsgCheckQuorum); [snops|].
  destruct (m_type m =? MsgPropose) eqn:Ep.
  { apply N.eqb_eq in Ep. specialize (Wp Ep).
    assert (Hr : room (N.of_nat (length ents)) r1) by (unfold room; rewrite El, Hlen; exact Wp).
    snops. }
  snops.
Qed.
#[export] Hint Extern 1 (nops (step_leader _ _)) => let rw := the_rw in eapply (step_leader_nops rw) : nops.

Lemma elect_room li m t :
  msg_wf li m -> m_type m = t -> elect_type t = true -> li + 1 < u64_max.
Proof. intros (We & _) <- E. apply We. exact E. Qed.

Lemma step_follower_nops rw r m :
  LI rw r -> msg_wf2 (last_index (r_log r)) m -> nops (step_follower r m).
Proof.
  intros H (W & Wa2). pose proof W as (We & Wp & Wa & Ws).
  unfold step_follower. unfold LI in H. cbv zeta.
  destruct (m_type m =? MsgPropose); [snops|].
  destruct (m_type m =? MsgAppend) eqn:Ea.
  { apply N.eqb_eq in Ea. apply nops_bind; [|intros; exact I].
    apply (handle_append_entries_nops rw); [solve_li|exact (Wa2 Ea)]. }
  destruct (m_type m =? MsgHeartbeat); [snops|].
  destruct (m_type m =? MsgSnapshot) eqn:Es.
  { apply N.eqb_eq in Es. apply nops_bind; [|intros; exact I].
    apply (handle_snapshot_nops rw); [solve_li|exact (Ws Es)]. }
  destruct (m_type m =? MsgTransferLeader); [snops|].
  destruct (m_type m =? MsgTimeoutNow) eqn:Et.
  { apply N.eqb_eq in Et. assert (Hr : room 1 r) by (eapply elect_room; [exact W|exact Et|reflexivity]).
    snops. }
  snops.
Qed.

Lemma step_candidate_nops rw r m :
  LI rw r -> msg_wf2 (last_index (r_log r)) m -> nops (step_candidate r m).
Proof.
  intros H (W & Wa2). pose proof W as (We & Wp & Wa & Ws).
  unfold step_candidate. unfold LI in H. cbv zeta.
  destruct (m_type m =? MsgPropose); [exact I|].
  match goal with |- nops (if ?c then _ else _) => destruct c eqn:Eg end.
  { destruct (negb _); [snops|].
    apply nops_bind; [snops|]. intros r1 E1. fwd E1.
    apply nops_bind; [|intros; exact I].
    destruct (m_type m =? MsgAppend) eqn:Ea.
    { apply N.eqb_eq in Ea. apply (handle_append_entries_nops rw); [solve_li|].
      match goal with L : last_index (r_log r1) = _ |- _ => rewrite L end. exact (Wa2 Ea). }
    destruct (m_type m =? MsgHeartbeat) eqn:Eh; [snops|].
    cbn [orb] in Eg. apply N.eqb_eq in Eg.
    apply (handle_snapshot_nops rw); [solve_li|exact (Ws Eg)]. }
  match goal with |- nops (if ?c then _ else _) => destruct c eqn:Ev end; [|exact I].
  assert (Hr : room 1 r).
  { apply orb_prop in Ev. destruct Ev as [Ev|Ev]; apply N.eqb_eq in Ev;
      (eapply elect_room; [exact W|exact Ev|reflexivity]). }
  snops.
Qed.

Lemma step_body_nops rw r m :
  LI rw r -> msg_wf2 (last_index (r_log r)) m -> nops (RaftProofsC08.step_body r m).
Proof.
  intros H W. pose proof W as (W1 & _).
  unfold RaftProofsC08.step_body, RaftProofsC08.step_role. unfold LI in H. cbv zeta.
  destruct (m_type m =? MsgHup) eqn:Eh.
  { apply N.eqb_eq in Eh. assert (Hr : room 1 r) by (eapply elect_room; [exact W1|exact Eh|reflexivity]).
    snops. }
  match goal with |- nops (if ?c then _ else _) => destruct c end; [snops|].
  destruct (r_state r).
  - apply (step_follower_nops rw); assumption.
  - apply (step_candidate_nops rw); assumption.
  - apply (step_leader_nops rw); assumption.
  - apply (step_candidate_nops rw); assumption.
Qed.

Theorem step_nops rw r m :
  LI rw r -> msg_wf2 (last_index (r_log r)) m -> nops (step r m).
Proof.
  intros H W. rewrite RaftProofsC08.step_decompose.
  apply nops_bind.
  { unfold RaftProofsC08.step_prologue. unfold LI in H. snops. }
  intros pre E. apply RaftProofsC08.step_prologue_spec in E.
  destruct pre as [[r1 c1]|r1]; [exact I|].
  destruct E as [-> |(_ & l & Hbf)]; [apply (step_body_nops rw); assumption|].
  destruct (become_follower_pres rw _ _ _ _ Hbf H) as [H1 L1].
  apply (step_body_nops rw); [exact H1|rewrite L1; exact W].
Qed.
#[export] Hint Extern 1 (nops (step _ _)) => let rw := the_rw in eapply (step_nops rw) : nops.

Lemma msg_wf2_local li m :
  elect_type (m_type m) = false -> m_type m <> MsgPropose -> m_type m <> MsgAppend ->
  m_type m <> MsgSnapshot -> msg_wf2 li m.
Proof. intros A B C0 D. split; [apply msg_wf_plain; assumption|]. intros E. contradiction. Qed.

Lemma msg_wf2_hup li m : m_type m = MsgHup -> li + 1 < u64_max -> msg_wf2 li m.
Proof.
  intros E Hr. split; [|intros X; rewrite E in X; discriminate].
  unfold msg_wf. rewrite E.
  split; [intros _; exact Hr|split; [intros X; discriminate X|split; intros X; discriminate X]].
Qed.

Lemma tick_election_nops rw r : LI rw r -> room 1 r -> nops (tick_election r).
Proof.
  intros H Hr. unfold tick_election. unfold LI in H. cbv zeta.
  match goal with |- nops (if ?c then _ else _) => destruct c end; [exact I|].
  apply nops_bind; [|intros; exact I].
  apply (step_nops rw); [solve_li|]. apply msg_wf2_hup; [reflexivity|exact Hr].
Qed.

Lemma tick_heartbeat_nops rw r : LI rw r -> nops (tick_heartbeat r).
Proof.
  intros H. unfold tick_heartbeat. unfold LI in H. cbv zeta.
  apply nops_bind.
  { match goal with |- nops (if ?c then _ else _) => destruct c end; [|exact I].
    apply nops_bind; [|intros [r1 hr] _; exact I].
    match goal with |- nops (if ?c then _ else _) => destruct c end; [|exact I].
    apply nops_bind; [|intros; exact I].
    apply (step_nops rw); [solve_li|]. apply msg_wf2_local; cbn; try reflexivity; discriminate. }
  intros [r1 hr] E. cbv beta iota.
  assert (Q : LI rw r1).
  { match type of E with (if ?c then _ else _) = _ => destruct c end; [|injection E as <- _; solve_li].
    inv_bind E. destruct x as [r0 h0].
    assert (Q0 : LI rw r0).
    { match type of Hx with (if ?c then _ else _) = _ => destruct c end;
        [|injection Hx as <- _; solve_li].
      inv_bind Hx. injection Hx as <- _. destruct x as [r2 c2]. cbn [fst].
      eapply (step_pres rw); [exact Hx0| |solve_li].
      apply msg_wf_plain; cbn; try reflexivity; discriminate. }
    injection E as <- _. unfold LI in *.
    match goal with |- RepInv _ (r_log (if ?c then _ else _)) => destruct c end; exact Q0. }
  unfold LI in Q.
  destruct (negb (is_leader r1)); [exact I|].
  match goal with |- nops (if ?c then _ else _) => destruct c end; [|exact I].
  apply nops_bind; [|intros; exact I].
  apply (step_nops rw); [solve_li|]. apply msg_wf2_local; cbn; try reflexivity; discriminate.
Qed.

Theorem tick_nops rw r : LI rw r -> room 1 r -> nops (tick r).
Proof.
  intros H Hr. unfold tick. destruct (r_state r);
    first [apply (tick_election_nops rw); assumption|apply (tick_heartbeat_nops rw); assumption].
Qed.

Theorem on_persist_entries_nops rw r i t : LI rw r -> nops (on_persist_entries r i t).
Proof. intros H. unfold on_persist_entries. unfold LI in H. snops. Qed.

Theorem on_persist_snap_nops rw r i : LI rw r -> nops (on_persist_snap r i).
Proof. intros H. unfold on_persist_snap. snops. Qed.

Theorem commit_apply_nops rw r app : LI rw r -> room 1 r -> nops (commit_apply r app).
Proof.
  intros H Hr. unfold commit_apply, commit_apply_internal. cbn [negb]. unfold LI in H. cbv zeta.
  apply nops_bind; [snops|]. intros l' E.
  destruct (applied_to_pres rw _ _ _ E H) as (Q & Es & Eu & _).
  assert (Hr' : room 1 (r <| r_log := l' |>)).
  { unfold room in *. cbn. unfold last_index in *. rewrite Es, Eu. exact Hr. }
  snops.
Qed.

Theorem raft_apply_conf_change_nops rw r cc : LI rw r -> nops (raft_apply_conf_change r cc).
Proof.
  intros H. unfold raft_apply_conf_change. cbv zeta.
  match goal with |- nops (match ?x with _ => _ end) => destruct x as [[c' chs]|e] end; [|exact I].
  apply nops_bind; [|intros; exact I]. apply (post_conf_change_nops rw). unfold LI in *. cbn. exact H.
Qed.

Theorem load_state_nops r hs : nops (load_state r hs).
Proof. unfold load_state. destruct (_ || _); [apply notin_b; vm_compute; reflexivity|exact I]. Qed.

Theorem request_snapshot_nops rw r : LI rw r -> nops (request_snapshot r).
Proof.
  intros H. unfold request_snapshot. unfold LI in H.
  destruct (is_leader r); [exact I|]. destruct (_ =? _); [exact I|].
  match goal with |- nops (if ?c then _ else _) => destruct c end; [exact I|].
  destruct (negb _); [exact I|]. cbv zeta.
  destruct (term_at_last_ok rw _ H) as [t ->]. cbn [bind]. snops.
Qed.

Theorem ping_nops rw r : LI rw r -> nops (ping r).
Proof. intros H. unfold ping. unfold LI in H. snops. Qed.

Theorem adjust_max_inflight_msgs_nops r t c : nops (adjust_max_inflight_msgs r t c).
Proof.
  eapply nops_only; [intros s; apply adjust_max_inflight_msgs_sites_ok|vm_compute; reflexivity].
Qed.

Theorem enable_group_commit_nops rw r e : LI rw r -> nops (enable_group_commit r e).
Proof. intros H. unfold enable_group_commit. unfold LI in H. snops. Qed.

Theorem assign_commit_groups_nops rw r ids : LI rw r -> nops (assign_commit_groups r ids).
Proof. intros H. unfold assign_commit_groups. unfold LI in H. snops. Qed.
