(* C13 — replication flow control and well-formed append/heartbeat messages:
   lemmas and theorems about M/Progress.v, M/RaftLog.v (log_entries/slice) and
   the flow-control part of M/Raft.v.  Statements are pinned in Props/C13.v. *)
From RV Require Import Base.Prelude Base.IdSet M.Util M.UtilProofs M.Proto M.MemStorage
  M.MemStorageProofs M.Inflights M.InflightsProofs M.Progress M.RaftLog M.Quorum M.ConfChange
  M.Msg M.Raft M.RaftProofs.
From RV Require M.RaftLogProofs.
From RecordUpdate Require Import RecordSet.
Import RecordSetNotations.

Local Open Scope N_scope.

(* ================================================================== *)
(* 1. Inflights facts in the form needed here                          *)
(* ================================================================== *)

Notation IInv := InflightsProofs.Inv.
Notation iabs := InflightsProofs.abs.

Lemma IInv_count_le_cap s : IInv s -> (Inflights.count s <= Inflights.cap s)%nat.
Proof. intros (H & _). exact H. Qed.

Lemma IInv_new c : IInv (Inflights.new c).
Proof. apply Inv_new. Qed.

Lemma IInv_reset s : IInv s -> IInv (Inflights.reset s).
Proof.
  intros H. destruct (reset_refines s H) as (s' & E & HI & _).
  cbn in E. inversion E; subst. exact HI.
Qed.

Lemma IInv_maybe_free_buffer s : IInv s -> IInv (Inflights.maybe_free_buffer s).
Proof.
  intros H. destruct (maybe_free_refines s H) as (s' & E & HI & _).
  cbn in E. inversion E; subst. exact HI.
Qed.

Lemma IInv_free_to s to s' : IInv s -> Inflights.free_to s to = Ok s' -> IInv s'.
Proof.
  intros H E. destruct (free_to_refines s to H) as (s1 & E1 & HI & _).
  cbn in E1. rewrite E in E1. inversion E1; subst. exact HI.
Qed.

Lemma IInv_free_first_one s s' : IInv s -> Inflights.free_first_one s = Ok s' -> IInv s'.
Proof.
  intros H E. destruct (free_first_refines s H) as (s1 & E1 & HI & _).
  cbn in E1. rewrite E in E1. inversion E1; subst. exact HI.
Qed.

Lemma IInv_set_cap s c s' : IInv s -> Inflights.set_cap s c = Ok s' -> IInv s'.
Proof.
  intros H E. destruct (set_cap_refines s c H) as (s1 & E1 & HI & _).
  cbn in E1. rewrite E in E1. inversion E1; subst. exact HI.
Qed.

(* add on a window that is not full: succeeds, keeps the invariant, appends
   exactly one element to the abstract FIFO, leaves both capacities alone *)
Lemma IInv_add s x :
  IInv s -> Inflights.full s = false ->
  exists s', Inflights.add s x = Ok s' /\ IInv s' /\ iabs s' = iabs s ++ [x]
             /\ Inflights.cap s' = Inflights.cap s
             /\ Inflights.incoming_cap s' = Inflights.incoming_cap s
             /\ Inflights.count s' = S (Inflights.count s).
Proof.
  intros H F. destruct (add_refines s x H F) as (s' & E & HI & A).
  cbn in E. exists s'. split; [exact E|]. split; [exact HI|].
  unfold abs_state in A. cbn [sstep q fcap pending] in A. inversion A as [[A1 A2 A3]].
  split; [reflexivity|]. split; [reflexivity|]. split; [reflexivity|].
  rewrite (count_abs s'), (count_abs s), A1, app_length. cbn. lia.
Qed.

(* add returned Ok: the window was not full *)
Lemma add_ok_not_full s x s' : Inflights.add s x = Ok s' -> Inflights.full s = false.
Proof. unfold Inflights.add. destruct (Inflights.full s); [discriminate|reflexivity]. Qed.

(* ================================================================== *)
(* 2. Progress: the window invariant and every operation               *)
(* ================================================================== *)

Definition PrInv (pr : progress) : Prop := IInv (ins pr).

Lemma PrInv_ins_eq p p' : ins p' = ins p -> PrInv p -> PrInv p'.
Proof. unfold PrInv. intros ->. exact (fun H => H). Qed.

Lemma PrInv_pr_new next c : PrInv (pr_new next c).
Proof. apply IInv_new. Qed.

Lemma PrInv_set_matched p v : PrInv p -> PrInv (set_matched p v). Proof. exact (fun H => H). Qed.
Lemma PrInv_set_next_idx p v : PrInv p -> PrInv (set_next_idx p v). Proof. exact (fun H => H). Qed.
Lemma PrInv_set_paused p v : PrInv p -> PrInv (set_paused p v). Proof. exact (fun H => H). Qed.
Lemma PrInv_set_pending_snapshot p v : PrInv p -> PrInv (set_pending_snapshot p v).
Proof. exact (fun H => H). Qed.
Lemma PrInv_set_pending_request_snapshot p v : PrInv p -> PrInv (set_pending_request_snapshot p v).
Proof. exact (fun H => H). Qed.
Lemma PrInv_set_recent_active p v : PrInv p -> PrInv (set_recent_active p v).
Proof. exact (fun H => H). Qed.
Lemma PrInv_set_commit_group_id p v : PrInv p -> PrInv (set_commit_group_id p v).
Proof. exact (fun H => H). Qed.
Lemma PrInv_set_committed_index p v : PrInv p -> PrInv (set_committed_index p v).
Proof. exact (fun H => H). Qed.
Lemma PrInv_set_ins p i : IInv i -> PrInv (set_ins p i). Proof. exact (fun H => H). Qed.

Lemma PrInv_reset_state p st : PrInv p -> PrInv (reset_state p st).
Proof. intros H. apply IInv_reset. exact H. Qed.

Lemma PrInv_pr_reset p next : PrInv p -> PrInv (pr_reset p next).
Proof. intros H. apply IInv_reset. exact H. Qed.

Lemma PrInv_become_probe p : PrInv p -> PrInv (become_probe p).
Proof. intros H. unfold become_probe. destruct (pr_state p); apply IInv_reset; exact H. Qed.

Lemma PrInv_become_replicate p : PrInv p -> PrInv (become_replicate p).
Proof. intros H. apply IInv_reset. exact H. Qed.

Lemma PrInv_become_snapshot p i : PrInv p -> PrInv (become_snapshot p i).
Proof. intros H. apply IInv_reset. exact H. Qed.

Lemma PrInv_snapshot_failure p : PrInv p -> PrInv (snapshot_failure p).
Proof. exact (fun H => H). Qed.
Lemma PrInv_resume p : PrInv p -> PrInv (resume p). Proof. exact (fun H => H). Qed.
Lemma PrInv_pause p : PrInv p -> PrInv (pause p). Proof. exact (fun H => H). Qed.
Lemma PrInv_optimistic_update p n : PrInv p -> PrInv (optimistic_update p n).
Proof. exact (fun H => H). Qed.

Lemma ins_maybe_update p n : ins (fst (maybe_update p n)) = ins p.
Proof.
  unfold maybe_update. cbn [fst].
  destruct (matched p <? n); cbn;
    match goal with |- ins (if ?c then _ else _) = _ => destruct c end; reflexivity.
Qed.

Lemma PrInv_maybe_update p n : PrInv p -> PrInv (fst (maybe_update p n)).
Proof. apply PrInv_ins_eq, ins_maybe_update. Qed.

Lemma ins_update_committed p ci : ins (update_committed p ci) = ins p.
Proof. unfold update_committed. destruct (Progress.committed_index p <? ci); reflexivity. Qed.

Lemma PrInv_update_committed p ci : PrInv p -> PrInv (update_committed p ci).
Proof. apply PrInv_ins_eq, ins_update_committed. Qed.

Lemma ins_maybe_decr_to p rej hint rs : ins (fst (maybe_decr_to p rej hint rs)) = ins p.
Proof.
  unfold maybe_decr_to.
  destruct (pstate_eqb (pr_state p) Replicate).
  - destruct ((rej <? matched p) || ((rej =? matched p) && (rs =? INVALID_INDEX))); [reflexivity|].
    destruct (rs =? INVALID_INDEX); reflexivity.
  - match goal with |- ins (fst (if ?c then _ else _)) = _ => destruct c end; [reflexivity|].
    cbn [fst]. destruct (rs =? INVALID_INDEX); [reflexivity|].
    destruct (pending_request_snapshot p =? INVALID_INDEX); reflexivity.
Qed.

Lemma PrInv_maybe_decr_to p rej hint rs : PrInv p -> PrInv (fst (maybe_decr_to p rej hint rs)).
Proof. apply PrInv_ins_eq, ins_maybe_decr_to. Qed.

(* is_paused = false rules out Snapshot, a paused probe and a full window *)
Lemma not_paused_cases pr :
  is_paused pr = false ->
  (pr_state pr = Probe /\ paused pr = false) \/
  (pr_state pr = Replicate /\ Inflights.full (ins pr) = false).
Proof. unfold is_paused. destruct (pr_state pr); intros H; auto. discriminate. Qed.

(* update_state, exactly *)
Lemma update_state_probe pr last : pr_state pr = Probe -> update_state pr last = Ok (pause pr).
Proof. unfold update_state. intros ->. reflexivity. Qed.

Lemma update_state_replicate pr last pr' :
  pr_state pr = Replicate -> update_state pr last = Ok pr' ->
  exists i, Inflights.add (ins pr) last = Ok i /\ pr' = set_ins (optimistic_update pr last) i.
Proof.
  unfold update_state. intros ->. intros H. inv_bind H. inversion H; subst. eauto.
Qed.

(* update_state on a progress that is not paused: never panics, keeps the
   invariant; in Replicate it consumes exactly one slot of the window *)
Theorem update_state_ok pr last :
  PrInv pr -> is_paused pr = false ->
  exists pr', update_state pr last = Ok pr' /\ PrInv pr' /\
    (pr_state pr = Probe -> pr' = pause pr) /\
    (pr_state pr = Replicate ->
       iabs (ins pr') = iabs (ins pr) ++ [last] /\
       Inflights.count (ins pr') = S (Inflights.count (ins pr)) /\
       (Inflights.count (ins pr') <= Inflights.cap (ins pr'))%nat /\
       Inflights.cap (ins pr') = Inflights.cap (ins pr) /\
       next_idx pr' = last + 1 /\ pr_state pr' = Replicate /\ matched pr' = matched pr).
Proof.
  intros HI Hp. destruct (not_paused_cases pr Hp) as [[Hs Hpa]|[Hs Hf]].
  - exists (pause pr). split; [apply update_state_probe; exact Hs|].
    split; [exact HI|]. split; [reflexivity|]. rewrite Hs. discriminate.
  - destruct (IInv_add (ins pr) last HI Hf) as (i & Ea & Hi & Hab & Hcap & _ & Hcnt).
    exists (set_ins (optimistic_update pr last) i).
    split; [unfold update_state; rewrite Hs, Ea; reflexivity|].
    split; [exact Hi|]. split; [rewrite Hs; discriminate|]. intros _.
    cbn [ins set_ins next_idx optimistic_update set_next_idx pr_state matched].
    split; [exact Hab|]. split; [exact Hcnt|].
    split; [apply IInv_count_le_cap; exact Hi|]. split; [exact Hcap|].
    split; [reflexivity|]. split; [exact Hs|reflexivity].
Qed.

(* whenever update_state returns Ok the invariant is kept (no is_paused premise:
   an Ok result of add already means the window was not full) *)
Lemma PrInv_update_state pr last pr' : PrInv pr -> update_state pr last = Ok pr' -> PrInv pr'.
Proof.
  intros HI H. unfold update_state in H. destruct (pr_state pr) eqn:Hs.
  - inversion H; subst. exact HI.
  - inv_bind H. inversion H; subst.
    destruct (IInv_add (ins pr) last HI (add_ok_not_full _ _ _ Hx)) as (i & Ea & Hi & _).
    rewrite Ea in Hx. inversion Hx; subst. exact Hi.
  - discriminate.
Qed.

Lemma update_state_not_add_full pr last :
  is_paused pr = false -> update_state pr last <> Panic Inflights.site_add_full.
Proof.
  intros Hp. destruct (not_paused_cases pr Hp) as [[Hs _]|[Hs Hf]]; unfold update_state; rewrite Hs.
  - discriminate.
  - unfold Inflights.add. rewrite Hf.
    destruct (allocated (ins pr)); cbn.
    + match goal with |- context [if ?c then Panic _ else _] => destruct c end; discriminate.
    + destruct (negb (Inflights.count (ins pr) =? 0)%nat); [discriminate|].
      destruct (negb (Inflights.start (ins pr) =? 0)%nat); [discriminate|].
      destruct (incoming_cap (ins pr)); [discriminate|]. cbn.
      match goal with |- context [if ?c then Panic _ else _] => destruct c end; discriminate.
Qed.

(* ================================================================== *)
(* 3. send, for the message kinds of this property                     *)
(* ================================================================== *)

(* what [send] does to a non-vote, non-local message built with term 0 and no
   sender: it stamps the sender and the current term and queues it *)
Definition stamped (r : raft) (m : msg) : msg := m <| m_from := r_id r |> <| m_term := r_term r |>.

Lemma send_plain r m :
  is_vote_type (m_type m) = false ->
  (m_type m =? MsgPropose) = false -> (m_type m =? MsgReadIndex) = false ->
  m_term m = 0 -> m_from m = 0 ->
  send r m = Ok (r <| r_msgs := r_msgs r ++ [stamped r m] |>).
Proof.
  intros Hv Hp Hr Ht Hf. unfold send. rewrite Hf.
  change (0 =? INVALID_ID) with true. cbv iota.
  set (m0 := m <| m_from := r_id r |>).
  change (m_type m0) with (m_type m). change (m_term m0) with (m_term m).
  rewrite Hv, Ht, Hp, Hr. change (0 =? 0) with true. cbn [negb andb bind].
  set (m1 := m0 <| m_term := r_term r |>).
  change (m_type m1) with (m_type m).
  unfold is_vote_type in Hv.
  apply orb_false_iff in Hv. destruct Hv as [Hv _].
  apply orb_false_iff in Hv. destruct Hv as [Hv _].
  apply orb_false_iff in Hv. destruct Hv as [Hv1 Hv2].
  rewrite Hv1, Hv2. reflexivity.
Qed.

(* ================================================================== *)
(* 4. maybe_send_append                                                 *)
(* ================================================================== *)

Definition last_idx (ents : list entry) : N := e_index (List.last ents entry_default).

(* the two messages maybe_send_append builds (before [send] stamps them) *)
Definition snap_msg (to : N) (s : snapshot) : msg :=
  msg_default <| m_to := to |> <| m_type := MsgSnapshot |> <| m_snapshot := s |>.

Definition app_msg (r : raft) (to : N) (pr : progress) (t : N) (ents : list entry) : msg :=
  msg_default <| m_to := to |> <| m_type := MsgAppend |> <| m_index := next_idx pr - 1 |>
              <| m_log_term := t |> <| m_entries := ents |> <| m_commit := committed (r_log r) |>.

Theorem maybe_send_append_paused r to pr ae :
  is_paused pr = true -> maybe_send_append r to pr ae = Ok (r, pr, false).
Proof. intros H. unfold maybe_send_append. rewrite H. reflexivity. Qed.

Corollary maybe_send_append_snapshot_state r to pr ae :
  pr_state pr = Snapshot -> maybe_send_append r to pr ae = Ok (r, pr, false).
Proof. intros H. apply maybe_send_append_paused. unfold is_paused. rewrite H. reflexivity. Qed.

Corollary maybe_send_append_probe_paused r to pr ae :
  pr_state pr = Probe -> paused pr = true -> maybe_send_append r to pr ae = Ok (r, pr, false).
Proof. intros H Hp. apply maybe_send_append_paused. unfold is_paused. rewrite H. exact Hp. Qed.

Corollary maybe_send_append_window_full r to pr ae :
  pr_state pr = Replicate -> Inflights.full (ins pr) = true ->
  maybe_send_append r to pr ae = Ok (r, pr, false).
Proof. intros H Hp. apply maybe_send_append_paused. unfold is_paused. rewrite H. exact Hp. Qed.

Lemma prepare_send_snapshot_some r to pr m' pr' :
  prepare_send_snapshot r (msg_default <| m_to := to |>) pr to = Ok (Some (m', pr')) ->
  recent_active pr = true /\
  exists s, raft_snapshot r (pending_request_snapshot pr) to = Ok (SOk s) /\ s_index s <> 0 /\
            m' = snap_msg to s /\ pr' = become_snapshot pr (s_index s).
Proof.
  unfold prepare_send_snapshot. intros H.
  destruct (recent_active pr); cbn [negb] in H; [|discriminate]. split; [reflexivity|].
  inv_bind H. destruct x as [s|e].
  - destruct (s_index s =? 0) eqn:E; [discriminate|]. inversion H; subst.
    exists s. split; [exact Hx|]. split; [apply N.eqb_neq; exact E|]. split; reflexivity.
  - destruct e; discriminate.
Qed.

Lemma prepare_send_entries_ok r to pr t ents m' pr' :
  prepare_send_entries r (msg_default <| m_to := to |>) pr t ents = Ok (m', pr') ->
  next_idx pr <> 0 /\ m' = app_msg r to pr t ents /\
  (ents = [] -> pr' = pr) /\ (ents <> [] -> update_state pr (last_idx ents) = Ok pr').
Proof.
  unfold prepare_send_entries. intros H.
  destruct (next_idx pr =? 0) eqn:E; [discriminate|]. split; [apply N.eqb_neq; exact E|].
  destruct ents as [|e0 rest].
  - inversion H; subst. split; [reflexivity|]. split; [reflexivity|]. intros C; congruence.
  - inv_bind H. inversion H; subst. split; [reflexivity|].
    split; [discriminate|]. intros _. exact Hx.
Qed.

Lemma last_cons_nonempty {A} (x : A) l d : l <> [] -> List.last (x :: l) d = List.last l d.
Proof. destruct l; [congruence|reflexivity]. Qed.

Lemma last_app_nonempty {A} (a b : list A) d : b <> [] -> List.last (a ++ b) d = List.last b d.
Proof.
  intros Hb. induction a as [|x a IH]; [reflexivity|].
  cbn [app]. rewrite last_cons_nonempty; [exact IH|].
  destruct a; cbn; [exact Hb|discriminate].
Qed.

Definition not_app_to (to : N) (x : msg) : Prop := (m_type x =? MsgAppend) && (m_to x =? to) = false.

(* try_batching succeeded: the FIRST queued MsgAppend for [to] got the entries
   appended and the commit refreshed; every other queued message is untouched *)
Lemma try_batching_true r to msgs pr ents msgs' pr' :
  try_batching r to msgs pr ents = Ok (msgs', pr', true) ->
  exists pre m post, msgs = pre ++ m :: post /\ Forall (not_app_to to) pre /\
    m_type m = MsgAppend /\ m_to m = to /\
    msgs' = pre ++ (m <| m_entries := m_entries m ++ ents |>
                       <| m_commit := committed (r_log r) |>) :: post /\
    (ents = [] -> pr' = pr) /\
    (ents <> [] -> is_continuous_ents m ents = true /\ update_state pr (last_idx ents) = Ok pr').
Proof.
  revert msgs'. induction msgs as [|m rest IH]; intros msgs' H; cbn [try_batching] in H.
  - discriminate.
  - destruct ((m_type m =? MsgAppend) && (m_to m =? to)) eqn:E.
    + apply andb_prop in E. destruct E as [E1 E2].
      apply N.eqb_eq in E1. apply N.eqb_eq in E2.
      exists [], m, rest. split; [reflexivity|]. split; [constructor|].
      split; [exact E1|]. split; [exact E2|].
      destruct ents as [|e0 et].
      * inversion H; subst. split.
        { cbn [app]. f_equal. rewrite app_nil_r. destruct m; reflexivity. }
        split; [reflexivity|]. intros C; congruence.
      * destruct (is_continuous_ents m (e0 :: et)) eqn:Ec; cbn [negb] in H; [|discriminate].
        inv_bind H. inversion H; subst. split; [reflexivity|].
        split; [discriminate|]. intros _. split; [reflexivity|].
        rewrite last_app_nonempty in Hx by discriminate. exact Hx.
    + inv_bind H. destruct x as [[rest' pr1] b]. inversion H; subst.
      destruct (IH rest' Hx) as (pre & m0 & post & A & B & C & D & F & G & K).
      exists (m :: pre), m0, post. split; [rewrite A; reflexivity|].
      split; [constructor; [exact E|exact B]|]. split; [exact C|]. split; [exact D|].
      split; [rewrite F; reflexivity|]. split; [exact G|exact K].
Qed.

(* what one call can have done when it reports "sent" *)
Definition sent_snapshot (r : raft) (to : N) (pr : progress) (r' : raft) (pr' : progress) : Prop :=
  recent_active pr = true /\
  exists s, raft_snapshot r (pending_request_snapshot pr) to = Ok (SOk s) /\ s_index s <> 0 /\
    r' = r <| r_msgs := r_msgs r ++ [stamped r (snap_msg to s)] |> /\
    pr' = become_snapshot pr (s_index s).

Definition sent_append (r : raft) (to : N) (pr : progress) (ae : bool) (r' : raft) (pr' : progress)
  : Prop :=
  pending_request_snapshot pr = 0 /\ next_idx pr <> 0 /\
  exists t ents,
    RaftLog.term (r_log r) (next_idx pr - 1) = Ok (SOk t) /\
    log_entries (r_log r) (next_idx pr) (Some (r_max_msg_size r)) = Ok (SOk ents) /\
    (ae = false -> ents <> []) /\
    r' = r <| r_msgs := r_msgs r ++ [stamped r (app_msg r to pr t ents)] |> /\
    (ents = [] -> pr' = pr) /\
    (ents <> [] -> update_state pr (last_idx ents) = Ok pr').

Definition sent_batched (r : raft) (to : N) (pr : progress) (ae : bool) (r' : raft) (pr' : progress)
  : Prop :=
  r_batch_append r = true /\ pending_request_snapshot pr = 0 /\ next_idx pr <> 0 /\
  exists t ents msgs',
    RaftLog.term (r_log r) (next_idx pr - 1) = Ok (SOk t) /\
    log_entries (r_log r) (next_idx pr) (Some (r_max_msg_size r)) = Ok (SOk ents) /\
    (ae = false -> ents <> []) /\
    try_batching r to (r_msgs r) pr ents = Ok (msgs', pr', true) /\
    r' = r <| r_msgs := msgs' |>.

Theorem maybe_send_append_cases r to pr ae r' pr' b :
  maybe_send_append r to pr ae = Ok (r', pr', b) ->
  (b = false /\ r' = r /\ pr' = pr) \/
  (b = true /\ is_paused pr = false /\
   (sent_snapshot r to pr r' pr' \/ sent_append r to pr ae r' pr' \/ sent_batched r to pr ae r' pr')).
Proof.
  unfold maybe_send_append. intros H.
  destruct (is_paused pr) eqn:Hp; [inversion H; subst; left; auto|].
  (* the snapshot continuation, shared by two branches *)
  assert (Hsnap : forall r' pr' b,
    (x <- prepare_send_snapshot r (msg_default <| m_to := to |>) pr to ;;
     match x with
     | None => Ok (r, pr, false)
     | Some (m', pr'0) => r'0 <- send r m' ;; Ok (r'0, pr'0, true)
     end) = Ok (r', pr', b) ->
    (b = false /\ r' = r /\ pr' = pr) \/ (b = true /\ sent_snapshot r to pr r' pr')).
  { clear H. intros r1 pr1 b1 H. inv_bind H. destruct x as [[m1 pr2]|].
    - inv_bind H. inversion H; subst. right. split; [reflexivity|].
      destruct (prepare_send_snapshot_some _ _ _ _ _ Hx) as (Hra & s & Hs & Hnz & -> & ->).
      split; [exact Hra|]. exists s. split; [exact Hs|]. split; [exact Hnz|].
      rewrite send_plain in Hx0 by reflexivity. inversion Hx0; subst. split; reflexivity.
    - inversion H; subst. left. auto. }
  destruct (negb (pending_request_snapshot pr =? INVALID_INDEX)) eqn:Eprs.
  { destruct (Hsnap _ _ _ H) as [A|[A B]]; [left; exact A|right; auto]. }
  apply negb_false_iff in Eprs. apply N.eqb_eq in Eprs.
  inv_bind H. rename x into ents, Hx into Hents.
  match type of H with (if ?c then _ else _) = _ => destruct c eqn:Eempty end;
    [inversion H; subst; left; auto|].
  destruct (next_idx pr =? 0) eqn:Enz; [discriminate|]. apply N.eqb_neq in Enz.
  inv_bind H. rename x into t, Hx into Hterm.
  assert (Hfall : match t, ents with SOk _, SOk _ => False | _, _ => True end ->
                  (b = false /\ r' = r /\ pr' = pr) \/ (b = true /\ sent_snapshot r to pr r' pr')).
  { intros Hsh. destruct t as [t|et]; destruct ents as [ents|ee]; try contradiction.
    - destruct ee; try (apply Hsnap; exact H). inversion H; subst. left; auto.
    - apply Hsnap; exact H.
    - destruct ee; try (apply Hsnap; exact H). inversion H; subst. left; auto. }
  destruct t as [t|et]; [destruct ents as [ents|ee]|];
    try (destruct Hfall as [A|[A B]]; [exact I|left; exact A|right; auto]).
  assert (Hne : ae = false -> ents <> []).
  { intros ->. cbn [negb andb] in Eempty. destruct ents; [discriminate|discriminate]. }
  inv_bind H. destruct x as [[msgs' pr1] batched].
  destruct batched.
  - (* batched *)
    inversion H; subst. destruct (r_batch_append r) eqn:Eb; [|inversion Hx; discriminate].
    right. split; [reflexivity|]. split; [reflexivity|]. right. right.
    split; [exact Eb|]. split; [exact Eprs|]. split; [exact Enz|].
    exists t, ents, msgs'. auto.
  - inv_bind H. destruct x as [m' pr2]. inv_bind H. inversion H; subst.
    destruct (prepare_send_entries_ok _ _ _ _ _ _ _ Hx0) as (_ & -> & He & Hn).
    rewrite send_plain in Hx1 by reflexivity. inversion Hx1; subst.
    right. split; [reflexivity|]. split; [reflexivity|]. right. left.
    split; [exact Eprs|]. split; [exact Enz|]. exists t, ents. auto 10.
Qed.

(* ------------------------------------------------------------------ *)
(* the progress after a call *)

(* the only ways the progress can have changed *)
Definition pr_step (pr pr' : progress) : Prop :=
  pr' = pr \/ (exists i, pr' = become_snapshot pr i) \/
  (is_paused pr = false /\ exists last, update_state pr last = Ok pr').

Lemma maybe_send_append_pr_step r to pr ae r' pr' b :
  maybe_send_append r to pr ae = Ok (r', pr', b) -> pr_step pr pr'.
Proof.
  intros H. destruct (maybe_send_append_cases _ _ _ _ _ _ _ H) as [(_ & _ & ->)|(_ & Hp & C)];
    [left; reflexivity|].
  destruct C as [(_ & s & _ & _ & _ & ->)|[(_ & _ & t & ents & _ & _ & _ & _ & He & Hn)|
                 (_ & _ & _ & t & ents & msgs' & _ & _ & _ & Hb & _)]].
  - right; left; eauto.
  - destruct ents as [|e0 et]; [left; apply He; reflexivity|].
    right; right. split; [exact Hp|]. eexists. apply Hn. discriminate.
  - destruct (try_batching_true _ _ _ _ _ _ _ Hb) as (pre & m0 & post & _ & _ & _ & _ & _ & He & Hn).
    destruct ents as [|e0 et]; [left; apply He; reflexivity|].
    right; right. split; [exact Hp|]. eexists. apply Hn. discriminate.
Qed.

Lemma PrInv_pr_step pr pr' : PrInv pr -> pr_step pr pr' -> PrInv pr'.
Proof.
  intros HI [->|[(i & ->)|(_ & last & H)]]; [exact HI|apply PrInv_become_snapshot; exact HI|].
  eapply PrInv_update_state; eassumption.
Qed.

(* maybe_send_append keeps the window invariant, batching on or off *)
Theorem maybe_send_append_PrInv r to pr ae r' pr' b :
  PrInv pr -> maybe_send_append r to pr ae = Ok (r', pr', b) -> PrInv pr'.
Proof. intros HI H. eapply PrInv_pr_step; [exact HI|]. eapply maybe_send_append_pr_step; exact H. Qed.

(* ------------------------------------------------------------------ *)
(* panics: under the window invariant none comes from the window *)

Lemma bind_panic {A B} (a : Res A) (f : A -> Res B) s :
  bind a f = Panic s -> a = Panic s \/ exists x, a = Ok x /\ f x = Panic s.
Proof. destruct a as [x|s0]; cbn; intros H; [right; eauto|left; inversion H; reflexivity]. Qed.

Lemma try_batching_no_panic r to msgs pr ents :
  PrInv pr -> is_paused pr = false -> exists x, try_batching r to msgs pr ents = Ok x.
Proof.
  intros HI Hp. induction msgs as [|m rest IH]; cbn [try_batching]; [eauto|].
  destruct ((m_type m =? MsgAppend) && (m_to m =? to)).
  - destruct ents as [|e0 et]; [eauto|].
    destruct (negb (is_continuous_ents m (e0 :: et))); [eauto|].
    destruct (update_state_ok pr (e_index (List.last (m_entries m ++ e0 :: et) entry_default)) HI Hp)
      as (pr' & E & _).
    rewrite E. cbn [bind]. eauto.
  - destruct IH as ([[rest' pr'] b] & E). rewrite E. cbn [bind]. eauto.
Qed.

(* every panic of maybe_send_append on a progress satisfying the window
   invariant is a panic of one of its three reads (entries, term, snapshot), the
   next_idx - 1 underflow, or one of the two snapshot fatals; in particular
   Inflights.add never fires "cannot add into a full inflights" and
   update_state never fires "unhandled state" *)
Theorem maybe_send_append_panic_causes r to pr ae s :
  PrInv pr -> maybe_send_append r to pr ae = Panic s ->
  raft_snapshot r (pending_request_snapshot pr) to = Panic s
  \/ s = site_snapshot_err \/ s = site_snapshot_empty
  \/ log_entries (r_log r) (next_idx pr) (Some (r_max_msg_size r)) = Panic s
  \/ s = site_next_idx_underflow
  \/ RaftLog.term (r_log r) (next_idx pr - 1) = Panic s.
Proof.
  intros HI H. unfold maybe_send_append in H.
  destruct (is_paused pr) eqn:Hp; [discriminate|].
  assert (Hsnap :
    (x <- prepare_send_snapshot r (msg_default <| m_to := to |>) pr to ;;
     match x with
     | None => Ok (r, pr, false)
     | Some (m', pr'0) => r'0 <- send r m' ;; Ok (r'0, pr'0, true)
     end) = Panic s ->
    raft_snapshot r (pending_request_snapshot pr) to = Panic s
    \/ s = site_snapshot_err \/ s = site_snapshot_empty).
  { clear H. intros H. apply bind_panic in H. destruct H as [H|(x & Hx & H)].
    - unfold prepare_send_snapshot in H. destruct (negb (recent_active pr)); [discriminate|].
      apply bind_panic in H. destruct H as [H|(y & Hy & H)]; [left; exact H|].
      destruct y as [sn|e].
      + destruct (s_index sn =? 0); inversion H. right; right; reflexivity.
      + destruct e; inversion H; right; left; reflexivity.
    - destruct x as [[m1 pr1]|]; [|discriminate].
      destruct (prepare_send_snapshot_some _ _ _ _ _ Hx) as (_ & sn & _ & _ & -> & _).
      rewrite send_plain in H by reflexivity. discriminate. }
  destruct (negb (pending_request_snapshot pr =? INVALID_INDEX)).
  { destruct (Hsnap H) as [A|[A|A]]; auto. }
  apply bind_panic in H. destruct H as [H|(ents & Hents & H)]; [auto 6|].
  match type of H with (if ?c then _ else _) = _ => destruct c end; [discriminate|].
  destruct (next_idx pr =? 0); [inversion H; auto 6|].
  apply bind_panic in H. destruct H as [H|(t & Hterm & H)]; [auto 8|].
  assert (Hfall : match t, ents with SOk _, SOk _ => False | _, _ => True end ->
    raft_snapshot r (pending_request_snapshot pr) to = Panic s
    \/ s = site_snapshot_err \/ s = site_snapshot_empty).
  { intros Hsh. destruct t as [t|et]; destruct ents as [ents|ee]; try contradiction.
    - destruct ee; try (apply Hsnap; exact H); discriminate.
    - apply Hsnap; exact H.
    - destruct ee; try (apply Hsnap; exact H); discriminate. }
  destruct t as [t|et]; [destruct ents as [ents|ee]|];
    try (destruct Hfall as [A|[A|A]]; [exact I|auto|auto|auto]).
  apply bind_panic in H. destruct H as [H|(x & Hx & H)].
  - destruct (r_batch_append r); [|discriminate].
    destruct (try_batching_no_panic r to (r_msgs r) pr ents HI Hp) as (y & E). congruence.
  - destruct x as [[msgs' pr1] batched]. destruct batched; [discriminate|].
    apply bind_panic in H. destruct H as [H|(y & Hy & H)].
    + unfold prepare_send_entries in H. destruct (next_idx pr =? 0); [inversion H; auto 6|].
      destruct ents as [|e0 et]; [discriminate|].
      apply bind_panic in H. destruct H as [H|(z & _ & H)]; [|discriminate].
      destruct (update_state_ok pr (e_index (List.last (e0 :: et) entry_default)) HI Hp)
        as (pr' & E & _). congruence.
    + destruct y as [m' pr2].
      destruct (prepare_send_entries_ok _ _ _ _ _ _ _ Hy) as (_ & -> & _).
      rewrite send_plain in H by reflexivity. discriminate.
Qed.

(* ------------------------------------------------------------------ *)
(* Theorem 2: the shape of what is sent, batching off *)

Theorem maybe_send_append_shape r to pr ae r' pr' :
  r_batch_append r = false ->
  maybe_send_append r to pr ae = Ok (r', pr', true) ->
  is_paused pr = false /\
  exists m, r' = r <| r_msgs := r_msgs r ++ [m] |> /\
    m_to m = to /\ m_from m = r_id r /\ m_term m = r_term r /\
    ((* (a) a snapshot *)
     (m = stamped r (snap_msg to (m_snapshot m)) /\ m_type m = MsgSnapshot /\
      recent_active pr = true /\
      raft_snapshot r (pending_request_snapshot pr) to = Ok (SOk (m_snapshot m)) /\
      s_index (m_snapshot m) <> 0 /\
      pr' = become_snapshot pr (s_index (m_snapshot m)) /\
      pr_state pr' = Snapshot /\ pending_snapshot pr' = s_index (m_snapshot m))
     \/
     (* (b) an append anchored in the leader's own log *)
     (m = stamped r (app_msg r to pr (m_log_term m) (m_entries m)) /\ m_type m = MsgAppend /\
      pending_request_snapshot pr = 0 /\ next_idx pr <> 0 /\
      m_index m = next_idx pr - 1 /\
      RaftLog.term (r_log r) (next_idx pr - 1) = Ok (SOk (m_log_term m)) /\
      log_entries (r_log r) (next_idx pr) (Some (r_max_msg_size r)) = Ok (SOk (m_entries m)) /\
      m_commit m = committed (r_log r) /\
      (ae = false -> m_entries m <> []) /\
      (m_entries m = [] -> pr' = pr) /\
      (m_entries m <> [] ->
         (pr_state pr = Probe /\ pr' = pause pr) \/
         (pr_state pr = Replicate /\
          exists i, Inflights.add (ins pr) (last_idx (m_entries m)) = Ok i /\
                    pr' = set_ins (optimistic_update pr (last_idx (m_entries m))) i)))).
Proof.
  intros Hb H.
  destruct (maybe_send_append_cases _ _ _ _ _ _ _ H) as [(C & _)|(_ & Hp & C)]; [discriminate|].
  split; [exact Hp|].
  destruct C as [(Hra & s & Hs & Hnz & -> & ->)|[(Hprs & Hnx & t & ents & Ht & He & Hae & -> & H0 & H1)|
                 (Hb' & _)]]; [| |congruence].
  - eexists. split; [reflexivity|]. split; [reflexivity|]. split; [reflexivity|].
    split; [reflexivity|]. left. cbn. auto 10.
  - eexists. split; [reflexivity|]. split; [reflexivity|]. split; [reflexivity|].
    split; [reflexivity|]. right.
    change (m_entries (stamped r (app_msg r to pr t ents))) with ents.
    change (m_log_term (stamped r (app_msg r to pr t ents))) with t.
    split; [reflexivity|]. split; [reflexivity|]. split; [exact Hprs|]. split; [exact Hnx|].
    split; [reflexivity|]. split; [exact Ht|]. split; [exact He|]. split; [reflexivity|].
    split; [exact Hae|]. split; [exact H0|]. intros Hne. specialize (H1 Hne).
    destruct (not_paused_cases pr Hp) as [[Hs _]|[Hs _]].
    + left. split; [exact Hs|]. rewrite update_state_probe in H1 by exact Hs. congruence.
    + right. split; [exact Hs|]. apply update_state_replicate; assumption.
Qed.

(* at most one entry-carrying append while probing: after it the progress is
   paused, and a paused probe sends nothing (on any node state) until resumed *)
Theorem probe_one_outstanding r to pr ae r' pr' :
  maybe_send_append r to pr ae = Ok (r', pr', true) -> pr_state pr = Probe ->
  (* nothing else can have happened to the progress *)
  (pr' = pr \/ (exists i, pr' = become_snapshot pr i) \/ pr' = pause pr) /\
  (* an append carrying entries pauses *)
  (forall m, r_msgs r' = r_msgs r ++ [m] -> m_type m = MsgAppend -> m_entries m <> [] ->
     pr' = pause pr /\
     forall r2 ae2, maybe_send_append r2 to pr' ae2 = Ok (r2, pr', false)).
Proof.
  intros H Hs.
  destruct (maybe_send_append_cases _ _ _ _ _ _ _ H) as [(C & _)|(_ & Hp & C)]; [discriminate|].
  destruct C as [(_ & s & _ & _ & -> & ->)|[(_ & _ & t & ents & _ & _ & _ & -> & He & Hn)|
                 (_ & _ & _ & t & ents & msgs' & _ & _ & _ & Hb & ->)]].
  - split; [right; left; eauto|]. intros m Hm Ht _. cbn in Hm.
    apply app_inv_head in Hm. inversion Hm; subst. discriminate.
  - split.
    + destruct ents as [|e0 et]; [left; apply He; reflexivity|].
      right; right. specialize (Hn ltac:(discriminate)).
      rewrite update_state_probe in Hn by exact Hs. congruence.
    + intros m Hm _ Hne. cbn in Hm. apply app_inv_head in Hm. inversion Hm; subst.
      change (m_entries (stamped r (app_msg r to pr t ents))) with ents in Hne.
      specialize (Hn Hne). rewrite update_state_probe in Hn by exact Hs. inversion Hn; subst.
      split; [reflexivity|]. intros r2 ae2. apply maybe_send_append_probe_paused; [exact Hs|reflexivity].
  - destruct (try_batching_true _ _ _ _ _ _ _ Hb) as (pre & m0 & post & Hm0 & _ & _ & _ & Hm' & He & Hn).
    split.
    + destruct ents as [|e0 et]; [left; apply He; reflexivity|].
      right; right. destruct (Hn ltac:(discriminate)) as [_ Hu].
      rewrite update_state_probe in Hu by exact Hs. congruence.
    + intros m Hm _ _. exfalso. cbn in Hm. rewrite Hm', Hm0 in Hm.
      apply (f_equal (@length msg)) in Hm. rewrite !app_length in Hm. cbn in Hm. lia.
Qed.

(* one slot of the window per entry-carrying append while replicating *)
Theorem replicate_one_slot r to pr ae r' pr' :
  maybe_send_append r to pr ae = Ok (r', pr', true) -> pr_state pr = Replicate -> PrInv pr ->
  Inflights.full (ins pr) = false /\
  (pr' = pr \/ (exists i, pr' = become_snapshot pr i) \/
   exists last, iabs (ins pr') = iabs (ins pr) ++ [last] /\
     Inflights.count (ins pr') = S (Inflights.count (ins pr)) /\
     (Inflights.count (ins pr') <= Inflights.cap (ins pr'))%nat /\
     Inflights.cap (ins pr') = Inflights.cap (ins pr) /\
     next_idx pr' = last + 1 /\ pr_state pr' = Replicate /\ matched pr' = matched pr).
Proof.
  intros H Hs HI.
  destruct (maybe_send_append_cases _ _ _ _ _ _ _ H) as [(C & _)|(_ & Hp & _)]; [discriminate|].
  split; [unfold is_paused in Hp; rewrite Hs in Hp; exact Hp|].
  destruct (maybe_send_append_pr_step _ _ _ _ _ _ _ H) as [->|[A|(_ & last & Hu)]]; auto.
  right; right. exists last.
  destruct (update_state_ok pr last HI Hp) as (pr1 & E & _ & _ & Hr).
  rewrite E in Hu. inversion Hu; subst. apply Hr; exact Hs.
Qed.

(* ================================================================== *)
(* 5. The entries handed to an append: a slice of the log, size-limited *)
(* ================================================================== *)

(* What is needed of the log representation (C14's RaftLogProofs.RepInv implies
   it, see [RepInv_LogInv] below): the store satisfies the MemStorage
   representation invariant, and the unstable entries are numbered consecutively
   from the unstable offset. *)
Definition LogInv (l : raft_log) : Prop :=
  MemStorageProofs.RepInv (store l) /\ contiguous_from (u_offset (unst l)) (u_entries (unst l)).

(* the entry the log holds at index i: the store's below the unstable offset,
   the unstable one from the offset on *)
Definition log_at (l : raft_log) (i : N) : option entry :=
  if i <? u_offset (unst l) then entry_at (store l) i
  else nth_error (u_entries (unst l)) (N.to_nat (i - u_offset (unst l))).

(* ents is, element by element, what the log holds at lo, lo+1, ... *)
Definition from_log (l : raft_log) (lo : N) (ents : list entry) : Prop :=
  forall k e, nth_error ents k = Some e -> log_at l (lo + N.of_nat k) = Some e.

Definition within_limit (mx : N) (ents : list entry) : Prop :=
  mx <> NO_LIMIT -> total_size entry_size ents <= mx \/ length ents = 1%nat.

Lemma nth_error_firstn_some {A} (l : list A) n k e :
  nth_error (firstn n l) k = Some e -> nth_error l k = Some e /\ (k < n)%nat.
Proof.
  revert n k. induction l as [|x l IH]; intros n k H.
  - rewrite firstn_nil in H. destruct k; discriminate.
  - destruct n; [destruct k; discriminate|]. destruct k; cbn [firstn nth_error] in *.
    + split; [exact H|lia].
    + destruct (IH _ _ H). split; [assumption|lia].
Qed.

Lemma limit_size_prefix l max : exists k, limit_size l max = firstn k l.
Proof. destruct (limit_size_spec entry_size l max) as ((k & _ & E) & _). exists k. exact E. Qed.

Lemma limit_size_contig lo l max : contiguous_from lo l -> contiguous_from lo (limit_size l max).
Proof. intros H. destruct (limit_size_prefix l max) as (k & ->). apply contig_firstn. exact H. Qed.

Lemma limit_size_from_log lg lo l max : from_log lg lo l -> from_log lg lo (limit_size l max).
Proof.
  intros H. destruct (limit_size_prefix l max) as (j & ->). intros k e Hk.
  apply nth_error_firstn_some in Hk. apply H. apply Hk.
Qed.

Lemma limit_size_within lo l mx :
  contiguous_from lo l -> lo <> 0 -> within_limit mx (limit_size l (Some mx)).
Proof.
  intros Hc Hlo Hmx. destruct (limit_size_spec entry_size l (Some mx)) as (_ & _ & _ & Hs).
  apply Hs; [|reflexivity|exact Hmx].
  destruct l as [|e t]; [exact I|]. destruct Hc as [He _]. cbn.
  apply entry_size_pos. congruence.
Qed.

Lemma limit_size_length_le l max : (length (limit_size l max) <= length l)%nat.
Proof. destruct (limit_size_prefix l max) as (k & ->). rewrite firstn_length. lia. Qed.

Lemma storage_entries_ok_spec m lo hi max ctx m' ents :
  MemStorageProofs.RepInv m -> storage_entries m lo hi max ctx = Ok (m', SOk ents) ->
  exists raw, ents = limit_size raw max /\ contiguous_from lo raw /\
              N.of_nat (length raw) <= hi - lo /\
              (forall k e, nth_error raw k = Some e -> entry_at m (lo + N.of_nat k) = Some e).
Proof.
  intros HI H. unfold storage_entries in H. rewrite (first_index_ok m HI) in H. cbn [bind] in H.
  destruct (lo <? first_of m) eqn:E1; [discriminate|].
  destruct (MemStorage.last_index m =? u64_max); [discriminate|].
  destruct (MemStorage.last_index m + 1 <? hi); [discriminate|].
  destruct (trig_log m && can_async ctx); [discriminate|].
  cbn [bind] in H.
  destruct (hi <? first_of m) eqn:E4; [discriminate|].
  match type of H with (if ?c then _ else _) = _ => destruct c eqn:E5 end; [discriminate|].
  match type of H with (if ?c then _ else _) = _ => destruct c eqn:E6 end; [discriminate|].
  injection H as _ He. subst ents. eexists. split; [reflexivity|]. split; [|split].
  - apply contig_firstn.
    replace lo with (first_of m + N.of_nat (N.to_nat (lo - first_of m))) at 1 by lia.
    apply contig_skipn. destruct HI as (Hc & _). exact Hc.
  - rewrite firstn_length. lia.
  - intros k e Hk. apply nth_error_firstn_some in Hk. destruct Hk as [Hk _].
    rewrite nth_error_skipn' in Hk. unfold entry_at.
    destruct (lo + N.of_nat k <? first_of m) eqn:E7; [lia|]. rewrite <- Hk. f_equal. lia.
Qed.

Lemma u_slice_spec u lo hi ents :
  contiguous_from (u_offset u) (u_entries u) -> u_slice u lo hi = Ok ents ->
  u_offset u <= lo /\ contiguous_from lo ents /\
  (forall k e, nth_error ents k = Some e ->
     nth_error (u_entries u) (N.to_nat (lo + N.of_nat k - u_offset u)) = Some e).
Proof.
  intros Hc H. unfold u_slice in H. inv_bind H. inversion H; subst.
  unfold u_must_check_outofbounds in Hx.
  destruct (hi <? lo); [discriminate|].
  destruct ((lo <? u_offset u) || (u_offset u + N.of_nat (length (u_entries u)) <? hi)) eqn:E;
    [discriminate|].
  apply orb_false_iff in E. destruct E as [E _].
  split; [lia|]. split.
  - apply contig_firstn.
    replace lo with (u_offset u + N.of_nat (N.to_nat (lo - u_offset u))) at 1 by lia.
    apply contig_skipn. exact Hc.
  - intros k e Hk. apply nth_error_firstn_some in Hk. destruct Hk as [Hk _].
    rewrite nth_error_skipn' in Hk. rewrite <- Hk. f_equal. lia.
Qed.

Lemma from_log_app l lo a b :
  from_log l lo a -> from_log l (lo + N.of_nat (length a)) b -> from_log l lo (a ++ b).
Proof.
  intros Ha Hb k e Hk. destruct (Nat.lt_ge_cases k (length a)) as [Hlt|Hge].
  - rewrite nth_error_app1 in Hk by exact Hlt. apply Ha. exact Hk.
  - rewrite nth_error_app2 in Hk by exact Hge. specialize (Hb _ _ Hk).
    replace (lo + N.of_nat k) with (lo + N.of_nat (length a) + N.of_nat (k - length a)) by lia.
    exact Hb.
Qed.

Definition good_slice (l : raft_log) (lo mx : N) (ents : list entry) : Prop :=
  contiguous_from lo ents /\ from_log l lo ents /\ (lo <> 0 -> within_limit mx ents).

Lemma good_slice_nil l lo mx : good_slice l lo mx [].
Proof.
  split; [exact I|]. split; [intros [|k] e H; discriminate|]. intros _ _. left. cbn. lia.
Qed.

Lemma good_slice_limit l lo mx raw :
  contiguous_from lo raw -> from_log l lo raw -> good_slice l lo mx (limit_size raw (Some mx)).
Proof.
  intros Hc Hf. split; [apply limit_size_contig; exact Hc|].
  split; [apply limit_size_from_log; exact Hf|]. intros Hlo. eapply limit_size_within; eassumption.
Qed.

(* RaftLog::slice: a successful read is, element by element, what the log holds
   at lo, lo+1, ...; its indexes are consecutive from lo; and for lo <> 0 and a
   real limit it is within the limit unless it is one entry *)
Theorem slice_spec l lo hi mx ents :
  LogInv l -> slice l lo hi (Some mx) = Ok (SOk ents) -> good_slice l lo mx ents.
Proof.
  intros (HS & HU) H. unfold slice in H. inv_bind H.
  destruct x as [e|]; [discriminate|].
  assert (Hle : lo <= hi).
  { unfold must_check_outofbounds in Hx. destruct (hi <? lo) eqn:E; [discriminate|]. lia. }
  destruct (lo =? hi) eqn:Eeq; [inversion H; subst; apply good_slice_nil|].
  inv_bind H.
  (* the stored part *)
  assert (Hst : match x with
                | inl early => early = SOk ents -> good_slice l lo mx ents
                | inr ents0 => contiguous_from lo ents0 /\ from_log l lo ents0 /\
                               (lo <? u_offset (unst l) = true ->
                                lo + N.of_nat (length ents0) = N.min hi (u_offset (unst l))) /\
                               (lo <? u_offset (unst l) = false -> ents0 = [])
                end).
  { clear H. destruct (lo <? u_offset (unst l)) eqn:Eoff.
    - inv_bind Hx0. unfold store_entries in Hx1. inv_bind Hx1. inversion Hx1; subst. clear Hx1.
      destruct x1 as [m' sr]. cbn [snd] in Hx0.
      destruct sr as [ents0|e].
      + destruct (storage_entries_ok_spec _ _ _ _ _ _ _ HS Hx2) as (raw & -> & Hc & Hlen & Hat).
        assert (Hfl : from_log l lo raw).
        { intros k e Hk. unfold log_at.
          assert (k < length raw)%nat by (apply nth_error_Some; congruence).
          destruct (lo + N.of_nat k <? u_offset (unst l)) eqn:E; [|lia]. apply Hat. exact Hk. }
        match type of Hx0 with (if ?c then _ else _) = _ => destruct c eqn:Elen end;
          inversion Hx0; subst.
        * intros E. inversion E; subst. apply good_slice_limit; assumption.
        * split; [apply limit_size_contig; exact Hc|].
          split; [apply limit_size_from_log; exact Hfl|]. split; [|discriminate]. intros _.
          pose proof (limit_size_length_le raw (Some mx)). lia.
      + destruct e; inversion Hx0; subst; discriminate.
    - inversion Hx0; subst. split; [exact I|]. split; [intros [|k] e H; discriminate|].
      split; [discriminate|reflexivity]. }
  destruct x as [early|ents0].
  - inversion H; subst. apply Hst. reflexivity.
  - destruct Hst as (Hc0 & Hf0 & Hlen & Hnil). inv_bind H. inversion H; subst. clear H.
    assert (Hc2 : contiguous_from lo x /\ from_log l lo x).
    { destruct (u_offset (unst l) <? hi) eqn:Ehi.
      - inv_bind Hx1. inversion Hx1; subst.
        destruct (u_slice_spec _ _ _ _ HU Hx2) as (Hoff & Hcu & Hnu).
        assert (Hfu : from_log l (N.max lo (u_offset (unst l))) x0).
        { intros k e Hk. unfold log_at.
          destruct (N.max lo (u_offset (unst l)) + N.of_nat k <? u_offset (unst l)) eqn:E; [lia|].
          apply Hnu. exact Hk. }
        destruct (lo <? u_offset (unst l)) eqn:Eoff.
        + specialize (Hlen eq_refl).
          assert (Hjoin : lo + N.of_nat (length ents0) = N.max lo (u_offset (unst l))) by lia.
          split; [apply contig_app|apply from_log_app]; try assumption; rewrite Hjoin; assumption.
        + rewrite (Hnil eq_refl). cbn [app].
          replace (N.max lo (u_offset (unst l))) with lo in * by lia. split; assumption.
      - inversion Hx1; subst. split; assumption. }
    destruct Hc2. apply good_slice_limit; assumption.
Qed.

Theorem log_entries_spec l i mx ents :
  LogInv l -> log_entries l i (Some mx) = Ok (SOk ents) -> good_slice l i mx ents.
Proof.
  intros HI H. unfold log_entries in H.
  destruct (RaftLog.last_index l <? i); [inversion H; subst; apply good_slice_nil|].
  destruct (RaftLog.last_index l =? u64_max); [discriminate|].
  eapply slice_spec; eassumption.
Qed.

(* bridge to C14's representation invariant and abstraction of the RaftLog *)
Lemma RepInv_LogInv rw l : RaftLogProofs.RepInv rw l -> LogInv l.
Proof. intros H. split; [apply (RaftLogProofs.ri_store rw l H)|apply (RaftLogProofs.ri_contig rw l H)]. Qed.

Lemma log_at_abs rw l i :
  RaftLogProofs.RepInv rw l -> RaftLogProofs.ll_first (RaftLogProofs.abs l) <= i ->
  log_at l i = RaftLogProofs.ll_get (RaftLogProofs.abs l) i.
Proof.
  intros H Hi. unfold log_at. destruct (i <? u_offset (unst l)) eqn:E.
  - destruct (u_snapshot (unst l)) as [s|] eqn:Es.
    + exfalso. pose proof (RaftLogProofs.ri_shape rw l H) as Hsh. rewrite Es in Hsh.
      unfold RaftLogProofs.ll_first, RaftLogProofs.abs in Hi. rewrite Es in Hi. cbn in Hi. lia.
    + symmetry. apply (RaftLogProofs.abs_get_stable rw); [exact H|exact Es|].
      unfold RaftLogProofs.ll_first, RaftLogProofs.abs in Hi. rewrite Es in Hi. cbn in Hi.
      pose proof (first_pos _ (RaftLogProofs.ri_store rw l H)). lia.
  - symmetry. apply (RaftLogProofs.abs_get_unstable rw); [exact H|lia].
Qed.

(* Theorem 3: the entries of an emitted MsgAppend (batching off) are, element by
   element, the leader's own log entries at m_index+1, m_index+2, ...; their
   indexes are consecutive; and they are within max_size_per_msg unless a
   single entry *)
Theorem append_entries_contiguous r to pr ae r' pr' m :
  LogInv (r_log r) -> r_batch_append r = false ->
  maybe_send_append r to pr ae = Ok (r', pr', true) ->
  r_msgs r' = r_msgs r ++ [m] -> m_type m = MsgAppend ->
  contiguous_from (m_index m + 1) (m_entries m) /\
  from_log (r_log r) (m_index m + 1) (m_entries m) /\
  (r_max_msg_size r <> NO_LIMIT ->
     total_size entry_size (m_entries m) <= r_max_msg_size r \/ length (m_entries m) = 1%nat).
Proof.
  intros HL Hb H Hm Ht.
  destruct (maybe_send_append_shape _ _ _ _ _ _ Hb H) as (_ & m0 & -> & _ & _ & _ & C).
  cbn in Hm. apply app_inv_head in Hm. inversion Hm; subst m0. clear Hm.
  destruct C as [(_ & Ht' & _)|(_ & _ & _ & Hnx & Hidx & _ & He & _)]; [rewrite Ht in Ht'; discriminate|].
  destruct (log_entries_spec _ _ _ _ HL He) as (Hc & Hf & Hw).
  rewrite Hidx. replace (next_idx pr - 1 + 1) with (next_idx pr) by lia.
  split; [exact Hc|]. split; [exact Hf|]. apply Hw. exact Hnx.
Qed.

(* the same against C14's abstract log: entries = the abstract log's entries at
   next_idx.., anchor term = the abstract log's term at next_idx-1 *)
Theorem append_entries_abs rw r to pr ae r' pr' m :
  RaftLogProofs.RepInv rw (r_log r) -> r_batch_append r = false ->
  maybe_send_append r to pr ae = Ok (r', pr', true) ->
  r_msgs r' = r_msgs r ++ [m] -> m_type m = MsgAppend ->
  RaftLogProofs.ll_term (RaftLogProofs.abs (r_log r)) (m_index m) = SOk (m_log_term m) /\
  (RaftLogProofs.ll_first (RaftLogProofs.abs (r_log r)) <= m_index m + 1 ->
   forall k e, nth_error (m_entries m) k = Some e ->
     RaftLogProofs.ll_get (RaftLogProofs.abs (r_log r)) (m_index m + 1 + N.of_nat k) = Some e).
Proof.
  intros HR Hb H Hm Ht.
  destruct (append_entries_contiguous _ _ _ _ _ _ _ (RepInv_LogInv _ _ HR) Hb H Hm Ht) as (_ & Hf & _).
  destruct (maybe_send_append_shape _ _ _ _ _ _ Hb H) as (_ & m0 & E & _ & _ & _ & C).
  rewrite E in Hm. cbn in Hm. apply app_inv_head in Hm. inversion Hm; subst m0. clear Hm.
  destruct C as [(_ & Ht' & _)|(_ & _ & _ & Hnx & Hidx & Hterm & _)]; [rewrite Ht in Ht'; discriminate|].
  split.
  - rewrite (RaftLogProofs.term_abs rw _ _ HR) in Hterm. rewrite Hidx. inversion Hterm. reflexivity.
  - intros Hfirst k e Hk. rewrite <- (log_at_abs rw) by (exact HR || lia). apply Hf. exact Hk.
Qed.

(* ================================================================== *)
(* 5b. Batching (batch_append on): the merged message stays a slice      *)
(* ================================================================== *)

Lemma contig_last_idx l f :
  contiguous_from f l -> l <> [] -> last_idx l = f + N.of_nat (length l) - 1.
Proof.
  revert f. induction l as [|a t IH]; intros f Hc Hne; [congruence|].
  destruct Hc as [Ha Ht]. destruct t as [|b t'].
  - unfold last_idx. cbn. lia.
  - unfold last_idx in *. change (List.last (a :: b :: t') entry_default)
      with (List.last (b :: t') entry_default).
    rewrite (IH (f + 1) Ht ltac:(discriminate)). cbn [length]. lia.
Qed.

(* an append message that is a slice of log [l] anchored at (m_index, m_log_term) *)
Definition app_wf (l : raft_log) (m : msg) : Prop :=
  contiguous_from (m_index m + 1) (m_entries m) /\
  from_log l (m_index m + 1) (m_entries m) /\
  RaftLog.term l (m_index m) = Ok (SOk (m_log_term m)).

(* the continuity test of try_batching, spelled out *)
Lemma is_continuous_ents_spec m e0 et :
  is_continuous_ents m (e0 :: et) = true ->
  e_index e0 = (match m_entries m with [] => m_index m | _ => last_idx (m_entries m) end) + 1.
Proof.
  unfold is_continuous_ents, last_idx. intros H. apply N.eqb_eq in H.
  destruct (m_entries m); lia.
Qed.

(* merging contiguous entries that pass the continuity test into a contiguous
   message gives a contiguous message with the same anchor *)
Lemma merge_contiguous m ents lo :
  ents <> [] -> is_continuous_ents m ents = true ->
  contiguous_from (m_index m + 1) (m_entries m) -> contiguous_from lo ents ->
  lo = m_index m + 1 + N.of_nat (length (m_entries m)) /\
  contiguous_from (m_index m + 1) (m_entries m ++ ents).
Proof.
  intros Hne Hc Hm He. destruct ents as [|e0 et]; [congruence|].
  pose proof (is_continuous_ents_spec _ _ _ Hc) as Hi.
  destruct He as [He0 Het].
  assert (Hlo : lo = m_index m + 1 + N.of_nat (length (m_entries m))).
  { destruct (m_entries m) as [|a t] eqn:Em; [cbn; lia|].
    rewrite (contig_last_idx _ _ Hm ltac:(discriminate)) in Hi. cbn [length] in *. lia. }
  split; [exact Hlo|]. apply contig_app; [exact Hm|]. rewrite <- Hlo. split; assumption.
Qed.

Definition merged (r : raft) (m : msg) (ents : list entry) : msg :=
  m <| m_entries := m_entries m ++ ents |> <| m_commit := committed (r_log r) |>.

(* try_batching_contiguous: the message try_batching rewrites keeps its anchor
   (m_index, m_log_term), gets the current commit index, and -- if it was a
   slice of the leader's log and the new entries are one starting at [lo] --
   is again a slice of that log *)
Theorem try_batching_contiguous r to msgs pr ents msgs' pr' lo :
  try_batching r to msgs pr ents = Ok (msgs', pr', true) ->
  contiguous_from lo ents -> from_log (r_log r) lo ents ->
  exists pre m post, msgs = pre ++ m :: post /\ Forall (not_app_to to) pre /\
    m_type m = MsgAppend /\ m_to m = to /\
    msgs' = pre ++ merged r m ents :: post /\
    m_index (merged r m ents) = m_index m /\ m_log_term (merged r m ents) = m_log_term m /\
    m_commit (merged r m ents) = committed (r_log r) /\
    (ents <> [] -> contiguous_from (m_index m + 1) (m_entries m) ->
       lo = m_index m + 1 + N.of_nat (length (m_entries m)) /\
       contiguous_from (m_index m + 1) (m_entries (merged r m ents))) /\
    (app_wf (r_log r) m -> app_wf (r_log r) (merged r m ents)).
Proof.
  intros H Hc Hf.
  destruct (try_batching_true _ _ _ _ _ _ _ H) as (pre & m & post & A & B & C & D & F & G & K).
  exists pre, m, post. split; [exact A|]. split; [exact B|]. split; [exact C|]. split; [exact D|].
  split; [exact F|]. split; [reflexivity|]. split; [reflexivity|]. split; [reflexivity|].
  change (m_entries (merged r m ents)) with (m_entries m ++ ents).
  split.
  - intros Hne Hm. destruct (K Hne) as [Hcont _]. eapply merge_contiguous; eassumption.
  - intros (Hm & Hfm & Ht). unfold app_wf.
    change (m_entries (merged r m ents)) with (m_entries m ++ ents).
    change (m_index (merged r m ents)) with (m_index m).
    change (m_log_term (merged r m ents)) with (m_log_term m).
    destruct ents as [|e0 et]; [rewrite app_nil_r; auto|].
    destruct (K ltac:(discriminate)) as [Hcont _].
    destruct (merge_contiguous m (e0 :: et) lo ltac:(discriminate) Hcont Hm Hc) as (Hlo & Hc2).
    split; [exact Hc2|]. split; [|exact Ht].
    apply from_log_app; [exact Hfm|]. rewrite <- Hlo. exact Hf.
Qed.

(* at the level of maybe_send_append: a batched send rewrites one queued
   MsgAppend for [to]; under the log invariant, if that message was a slice of
   the current log it still is, with the current commit index *)
Theorem maybe_send_append_batched_wf r to pr ae r' pr' :
  LogInv (r_log r) -> sent_batched r to pr ae r' pr' ->
  exists pre m post ents, r_msgs r = pre ++ m :: post /\ Forall (not_app_to to) pre /\
    m_type m = MsgAppend /\ m_to m = to /\
    r' = r <| r_msgs := pre ++ merged r m ents :: post |> /\
    log_entries (r_log r) (next_idx pr) (Some (r_max_msg_size r)) = Ok (SOk ents) /\
    m_commit (merged r m ents) = committed (r_log r) /\
    (ents <> [] -> contiguous_from (m_index m + 1) (m_entries m) ->
       next_idx pr = m_index m + 1 + N.of_nat (length (m_entries m)) /\
       contiguous_from (m_index m + 1) (m_entries (merged r m ents))) /\
    (app_wf (r_log r) m -> app_wf (r_log r) (merged r m ents)).
Proof.
  intros HL (_ & _ & _ & t & ents & msgs' & _ & He & _ & Hb & ->).
  destruct (log_entries_spec _ _ _ _ HL He) as (Hc & Hf & _).
  destruct (try_batching_contiguous _ _ _ _ _ _ _ _ Hb Hc Hf)
    as (pre & m & post & A & B & C & D & F & _ & _ & G & K & W).
  exists pre, m, post, ents. rewrite F. auto 12.
Qed.

(* ================================================================== *)
(* 6. Heartbeats                                                        *)
(* ================================================================== *)

Definition hb_msg (r : raft) (to : N) (pr : progress) (ctx : option (list N)) : msg :=
  let m := msg_default <| m_to := to |> <| m_type := MsgHeartbeat |>
             <| m_commit := N.min (matched pr) (committed (r_log r)) |> in
  match ctx with Some c => m <| m_context := c |> | None => m end.

Lemma send_heartbeat_exact r to pr ctx :
  send_heartbeat r to pr ctx = Ok (r <| r_msgs := r_msgs r ++ [stamped r (hb_msg r to pr ctx)] |>).
Proof. unfold send_heartbeat. destruct ctx; rewrite send_plain by reflexivity; reflexivity. Qed.

(* Theorem 5: send_heartbeat never panics and queues exactly one MsgHeartbeat
   whose commit is min(matched, committed) *)
Theorem heartbeat_commit r to pr ctx :
  exists m, send_heartbeat r to pr ctx = Ok (r <| r_msgs := r_msgs r ++ [m] |>) /\
    m_type m = MsgHeartbeat /\ m_to m = to /\ m_from m = r_id r /\ m_term m = r_term r /\
    m_commit m = N.min (matched pr) (committed (r_log r)) /\
    m_commit m <= matched pr /\ m_commit m <= committed (r_log r) /\
    m_context m = (match ctx with Some c => c | None => [] end) /\
    m_entries m = [] /\ m_index m = 0 /\ m_log_term m = 0.
Proof.
  exists (stamped r (hb_msg r to pr ctx)). split; [apply send_heartbeat_exact|].
  destruct ctx; cbn; repeat split; lia.
Qed.

(* bcast_heartbeat: one such heartbeat per peer, nothing else changes *)
Definition is_heartbeat_of (r : raft) (ctx : option (list N)) (m : msg) : Prop :=
  exists pr, get_pr r (m_to m) = Some pr /\ m_to m <> r_id r /\
             m = stamped r (hb_msg r (m_to m) pr ctx).

Lemma hb_loop r ctx ids acc r' :
  for_each_peer ids (r_id r)
    (fun r0 id => match get_pr r0 id with
                  | Some pr => send_heartbeat r0 id pr ctx
                  | None => Panic site_pr_unwrap
                  end) (r <| r_msgs := r_msgs r ++ acc |>) = Ok r' ->
  exists new, r' = r <| r_msgs := r_msgs r ++ acc ++ new |> /\ Forall (is_heartbeat_of r ctx) new.
Proof.
  revert acc. induction ids as [|id rest IH]; intros acc H; cbn [for_each_peer] in H.
  - inversion H; subst. exists []. rewrite app_nil_r. split; [reflexivity|constructor].
  - change (r_id (r <| r_msgs := r_msgs r ++ acc |>)) with (r_id r) in H.
    destruct (id =? r_id r) eqn:Eid; [apply IH; exact H|].
    inv_bind H.
    change (get_pr (r <| r_msgs := r_msgs r ++ acc |>) id) with (get_pr r id) in Hx.
    destruct (get_pr r id) as [pr|] eqn:Epr; [|discriminate].
    rewrite send_heartbeat_exact in Hx. inversion Hx; subst x. clear Hx.
    cbn in H. rewrite <- app_assoc in H.
    change (stamped (r <| r_msgs := r_msgs r ++ acc |>) (hb_msg (r <| r_msgs := r_msgs r ++ acc |>) id pr ctx))
      with (stamped r (hb_msg r id pr ctx)) in H.
    destruct (IH (acc ++ [stamped r (hb_msg r id pr ctx)])) as (new & E & F).
    { rewrite <- H. reflexivity. }
    exists (stamped r (hb_msg r id pr ctx) :: new). split.
    + rewrite E. rewrite <- app_assoc. reflexivity.
    + constructor; [|exact F]. exists pr.
      assert (Hto : m_to (stamped r (hb_msg r id pr ctx)) = id) by (destruct ctx; reflexivity).
      rewrite Hto. split; [exact Epr|]. split; [apply N.eqb_neq; exact Eid|reflexivity].
Qed.

Theorem bcast_heartbeat_with_ctx_spec r ctx r' :
  bcast_heartbeat_with_ctx r ctx = Ok r' ->
  exists new, r' = r <| r_msgs := r_msgs r ++ new |> /\ Forall (is_heartbeat_of r ctx) new.
Proof.
  unfold bcast_heartbeat_with_ctx. intros H.
  destruct (hb_loop r ctx (pids (t_progress (r_prs r))) [] r') as (new & E & F).
  { rewrite <- H. f_equal. rewrite app_nil_r. destruct r; reflexivity. }
  exists new. split; [exact E|exact F].
Qed.

Lemma is_heartbeat_of_commit r ctx m :
  is_heartbeat_of r ctx m ->
  m_type m = MsgHeartbeat /\ m_commit m <= committed (r_log r) /\
  exists pr, get_pr r (m_to m) = Some pr /\ m_commit m = N.min (matched pr) (committed (r_log r))
             /\ m_commit m <= matched pr.
Proof.
  intros (pr & Hg & _ & E). rewrite E at 1 2. 
  assert (Hc : m_commit m = N.min (matched pr) (committed (r_log r))) by (rewrite E; destruct ctx; reflexivity).
  split; [destruct ctx; reflexivity|]. split; [destruct ctx; cbn; lia|].
  exists pr. split; [exact Hg|]. split; [exact Hc|]. rewrite Hc. lia.
Qed.

Theorem bcast_heartbeat_commit r ctx r' :
  bcast_heartbeat_with_ctx r ctx = Ok r' ->
  exists new, r' = r <| r_msgs := r_msgs r ++ new |> /\
    Forall (fun m =>
      m_type m = MsgHeartbeat /\ m_commit m <= committed (r_log r) /\
      exists pr, get_pr r (m_to m) = Some pr /\
                 m_commit m = N.min (matched pr) (committed (r_log r)) /\
                 m_commit m <= matched pr) new.
Proof.
  intros H. destruct (bcast_heartbeat_with_ctx_spec _ _ _ H) as (new & E & F).
  exists new. split; [exact E|]. eapply Forall_impl; [|exact F].
  intros m Hm. apply (is_heartbeat_of_commit r ctx m Hm).
Qed.

(* ================================================================== *)
(* 7. Uncommitted-size accounting                                       *)
(* ================================================================== *)

(* Theorem 6a: the refusal condition, exactly *)
Theorem uncommitted_refused_iff r ents :
  snd (maybe_increase_uncommitted_size r ents) = false <->
  (r_max_uncommitted_size r <> NO_LIMIT /\ data_size ents <> 0 /\ r_uncommitted_size r <> 0 /\
   r_max_uncommitted_size r < data_size ents + r_uncommitted_size r).
Proof.
  unfold maybe_increase_uncommitted_size, NO_LIMIT.
  destruct (r_max_uncommitted_size r =? u64_max) eqn:E1; cbn [snd].
  - split; [discriminate|]. intros (H & _). lia.
  - destruct (data_size ents =? 0) eqn:E2; cbn [orb snd]; [split; [discriminate|lia]|].
    destruct (r_uncommitted_size r =? 0) eqn:E3; cbn [orb snd]; [split; [discriminate|lia]|].
    destruct (data_size ents + r_uncommitted_size r <=? r_max_uncommitted_size r) eqn:E4;
      cbn [snd]; [split; [discriminate|lia]|].
    split; [intros _; lia|reflexivity].
Qed.

(* Theorem 6b: the effect *)
Theorem uncommitted_effect r ents r' ok :
  maybe_increase_uncommitted_size r ents = (r', ok) ->
  (ok = false -> r' = r) /\
  (ok = true ->
     (r_max_uncommitted_size r = NO_LIMIT /\ r' = r) \/
     (r_max_uncommitted_size r <> NO_LIMIT /\
      r' = r <| r_uncommitted_size := r_uncommitted_size r + data_size ents |>)).
Proof.
  unfold maybe_increase_uncommitted_size, NO_LIMIT.
  destruct (r_max_uncommitted_size r =? u64_max) eqn:E1.
  - intros H; inversion H; subst. split; [discriminate|]. intros _. left. split; [lia|reflexivity].
  - match goal with |- (if ?c then _ else _) = _ -> _ => destruct c end;
      intros H; inversion H; subst.
    + split; [discriminate|]. intros _. right. split; [lia|reflexivity].
    + split; [reflexivity|discriminate].
Qed.

(* Theorem 6c: consequences.  Empty payloads are never refused; one proposal
   is always accepted when nothing is outstanding; otherwise an accepted
   proposal keeps the total within max_uncommitted_size. *)
Theorem uncommitted_bound r ents r' ok :
  maybe_increase_uncommitted_size r ents = (r', ok) ->
  (data_size ents = 0 -> ok = true /\ r_uncommitted_size r' = r_uncommitted_size r) /\
  (r_uncommitted_size r = 0 -> ok = true) /\
  (ok = true -> r_max_uncommitted_size r <> NO_LIMIT ->
     r_uncommitted_size r' = r_uncommitted_size r + data_size ents /\
     (data_size ents = 0 \/ r_uncommitted_size r = 0 \/
      r_uncommitted_size r' <= r_max_uncommitted_size r)) /\
  (ok = false -> r' = r) /\
  r_max_uncommitted_size r' = r_max_uncommitted_size r.
Proof.
  intros H.
  pose proof (uncommitted_refused_iff r ents) as Hiff. rewrite H in Hiff. cbn [snd] in Hiff.
  destruct (uncommitted_effect _ _ _ _ H) as (Hf & Ht).
  split; [|split; [|split; [|split]]].
  - intros Hz. assert (ok = true) as -> by (destruct ok; [reflexivity|]; destruct Hiff as [A _]; specialize (A eq_refl); lia).
    split; [reflexivity|]. destruct (Ht eq_refl) as [(_ & ->)|(_ & ->)]; [reflexivity|]. cbn. lia.
  - intros Hz. destruct ok; [reflexivity|]. destruct Hiff as [A _]. specialize (A eq_refl). lia.
  - intros -> Hlim. destruct (Ht eq_refl) as [(A & _)|(_ & ->)]; [congruence|]. cbn.
    split; [reflexivity|].
    destruct (N.eq_dec (data_size ents) 0) as [|Hd]; [left; assumption|].
    destruct (N.eq_dec (r_uncommitted_size r) 0) as [|Hu]; [right; left; assumption|].
    right; right.
    destruct (N.le_gt_cases (r_uncommitted_size r + data_size ents) (r_max_uncommitted_size r)) as [L|G];
      [exact L|].
    destruct Hiff as [_ B]. assert (true = false) by (apply B; repeat split; try assumption; lia).
    discriminate.
  - exact Hf.
  - destruct ok; [destruct (Ht eq_refl) as [(_ & ->)|(_ & ->)]; reflexivity|rewrite (Hf eq_refl); reflexivity].
Qed.

(* Theorem 6d: releasing.  Only a leader's counter is touched, it never
   underflows (saturates at 0), never grows, and nothing else changes. *)
Theorem reduce_uncommitted_spec r ents :
  let r' := reduce_uncommitted_size r ents in
  (is_leader r = false -> r' = r) /\
  (r_max_uncommitted_size r = NO_LIMIT -> r' = r) /\
  (ents = [] -> r' = r) /\
  (r' = r \/
   r' = r <| r_uncommitted_size :=
             r_uncommitted_size r - data_size (skip_le_tail ents (r_last_log_tail_index r)) |>) /\
  r_uncommitted_size r' <= r_uncommitted_size r /\
  (is_leader r = true -> r_max_uncommitted_size r <> NO_LIMIT -> ents <> [] ->
   r_uncommitted_size r' =
     r_uncommitted_size r - data_size (skip_le_tail ents (r_last_log_tail_index r))).
Proof.
  cbv zeta. unfold reduce_uncommitted_size, NO_LIMIT.
  destruct (is_leader r) eqn:El; cbn [negb].
  2:{ repeat split; auto; try lia; intros; try discriminate. }
  destruct (r_max_uncommitted_size r =? u64_max) eqn:Em; cbn [orb].
  { repeat split; auto; try lia; intros; try lia. }
  destruct ents as [|e0 et].
  { repeat split; auto; try lia; intros; try congruence. }
  set (sz := data_size (skip_le_tail (e0 :: et) (r_last_log_tail_index r))). clearbody sz.
  destruct (r_uncommitted_size r <? sz) eqn:Elt.
  - split; [discriminate|]. split; [lia|]. split; [discriminate|].
    split; [right; replace (r_uncommitted_size r - sz) with 0 by lia; reflexivity|].
    cbn. split; [lia|]. intros _ _ _. lia.
  - split; [discriminate|]. split; [lia|]. split; [discriminate|].
    split; [right; reflexivity|]. cbn. split; [lia|]. intros _ _ _. reflexivity.
Qed.

(* ================================================================== *)
(* 8. The window invariant over the whole node                          *)
(* ================================================================== *)

Definition PrsInv (m : list (N * progress)) : Prop := Forall (fun kp => PrInv (snd kp)) m.
Definition RInv (r : raft) : Prop := PrsInv (t_progress (r_prs r)).

Lemma pget_PrInv m id p : PrsInv m -> pget m id = Some p -> PrInv p.
Proof.
  induction m as [|[k q] t IH]; cbn [pget]; [discriminate|].
  intros H. inversion H; subst. destruct (k =? id).
  - intros E; inversion E; subst; assumption.
  - apply IH; assumption.
Qed.

Lemma pput_PrsInv m id p : PrsInv m -> PrInv p -> PrsInv (pput m id p).
Proof.
  intros H Hp. induction m as [|[k q] t IH]; cbn [pput].
  - constructor; [exact Hp|constructor].
  - inversion H; subst. destruct (id <? k); [constructor; assumption|].
    destruct (id =? k); [constructor; assumption|].
    constructor; [assumption|apply IH; assumption].
Qed.

Lemma pdel_PrsInv m id : PrsInv m -> PrsInv (pdel m id).
Proof.
  intros H. induction m as [|[k q] t IH]; cbn [pdel]; [constructor|].
  inversion H; subst. destruct (k =? id); [apply IH; assumption|].
  constructor; [assumption|apply IH; assumption].
Qed.

Lemma PrsInv_map (g : N * progress -> progress) m :
  (forall kp, PrInv (snd kp) -> PrInv (g kp)) ->
  PrsInv m -> PrsInv (map (fun kp => (fst kp, g kp)) m).
Proof.
  intros Hg H. induction H as [|kp t Hk Ht IH]; cbn [map]; constructor; [|exact IH].
  cbn [snd]. apply Hg. exact Hk.
Qed.

Lemma get_pr_PrInv r id p : RInv r -> get_pr r id = Some p -> PrInv p.
Proof. unfold RInv, get_pr. apply pget_PrInv. Qed.

Lemma get_pr_PrInv' r id p : get_pr r id = Some p -> RInv r -> PrInv p.
Proof. intros E H. eapply get_pr_PrInv; eassumption. Qed.

Lemma put_pr_RInv r id p : RInv r -> PrInv p -> RInv (put_pr r id p).
Proof. unfold RInv, put_pr. cbn. apply pput_PrsInv. Qed.

(* a state with the same progress map *)
Lemma RInv_same r r' : t_progress (r_prs r') = t_progress (r_prs r) -> RInv r -> RInv r'.
Proof. unfold RInv. intros ->. exact (fun H => H). Qed.

Create HintDb rinv.
#[export] Hint Resolve PrInv_pr_new PrInv_set_matched PrInv_set_next_idx PrInv_set_paused
  PrInv_set_pending_snapshot PrInv_set_pending_request_snapshot PrInv_set_recent_active
  PrInv_set_commit_group_id PrInv_set_committed_index PrInv_reset_state PrInv_pr_reset
  PrInv_become_probe PrInv_become_replicate PrInv_become_snapshot PrInv_snapshot_failure
  PrInv_resume PrInv_pause PrInv_optimistic_update PrInv_maybe_update PrInv_update_committed
  PrInv_maybe_decr_to get_pr_PrInv' put_pr_RInv : rinv.

Lemma maybe_update_eq_PrInv p n p' b : maybe_update p n = (p', b) -> PrInv p -> PrInv p'.
Proof. intros E H. pose proof (PrInv_maybe_update p n H) as K. rewrite E in K. exact K. Qed.

Lemma maybe_decr_to_eq_PrInv p a b c p' d :
  maybe_decr_to p a b c = (p', d) -> PrInv p -> PrInv p'.
Proof. intros E H. pose proof (PrInv_maybe_decr_to p a b c H) as K. rewrite E in K. exact K. Qed.

#[export] Hint Resolve maybe_update_eq_PrInv maybe_decr_to_eq_PrInv : rinv.

Ltac rinv_frame :=
  match goal with
  | H : RInv ?r |- RInv _ => solve [apply (RInv_same r); [reflexivity|exact H]]
  end.
#[export] Hint Extern 6 (RInv _) => rinv_frame : rinv.

Ltac crush_step H :=
  match type of H with
  | Ok _ = Ok _ => inversion H; subst; clear H
  | Panic _ = Ok _ => discriminate H
  | bind _ _ = Ok _ =>
      let x := fresh "x" in let Hx := fresh "Hx" in
      apply bind_ok in H; destruct H as (x & Hx & H)
  | (if ?c then _ else _) = _ => destruct c eqn:?; cbv beta iota in H
  | (match ?x with _ => _ end) = _ => destruct x eqn:?; cbv beta iota in H
  end.

Ltac crush H := repeat (crush_step H).
Ltac rinv := eauto 10 with rinv nocore.

Lemma send_RInv r m r' : send r m = Ok r' -> RInv r -> RInv r'.
Proof. unfold send. intros H HI. inv_bind H. inversion H; subst. rinv. Qed.
#[export] Hint Resolve send_RInv : rinv.

Lemma maybe_send_append_RInv r to pr ae r' pr' b :
  maybe_send_append r to pr ae = Ok (r', pr', b) -> RInv r -> RInv r' /\ (PrInv pr -> PrInv pr').
Proof.
  intros H HI. split; [|intros Hp; eapply maybe_send_append_PrInv; eassumption].
  destruct (maybe_send_append_cases _ _ _ _ _ _ _ H) as [(_ & -> & _)|(_ & _ & C)]; [exact HI|].
  destruct C as [(_ & s & _ & _ & -> & _)|[(_ & _ & t & ents & _ & _ & _ & -> & _)|
                 (_ & _ & _ & t & ents & msgs' & _ & _ & _ & _ & ->)]]; rinv.
Qed.

Lemma maybe_send_append_RInv1 r to pr ae r' pr' b :
  maybe_send_append r to pr ae = Ok (r', pr', b) -> RInv r -> RInv r'.
Proof. intros H HI. apply (maybe_send_append_RInv _ _ _ _ _ _ _ H HI). Qed.
Lemma maybe_send_append_RInv2 r to pr ae r' pr' b :
  maybe_send_append r to pr ae = Ok (r', pr', b) -> PrInv pr -> PrInv pr'.
Proof. intros H HI. eapply maybe_send_append_PrInv; eassumption. Qed.
#[export] Hint Resolve maybe_send_append_RInv1 maybe_send_append_RInv2 : rinv.

Lemma send_append_to_RInv r to r' : send_append_to r to = Ok r' -> RInv r -> RInv r'.
Proof. unfold send_append_to. intros H HI. crush H. rinv. Qed.
#[export] Hint Resolve send_append_to_RInv : rinv.

Lemma send_append_aggressively_loop_RInv fuel : forall r to pr r' pr',
  send_append_aggressively_loop fuel r to pr = Ok (r', pr') -> RInv r -> PrInv pr ->
  RInv r' /\ PrInv pr'.
Proof.
  induction fuel as [|f IH]; intros r to pr r' pr' H HI Hp; cbn [send_append_aggressively_loop] in H;
    [discriminate|].
  inv_bind H. destruct x as [[r1 pr1] b]. destruct b.
  - eapply IH; [exact H| |]; rinv.
  - inversion H; subst. split; rinv.
Qed.

Lemma send_append_aggressively_RInv r to r' :
  send_append_aggressively r to = Ok r' -> RInv r -> RInv r'.
Proof.
  unfold send_append_aggressively. intros H HI.
  destruct (get_pr r to) as [pr|] eqn:E; [|discriminate].
  inv_bind H. destruct x as [r1 pr1]. inversion H; subst.
  destruct (send_append_aggressively_loop_RInv _ _ _ _ _ _ Hx HI) as [A B]; rinv.
Qed.
#[export] Hint Resolve send_append_aggressively_RInv : rinv.

Lemma send_heartbeat_RInv r to pr ctx r' : send_heartbeat r to pr ctx = Ok r' -> RInv r -> RInv r'.
Proof. unfold send_heartbeat. intros H HI. rinv. Qed.
#[export] Hint Resolve send_heartbeat_RInv : rinv.

Lemma for_each_peer_RInv (f : raft -> N -> Res raft) :
  (forall r id r', f r id = Ok r' -> RInv r -> RInv r') ->
  forall ids self r r', for_each_peer ids self f r = Ok r' -> RInv r -> RInv r'.
Proof.
  intros Hf ids self. induction ids as [|id rest IH]; intros r r' H HI; cbn [for_each_peer] in H.
  - inversion H; subst. exact HI.
  - destruct (id =? self); [eapply IH; eassumption|].
    inv_bind H. eapply IH; [exact H|]. eapply Hf; eassumption.
Qed.

Lemma bcast_append_RInv r r' : bcast_append r = Ok r' -> RInv r -> RInv r'.
Proof. unfold bcast_append. apply for_each_peer_RInv. intros; rinv. Qed.
#[export] Hint Resolve bcast_append_RInv : rinv.

Lemma bcast_heartbeat_with_ctx_RInv r ctx r' :
  bcast_heartbeat_with_ctx r ctx = Ok r' -> RInv r -> RInv r'.
Proof.
  unfold bcast_heartbeat_with_ctx. apply for_each_peer_RInv.
  intros r0 id r1 H HI. destruct (get_pr r0 id); [rinv|discriminate].
Qed.
#[export] Hint Resolve bcast_heartbeat_with_ctx_RInv : rinv.

Lemma bcast_heartbeat_RInv r r' : bcast_heartbeat r = Ok r' -> RInv r -> RInv r'.
Proof. unfold bcast_heartbeat. rinv. Qed.
#[export] Hint Resolve bcast_heartbeat_RInv : rinv.

Lemma maybe_commit_RInv r r' b : maybe_commit r = Ok (r', b) -> RInv r -> RInv r'.
Proof. unfold maybe_commit. intros H HI. crush H; rinv. Qed.
#[export] Hint Resolve maybe_commit_RInv : rinv.

Lemma maybe_increase_uncommitted_size_RInv r ents r' ok :
  maybe_increase_uncommitted_size r ents = (r', ok) -> RInv r -> RInv r'.
Proof.
  intros H HI. destruct (uncommitted_effect _ _ _ _ H) as (A & B).
  destruct ok; [destruct (B eq_refl) as [(_ & ->)|(_ & ->)]; rinv|rewrite (A eq_refl); exact HI].
Qed.
#[export] Hint Resolve maybe_increase_uncommitted_size_RInv : rinv.

Lemma reduce_uncommitted_size_RInv r ents : RInv r -> RInv (reduce_uncommitted_size r ents).
Proof.
  intros HI. destruct (reduce_uncommitted_spec r ents) as (_ & _ & _ & [E|E] & _); rewrite E; rinv.
Qed.
#[export] Hint Resolve reduce_uncommitted_size_RInv : rinv.

Lemma append_entry_RInv r es r' b : append_entry r es = Ok (r', b) -> RInv r -> RInv r'.
Proof.
  unfold append_entry. intros H HI.
  destruct (maybe_increase_uncommitted_size r es) as [r1 ok] eqn:E.
  assert (RInv r1) by rinv. crush H; rinv.
Qed.
#[export] Hint Resolve append_entry_RInv : rinv.

Lemma reset_RInv r t r' : reset r t = Ok r' -> RInv r -> RInv r'.
Proof.
  unfold reset. intros H HI.
  set (r0 := if negb (r_term r =? t) then r <| r_term := t |> <| r_vote := INVALID_ID |> else r) in H.
  assert (H0 : RInv r0) by (subst r0; destruct (negb (r_term r =? t)); rinv).
  clearbody r0. destruct (r_draws r0) as [|d ds]; [discriminate|]. inversion H; subst. clear H.
  unfold RInv. cbn.
  apply (PrsInv_map (fun kp => if fst kp =? r_id r0 then _ else _)); [|exact H0].
  intros kp Hk. destruct (fst kp =? r_id r0); rinv.
Qed.
#[export] Hint Resolve reset_RInv : rinv.

Lemma become_follower_RInv r t l r' : become_follower r t l = Ok r' -> RInv r -> RInv r'.
Proof. unfold become_follower. intros H HI. crush H. assert (RInv x) by rinv. rinv. Qed.
#[export] Hint Resolve become_follower_RInv : rinv.

Lemma become_candidate_RInv r r' : become_candidate r = Ok r' -> RInv r -> RInv r'.
Proof. unfold become_candidate. intros H HI. crush H. assert (RInv x) by rinv. rinv. Qed.
#[export] Hint Resolve become_candidate_RInv : rinv.

Lemma become_pre_candidate_RInv r r' : become_pre_candidate r = Ok r' -> RInv r -> RInv r'.
Proof. unfold become_pre_candidate. intros H HI. crush H. rinv. Qed.
#[export] Hint Resolve become_pre_candidate_RInv : rinv.

Lemma become_leader_RInv r r' : become_leader r = Ok r' -> RInv r -> RInv r'.
Proof.
  unfold become_leader. intros H HI.
  destruct (role_eqb (r_state r) Follower); [discriminate|].
  inv_bind H. assert (Hx0 : RInv x) by rinv.
  match type of H with (match ?g with _ => _ end) = _ => destruct g as [pr|] eqn:Eg end; [|discriminate].
  inv_bind H. destruct x0 as [r6 ok]. destruct ok; [|discriminate]. inversion H; subst.
  eapply append_entry_RInv; [exact Hx1|].
  assert (Hp : PrInv pr) by (eapply pget_PrInv; [exact Hx0|exact Eg]).
  unfold RInv. cbn. apply pput_PrsInv; [exact Hx0|rinv].
Qed.
#[export] Hint Resolve become_leader_RInv : rinv.

Lemma poll_gen_RInv rc r from v r' res :
  (forall r r', rc r = Ok r' -> RInv r -> RInv r') ->
  poll_gen rc r from v = Ok (r', res) -> RInv r -> RInv r'.
Proof.
  unfold poll_gen. intros Hrc H HI.
  set (r0 := r <| r_prs := (r_prs r) <| t_votes := _ |> |>) in H.
  assert (H0 : RInv r0) by (subst r0; rinv). clearbody r0.
  crush H; rinv.
Qed.

Lemma send_vote_requests_RInv ids : forall r vm t c ct tr r',
  send_vote_requests ids r vm t c ct tr = Ok r' -> RInv r -> RInv r'.
Proof.
  induction ids as [|id rest IH]; intros r vm t c ct tr r' H HI; cbn [send_vote_requests] in H.
  - inversion H; subst; exact HI.
  - destruct (id =? r_id r); [eapply IH; eassumption|].
    inv_bind H. inv_bind H. eapply IH; [exact H|]. rinv.
Qed.
#[export] Hint Resolve send_vote_requests_RInv : rinv.

Lemma campaign_real_RInv tr r r' : campaign_real tr r = Ok r' -> RInv r -> RInv r'.
Proof.
  unfold campaign_real. intros H HI. inv_bind H. inv_bind H. destruct x0 as [r2 res].
  assert (RInv r2).
  { eapply poll_gen_RInv; [|exact Hx0|rinv]. intros; discriminate. }
  crush H; rinv.
Qed.
#[export] Hint Resolve campaign_real_RInv : rinv.

Lemma poll_RInv r from v r' res : poll r from v = Ok (r', res) -> RInv r -> RInv r'.
Proof. unfold poll. apply poll_gen_RInv. intros; rinv. Qed.
#[export] Hint Resolve poll_RInv : rinv.

Lemma campaign_pre_RInv r r' : campaign_pre r = Ok r' -> RInv r -> RInv r'.
Proof.
  unfold campaign_pre. intros H HI. inv_bind H. inv_bind H. destruct x0 as [r2 res].
  assert (RInv r2) by rinv. crush H; rinv.
Qed.
#[export] Hint Resolve campaign_pre_RInv : rinv.

Lemma hup_RInv r tl r' : hup r tl = Ok r' -> RInv r -> RInv r'.
Proof. unfold hup. intros H HI. crush H; rinv. Qed.
#[export] Hint Resolve hup_RInv : rinv.

Lemma maybe_commit_by_vote_RInv r m r' : maybe_commit_by_vote r m = Ok r' -> RInv r -> RInv r'.
Proof.
  unfold maybe_commit_by_vote. intros H HI.
  destruct ((m_commit m =? 0) || (m_commit_term m =? 0)); [inversion H; subst; exact HI|].
  destruct ((m_commit m <=? committed (r_log r)) || is_leader r); [inversion H; subst; exact HI|].
  inv_bind H. destruct x as [l' b].
  assert (H1 : RInv (r <| r_log := l' |>)) by rinv.
  crush H; rinv.
Qed.
#[export] Hint Resolve maybe_commit_by_vote_RInv : rinv.

Lemma handle_ready_read_index_RInv r req i r' om :
  handle_ready_read_index r req i = Ok (r', om) -> RInv r -> RInv r'.
Proof. unfold handle_ready_read_index. intros H HI. crush H; rinv. Qed.
#[export] Hint Resolve handle_ready_read_index_RInv : rinv.

Lemma respond_reads_RInv rss : forall r r', respond_reads r rss = Ok r' -> RInv r -> RInv r'.
Proof.
  induction rss as [|rs rest IH]; intros r r' H HI; cbn [respond_reads] in H.
  - inversion H; subst; exact HI.
  - inv_bind H. destruct x as [r1 om]. inv_bind H. eapply IH; [exact H|].
    assert (RInv r1) by rinv. destruct om; [rinv|inversion Hx0; subst; assumption].
Qed.
#[export] Hint Resolve respond_reads_RInv : rinv.

Lemma send_timeout_now_RInv r to r' : send_timeout_now r to = Ok r' -> RInv r -> RInv r'.
Proof. unfold send_timeout_now. rinv. Qed.
#[export] Hint Resolve send_timeout_now_RInv : rinv.

Lemma send_request_snapshot_RInv r r' : send_request_snapshot r = Ok r' -> RInv r -> RInv r'.
Proof. unfold send_request_snapshot. intros H HI. crush H; rinv. Qed.
#[export] Hint Resolve send_request_snapshot_RInv : rinv.

Lemma handle_append_entries_RInv r m r' : handle_append_entries r m = Ok r' -> RInv r -> RInv r'.
Proof.
  unfold handle_append_entries. intros H HI.
  destruct (negb (r_pending_request_snapshot r =? INVALID_INDEX)); [rinv|].
  destruct (m_index m <? committed (r_log r)); [rinv|].
  inv_bind H. destruct x as [l' res].
  assert (H1 : RInv (r <| r_log := l' |>)) by rinv.
  crush H; rinv.
Qed.
#[export] Hint Resolve handle_append_entries_RInv : rinv.

Lemma handle_heartbeat_RInv r m r' : handle_heartbeat r m = Ok r' -> RInv r -> RInv r'.
Proof.
  unfold handle_heartbeat. intros H HI. inv_bind H.
  assert (H1 : RInv (r <| r_log := x |>)) by rinv.
  crush H; rinv.
Qed.
#[export] Hint Resolve handle_heartbeat_RInv : rinv.

Lemma fresh_progress_PrsInv ids n mi : PrsInv (fresh_progress ids n mi).
Proof.
  unfold fresh_progress, PrsInv. induction ids as [|i t IH]; cbn [map]; constructor; [|exact IH].
  cbn [snd]. rinv.
Qed.

Lemma apply_changes_PrsInv chs : forall m n mi, PrsInv m -> PrsInv (apply_changes m chs n mi).
Proof.
  induction chs as [|[id [|]] rest IH]; intros m n mi H; cbn [apply_changes]; [exact H| |].
  - apply IH. apply pput_PrsInv; [exact H|rinv].
  - apply IH. apply pdel_PrsInv. exact H.
Qed.

Lemma post_conf_change_RInv r r' cs : post_conf_change r = Ok (r', cs) -> RInv r -> RInv r'.
Proof.
  unfold post_conf_change. intros H HI.
  set (r0 := r <| r_promotable := _ |>) in H.
  assert (H0 : RInv r0) by (subst r0; rinv). clearbody r0.
  match type of H with (if ?c then _ else _) = _ => destruct c end; [inversion H; subst; exact H0|].
  match type of H with (if ?c then _ else _) = _ => destruct c end; [inversion H; subst; exact H0|].
  inv_bind H. destruct x as [r1 b]. assert (H1 : RInv r1) by rinv.
  inv_bind H. assert (H2 : RInv x).
  { destruct b; [rinv|]. eapply for_each_peer_RInv; [|exact Hx0|exact H1].
    intros ra id rb Hf Ha. cbv beta in Hf. destruct (get_pr ra id) as [pr|] eqn:Eg; [|discriminate].
    inv_bind Hf. destruct x0 as [[rc prc] bc]. inversion Hf; subst. rinv. }
  inv_bind H. assert (H3 : RInv x0).
  { destruct (ro_last_pending_request_ctx (r_read_only x)) as [ctx|]; [|inversion Hx1; subst; exact H2].
    destruct (ro_recv_ack (r_read_only x) (r_id x) ctx) as [ro' acks].
    assert (RInv (x <| r_read_only := ro' |>)) by rinv.
    destruct acks as [a|]; [|inversion Hx1; subst; assumption].
    match type of Hx1 with (if ?c then _ else _) = _ => destruct c end;
      [|inversion Hx1; subst; assumption].
    inv_bind Hx1. destruct x1 as [ro2 rss].
    eapply respond_reads_RInv; [exact Hx1|]. rinv. }
  inversion H; subst.
  destruct (r_lead_transferee x0); [|exact H3].
  match goal with |- RInv (if ?c then _ else _) => destruct c end; rinv.
Qed.
#[export] Hint Resolve post_conf_change_RInv : rinv.

Lemma restore_RInv r s r' b : restore r s = Ok (r', b) -> RInv r -> RInv r'.
Proof.
  unfold restore. intros H HI.
  destruct (s_index s <? committed (r_log r)); [inversion H; subst; exact HI|].
  destruct (negb (role_eqb (r_state r) Follower)).
  { inv_bind H. inversion H; subst. rinv. }
  match type of H with (if ?c then _ else _) = _ => destruct c end; [inversion H; subst; exact HI|].
  inv_bind H.
  match type of H with (if ?c then _ else _) = _ => destruct c end.
  { inv_bind H. inversion H; subst. rinv. }
  inv_bind H.
  destruct (ConfChange.restore empty_tracker (s_cs s)) as [[c' ids']|e]; [|discriminate].
  inv_bind H. destruct x1 as [r1 new_cs].
  assert (H1 : RInv r1).
  { eapply post_conf_change_RInv; [exact Hx1|]. unfold RInv, set_conf_prs. cbn.
    apply fresh_progress_PrsInv. }
  match type of H with (if ?c then _ else _) = _ => destruct c end; [discriminate|].
  destruct (get_pr r1 (r_id r1)) as [pr|] eqn:Eg; [|discriminate].
  destruct (next_idx pr =? 0); [discriminate|]. inversion H; subst.
  assert (RInv (put_pr r1 (r_id r1) (fst (maybe_update pr (next_idx pr - 1))))) by rinv.
  rinv.
Qed.
#[export] Hint Resolve restore_RInv : rinv.

Lemma handle_snapshot_RInv r m r' : handle_snapshot r m = Ok r' -> RInv r -> RInv r'.
Proof.
  unfold handle_snapshot. intros H HI. inv_bind H. destruct x as [r1 ok].
  assert (RInv r1) by rinv. destruct ok; rinv.
Qed.
#[export] Hint Resolve handle_snapshot_RInv : rinv.

Lemma handle_append_response_RInv r m r' : handle_append_response r m = Ok r' -> RInv r -> RInv r'.
Proof.
  unfold handle_append_response. intros H HI. inv_bind H.
  destruct (get_pr r (m_from m)) as [pr0|] eqn:Eg; [|inversion H; subst; exact HI].
  assert (Hp0 : PrInv pr0) by rinv.
  set (pr := update_committed (set_recent_active pr0 true) (m_commit m)) in H.
  assert (Hp : PrInv pr) by (subst pr; rinv). clearbody pr.
  destruct (m_reject m).
  - destruct (maybe_decr_to pr (m_index m) x (m_request_snapshot m)) as [pr1 dec] eqn:Ed.
    assert (Hp1 : PrInv pr1) by rinv.
    destruct dec; [|inversion H; subst; rinv].
    eapply send_append_to_RInv; [exact H|]. apply put_pr_RInv; [exact HI|].
    destruct (pstate_eqb (pr_state pr1) Replicate); rinv.
  - destruct (maybe_update pr (m_index m)) as [pr1 upd] eqn:Eu.
    assert (Hp1 : PrInv pr1) by rinv.
    destruct (negb upd); [inversion H; subst; rinv|].
    inv_bind H. assert (Hp2 : PrInv x0).
    { destruct (pr_state pr1).
      - inversion Hx0; subst. rinv.
      - inv_bind Hx0. inversion Hx0; subst. apply PrInv_set_ins.
        eapply IInv_free_to; [exact Hp1|exact Hx1].
      - inversion Hx0; subst. destruct (is_snapshot_caught_up pr1); rinv. }
    inv_bind H. destruct x1 as [r1 cmt]. assert (H1 : RInv r1) by rinv.
    inv_bind H. assert (H2 : RInv x1).
    { destruct cmt; [destruct (should_bcast_commit r1); [rinv|inversion Hx2; subst; exact H1]|].
      destruct (is_paused pr); [rinv|inversion Hx2; subst; exact H1]. }
    inv_bind H. assert (H3 : RInv x2) by rinv.
    crush H; rinv.
Qed.
#[export] Hint Resolve handle_append_response_RInv : rinv.

Lemma handle_heartbeat_response_RInv r m r' :
  handle_heartbeat_response r m = Ok r' -> RInv r -> RInv r'.
Proof.
  unfold handle_heartbeat_response. intros H HI.
  destruct (get_pr r (m_from m)) as [pr0|] eqn:Eg; [|inversion H; subst; exact HI].
  assert (Hp0 : PrInv pr0) by rinv.
  set (pr := resume (set_recent_active (update_committed pr0 (m_commit m)) true)) in H.
  assert (Hp : PrInv pr) by (subst pr; rinv). clearbody pr.
  inv_bind H. assert (Hp1 : PrInv x).
  { match type of Hx with (if ?c then _ else _) = _ => destruct c end;
      [|inversion Hx; subst; exact Hp].
    inv_bind Hx. inversion Hx; subst. apply PrInv_set_ins.
    eapply IInv_free_first_one; [exact Hp|exact Hx0]. }
  inv_bind H. assert (H1 : RInv x0).
  { match type of Hx0 with (if ?c then _ else _) = _ => destruct c end;
      [|inversion Hx0; subst; rinv].
    inv_bind Hx0. destruct x1 as [[ra pra] ba]. inversion Hx0; subst. rinv. }
  match type of H with (if ?c then _ else _) = _ => destruct c end; [inversion H; subst; exact H1|].
  destruct (ro_recv_ack (r_read_only x0) (m_from m) (m_context m)) as [ro' acks].
  assert (RInv (x0 <| r_read_only := ro' |>)) by rinv.
  destruct acks as [a|]; [|inversion H; subst; assumption].
  match type of H with (if ?c then _ else _) = _ => destruct c end; [|inversion H; subst; assumption].
  inv_bind H. destruct x1 as [ro2 rss]. eapply respond_reads_RInv; [exact H|]. rinv.
Qed.
#[export] Hint Resolve handle_heartbeat_response_RInv : rinv.

Lemma handle_transfer_leader_RInv r m r' : handle_transfer_leader r m = Ok r' -> RInv r -> RInv r'.
Proof.
  unfold handle_transfer_leader. intros H HI.
  destruct (get_pr r (m_from m)) as [p0|]; [|inversion H; subst; exact HI].
  destruct (IdSet.mem (m_from m) (learners (conf_of r))); [inversion H; subst; exact HI|].
  assert (Hcont : forall ra, RInv ra ->
    (if m_from m =? r_id ra then Ok ra else
       let rb := ra <| r_election_elapsed := 0 |> <| r_lead_transferee := Some (m_from m) |> in
       match get_pr rb (m_from m) with
       | None => Panic site_pr_unwrap
       | Some pr =>
           if matched pr =? RaftLog.last_index (r_log rb) then send_timeout_now rb (m_from m)
           else y <- maybe_send_append rb (m_from m) pr true ;;
                let '(r', pr', _) := y in Ok (put_pr r' (m_from m) pr')
       end) = Ok r' -> RInv r').
  { intros ra Ha Hc. destruct (m_from m =? r_id ra); [inversion Hc; subst; exact Ha|].
    cbv zeta in Hc.
    set (rb := ra <| r_election_elapsed := 0 |> <| r_lead_transferee := Some (m_from m) |>) in Hc.
    assert (Hb : RInv rb) by (subst rb; rinv). clearbody rb.
    destruct (get_pr rb (m_from m)) as [pr|] eqn:Eg; [|discriminate].
    destruct (matched pr =? RaftLog.last_index (r_log rb)); [rinv|].
    inv_bind Hc. destruct x as [[rc prc] bc]. inversion Hc; subst. rinv. }
  destruct (r_lead_transferee r) as [last|].
  - destruct (last =? m_from m); [inversion H; subst; exact HI|].
    apply (Hcont (r <| r_lead_transferee := None |>)); [rinv|exact H].
  - apply (Hcont r HI H).
Qed.
#[export] Hint Resolve handle_transfer_leader_RInv : rinv.

Lemma handle_snapshot_status_RInv r m r' : handle_snapshot_status r m = Ok r' -> RInv r -> RInv r'.
Proof.
  unfold handle_snapshot_status. intros H HI.
  destruct (get_pr r (m_from m)) as [pr|] eqn:Eg; [|inversion H; subst; exact HI].
  assert (PrInv pr) by rinv.
  destruct (negb (pstate_eqb (pr_state pr) Snapshot)); [inversion H; subst; exact HI|].
  inversion H; subst. destruct (m_reject m); rinv.
Qed.
#[export] Hint Resolve handle_snapshot_status_RInv : rinv.

Lemma handle_unreachable_RInv r m r' : handle_unreachable r m = Ok r' -> RInv r -> RInv r'.
Proof.
  unfold handle_unreachable. intros H HI.
  destruct (get_pr r (m_from m)) as [pr|] eqn:Eg; [|inversion H; subst; exact HI].
  assert (PrInv pr) by rinv. inversion H; subst.
  destruct (pstate_eqb (pr_state pr) Replicate); rinv.
Qed.
#[export] Hint Resolve handle_unreachable_RInv : rinv.

Lemma filter_conf_changes_prs ents : forall r info i r' ents' ok,
  filter_conf_changes r ents info i = (r', ents', ok) -> r_prs r' = r_prs r.
Proof.
  induction ents as [|e rest IH]; intros r info i r' ents' ok H; cbn [filter_conf_changes] in H.
  - inversion H; reflexivity.
  - destruct (negb (is_conf_entry e)).
    + destruct (filter_conf_changes r rest _ (i + 1)) as [[ra ea] oa] eqn:E.
      inversion H; subst. eapply IH; exact E.
    + match type of H with (if ?c then _ else _) = _ => destruct c end; [inversion H; reflexivity|].
      match type of H with (if ?c then _ else _) = _ => destruct c end.
      * destruct (filter_conf_changes r rest _ (i + 1)) as [[ra ea] oa] eqn:E.
        inversion H; subst. eapply IH; exact E.
      * match type of H with context [filter_conf_changes ?r1 ?a ?b ?c] =>
          destruct (filter_conf_changes r1 a b c) as [[ra ea] oa] eqn:E end.
        inversion H; subst. rewrite (IH _ _ _ _ _ _ E). reflexivity.
Qed.

Lemma filter_conf_changes_RInv r ents info i r' ents' ok :
  filter_conf_changes r ents info i = (r', ents', ok) -> RInv r -> RInv r'.
Proof. intros H. apply RInv_same. rewrite (filter_conf_changes_prs _ _ _ _ _ _ _ H). reflexivity. Qed.
#[export] Hint Resolve filter_conf_changes_RInv : rinv.

Lemma quorum_recently_active_PrsInv t p t' b :
  quorum_recently_active t p = (t', b) -> PrsInv (t_progress t) -> PrsInv (t_progress t').
Proof.
  unfold quorum_recently_active. intros H HI. inversion H; subst. cbn.
  apply (PrsInv_map (fun kp => set_recent_active (snd kp) (fst kp =? p))); [|exact HI].
  intros kp Hk. rinv.
Qed.

Lemma step_leader_RInv r m r' c : step_leader r m = Ok (r', c) -> RInv r -> RInv r'.
Proof.
  unfold step_leader. intros H HI.
  destruct (m_type m =? MsgBeat). { crush H; rinv. }
  destruct (m_type m =? MsgCheckQuorum).
  { destruct (quorum_recently_active (r_prs r) (r_id r)) as [prs' active] eqn:Eq.
    assert (H1 : RInv (r <| r_prs := prs' |>)).
    { unfold RInv. cbn. eapply quorum_recently_active_PrsInv; [exact Eq|exact HI]. }
    crush H; rinv. }
  destruct (m_type m =? MsgPropose).
  { destruct (m_entries m); [discriminate|].
    destruct (get_pr r (r_id r)); [|inversion H; subst; exact HI].
    destruct (r_lead_transferee r); [inversion H; subst; exact HI|].
    match type of H with context [filter_conf_changes ?a ?b ?c ?d] =>
      destruct (filter_conf_changes a b c d) as [[r1 ents] ok] eqn:Ef end.
    assert (H1 : RInv r1) by rinv.
    crush H; rinv. }
  destruct (m_type m =? MsgReadIndex).
  { inv_bind H. destruct (negb x); [inversion H; subst; exact HI|].
    assert (Hans : forall ra c,
      (x <- handle_ready_read_index r m (committed (r_log r)) ;;
       (let '(r1, om) := x in
        r2 <- match om with Some mm => send r1 mm | None => Ok r1 end ;; Ok (r2, E_OK))) = Ok (ra, c) ->
      RInv ra).
    { intros ra c0 Ha. inv_bind Ha. destruct x0 as [r1 om]. assert (RInv r1) by rinv.
      inv_bind Ha. inversion Ha; subst. destruct om; [rinv|inversion Hx1; subst; assumption]. }
    match type of H with (if ?c then _ else _) = _ => destruct c end; [eapply Hans; exact H|].
    match type of H with (if ?c then _ else _) = _ => destruct c end; [|eapply Hans; exact H].
    inv_bind H. inv_bind H. inv_bind H. inversion H; subst.
    eapply bcast_heartbeat_with_ctx_RInv; [exact Hx2|]. rinv. }
  crush H; rinv.
Qed.
#[export] Hint Resolve step_leader_RInv : rinv.

Lemma step_candidate_RInv r m r' c : step_candidate r m = Ok (r', c) -> RInv r -> RInv r'.
Proof.
  unfold step_candidate. intros H HI.
  destruct (m_type m =? MsgPropose); [inversion H; subst; exact HI|].
  match type of H with (if ?c then _ else _) = _ => destruct c end.
  { destruct (negb (r_term r =? m_term m)); [discriminate|].
    inv_bind H. assert (RInv x) by rinv. inv_bind H. inversion H; subst.
    destruct (m_type m =? MsgAppend); [rinv|]. destruct (m_type m =? MsgHeartbeat); rinv. }
  match type of H with (if ?c then _ else _) = _ => destruct c end; [|inversion H; subst; exact HI].
  match type of H with (if ?c then _ else _) = _ => destruct c end; [inversion H; subst; exact HI|].
  inv_bind H. destruct x as [r1 res]. cbn [fst] in H. inv_bind H. inversion H; subst. rinv.
Qed.
#[export] Hint Resolve step_candidate_RInv : rinv.

Lemma step_follower_RInv r m r' c : step_follower r m = Ok (r', c) -> RInv r -> RInv r'.
Proof.
  unfold step_follower. intros H HI.
  assert (Hf : RInv (r <| r_election_elapsed := 0 |> <| r_leader_id := m_from m |>)) by rinv.
  destruct (m_type m =? MsgPropose). { crush H; rinv. }
  destruct (m_type m =? MsgAppend). { crush H; rinv. }
  destruct (m_type m =? MsgHeartbeat). { crush H; rinv. }
  destruct (m_type m =? MsgSnapshot). { crush H; rinv. }
  destruct (m_type m =? MsgTransferLeader). { crush H; rinv. }
  destruct (m_type m =? MsgTimeoutNow). { crush H; rinv. }
  destruct (m_type m =? MsgReadIndex). { crush H; rinv. }
  destruct (m_type m =? MsgReadIndexResp); [|inversion H; subst; exact HI].
  destruct (m_entries m) as [|e [|e2 t]]; try (inversion H; subst; exact HI).
  inv_bind H. inversion H; subst. rinv.
Qed.
#[export] Hint Resolve step_follower_RInv : rinv.

Theorem step_RInv r m r' c : step r m = Ok (r', c) -> RInv r -> RInv r'.
Proof.
  unfold step. intros H HI. inv_bind H.
  assert (Hpre : match x with inl (r1, _) => RInv r1 | inr r1 => RInv r1 end).
  { clear H. destruct (m_term m =? 0); [inversion Hx; subst; exact HI|].
    destruct (r_term r <? m_term m).
    - match type of Hx with (if ?c then _ else _) = _ => destruct c end;
        [inversion Hx; subst; exact HI|].
      match type of Hx with (if ?c then _ else _) = _ => destruct c end;
        [inversion Hx; subst; exact HI|].
      match type of Hx with (if ?c then _ else _) = _ => destruct c end;
        inv_bind Hx; inversion Hx; subst; rinv.
    - destruct (m_term m <? r_term r); [|inversion Hx; subst; exact HI].
      match type of Hx with (if ?c then _ else _) = _ => destruct c end;
        [inv_bind Hx; inversion Hx; subst; rinv|].
      match type of Hx with (if ?c then _ else _) = _ => destruct c end;
        [inv_bind Hx; inversion Hx; subst; rinv|inversion Hx; subst; exact HI]. }
  destruct x as [[r1 c1]|r1]; [inversion H; subst; exact Hpre|].
  destruct (m_type m =? MsgHup). { crush H; rinv. }
  match type of H with (if ?c then _ else _) = _ => destruct c end.
  { inv_bind H. inv_bind H.
    match type of H with (if ?c then _ else _) = _ => destruct c end.
    - inv_bind H. assert (RInv x1) by rinv.
      destruct (m_type m =? MsgRequestVote); inversion H; subst; rinv.
    - inv_bind H. inv_bind H. inv_bind H. inversion H; subst. rinv. }
  destruct (r_state r1); rinv.
Qed.
#[export] Hint Resolve step_RInv : rinv.

(* ------------------------------------------------------------------ *)
(* ticks and the rest of the Raft API *)

Lemma tick_election_RInv r r' b : tick_election r = Ok (r', b) -> RInv r -> RInv r'.
Proof.
  unfold tick_election. intros H HI.
  set (r0 := r <| r_election_elapsed := r_election_elapsed r + 1 |>) in H.
  assert (H0 : RInv r0) by (subst r0; rinv). clearbody r0.
  match type of H with (if ?c then _ else _) = _ => destruct c end; [inversion H; subst; exact H0|].
  inv_bind H. destruct x as [r1 c]. inversion H; subst. cbn [fst].
  eapply step_RInv; [exact Hx|]. rinv.
Qed.
#[export] Hint Resolve tick_election_RInv : rinv.

Lemma tick_heartbeat_RInv r r' b : tick_heartbeat r = Ok (r', b) -> RInv r -> RInv r'.
Proof.
  unfold tick_heartbeat. intros H HI.
  set (r0 := r <| r_heartbeat_elapsed := r_heartbeat_elapsed r + 1 |>
               <| r_election_elapsed := r_election_elapsed r + 1 |>) in H.
  assert (H0 : RInv r0) by (subst r0; rinv). clearbody r0.
  inv_bind H. destruct x as [r1 hr].
  assert (H1 : RInv r1).
  { destruct (r_election_timeout r0 <=? r_election_elapsed r0); [|inversion Hx; subst; exact H0].
    inv_bind Hx. destruct x as [ra ha].
    assert (Ha : RInv ra).
    { destruct (r_check_quorum (r0 <| r_election_elapsed := 0 |>)).
      - inv_bind Hx0. destruct x as [rb cb]. inversion Hx0; subst. cbn [fst].
        eapply step_RInv; [exact Hx1|]. rinv.
      - inversion Hx0; subst. rinv. }
    inversion Hx; subst.
    match goal with |- RInv (if ?c then _ else _) => destruct c end; rinv. }
  destruct (negb (is_leader r1)); [inversion H; subst; exact H1|].
  destruct (r_heartbeat_timeout r1 <=? r_heartbeat_elapsed r1); [|inversion H; subst; exact H1].
  inv_bind H. destruct x as [rb cb]. inversion H; subst. cbn [fst].
  eapply step_RInv; [exact Hx0|]. rinv.
Qed.
#[export] Hint Resolve tick_heartbeat_RInv : rinv.

Theorem tick_RInv r r' b : tick r = Ok (r', b) -> RInv r -> RInv r'.
Proof. unfold tick. destruct (r_state r); rinv. Qed.
#[export] Hint Resolve tick_RInv : rinv.

Theorem on_persist_entries_RInv r i t r' : on_persist_entries r i t = Ok r' -> RInv r -> RInv r'.
Proof.
  unfold on_persist_entries. intros H HI. inv_bind H. destruct x as [l' upd].
  set (r0 := r <| r_log := l' |>) in H. assert (H0 : RInv r0) by (subst r0; rinv). clearbody r0.
  destruct (upd && is_leader r0); [|inversion H; subst; exact H0].
  destruct (get_pr r0 (r_id r0)) as [pr|] eqn:Eg; [|inversion H; subst; exact H0].
  destruct (maybe_update pr i) as [pr' u] eqn:Eu.
  assert (H1 : RInv (put_pr r0 (r_id r0) pr')) by rinv.
  destruct u; [|inversion H; subst; exact H1].
  inv_bind H. destruct x as [r1 c]. assert (RInv r1) by rinv.
  destruct (c && should_bcast_commit r1); [rinv|inversion H; subst; assumption].
Qed.

Theorem on_persist_snap_RInv r i r' : on_persist_snap r i = Ok r' -> RInv r -> RInv r'.
Proof. unfold on_persist_snap. intros H HI. inv_bind H. inversion H; subst. rinv. Qed.

Theorem commit_apply_internal_RInv r a sk r' :
  commit_apply_internal r a sk = Ok r' -> RInv r -> RInv r'.
Proof.
  unfold commit_apply_internal. intros H HI. inv_bind H.
  set (r0 := r <| r_log := x |>) in H. assert (H0 : RInv r0) by (subst r0; rinv). clearbody r0.
  match type of H with (if ?c then _ else _) = _ => destruct c end; [|inversion H; subst; exact H0].
  inv_bind H. destruct x0 as [r1 ok]. assert (RInv r1) by rinv.
  destruct (negb ok); [discriminate|]. inversion H; subst. rinv.
Qed.

Theorem commit_apply_RInv r a r' : commit_apply r a = Ok r' -> RInv r -> RInv r'.
Proof. unfold commit_apply. apply commit_apply_internal_RInv. Qed.

Theorem raft_apply_conf_change_RInv r cc r' ocs :
  raft_apply_conf_change r cc = Ok (r', ocs) -> RInv r -> RInv r'.
Proof.
  unfold raft_apply_conf_change. intros H HI.
  match type of H with (match ?res with _ => _ end) = _ => destruct res as [[c' chs]|e] end;
    [|inversion H; subst; exact HI].
  inv_bind H. destruct x as [r1 cs]. inversion H; subst. cbn [fst].
  eapply post_conf_change_RInv; [exact Hx|]. unfold RInv, set_conf_prs. cbn.
  apply apply_changes_PrsInv. exact HI.
Qed.

Theorem load_state_RInv r hs r' : load_state r hs = Ok r' -> RInv r -> RInv r'.
Proof. unfold load_state. intros H HI. crush H; rinv. Qed.

Theorem request_snapshot_RInv r r' c : request_snapshot r = Ok (r', c) -> RInv r -> RInv r'.
Proof.
  unfold request_snapshot. intros H HI.
  destruct (is_leader r); [inversion H; subst; exact HI|].
  destruct (r_leader_id r =? INVALID_ID); [inversion H; subst; exact HI|].
  match type of H with (if ?c then _ else _) = _ => destruct c end; [inversion H; subst; exact HI|].
  match type of H with (if ?c then _ else _) = _ => destruct c end; [inversion H; subst; exact HI|].
  inv_bind H. destruct x as [rt|e]; [|discriminate].
  destruct (r_term r =? rt); [|inversion H; subst; exact HI].
  inv_bind H. inversion H; subst. eapply send_request_snapshot_RInv; [exact Hx0|]. rinv.
Qed.

Theorem ping_RInv r r' : ping r = Ok r' -> RInv r -> RInv r'.
Proof. unfold ping. intros H HI. destruct (is_leader r); [rinv|inversion H; subst; exact HI]. Qed.

(* runtime window resizing keeps the invariant *)
Theorem adjust_max_inflight_msgs_RInv r target c r' :
  adjust_max_inflight_msgs r target c = Ok r' -> RInv r -> RInv r'.
Proof.
  unfold adjust_max_inflight_msgs. intros H HI.
  destruct (get_pr r target) as [pr|] eqn:Eg; [|inversion H; subst; exact HI].
  assert (Hp : PrInv pr) by rinv. inv_bind H. inversion H; subst.
  apply put_pr_RInv; [exact HI|]. apply PrInv_set_ins. eapply IInv_set_cap; [exact Hp|exact Hx].
Qed.

Theorem maybe_free_inflight_buffers_RInv r : RInv r -> RInv (maybe_free_inflight_buffers r).
Proof.
  unfold maybe_free_inflight_buffers, RInv. cbn. intros HI.
  apply (PrsInv_map (fun kp => set_ins (snd kp) (Inflights.maybe_free_buffer (ins (snd kp)))));
    [|exact HI].
  intros kp Hk. apply PrInv_set_ins. apply IInv_maybe_free_buffer. exact Hk.
Qed.

Theorem set_max_apply_unpersisted_log_limit_RInv r lim :
  RInv r -> RInv (set_max_apply_unpersisted_log_limit r lim).
Proof. unfold set_max_apply_unpersisted_log_limit. intros; rinv. Qed.

Theorem enable_group_commit_RInv r e r' : enable_group_commit r e = Ok r' -> RInv r -> RInv r'.
Proof.
  unfold enable_group_commit. intros H HI.
  set (r0 := r <| r_prs := _ |>) in H. assert (H0 : RInv r0) by (subst r0; rinv). clearbody r0.
  destruct (is_leader r0 && negb e); [|inversion H; subst; exact H0].
  inv_bind H. destruct x as [r1 b]. cbn [fst snd] in H. assert (RInv r1) by rinv.
  destruct b; [rinv|inversion H; subst; assumption].
Qed.

Lemma assign_groups_PrsInv ids : forall m m', assign_groups m ids = Ok m' -> PrsInv m -> PrsInv m'.
Proof.
  induction ids as [|[peer g] rest IH]; intros m m' H HI; cbn [assign_groups] in H.
  - inversion H; subst; exact HI.
  - destruct (g =? 0); [discriminate|].
    destruct (pget m peer) as [pr|] eqn:Eg; [|eapply IH; eassumption].
    eapply IH; [exact H|]. apply pput_PrsInv; [exact HI|].
    apply PrInv_set_commit_group_id. eapply pget_PrInv; eassumption.
Qed.

Theorem assign_commit_groups_RInv r ids r' : assign_commit_groups r ids = Ok r' -> RInv r -> RInv r'.
Proof.
  unfold assign_commit_groups. intros H HI. inv_bind H.
  set (r0 := r <| r_prs := _ |>) in H.
  assert (H0 : RInv r0).
  { subst r0. unfold RInv. cbn. eapply assign_groups_PrsInv; [exact Hx|exact HI]. }
  clearbody r0.
  match type of H with (if ?c then _ else _) = _ => destruct c end; [|inversion H; subst; exact H0].
  inv_bind H. destruct x0 as [r1 b]. cbn [fst snd] in H. assert (RInv r1) by rinv.
  destruct b; [rinv|inversion H; subst; assumption].
Qed.

(* ------------------------------------------------------------------ *)
(* RawNode wrappers *)
From RV Require Import M.RawNode.

Definition NInv (n : rawnode) : Prop := RInv (rn_raft n).

Lemma lift_NInv n x n' : lift n x = Ok n' -> (forall r, x = Ok r -> RInv r) -> NInv n'.
Proof.
  unfold lift. intros H Hq. destruct x as [r|s]; cbn in H; [|discriminate].
  inversion H; subst. apply Hq. reflexivity.
Qed.

Lemma lift2_NInv n x n' c :
  lift2 n x = Ok (n', c) -> (forall r c, x = Ok (r, c) -> RInv r) -> NInv n'.
Proof.
  unfold lift2. intros H Hq. destruct x as [[r c0]|s]; cbn in H; [|discriminate].
  inversion H; subst. eapply Hq. reflexivity.
Qed.

Theorem rn_step_NInv n m n' c : rn_step n m = Ok (n', c) -> NInv n -> NInv n'.
Proof.
  unfold rn_step. intros H HI.
  destruct (is_local_msg (m_type m)); [inversion H; subst; exact HI|].
  match type of H with (if ?c then _ else _) = _ => destruct c end; [|inversion H; subst; exact HI].
  eapply lift2_NInv; [exact H|]. intros r c0 E. eapply step_RInv; [exact E|exact HI].
Qed.

Theorem rn_tick_NInv n n' b : rn_tick n = Ok (n', b) -> NInv n -> NInv n'.
Proof.
  unfold rn_tick. intros H HI. inv_bind H. destruct x as [r b0]. inversion H; subst.
  unfold NInv. cbn. eapply tick_RInv; [exact Hx|exact HI].
Qed.

Theorem rn_campaign_NInv n n' c : rn_campaign n = Ok (n', c) -> NInv n -> NInv n'.
Proof.
  unfold rn_campaign. intros H HI. eapply lift2_NInv; [exact H|].
  intros r c0 E. eapply step_RInv; [exact E|exact HI].
Qed.

Theorem rn_propose_NInv n ctx data n' c : rn_propose n ctx data = Ok (n', c) -> NInv n -> NInv n'.
Proof.
  unfold rn_propose. intros H HI. eapply lift2_NInv; [exact H|].
  intros r c0 E. eapply step_RInv; [exact E|exact HI].
Qed.

Theorem rn_propose_conf_change_NInv n ctx data ty ci n' c :
  rn_propose_conf_change n ctx data ty ci = Ok (n', c) -> NInv n -> NInv n'.
Proof.
  unfold rn_propose_conf_change. intros H HI. eapply lift2_NInv; [exact H|].
  intros r c0 E. eapply step_RInv; [exact E|exact HI].
Qed.

Theorem rn_apply_conf_change_NInv n cc n' o :
  rn_apply_conf_change n cc = Ok (n', o) -> NInv n -> NInv n'.
Proof.
  unfold rn_apply_conf_change. intros H HI. inv_bind H. destruct x as [r o0]. inversion H; subst.
  unfold NInv. cbn. eapply raft_apply_conf_change_RInv; [exact Hx|exact HI].
Qed.

Theorem rn_ping_NInv n n' : rn_ping n = Ok n' -> NInv n -> NInv n'.
Proof.
  unfold rn_ping. intros H HI. eapply lift_NInv; [exact H|].
  intros r E. eapply ping_RInv; [exact E|exact HI].
Qed.

Lemma gen_light_ready_NInv n n' lr : gen_light_ready n = Ok (n', lr) -> NInv n -> NInv n'.
Proof.
  unfold gen_light_ready. intros H HI. inv_bind H. inv_bind H. inversion H; subst.
  unfold NInv. cbn.
  assert (K : RInv (reduce_uncommitted_size (rn_raft n) match x with Some v => v | None => [] end))
    by (apply reduce_uncommitted_size_RInv; exact HI).
  exact K.
Qed.

Theorem rn_ready_NInv n n' rd : rn_ready n = Ok (n', rd) -> NInv n -> NInv n'.
Proof.
  unfold rn_ready. intros H HI. inv_bind H. inv_bind H.
  destruct x0 as [[[snap csi] rec_snap] ms2]. inv_bind H. destruct x0 as [n2 light].
  inversion H; subst. unfold NInv. cbn.
  eapply gen_light_ready_NInv in Hx1; [exact Hx1|]. unfold NInv. cbn. exact HI.
Qed.

Lemma commit_ready_NInv n rd n' : commit_ready n rd = Ok n' -> NInv n -> NInv n'.
Proof.
  unfold commit_ready. intros H HI.
  set (n0 := match rd_ss rd with Some ss => n <| rn_prev_ss := ss |> | None => n end) in H.
  assert (H0 : NInv n0) by (subst n0; destruct (rd_ss rd); exact HI). clearbody n0.
  set (n1 := match rd_hs rd with Some hs => n0 <| rn_prev_hs := hs |> | None => n0 end) in H.
  assert (H1 : NInv n1) by (subst n1; destruct (rd_hs rd); exact H0). clearbody n1.
  destruct (rn_records n1); [discriminate|].
  match type of H with (if ?c then _ else _) = _ => destruct c end; [discriminate|].
  inv_bind H. inv_bind H. inversion H; subst. unfold NInv in *. cbn. rinv.
Qed.

Theorem rn_advance_append_async_NInv n rd n' :
  rn_advance_append_async n rd = Ok n' -> NInv n -> NInv n'.
Proof. apply commit_ready_NInv. Qed.

Theorem rn_on_persist_ready_NInv n num n' : rn_on_persist_ready n num = Ok n' -> NInv n -> NInv n'.
Proof.
  unfold rn_on_persist_ready. intros H HI.
  destruct (fold_records (rn_records n) num 0 0 0) as [[[recs index] t] snap_index].
  inv_bind H. inv_bind H. inversion H; subst. unfold NInv in *. cbn in *.
  assert (H1 : RInv x).
  { destruct (negb (snap_index =? 0)); [eapply on_persist_snap_RInv; eassumption|].
    inversion Hx; subst. exact HI. }
  destruct (negb (index =? 0)); [eapply on_persist_entries_RInv; eassumption|].
  inversion Hx0; subst. exact H1.
Qed.

Theorem rn_advance_append_NInv n rd n' lr : rn_advance_append n rd = Ok (n', lr) -> NInv n -> NInv n'.
Proof.
  unfold rn_advance_append. intros H HI. inv_bind H. inv_bind H. inv_bind H.
  destruct x1 as [n3 light].
  assert (H3 : NInv n3).
  { eapply gen_light_ready_NInv; [exact Hx1|]. eapply rn_on_persist_ready_NInv; [exact Hx0|].
    eapply commit_ready_NInv; eassumption. }
  match type of H with (if ?c then _ else _) = _ => destruct c end; [discriminate|].
  inv_bind H. destruct x1 as [n4 ci].
  assert (H4 : NInv n4).
  { match type of Hx2 with (if ?c then _ else _) = _ => destruct c end;
      [inversion Hx2; subst; exact H3|].
    match type of Hx2 with (if ?c then _ else _) = _ => destruct c end; [discriminate|].
    inversion Hx2; subst; exact H3. }
  match type of H with (if ?c then _ else _) = _ => destruct c end; [discriminate|].
  inversion H; subst. exact H4.
Qed.

Theorem rn_advance_apply_to_NInv n a n' : rn_advance_apply_to n a = Ok n' -> NInv n -> NInv n'.
Proof.
  unfold rn_advance_apply_to. intros H HI. eapply lift_NInv; [exact H|].
  intros r E. eapply commit_apply_RInv; [exact E|exact HI].
Qed.

Theorem rn_advance_apply_NInv n n' : rn_advance_apply n = Ok n' -> NInv n -> NInv n'.
Proof. unfold rn_advance_apply. apply rn_advance_apply_to_NInv. Qed.

Theorem rn_advance_NInv n rd n' lr : rn_advance n rd = Ok (n', lr) -> NInv n -> NInv n'.
Proof.
  unfold rn_advance. intros H HI. inv_bind H. destruct x as [n1 l1]. cbn [fst snd] in H.
  inv_bind H. inversion H; subst.
  eapply rn_advance_apply_to_NInv; [exact Hx0|]. eapply rn_advance_append_NInv; eassumption.
Qed.

Theorem rn_report_unreachable_NInv n id n' : rn_report_unreachable n id = Ok n' -> NInv n -> NInv n'.
Proof.
  unfold rn_report_unreachable. intros H HI. inv_bind H. destruct x as [r c]. inversion H; subst.
  unfold NInv. cbn. eapply step_RInv; [exact Hx|exact HI].
Qed.

Theorem rn_report_snapshot_NInv n id f n' : rn_report_snapshot n id f = Ok n' -> NInv n -> NInv n'.
Proof.
  unfold rn_report_snapshot. intros H HI. inv_bind H. destruct x as [r c]. inversion H; subst.
  unfold NInv. cbn. eapply step_RInv; [exact Hx|exact HI].
Qed.

Theorem rn_request_snapshot_NInv n n' c : rn_request_snapshot n = Ok (n', c) -> NInv n -> NInv n'.
Proof.
  unfold rn_request_snapshot. intros H HI. eapply lift2_NInv; [exact H|].
  intros r c0 E. eapply request_snapshot_RInv; [exact E|exact HI].
Qed.

Theorem rn_transfer_leader_NInv n t n' : rn_transfer_leader n t = Ok n' -> NInv n -> NInv n'.
Proof.
  unfold rn_transfer_leader. intros H HI. inv_bind H. destruct x as [r c]. inversion H; subst.
  unfold NInv. cbn. eapply step_RInv; [exact Hx|exact HI].
Qed.

Theorem rn_read_index_NInv n ctx n' : rn_read_index n ctx = Ok n' -> NInv n -> NInv n'.
Proof.
  unfold rn_read_index. intros H HI. inv_bind H. destruct x as [r c]. inversion H; subst.
  unfold NInv. cbn. eapply step_RInv; [exact Hx|exact HI].
Qed.

(* what the invariant gives, for every tracked peer *)
Theorem RInv_window_bound r id pr :
  RInv r -> get_pr r id = Some pr ->
  (Inflights.count (ins pr) <= Inflights.cap (ins pr))%nat /\
  Inflights.count (ins pr) = length (iabs (ins pr)).
Proof.
  intros HI Hg. pose proof (get_pr_PrInv _ _ _ HI Hg) as Hp.
  split; [apply IInv_count_le_cap; exact Hp|apply count_abs].
Qed.

(* ================================================================== *)
(* 9. MsgPropose on a leader: when it is refused                        *)
(* ================================================================== *)

Lemma filter_conf_changes_state ents : forall r info i r' ents' ok,
  filter_conf_changes r ents info i = (r', ents', ok) ->
  r' = r \/ exists j, r' = r <| r_pending_conf_index := j |>.
Proof.
  induction ents as [|e rest IH]; intros r info i r' ents' ok H; cbn [filter_conf_changes] in H.
  - inversion H; auto.
  - destruct (negb (is_conf_entry e)).
    + destruct (filter_conf_changes r rest _ (i + 1)) as [[ra ea] oa] eqn:E.
      inversion H; subst. eapply IH; exact E.
    + match type of H with (if ?c then _ else _) = _ => destruct c end; [inversion H; auto|].
      match type of H with (if ?c then _ else _) = _ => destruct c end.
      * destruct (filter_conf_changes r rest _ (i + 1)) as [[ra ea] oa] eqn:E.
        inversion H; subst. eapply IH; exact E.
      * match type of H with context [filter_conf_changes ?r1 ?a ?b ?c] =>
          destruct (filter_conf_changes r1 a b c) as [[ra ea] oa] eqn:E end.
        inversion H; subst. right.
        destruct (IH _ _ _ _ _ _ E) as [->|(j & ->)]; eexists; reflexivity.
Qed.

Lemma append_entry_refused r es r' :
  append_entry r es = Ok (r', false) ->
  snd (maybe_increase_uncommitted_size r es) = false /\ r' = r.
Proof.
  unfold append_entry. intros H.
  destruct (maybe_increase_uncommitted_size r es) as [r1 ok] eqn:E.
  destruct ok; cbn [negb] in H.
  - inv_bind H. discriminate.
  - inversion H; subst. split; [reflexivity|].
    destruct (uncommitted_effect _ _ _ _ E) as (A & _). apply A. reflexivity.
Qed.

Lemma append_entry_accepted r es r' :
  append_entry r es = Ok (r', true) -> snd (maybe_increase_uncommitted_size r es) = true.
Proof.
  unfold append_entry. intros H.
  destruct (maybe_increase_uncommitted_size r es) as [r1 ok] eqn:E.
  destruct ok; [reflexivity|]. cbn [negb] in H. discriminate.
Qed.

(* Theorem 7: a proposal stepped on a leader is dropped exactly when the leader
   is not tracked, a transfer is pending, a conf-change entry does not decode,
   or the uncommitted-size limit refuses it; a dropped proposal queues nothing,
   appends nothing and leaves the uncommitted size alone (only
   pending_conf_index can have moved) *)
Theorem step_leader_propose_refused_iff r m r' c :
  m_type m = MsgPropose -> step_leader r m = Ok (r', c) ->
  let f := filter_conf_changes r (m_entries m) (m_ccinfo m) 0 in
  (c = E_OK \/ c = E_PROPOSAL_DROPPED) /\
  (c = E_PROPOSAL_DROPPED <->
     get_pr r (r_id r) = None \/ r_lead_transferee r <> None \/ snd f = false \/
     snd (maybe_increase_uncommitted_size (fst (fst f)) (snd (fst f))) = false) /\
  (c = E_PROPOSAL_DROPPED -> r' = r \/ exists j, r' = r <| r_pending_conf_index := j |>).
Proof.
  intros Ht H. cbv zeta. unfold step_leader in H. rewrite Ht in H.
  change (MsgPropose =? MsgBeat) with false in H.
  change (MsgPropose =? MsgCheckQuorum) with false in H.
  change (MsgPropose =? MsgPropose) with true in H. cbv iota in H.
  destruct (m_entries m) as [|e0 et] eqn:Em; [discriminate|]. rewrite <- Em in *.
  destruct (get_pr r (r_id r)) as [p|] eqn:Eg.
  2:{ inversion H; subst. split; [right; reflexivity|]. split; [split; auto|]. auto. }
  destruct (r_lead_transferee r) as [tr|] eqn:El.
  { inversion H; subst. split; [right; reflexivity|]. split; [|auto].
    split; [intros _; right; left; discriminate|reflexivity]. }
  destruct (filter_conf_changes r (m_entries m) (m_ccinfo m) 0) as [[r1 ents] ok] eqn:Ef.
  cbn [fst snd].
  pose proof (filter_conf_changes_state _ _ _ _ _ _ _ Ef) as Hst.
  destruct ok; cbn [negb] in H.
  2:{ inversion H; subst. split; [right; reflexivity|]. split; [|auto].
      split; [intros _; right; right; left; reflexivity|reflexivity]. }
  inv_bind H. destruct x as [r2 appended]. destruct appended; cbn [negb] in H.
  - inv_bind H. inversion H; subst. split; [left; reflexivity|].
    pose proof (append_entry_accepted _ _ _ Hx) as Ha.
    split; [|discriminate]. split; [discriminate|].
    intros [A|[A|[A|A]]]; try congruence.
  - inversion H; subst. destruct (append_entry_refused _ _ _ Hx) as (Ha & ->).
    split; [right; reflexivity|]. split; [|auto].
    split; [intros _; right; right; right; exact Ha|reflexivity].
Qed.

(* ================================================================== *)
(* 10. Aggregated statements (pinned in Props/C13.v)                    *)
(* ================================================================== *)

Theorem progress_ops_preserve_PrInv :
  (forall n c, PrInv (pr_new n c)) /\
  forall p, PrInv p ->
    (forall st, PrInv (reset_state p st)) /\ (forall n, PrInv (pr_reset p n)) /\
    PrInv (become_probe p) /\ PrInv (become_replicate p) /\ (forall i, PrInv (become_snapshot p i)) /\
    PrInv (snapshot_failure p) /\ PrInv (resume p) /\ PrInv (pause p) /\
    (forall n, PrInv (fst (maybe_update p n))) /\ (forall c, PrInv (update_committed p c)) /\
    (forall n, PrInv (optimistic_update p n)) /\
    (forall rej hint rs, PrInv (fst (maybe_decr_to p rej hint rs))) /\
    (forall last p', update_state p last = Ok p' -> PrInv p') /\
    (forall to i, Inflights.free_to (ins p) to = Ok i -> PrInv (set_ins p i)) /\
    (forall i, Inflights.free_first_one (ins p) = Ok i -> PrInv (set_ins p i)) /\
    (forall c i, Inflights.set_cap (ins p) c = Ok i -> PrInv (set_ins p i)) /\
    PrInv (set_ins p (Inflights.maybe_free_buffer (ins p))).
Proof.
  split; [apply PrInv_pr_new|]. intros p H.
  repeat match goal with |- _ /\ _ => split end; intros; try solve [rinv].
  - eapply PrInv_update_state; eassumption.
  - apply PrInv_set_ins. eapply IInv_free_to; eassumption.
  - apply PrInv_set_ins. eapply IInv_free_first_one; eassumption.
  - apply PrInv_set_ins. eapply IInv_set_cap; eassumption.
  - apply PrInv_set_ins. apply IInv_maybe_free_buffer. exact H.
Qed.

Theorem window_inv_raft_api :
  (forall r m r' c, step r m = Ok (r', c) -> RInv r -> RInv r') /\
  (forall r r' b, tick r = Ok (r', b) -> RInv r -> RInv r') /\
  (forall r cc r' o, raft_apply_conf_change r cc = Ok (r', o) -> RInv r -> RInv r') /\
  (forall r i t r', on_persist_entries r i t = Ok r' -> RInv r -> RInv r') /\
  (forall r i r', on_persist_snap r i = Ok r' -> RInv r -> RInv r') /\
  (forall r a r', commit_apply r a = Ok r' -> RInv r -> RInv r') /\
  (forall r ents, RInv r -> RInv (reduce_uncommitted_size r ents)) /\
  (forall r hs r', load_state r hs = Ok r' -> RInv r -> RInv r') /\
  (forall r r' c, request_snapshot r = Ok (r', c) -> RInv r -> RInv r') /\
  (forall r r', ping r = Ok r' -> RInv r -> RInv r') /\
  (forall r target c r', adjust_max_inflight_msgs r target c = Ok r' -> RInv r -> RInv r') /\
  (forall r, RInv r -> RInv (maybe_free_inflight_buffers r)) /\
  (forall r lim, RInv r -> RInv (set_max_apply_unpersisted_log_limit r lim)) /\
  (forall r e r', enable_group_commit r e = Ok r' -> RInv r -> RInv r') /\
  (forall r ids r', assign_commit_groups r ids = Ok r' -> RInv r -> RInv r') /\
  (forall r s r' b, restore r s = Ok (r', b) -> RInv r -> RInv r') /\
  (forall r r', become_leader r = Ok r' -> RInv r -> RInv r') /\
  (forall r t l r', become_follower r t l = Ok r' -> RInv r -> RInv r').
Proof.
  repeat match goal with |- _ /\ _ => split end.
  - exact step_RInv.
  - exact tick_RInv.
  - exact raft_apply_conf_change_RInv.
  - exact on_persist_entries_RInv.
  - exact on_persist_snap_RInv.
  - exact commit_apply_RInv.
  - exact reduce_uncommitted_size_RInv.
  - exact load_state_RInv.
  - exact request_snapshot_RInv.
  - exact ping_RInv.
  - exact adjust_max_inflight_msgs_RInv.
  - exact maybe_free_inflight_buffers_RInv.
  - exact set_max_apply_unpersisted_log_limit_RInv.
  - exact enable_group_commit_RInv.
  - exact assign_commit_groups_RInv.
  - exact restore_RInv.
  - exact become_leader_RInv.
  - exact become_follower_RInv.
Qed.

Theorem window_inv_rawnode_api :
  (forall n m n' c, rn_step n m = Ok (n', c) -> NInv n -> NInv n') /\
  (forall n n' b, rn_tick n = Ok (n', b) -> NInv n -> NInv n') /\
  (forall n n' c, rn_campaign n = Ok (n', c) -> NInv n -> NInv n') /\
  (forall n ctx data n' c, rn_propose n ctx data = Ok (n', c) -> NInv n -> NInv n') /\
  (forall n ctx data ty ci n' c,
     rn_propose_conf_change n ctx data ty ci = Ok (n', c) -> NInv n -> NInv n') /\
  (forall n cc n' o, rn_apply_conf_change n cc = Ok (n', o) -> NInv n -> NInv n') /\
  (forall n n', rn_ping n = Ok n' -> NInv n -> NInv n') /\
  (forall n n' rd, rn_ready n = Ok (n', rd) -> NInv n -> NInv n') /\
  (forall n num n', rn_on_persist_ready n num = Ok n' -> NInv n -> NInv n') /\
  (forall n rd n' lr, rn_advance_append n rd = Ok (n', lr) -> NInv n -> NInv n') /\
  (forall n rd n', rn_advance_append_async n rd = Ok n' -> NInv n -> NInv n') /\
  (forall n a n', rn_advance_apply_to n a = Ok n' -> NInv n -> NInv n') /\
  (forall n n', rn_advance_apply n = Ok n' -> NInv n -> NInv n') /\
  (forall n rd n' lr, rn_advance n rd = Ok (n', lr) -> NInv n -> NInv n') /\
  (forall n id n', rn_report_unreachable n id = Ok n' -> NInv n -> NInv n') /\
  (forall n id f n', rn_report_snapshot n id f = Ok n' -> NInv n -> NInv n') /\
  (forall n n' c, rn_request_snapshot n = Ok (n', c) -> NInv n -> NInv n') /\
  (forall n t n', rn_transfer_leader n t = Ok n' -> NInv n -> NInv n') /\
  (forall n ctx n', rn_read_index n ctx = Ok n' -> NInv n -> NInv n').
Proof.
  repeat match goal with |- _ /\ _ => split end.
  - exact rn_step_NInv.
  - exact rn_tick_NInv.
  - exact rn_campaign_NInv.
  - exact rn_propose_NInv.
  - exact rn_propose_conf_change_NInv.
  - exact rn_apply_conf_change_NInv.
  - exact rn_ping_NInv.
  - exact rn_ready_NInv.
  - exact rn_on_persist_ready_NInv.
  - exact rn_advance_append_NInv.
  - exact rn_advance_append_async_NInv.
  - exact rn_advance_apply_to_NInv.
  - exact rn_advance_apply_NInv.
  - exact rn_advance_NInv.
  - exact rn_report_unreachable_NInv.
  - exact rn_report_snapshot_NInv.
  - exact rn_request_snapshot_NInv.
  - exact rn_transfer_leader_NInv.
  - exact rn_read_index_NInv.
Qed.

(* construction: a tracker built by confchange::restore / apply_conf holds fresh windows *)
Theorem window_inv_fresh :
  (forall ids n mi, PrsInv (fresh_progress ids n mi)) /\
  (forall chs m n mi, PrsInv m -> PrsInv (apply_changes m chs n mi)) /\
  PrsInv [].
Proof.
  split; [apply fresh_progress_PrsInv|]. split; [intros; apply apply_changes_PrsInv; assumption|].
  constructor.
Qed.

(* ================================================================== *)
(* 11. A concrete leader, for the non-vacuity examples                  *)
(* ================================================================== *)

Definition ex_ent (i t : N) (data : list N) : entry := mkEntry 0 t i data [].

(* store: entries 1..3 of term 1; unstable: entry 4; committed 2 *)
Definition ex_store : MemStorage.mem :=
  mkMem (mkHS 1 1 2) (mkCS [1;2;3] [] [] [] false)
        [ex_ent 1 1 []; ex_ent 2 1 [7;7;7]; ex_ent 3 1 [8;8]] 0 0 false false None.
Definition ex_log : raft_log := mkLog ex_store (mkUn None [ex_ent 4 1 [9]] 13 4) 2 3 2 0.
Definition ex_pr (st : pstate) (m n : N) (pz : bool) (w : inflights) : progress :=
  mkPr m n st pz 0 0 true w 0 0.
Definition ex_conf : conf := mkConf [1;2;3] [] [] [] false.
Definition ex_prs : list (N * progress) :=
  [(1, ex_pr Replicate 3 5 false (Inflights.new 2));
   (2, ex_pr Replicate 1 2 false (Inflights.new 2));
   (3, ex_pr Probe 0 2 false (Inflights.new 2))].
(* leader 1 of term 1, window 2, max_uncommitted_size 10 with 4 bytes outstanding *)
Definition ex_raft (maxsz : N) (batch : bool) (msgs : list msg) : raft :=
  mkRaft 1 1 1 [] ex_log 2 maxsz 0 Leader true 1 None 0 (mkRO 0 [] []) 0 0 false false false
         batch false 1 10 10 10 20 0%Z 10 4 0 u64_max
         (mkTr ex_prs ex_conf [] 2 false) msgs [] None.
Definition ex_pr2 : progress := ex_pr Replicate 1 2 false (Inflights.new 2).
Definition ex_pr3 : progress := ex_pr Probe 0 2 false (Inflights.new 2).

Lemma ex_LogInv : LogInv ex_log.
Proof.
  split.
  - unfold MemStorageProofs.RepInv. split; [cbn; repeat split|].
    split; [apply N.ltb_lt; reflexivity|apply N.leb_le; reflexivity].
  - cbn. repeat split.
Qed.

Lemma ex_RInv : forall sz b msgs, RInv (ex_raft sz b msgs).
Proof.
  intros. unfold RInv, ex_raft, ex_prs, PrsInv. cbn [r_prs t_progress].
  repeat (apply Forall_cons; [apply IInv_new|]). apply Forall_nil.
Qed.

(* ================================================================== *)
(* 12. Advertised commit indexes: an invariant of the outbound queue     *)
(* ================================================================== *)

(* the two leader-to-follower message kinds that advertise a commit index *)
Definition commit_bearing (m : msg) : bool := (m_type m =? MsgAppend) || (m_type m =? MsgHeartbeat).

Definition msg_commit_ok (c : N) (m : msg) : Prop := commit_bearing m = true -> m_commit m <= c.

(* [CInv c r]: the commit index is at least c, and no queued MsgAppend/MsgHeartbeat
   advertises more than the node's own commit index.  The index c makes
   "the commit index never decreases" part of the same preserved statement. *)
Definition CInv (c : N) (r : raft) : Prop :=
  c <= committed (r_log r) /\ Forall (msg_commit_ok (committed (r_log r))) (r_msgs r).

Lemma msg_commit_ok_mono c c' m : c <= c' -> msg_commit_ok c m -> msg_commit_ok c' m.
Proof. unfold msg_commit_ok. intros Hc H Hb. specialize (H Hb). lia. Qed.

Lemma CInv_grow r r' c :
  committed (r_log r) <= committed (r_log r') -> r_msgs r' = r_msgs r -> CInv c r -> CInv c r'.
Proof.
  intros Hc Hm (H1 & H2). split; [lia|]. rewrite Hm.
  eapply Forall_impl; [|exact H2]. intros m. apply msg_commit_ok_mono. exact Hc.
Qed.

Lemma CInv_weaken r c c' : c' <= c -> CInv c r -> CInv c' r.
Proof. intros Hc (H1 & H2). split; [lia|exact H2]. Qed.

Lemma CInv_le r c : CInv c r -> c <= committed (r_log r).
Proof. intros (H & _). exact H. Qed.

(* --- monotonicity of the commit index in RaftLog operations --- *)
Lemma commit_to_mono l tc l' : RaftLog.commit_to l tc = Ok l' -> committed l <= committed l'.
Proof.
  unfold RaftLog.commit_to. destruct (tc <=? committed l) eqn:E; [intros H; inversion H; lia|].
  destruct (RaftLog.last_index l <? tc); [discriminate|]. intros H; inversion H; subst. cbn. lia.
Qed.

Lemma log_maybe_commit_mono l i t l' b :
  RaftLog.maybe_commit l i t = Ok (l', b) -> committed l <= committed l'.
Proof.
  unfold RaftLog.maybe_commit. destruct (committed l <? i); [|intros H; inversion H; lia].
  intros H. inv_bind H. destruct (term_ok_eq x t); [|inversion H; lia].
  inv_bind H. inversion H; subst. eapply commit_to_mono; eassumption.
Qed.

Lemma log_append_committed l ents l' li : log_append l ents = Ok (l', li) -> committed l' = committed l.
Proof.
  unfold log_append. destruct ents as [|e0 t]; [intros H; inversion H; reflexivity|].
  destruct (e_index e0 =? 0); [discriminate|].
  destruct (e_index e0 - 1 <? committed l); [discriminate|].
  intros H. inv_bind H. inversion H; subst. reflexivity.
Qed.

Lemma maybe_append_mono l i t cmt ents l' res :
  maybe_append l i t cmt ents = Ok (l', res) -> committed l <= committed l'.
Proof.
  unfold maybe_append. intros H. inv_bind H. destruct (negb x); [inversion H; lia|].
  inv_bind H. inv_bind H.
  assert (H1 : committed x1 = committed l).
  { destruct (x0 =? 0); [inversion Hx1; reflexivity|].
    destruct (x0 <=? committed l); [discriminate|].
    destruct (i =? u64_max); [discriminate|].
    destruct (x0 <? i + 1); [discriminate|].
    match type of Hx1 with (if ?c then _ else _) = _ => destruct c end; [discriminate|].
    inv_bind Hx1. destruct x2 as [la lia']. cbn [fst] in Hx1. inversion Hx1; subst.
    pose proof (log_append_committed _ _ _ _ Hx2) as E.
    match goal with |- committed (if ?c then _ else _) = _ => destruct c end; cbn; exact E. }
  match type of H with (if ?c then _ else _) = _ => destruct c end; [discriminate|].
  inv_bind H. inversion H; subst. apply commit_to_mono in Hx2. lia.
Qed.

Lemma log_restore_mono l s l' : log_restore l s = Ok l' -> committed l <= committed l'.
Proof.
  unfold log_restore. destruct (s_index s <? committed l) eqn:E; [discriminate|].
  intros H; inversion H; subst. cbn. lia.
Qed.

Lemma maybe_persist_committed l i t l' b : maybe_persist l i t = Ok (l', b) -> committed l' = committed l.
Proof.
  unfold maybe_persist. intros H.
  match type of H with (if ?c then _ else _) = _ => destruct c end; [|inversion H; reflexivity].
  inv_bind H. destruct (term_ok_eq x t); inversion H; reflexivity.
Qed.

Lemma maybe_persist_snap_committed l i l' b :
  maybe_persist_snap l i = Ok (l', b) -> committed l' = committed l.
Proof.
  unfold maybe_persist_snap. intros H.
  destruct (persisted l <? i); [|inversion H; reflexivity].
  destruct (committed l <? i); [discriminate|].
  destruct (u_offset (unst l) <=? i); [discriminate|]. inversion H; reflexivity.
Qed.

Lemma applied_to_committed l i l' : applied_to l i = Ok l' -> committed l' = committed l.
Proof.
  unfold applied_to. destruct (i =? 0); [intros H; inversion H; reflexivity|].
  match goal with |- (if ?c then _ else _) = _ -> _ => destruct c end; [discriminate|].
  intros H; inversion H; reflexivity.
Qed.

Lemma stable_entries_committed l i t l' : stable_entries l i t = Ok l' -> committed l' = committed l.
Proof. unfold stable_entries. intros H. inv_bind H. inversion H; reflexivity. Qed.

Lemma stable_snap_committed l i l' : stable_snap l i = Ok l' -> committed l' = committed l.
Proof. unfold stable_snap. intros H. inv_bind H. inversion H; reflexivity. Qed.

(* collect the facts above for every log operation in the context *)
Ltac mono_facts :=
  repeat match goal with
  | H : RaftLog.commit_to _ _ = Ok _ |- _ => apply commit_to_mono in H
  | H : RaftLog.maybe_commit _ _ _ = Ok (_, _) |- _ => apply log_maybe_commit_mono in H
  | H : log_append _ _ = Ok (_, _) |- _ => apply log_append_committed in H
  | H : maybe_append _ _ _ _ _ = Ok (_, _) |- _ => apply maybe_append_mono in H
  | H : log_restore _ _ = Ok _ |- _ => apply log_restore_mono in H
  | H : maybe_persist _ _ _ = Ok (_, _) |- _ => apply maybe_persist_committed in H
  | H : maybe_persist_snap _ _ = Ok (_, _) |- _ => apply maybe_persist_snap_committed in H
  | H : applied_to _ _ = Ok _ |- _ => apply applied_to_committed in H
  | H : stable_entries _ _ _ = Ok _ |- _ => apply stable_entries_committed in H
  | H : stable_snap _ _ = Ok _ |- _ => apply stable_snap_committed in H
  end.

Create HintDb cinv.

Ltac cinv_frame :=
  match goal with
  | H : CInv ?c ?r |- CInv ?c _ =>
      solve [apply (CInv_grow r); [cbn; first [apply N.le_refl | lia]|reflexivity|exact H]]
  end.
#[export] Hint Extern 6 (CInv _ _) => cinv_frame : cinv.

Ltac cinv := eauto 10 with cinv nocore.

(* --- send --- *)
Lemma send_shape r m r' :
  send r m = Ok r' ->
  exists m', r' = r <| r_msgs := r_msgs r ++ [m'] |> /\ m_type m' = m_type m /\ m_commit m' = m_commit m.
Proof.
  unfold send. intros H. inv_bind H. inversion H; subst. eexists. split; [reflexivity|].
  assert (Hx1 : m_type x = m_type m /\ m_commit x = m_commit m).
  { clear H. destruct (is_vote_type _).
    - destruct (m_term _ =? 0); inversion Hx; subst.
      destruct (m_from m =? INVALID_ID); cbn; auto.
    - destruct (negb _); [discriminate|].
      destruct (_ && _); inversion Hx; subst; destruct (m_from m =? INVALID_ID); cbn; auto. }
  destruct Hx1 as (A & B).
  destruct ((m_type x =? MsgRequestVote) || (m_type x =? MsgRequestPreVote));
    [destruct (0 <? r_priority r)%Z|]; cbn; auto.
Qed.

Lemma CInv_snoc r c m :
  msg_commit_ok (committed (r_log r)) m -> CInv c r -> CInv c (r <| r_msgs := r_msgs r ++ [m] |>).
Proof.
  intros Hm (H1 & H2). split; [exact H1|]. cbn. apply Forall_app. split; [exact H2|].
  constructor; [exact Hm|constructor].
Qed.

Lemma send_CInv r m r' c :
  send r m = Ok r' -> msg_commit_ok (committed (r_log r)) m -> CInv c r -> CInv c r'.
Proof.
  intros H Hm HI. destruct (send_shape _ _ _ H) as (m' & -> & Ht & Hc).
  apply CInv_snoc; [|exact HI]. unfold msg_commit_ok, commit_bearing in *. rewrite Ht, Hc. exact Hm.
Qed.
#[export] Hint Resolve send_CInv : cinv.

(* side conditions: a literal message *)
Ltac mco :=
  unfold msg_commit_ok, commit_bearing; cbn;
  first [discriminate | intros _; lia | intros _; apply N.le_refl].
#[export] Hint Extern 2 (msg_commit_ok _ _) => solve [mco] : cinv.

Lemma not_bearing_ok c m : commit_bearing m = false -> msg_commit_ok c m.
Proof. unfold msg_commit_ok. intros ->. discriminate. Qed.

(* --- maybe_send_append and friends --- *)
Lemma maybe_send_append_CInv r to pr ae r' pr' b c :
  maybe_send_append r to pr ae = Ok (r', pr', b) -> CInv c r -> CInv c r'.
Proof.
  intros H HI.
  destruct (maybe_send_append_cases _ _ _ _ _ _ _ H) as [(_ & -> & _)|(_ & _ & C)]; [exact HI|].
  destruct C as [(_ & s & _ & _ & -> & _)|[(_ & _ & t & ents & _ & _ & _ & -> & _)|
                 (_ & _ & _ & t & ents & msgs' & _ & _ & _ & Hb & ->)]].
  - apply CInv_snoc; [mco|exact HI].
  - apply CInv_snoc; [mco|exact HI].
  - destruct (try_batching_true _ _ _ _ _ _ _ Hb) as (pre & m & post & A & _ & _ & _ & F & _).
    destruct HI as (H1 & H2). split; [exact H1|]. cbn. rewrite F. rewrite A in H2.
    apply Forall_app in H2. destruct H2 as [Hp Hq]. inversion Hq; subst.
    apply Forall_app. split; [exact Hp|]. constructor; [|assumption].
    unfold msg_commit_ok. cbn. intros _. apply N.le_refl.
Qed.
#[export] Hint Resolve maybe_send_append_CInv : cinv.

Lemma send_append_to_CInv r to r' c : send_append_to r to = Ok r' -> CInv c r -> CInv c r'.
Proof. unfold send_append_to. intros H HI. crush H. assert (CInv c r0) by cinv. cinv. Qed.
#[export] Hint Resolve send_append_to_CInv : cinv.

Lemma send_append_aggressively_loop_CInv fuel c : forall r to pr r' pr',
  send_append_aggressively_loop fuel r to pr = Ok (r', pr') -> CInv c r -> CInv c r'.
Proof.
  induction fuel as [|f IH]; intros r to pr r' pr' H HI; cbn [send_append_aggressively_loop] in H;
    [discriminate|].
  inv_bind H. destruct x as [[r1 pr1] b]. assert (CInv c r1) by cinv. destruct b.
  - eapply IH; eassumption.
  - inversion H; subst. assumption.
Qed.

Lemma send_append_aggressively_CInv r to r' c :
  send_append_aggressively r to = Ok r' -> CInv c r -> CInv c r'.
Proof.
  unfold send_append_aggressively. intros H HI.
  destruct (get_pr r to) as [pr|] eqn:E; [|discriminate].
  inv_bind H. destruct x as [r1 pr1]. inversion H; subst.
  assert (CInv c r1) by (eapply send_append_aggressively_loop_CInv; eassumption). cinv.
Qed.
#[export] Hint Resolve send_append_aggressively_CInv : cinv.

Lemma send_heartbeat_CInv r to pr ctx r' c : send_heartbeat r to pr ctx = Ok r' -> CInv c r -> CInv c r'.
Proof.
  intros H HI. rewrite send_heartbeat_exact in H. inversion H; subst.
  apply CInv_snoc; [|exact HI]. unfold msg_commit_ok. intros _. destruct ctx; cbn; lia.
Qed.
#[export] Hint Resolve send_heartbeat_CInv : cinv.

Lemma for_each_peer_CInv (f : raft -> N -> Res raft) c :
  (forall r id r', f r id = Ok r' -> CInv c r -> CInv c r') ->
  forall ids self r r', for_each_peer ids self f r = Ok r' -> CInv c r -> CInv c r'.
Proof.
  intros Hf ids self. induction ids as [|id rest IH]; intros r r' H HI; cbn [for_each_peer] in H.
  - inversion H; subst. exact HI.
  - destruct (id =? self); [eapply IH; eassumption|].
    inv_bind H. eapply IH; [exact H|]. eapply Hf; eassumption.
Qed.

Lemma bcast_append_CInv r r' c : bcast_append r = Ok r' -> CInv c r -> CInv c r'.
Proof. unfold bcast_append. apply for_each_peer_CInv. intros; cinv. Qed.
#[export] Hint Resolve bcast_append_CInv : cinv.

Lemma bcast_heartbeat_with_ctx_CInv r ctx r' c :
  bcast_heartbeat_with_ctx r ctx = Ok r' -> CInv c r -> CInv c r'.
Proof.
  unfold bcast_heartbeat_with_ctx. apply for_each_peer_CInv.
  intros r0 id r1 H HI. cbv beta in H. destruct (get_pr r0 id); [cinv|discriminate].
Qed.
#[export] Hint Resolve bcast_heartbeat_with_ctx_CInv : cinv.

Lemma bcast_heartbeat_CInv r r' c : bcast_heartbeat r = Ok r' -> CInv c r -> CInv c r'.
Proof. unfold bcast_heartbeat. cinv. Qed.
#[export] Hint Resolve bcast_heartbeat_CInv : cinv.

Lemma maybe_commit_CInv r r' b c : maybe_commit r = Ok (r', b) -> CInv c r -> CInv c r'.
Proof.
  unfold maybe_commit. intros H HI. inv_bind H. destruct x as [l' b0].
  assert (H1 : CInv c (r <| r_log := l' |>)) by (mono_facts; cinv).
  crush H; cinv.
Qed.
#[export] Hint Resolve maybe_commit_CInv : cinv.

Lemma maybe_increase_uncommitted_size_CInv r ents r' ok c :
  maybe_increase_uncommitted_size r ents = (r', ok) -> CInv c r -> CInv c r'.
Proof.
  intros H HI. destruct (uncommitted_effect _ _ _ _ H) as (A & B).
  destruct ok; [destruct (B eq_refl) as [(_ & ->)|(_ & ->)]; cinv|rewrite (A eq_refl); exact HI].
Qed.
#[export] Hint Resolve maybe_increase_uncommitted_size_CInv : cinv.

Lemma reduce_uncommitted_size_CInv r ents c : CInv c r -> CInv c (reduce_uncommitted_size r ents).
Proof.
  intros HI. destruct (reduce_uncommitted_spec r ents) as (_ & _ & _ & [E|E] & _); rewrite E; cinv.
Qed.
#[export] Hint Resolve reduce_uncommitted_size_CInv : cinv.

Lemma append_entry_CInv r es r' b c : append_entry r es = Ok (r', b) -> CInv c r -> CInv c r'.
Proof.
  unfold append_entry. intros H HI.
  destruct (maybe_increase_uncommitted_size r es) as [r1 ok] eqn:E.
  assert (CInv c r1) by cinv. destruct (negb ok); [inversion H; subst; assumption|].
  inv_bind H. destruct x as [l' li]. inversion H; subst. cbn [fst]. mono_facts.
  apply (CInv_grow r1); [cbn; lia|reflexivity|assumption].
Qed.
#[export] Hint Resolve append_entry_CInv : cinv.

Lemma reset_CInv r t r' c : reset r t = Ok r' -> CInv c r -> CInv c r'.
Proof.
  unfold reset. intros H HI.
  set (r0 := if negb (r_term r =? t) then r <| r_term := t |> <| r_vote := INVALID_ID |> else r) in H.
  assert (H0 : CInv c r0) by (subst r0; destruct (negb (r_term r =? t)); cinv).
  clearbody r0. destruct (r_draws r0) as [|d ds]; [discriminate|]. inversion H; subst. clear H.
  cinv.
Qed.
#[export] Hint Resolve reset_CInv : cinv.

Lemma become_follower_CInv r t l r' c : become_follower r t l = Ok r' -> CInv c r -> CInv c r'.
Proof. unfold become_follower. intros H HI. crush H. assert (CInv c x) by cinv. cinv. Qed.
#[export] Hint Resolve become_follower_CInv : cinv.

Lemma become_candidate_CInv r r' c : become_candidate r = Ok r' -> CInv c r -> CInv c r'.
Proof. unfold become_candidate. intros H HI. crush H. assert (CInv c x) by cinv. cinv. Qed.
#[export] Hint Resolve become_candidate_CInv : cinv.

Lemma become_pre_candidate_CInv r r' c : become_pre_candidate r = Ok r' -> CInv c r -> CInv c r'.
Proof. unfold become_pre_candidate. intros H HI. crush H. cinv. Qed.
#[export] Hint Resolve become_pre_candidate_CInv : cinv.

Lemma become_leader_CInv r r' c : become_leader r = Ok r' -> CInv c r -> CInv c r'.
Proof.
  unfold become_leader. intros H HI.
  destruct (role_eqb (r_state r) Follower); [discriminate|].
  inv_bind H. assert (Hx0 : CInv c x) by cinv.
  match type of H with (match ?g with _ => _ end) = _ => destruct g as [pr|] eqn:Eg end; [|discriminate].
  inv_bind H. destruct x0 as [r6 ok]. destruct ok; [|discriminate]. inversion H; subst.
  eapply append_entry_CInv; [exact Hx1|]. cinv.
Qed.
#[export] Hint Resolve become_leader_CInv : cinv.

Lemma poll_gen_CInv rc r from v r' res c :
  (forall r r', rc r = Ok r' -> CInv c r -> CInv c r') ->
  poll_gen rc r from v = Ok (r', res) -> CInv c r -> CInv c r'.
Proof.
  unfold poll_gen. intros Hrc H HI.
  set (r0 := r <| r_prs := (r_prs r) <| t_votes := _ |> |>) in H.
  assert (H0 : CInv c r0) by (subst r0; cinv). clearbody r0.
  crush H; cinv.
Qed.

Definition plain_type (t : N) : Prop := (t =? MsgAppend) || (t =? MsgHeartbeat) = false.

Lemma send_vote_requests_CInv ids c : forall r vm t cm ct tr r',
  plain_type vm ->
  send_vote_requests ids r vm t cm ct tr = Ok r' -> CInv c r -> CInv c r'.
Proof.
  induction ids as [|id rest IH]; intros r vm t cm ct tr r' Hvm H HI; cbn [send_vote_requests] in H.
  - inversion H; subst; exact HI.
  - destruct (id =? r_id r); [eapply IH; eassumption|].
    inv_bind H. inv_bind H. eapply IH; [exact Hvm|exact H|].
    eapply send_CInv; [exact Hx0| |exact HI].
    apply not_bearing_ok. unfold commit_bearing. destruct tr; exact Hvm.
Qed.

Lemma campaign_real_CInv tr r r' c : campaign_real tr r = Ok r' -> CInv c r -> CInv c r'.
Proof.
  unfold campaign_real. intros H HI. inv_bind H. inv_bind H. destruct x0 as [r2 res].
  assert (CInv c r2).
  { eapply poll_gen_CInv; [|exact Hx0|cinv]. intros; discriminate. }
  destruct res; try (inversion H; subst; assumption);
    inv_bind H; (eapply send_vote_requests_CInv; [|exact H|assumption]; reflexivity).
Qed.
#[export] Hint Resolve campaign_real_CInv : cinv.

Lemma poll_CInv r from v r' res c : poll r from v = Ok (r', res) -> CInv c r -> CInv c r'.
Proof. unfold poll. apply poll_gen_CInv. intros; cinv. Qed.
#[export] Hint Resolve poll_CInv : cinv.

Lemma campaign_pre_CInv r r' c : campaign_pre r = Ok r' -> CInv c r -> CInv c r'.
Proof.
  unfold campaign_pre. intros H HI. inv_bind H. inv_bind H. destruct x0 as [r2 res].
  assert (CInv c r2) by cinv.
  destruct res; try (inversion H; subst; assumption);
    inv_bind H; (eapply send_vote_requests_CInv; [|exact H|assumption]; reflexivity).
Qed.
#[export] Hint Resolve campaign_pre_CInv : cinv.

Lemma hup_CInv r tl r' c : hup r tl = Ok r' -> CInv c r -> CInv c r'.
Proof. unfold hup. intros H HI. crush H; cinv. Qed.
#[export] Hint Resolve hup_CInv : cinv.

Lemma maybe_commit_by_vote_CInv r m r' c : maybe_commit_by_vote r m = Ok r' -> CInv c r -> CInv c r'.
Proof.
  unfold maybe_commit_by_vote. intros H HI.
  destruct ((m_commit m =? 0) || (m_commit_term m =? 0)); [inversion H; subst; exact HI|].
  destruct ((m_commit m <=? committed (r_log r)) || is_leader r); [inversion H; subst; exact HI|].
  inv_bind H. destruct x as [l' b].
  assert (H1 : CInv c (r <| r_log := l' |>)) by (mono_facts; cinv).
  crush H; cinv.
Qed.
#[export] Hint Resolve maybe_commit_by_vote_CInv : cinv.

Lemma handle_ready_read_index_CInv r req i r' om c :
  handle_ready_read_index r req i = Ok (r', om) -> CInv c r ->
  CInv c r' /\ (forall mm, om = Some mm -> commit_bearing mm = false).
Proof.
  unfold handle_ready_read_index. intros H HI.
  match type of H with (if ?c then _ else _) = _ => destruct c end.
  - inv_bind H. inversion H; subst. split; [cinv|discriminate].
  - inversion H; subst. split; [exact HI|]. intros mm E. inversion E; subst. reflexivity.
Qed.

Lemma respond_reads_CInv rss c : forall r r', respond_reads r rss = Ok r' -> CInv c r -> CInv c r'.
Proof.
  induction rss as [|rs rest IH]; intros r r' H HI; cbn [respond_reads] in H.
  - inversion H; subst; exact HI.
  - inv_bind H. destruct x as [r1 om]. inv_bind H. eapply IH; [exact H|].
    destruct (handle_ready_read_index_CInv _ _ _ _ _ _ Hx HI) as [A B].
    destruct om as [mm|]; [|inversion Hx0; subst; assumption].
    eapply send_CInv; [exact Hx0|apply not_bearing_ok; apply B; reflexivity|exact A].
Qed.
#[export] Hint Resolve respond_reads_CInv : cinv.

Lemma send_timeout_now_CInv r to r' c : send_timeout_now r to = Ok r' -> CInv c r -> CInv c r'.
Proof. unfold send_timeout_now. intros H HI. eapply send_CInv; [exact H|mco|exact HI]. Qed.
#[export] Hint Resolve send_timeout_now_CInv : cinv.

Lemma send_request_snapshot_CInv r r' c : send_request_snapshot r = Ok r' -> CInv c r -> CInv c r'.
Proof. unfold send_request_snapshot. intros H HI. crush H; cinv. Qed.
#[export] Hint Resolve send_request_snapshot_CInv : cinv.

Lemma handle_append_entries_CInv r m r' c : handle_append_entries r m = Ok r' -> CInv c r -> CInv c r'.
Proof.
  unfold handle_append_entries. intros H HI.
  destruct (negb (r_pending_request_snapshot r =? INVALID_INDEX)); [cinv|].
  destruct (m_index m <? committed (r_log r)); [cinv|].
  inv_bind H. destruct x as [l' res].
  assert (H1 : CInv c (r <| r_log := l' |>)) by (mono_facts; cinv).
  crush H; cinv.
Qed.
#[export] Hint Resolve handle_append_entries_CInv : cinv.

Lemma handle_heartbeat_CInv r m r' c : handle_heartbeat r m = Ok r' -> CInv c r -> CInv c r'.
Proof.
  unfold handle_heartbeat. intros H HI. inv_bind H.
  assert (H1 : CInv c (r <| r_log := x |>)) by (mono_facts; cinv).
  crush H; cinv.
Qed.
#[export] Hint Resolve handle_heartbeat_CInv : cinv.

Lemma post_conf_change_CInv r r' cs c : post_conf_change r = Ok (r', cs) -> CInv c r -> CInv c r'.
Proof.
  unfold post_conf_change. intros H HI.
  set (r0 := r <| r_promotable := _ |>) in H.
  assert (H0 : CInv c r0) by (subst r0; cinv). clearbody r0.
  match type of H with (if ?c then _ else _) = _ => destruct c end; [inversion H; subst; exact H0|].
  match type of H with (if ?c then _ else _) = _ => destruct c end; [inversion H; subst; exact H0|].
  inv_bind H. destruct x as [r1 b]. assert (H1 : CInv c r1) by cinv.
  inv_bind H. assert (H2 : CInv c x).
  { destruct b; [cinv|]. eapply for_each_peer_CInv; [|exact Hx0|exact H1].
    intros ra id rb Hf Ha. cbv beta in Hf. destruct (get_pr ra id) as [pr|] eqn:Eg; [|discriminate].
    inv_bind Hf. destruct x0 as [[rc prc] bc]. inversion Hf; subst.
    assert (CInv c rc) by cinv. cinv. }
  inv_bind H. assert (H3 : CInv c x0).
  { destruct (ro_last_pending_request_ctx (r_read_only x)) as [ctx|]; [|inversion Hx1; subst; exact H2].
    destruct (ro_recv_ack (r_read_only x) (r_id x) ctx) as [ro' acks].
    assert (CInv c (x <| r_read_only := ro' |>)) by cinv.
    destruct acks as [a|]; [|inversion Hx1; subst; assumption].
    match type of Hx1 with (if ?c then _ else _) = _ => destruct c end;
      [|inversion Hx1; subst; assumption].
    inv_bind Hx1. destruct x1 as [ro2 rss].
    eapply respond_reads_CInv; [exact Hx1|]. cinv. }
  inversion H; subst.
  destruct (r_lead_transferee x0); [|exact H3].
  match goal with |- CInv _ (if ?c then _ else _) => destruct c end; cinv.
Qed.
#[export] Hint Resolve post_conf_change_CInv : cinv.

Lemma restore_CInv r s r' b c : restore r s = Ok (r', b) -> CInv c r -> CInv c r'.
Proof.
  unfold restore. intros H HI.
  destruct (s_index s <? committed (r_log r)); [inversion H; subst; exact HI|].
  destruct (negb (role_eqb (r_state r) Follower)).
  { inv_bind H. inversion H; subst. cinv. }
  match type of H with (if ?c then _ else _) = _ => destruct c end; [inversion H; subst; exact HI|].
  inv_bind H.
  match type of H with (if ?c then _ else _) = _ => destruct c end.
  { inv_bind H. inversion H; subst. mono_facts. cinv. }
  inv_bind H.
  destruct (ConfChange.restore empty_tracker (s_cs s)) as [[c' ids']|e]; [|discriminate].
  inv_bind H. destruct x1 as [r1 new_cs].
  assert (H1 : CInv c r1).
  { eapply post_conf_change_CInv; [exact Hx1|]. mono_facts.
    apply (CInv_grow r); [cbn; lia|reflexivity|exact HI]. }
  match type of H with (if ?c then _ else _) = _ => destruct c end; [discriminate|].
  destruct (get_pr r1 (r_id r1)) as [pr|] eqn:Eg; [|discriminate].
  destruct (next_idx pr =? 0); [discriminate|]. inversion H; subst. cinv.
Qed.
#[export] Hint Resolve restore_CInv : cinv.

Lemma handle_snapshot_CInv r m r' c : handle_snapshot r m = Ok r' -> CInv c r -> CInv c r'.
Proof.
  unfold handle_snapshot. intros H HI. inv_bind H. destruct x as [r1 ok].
  assert (CInv c r1) by cinv. destruct ok; cinv.
Qed.
#[export] Hint Resolve handle_snapshot_CInv : cinv.

Lemma handle_append_response_CInv r m r' c :
  handle_append_response r m = Ok r' -> CInv c r -> CInv c r'.
Proof.
  unfold handle_append_response. intros H HI. inv_bind H.
  destruct (get_pr r (m_from m)) as [pr0|] eqn:Eg; [|inversion H; subst; exact HI].
  set (pr := update_committed (set_recent_active pr0 true) (m_commit m)) in H. clearbody pr.
  destruct (m_reject m).
  - destruct (maybe_decr_to pr (m_index m) x (m_request_snapshot m)) as [pr1 dec] eqn:Ed.
    destruct dec; [|inversion H; subst; cinv].
    eapply send_append_to_CInv; [exact H|]. cinv.
  - destruct (maybe_update pr (m_index m)) as [pr1 upd] eqn:Eu.
    destruct (negb upd); [inversion H; subst; cinv|].
    inv_bind H. inv_bind H. destruct x1 as [r1 cmt].
    assert (H1 : CInv c r1) by (eapply maybe_commit_CInv; [exact Hx1|cinv]).
    inv_bind H. assert (H2 : CInv c x1).
    { destruct cmt; [destruct (should_bcast_commit r1); [cinv|inversion Hx2; subst; exact H1]|].
      destruct (is_paused pr); [cinv|inversion Hx2; subst; exact H1]. }
    inv_bind H. assert (H3 : CInv c x2) by cinv.
    crush H; cinv.
Qed.
#[export] Hint Resolve handle_append_response_CInv : cinv.

Lemma handle_heartbeat_response_CInv r m r' c :
  handle_heartbeat_response r m = Ok r' -> CInv c r -> CInv c r'.
Proof.
  unfold handle_heartbeat_response. intros H HI.
  destruct (get_pr r (m_from m)) as [pr0|] eqn:Eg; [|inversion H; subst; exact HI].
  set (pr := resume (set_recent_active (update_committed pr0 (m_commit m)) true)) in H. clearbody pr.
  inv_bind H. inv_bind H. assert (H1 : CInv c x0).
  { match type of Hx0 with (if ?c then _ else _) = _ => destruct c end;
      [|inversion Hx0; subst; cinv].
    inv_bind Hx0. destruct x1 as [[ra pra] ba]. inversion Hx0; subst.
    assert (CInv c ra) by cinv. cinv. }
  match type of H with (if ?c then _ else _) = _ => destruct c end; [inversion H; subst; exact H1|].
  destruct (ro_recv_ack (r_read_only x0) (m_from m) (m_context m)) as [ro' acks].
  assert (CInv c (x0 <| r_read_only := ro' |>)) by cinv.
  destruct acks as [a|]; [|inversion H; subst; assumption].
  match type of H with (if ?c then _ else _) = _ => destruct c end; [|inversion H; subst; assumption].
  inv_bind H. destruct x1 as [ro2 rss]. eapply respond_reads_CInv; [exact H|]. cinv.
Qed.
#[export] Hint Resolve handle_heartbeat_response_CInv : cinv.

Lemma handle_transfer_leader_CInv r m r' c :
  handle_transfer_leader r m = Ok r' -> CInv c r -> CInv c r'.
Proof.
  unfold handle_transfer_leader. intros H HI.
  destruct (get_pr r (m_from m)) as [p0|]; [|inversion H; subst; exact HI].
  destruct (IdSet.mem (m_from m) (learners (conf_of r))); [inversion H; subst; exact HI|].
  assert (Hcont : forall ra, CInv c ra ->
    (if m_from m =? r_id ra then Ok ra else
       let rb := ra <| r_election_elapsed := 0 |> <| r_lead_transferee := Some (m_from m) |> in
       match get_pr rb (m_from m) with
       | None => Panic site_pr_unwrap
       | Some pr =>
           if matched pr =? RaftLog.last_index (r_log rb) then send_timeout_now rb (m_from m)
           else y <- maybe_send_append rb (m_from m) pr true ;;
                let '(r', pr', _) := y in Ok (put_pr r' (m_from m) pr')
       end) = Ok r' -> CInv c r').
  { intros ra Ha Hc. destruct (m_from m =? r_id ra); [inversion Hc; subst; exact Ha|].
    cbv zeta in Hc.
    set (rb := ra <| r_election_elapsed := 0 |> <| r_lead_transferee := Some (m_from m) |>) in Hc.
    assert (Hb : CInv c rb) by (subst rb; cinv). clearbody rb.
    destruct (get_pr rb (m_from m)) as [pr|] eqn:Eg; [|discriminate].
    destruct (matched pr =? RaftLog.last_index (r_log rb)); [cinv|].
    inv_bind Hc. destruct x as [[rc prc] bc]. inversion Hc; subst.
    assert (CInv c rc) by cinv. cinv. }
  destruct (r_lead_transferee r) as [last|].
  - destruct (last =? m_from m); [inversion H; subst; exact HI|].
    apply (Hcont (r <| r_lead_transferee := None |>)); [cinv|exact H].
  - apply (Hcont r HI H).
Qed.
#[export] Hint Resolve handle_transfer_leader_CInv : cinv.

Lemma handle_snapshot_status_CInv r m r' c :
  handle_snapshot_status r m = Ok r' -> CInv c r -> CInv c r'.
Proof.
  unfold handle_snapshot_status. intros H HI.
  destruct (get_pr r (m_from m)) as [pr|] eqn:Eg; [|inversion H; subst; exact HI].
  destruct (negb (pstate_eqb (pr_state pr) Snapshot)); [inversion H; subst; exact HI|].
  inversion H; subst. cinv.
Qed.
#[export] Hint Resolve handle_snapshot_status_CInv : cinv.

Lemma handle_unreachable_CInv r m r' c : handle_unreachable r m = Ok r' -> CInv c r -> CInv c r'.
Proof.
  unfold handle_unreachable. intros H HI.
  destruct (get_pr r (m_from m)) as [pr|] eqn:Eg; [|inversion H; subst; exact HI].
  inversion H; subst. destruct (pstate_eqb (pr_state pr) Replicate); cinv.
Qed.
#[export] Hint Resolve handle_unreachable_CInv : cinv.

Lemma filter_conf_changes_CInv r ents info i r' ents' ok c :
  filter_conf_changes r ents info i = (r', ents', ok) -> CInv c r -> CInv c r'.
Proof.
  intros H HI. destruct (filter_conf_changes_state _ _ _ _ _ _ _ H) as [->|(j & ->)]; cinv.
Qed.
#[export] Hint Resolve filter_conf_changes_CInv : cinv.

Lemma step_leader_CInv r m r' c0 c : step_leader r m = Ok (r', c0) -> CInv c r -> CInv c r'.
Proof.
  unfold step_leader. intros H HI.
  destruct (m_type m =? MsgBeat). { crush H; cinv. }
  destruct (m_type m =? MsgCheckQuorum).
  { destruct (quorum_recently_active (r_prs r) (r_id r)) as [prs' active] eqn:Eq.
    assert (H1 : CInv c (r <| r_prs := prs' |>)) by cinv.
    crush H; cinv. }
  destruct (m_type m =? MsgPropose).
  { destruct (m_entries m); [discriminate|].
    destruct (get_pr r (r_id r)); [|inversion H; subst; exact HI].
    destruct (r_lead_transferee r); [inversion H; subst; exact HI|].
    match type of H with context [filter_conf_changes ?a ?b ?c ?d] =>
      destruct (filter_conf_changes a b c d) as [[r1 ents] ok] eqn:Ef end.
    assert (H1 : CInv c r1) by cinv.
    crush H; cinv. }
  destruct (m_type m =? MsgReadIndex).
  { inv_bind H. destruct (negb x); [inversion H; subst; exact HI|].
    assert (Hans : forall ra c1,
      (x <- handle_ready_read_index r m (committed (r_log r)) ;;
       (let '(r1, om) := x in
        r2 <- match om with Some mm => send r1 mm | None => Ok r1 end ;; Ok (r2, E_OK))) = Ok (ra, c1) ->
      CInv c ra).
    { intros ra c1 Ha. inv_bind Ha. destruct x0 as [r1 om].
      destruct (handle_ready_read_index_CInv _ _ _ _ _ _ Hx0 HI) as [A B].
      inv_bind Ha. inversion Ha; subst. destruct om as [mm|]; [|inversion Hx1; subst; assumption].
      eapply send_CInv; [exact Hx1|apply not_bearing_ok; apply B; reflexivity|exact A]. }
    match type of H with (if ?c then _ else _) = _ => destruct c end; [eapply Hans; exact H|].
    match type of H with (if ?c then _ else _) = _ => destruct c end; [|eapply Hans; exact H].
    inv_bind H. inv_bind H. inv_bind H. inversion H; subst.
    eapply bcast_heartbeat_with_ctx_CInv; [exact Hx2|]. cinv. }
  crush H; cinv.
Qed.
#[export] Hint Resolve step_leader_CInv : cinv.

Lemma step_candidate_CInv r m r' c0 c : step_candidate r m = Ok (r', c0) -> CInv c r -> CInv c r'.
Proof.
  unfold step_candidate. intros H HI.
  destruct (m_type m =? MsgPropose); [inversion H; subst; exact HI|].
  match type of H with (if ?c then _ else _) = _ => destruct c end.
  { destruct (negb (r_term r =? m_term m)); [discriminate|].
    inv_bind H. assert (CInv c x) by cinv. inv_bind H. inversion H; subst.
    destruct (m_type m =? MsgAppend); [cinv|]. destruct (m_type m =? MsgHeartbeat); cinv. }
  match type of H with (if ?c then _ else _) = _ => destruct c end; [|inversion H; subst; exact HI].
  match type of H with (if ?c then _ else _) = _ => destruct c end; [inversion H; subst; exact HI|].
  inv_bind H. destruct x as [r1 res]. cbn [fst] in H. inv_bind H. inversion H; subst.
  assert (CInv c r1) by cinv. cinv.
Qed.
#[export] Hint Resolve step_candidate_CInv : cinv.

(* a forwarded message keeps its type *)
Lemma forward_ok c m to k :
  (m_type m =? k) = true -> plain_type k -> msg_commit_ok c (m <| m_to := to |>).
Proof.
  intros E Hk. apply N.eqb_eq in E. apply not_bearing_ok. unfold commit_bearing.
  change (m_type (m <| m_to := to |>)) with (m_type m). rewrite E. exact Hk.
Qed.

Lemma step_follower_CInv r m r' c0 c : step_follower r m = Ok (r', c0) -> CInv c r -> CInv c r'.
Proof.
  unfold step_follower. intros H HI.
  assert (Hf : CInv c (r <| r_election_elapsed := 0 |> <| r_leader_id := m_from m |>)) by cinv.
  destruct (m_type m =? MsgPropose) eqn:E1.
  { destruct (r_leader_id r =? INVALID_ID); [inversion H; subst; exact HI|].
    destruct (r_disable_proposal_forwarding r); [inversion H; subst; exact HI|].
    inv_bind H. inversion H; subst.
    eapply send_CInv; [exact Hx|eapply forward_ok; [exact E1|reflexivity]|exact HI]. }
  destruct (m_type m =? MsgAppend). { crush H; cinv. }
  destruct (m_type m =? MsgHeartbeat). { crush H; cinv. }
  destruct (m_type m =? MsgSnapshot). { crush H; cinv. }
  destruct (m_type m =? MsgTransferLeader) eqn:E5.
  { destruct (r_leader_id r =? INVALID_ID); [inversion H; subst; exact HI|].
    inv_bind H. inversion H; subst.
    eapply send_CInv; [exact Hx|eapply forward_ok; [exact E5|reflexivity]|exact HI]. }
  destruct (m_type m =? MsgTimeoutNow). { crush H; cinv. }
  destruct (m_type m =? MsgReadIndex) eqn:E7.
  { destruct (r_leader_id r =? INVALID_ID); [inversion H; subst; exact HI|].
    inv_bind H. inversion H; subst.
    eapply send_CInv; [exact Hx|eapply forward_ok; [exact E7|reflexivity]|exact HI]. }
  destruct (m_type m =? MsgReadIndexResp); [|inversion H; subst; exact HI].
  destruct (m_entries m) as [|e [|e2 t]]; try (inversion H; subst; exact HI).
  inv_bind H. destruct x as [l' b]. inversion H; subst. cbn [fst]. mono_facts. cbn in Hx.
  apply (CInv_grow r); [cbn; lia|reflexivity|exact HI].
Qed.
#[export] Hint Resolve step_follower_CInv : cinv.

Lemma vote_resp_msg_type_plain t rt : vote_resp_msg_type t = Ok rt -> plain_type rt.
Proof.
  unfold vote_resp_msg_type. destruct (t =? MsgRequestVote); [intros H; inversion H; reflexivity|].
  destruct (t =? MsgRequestPreVote); [intros H; inversion H; reflexivity|discriminate].
Qed.

Lemma new_message_ok c to ty from (f : msg -> msg) :
  (forall x, m_type (f x) = m_type x) -> plain_type ty -> msg_commit_ok c (f (new_message to ty from)).
Proof.
  intros Hf Hty. apply not_bearing_ok. unfold commit_bearing. rewrite Hf. exact Hty.
Qed.

Theorem step_CInv r m r' c0 c : step r m = Ok (r', c0) -> CInv c r -> CInv c r'.
Proof.
  unfold step. intros H HI. inv_bind H.
  assert (Hpre : match x with inl (r1, _) => CInv c r1 | inr r1 => CInv c r1 end).
  { clear H. destruct (m_term m =? 0); [inversion Hx; subst; exact HI|].
    destruct (r_term r <? m_term m).
    - match type of Hx with (if ?c then _ else _) = _ => destruct c end;
        [inversion Hx; subst; exact HI|].
      match type of Hx with (if ?c then _ else _) = _ => destruct c end;
        [inversion Hx; subst; exact HI|].
      match type of Hx with (if ?c then _ else _) = _ => destruct c end;
        inv_bind Hx; inversion Hx; subst; cinv.
    - destruct (m_term m <? r_term r); [|inversion Hx; subst; exact HI].
      match type of Hx with (if ?c then _ else _) = _ => destruct c end;
        [inv_bind Hx; inversion Hx; subst; cinv|].
      match type of Hx with (if ?c then _ else _) = _ => destruct c end;
        [inv_bind Hx; inversion Hx; subst; cinv|inversion Hx; subst; exact HI]. }
  destruct x as [[r1 c1]|r1]; [inversion H; subst; exact Hpre|].
  destruct (m_type m =? MsgHup). { crush H; cinv. }
  match type of H with (if ?c then _ else _) = _ => destruct c end.
  { inv_bind H. inv_bind H. pose proof (vote_resp_msg_type_plain _ _ Hx1) as Hrt.
    match type of H with (if ?c then _ else _) = _ => destruct c end.
    - inv_bind H. assert (CInv c x1).
      { eapply send_CInv; [exact Hx2| |exact Hpre].
        apply (new_message_ok _ _ _ _ (fun x => x <| m_reject := false |> <| m_term := m_term m |>));
          [reflexivity|exact Hrt]. }
      destruct (m_type m =? MsgRequestVote); inversion H; subst; cinv.
    - inv_bind H. inv_bind H. inv_bind H. inversion H; subst.
      eapply maybe_commit_by_vote_CInv; [exact Hx4|].
      eapply send_CInv; [exact Hx3| |exact Hpre].
      apply (new_message_ok _ _ _ _
               (fun y => y <| m_reject := true |> <| m_term := r_term r1 |> <| m_commit := fst x1 |>
                           <| m_commit_term := snd x1 |>)); [reflexivity|exact Hrt]. }
  destruct (r_state r1); cinv.
Qed.
#[export] Hint Resolve step_CInv : cinv.

Lemma tick_election_CInv r r' b c : tick_election r = Ok (r', b) -> CInv c r -> CInv c r'.
Proof.
  unfold tick_election. intros H HI.
  set (r0 := r <| r_election_elapsed := r_election_elapsed r + 1 |>) in H.
  assert (H0 : CInv c r0) by (subst r0; cinv). clearbody r0.
  match type of H with (if ?c then _ else _) = _ => destruct c end; [inversion H; subst; exact H0|].
  inv_bind H. destruct x as [r1 c1]. inversion H; subst. cbn [fst].
  eapply step_CInv; [exact Hx|]. cinv.
Qed.
#[export] Hint Resolve tick_election_CInv : cinv.

Lemma tick_heartbeat_CInv r r' b c : tick_heartbeat r = Ok (r', b) -> CInv c r -> CInv c r'.
Proof.
  unfold tick_heartbeat. intros H HI.
  set (r0 := r <| r_heartbeat_elapsed := r_heartbeat_elapsed r + 1 |>
               <| r_election_elapsed := r_election_elapsed r + 1 |>) in H.
  assert (H0 : CInv c r0) by (subst r0; cinv). clearbody r0.
  inv_bind H. destruct x as [r1 hr].
  assert (H1 : CInv c r1).
  { destruct (r_election_timeout r0 <=? r_election_elapsed r0); [|inversion Hx; subst; exact H0].
    inv_bind Hx. destruct x as [ra ha].
    assert (Ha : CInv c ra).
    { destruct (r_check_quorum (r0 <| r_election_elapsed := 0 |>)).
      - inv_bind Hx0. destruct x as [rb cb]. inversion Hx0; subst. cbn [fst].
        eapply step_CInv; [exact Hx1|]. cinv.
      - inversion Hx0; subst. cinv. }
    inversion Hx; subst.
    match goal with |- CInv _ (if ?c then _ else _) => destruct c end; cinv. }
  destruct (negb (is_leader r1)); [inversion H; subst; exact H1|].
  destruct (r_heartbeat_timeout r1 <=? r_heartbeat_elapsed r1); [|inversion H; subst; exact H1].
  inv_bind H. destruct x as [rb cb]. inversion H; subst. cbn [fst].
  eapply step_CInv; [exact Hx0|]. cinv.
Qed.
#[export] Hint Resolve tick_heartbeat_CInv : cinv.

Theorem tick_CInv r r' b c : tick r = Ok (r', b) -> CInv c r -> CInv c r'.
Proof. unfold tick. destruct (r_state r); cinv. Qed.

Theorem on_persist_entries_CInv r i t r' c : on_persist_entries r i t = Ok r' -> CInv c r -> CInv c r'.
Proof.
  unfold on_persist_entries. intros H HI. inv_bind H. destruct x as [l' upd].
  set (r0 := r <| r_log := l' |>) in H.
  assert (H0 : CInv c r0).
  { subst r0. mono_facts. apply (CInv_grow r); [cbn; lia|reflexivity|exact HI]. }
  clearbody r0.
  destruct (upd && is_leader r0); [|inversion H; subst; exact H0].
  destruct (get_pr r0 (r_id r0)) as [pr|] eqn:Eg; [|inversion H; subst; exact H0].
  destruct (maybe_update pr i) as [pr' u] eqn:Eu.
  assert (H1 : CInv c (put_pr r0 (r_id r0) pr')) by cinv.
  destruct u; [|inversion H; subst; exact H1].
  inv_bind H. destruct x as [r1 c1]. assert (CInv c r1) by cinv.
  destruct (c1 && should_bcast_commit r1); [cinv|inversion H; subst; assumption].
Qed.

Theorem on_persist_snap_CInv r i r' c : on_persist_snap r i = Ok r' -> CInv c r -> CInv c r'.
Proof.
  unfold on_persist_snap. intros H HI. inv_bind H. destruct x as [l' b]. inversion H; subst.
  cbn [fst]. mono_facts. apply (CInv_grow r); [cbn; lia|reflexivity|exact HI].
Qed.

Theorem commit_apply_CInv r a r' c : commit_apply r a = Ok r' -> CInv c r -> CInv c r'.
Proof.
  unfold commit_apply, commit_apply_internal. intros H HI. cbn [negb] in H. inv_bind H.
  set (r0 := r <| r_log := x |>) in H.
  assert (H0 : CInv c r0).
  { subst r0. mono_facts. apply (CInv_grow r); [cbn; lia|reflexivity|exact HI]. }
  clearbody r0.
  match type of H with (if ?c then _ else _) = _ => destruct c end; [|inversion H; subst; exact H0].
  inv_bind H. destruct x0 as [r1 ok]. assert (CInv c r1) by cinv.
  destruct (negb ok); [discriminate|]. inversion H; subst. cinv.
Qed.

Theorem raft_apply_conf_change_CInv r cc r' ocs c :
  raft_apply_conf_change r cc = Ok (r', ocs) -> CInv c r -> CInv c r'.
Proof.
  unfold raft_apply_conf_change. intros H HI.
  match type of H with (match ?res with _ => _ end) = _ => destruct res as [[c' chs]|e] end;
    [|inversion H; subst; exact HI].
  inv_bind H. destruct x as [r1 cs]. inversion H; subst. cbn [fst].
  eapply post_conf_change_CInv; [exact Hx|]. cinv.
Qed.

Theorem load_state_CInv r hs r' c : load_state r hs = Ok r' -> CInv c r -> CInv c r'.
Proof.
  unfold load_state. intros H HI.
  destruct ((hs_commit hs <? committed (r_log r)) || (RaftLog.last_index (r_log r) <? hs_commit hs)) eqn:E;
    [discriminate|].
  inversion H; subst. apply orb_false_iff in E. destruct E as [E _].
  apply (CInv_grow r); [cbn; lia|reflexivity|exact HI].
Qed.

Theorem request_snapshot_CInv r r' c0 c : request_snapshot r = Ok (r', c0) -> CInv c r -> CInv c r'.
Proof.
  unfold request_snapshot. intros H HI.
  destruct (is_leader r); [inversion H; subst; exact HI|].
  destruct (r_leader_id r =? INVALID_ID); [inversion H; subst; exact HI|].
  match type of H with (if ?c then _ else _) = _ => destruct c end; [inversion H; subst; exact HI|].
  match type of H with (if ?c then _ else _) = _ => destruct c end; [inversion H; subst; exact HI|].
  inv_bind H. destruct x as [rt|e]; [|discriminate].
  destruct (r_term r =? rt); [|inversion H; subst; exact HI].
  inv_bind H. inversion H; subst. eapply send_request_snapshot_CInv; [exact Hx0|]. cinv.
Qed.

Theorem ping_CInv r r' c : ping r = Ok r' -> CInv c r -> CInv c r'.
Proof. unfold ping. intros H HI. destruct (is_leader r); [cinv|inversion H; subst; exact HI]. Qed.

Theorem adjust_max_inflight_msgs_CInv r target cp r' c :
  adjust_max_inflight_msgs r target cp = Ok r' -> CInv c r -> CInv c r'.
Proof.
  unfold adjust_max_inflight_msgs. intros H HI.
  destruct (get_pr r target) as [pr|] eqn:Eg; [|inversion H; subst; exact HI].
  inv_bind H. inversion H; subst. cinv.
Qed.

Theorem maybe_free_inflight_buffers_CInv r c : CInv c r -> CInv c (maybe_free_inflight_buffers r).
Proof. unfold maybe_free_inflight_buffers. intros; cinv. Qed.

Theorem enable_group_commit_CInv r e r' c : enable_group_commit r e = Ok r' -> CInv c r -> CInv c r'.
Proof.
  unfold enable_group_commit. intros H HI.
  set (r0 := r <| r_prs := _ |>) in H. assert (H0 : CInv c r0) by (subst r0; cinv). clearbody r0.
  destruct (is_leader r0 && negb e); [|inversion H; subst; exact H0].
  inv_bind H. destruct x as [r1 b]. cbn [fst snd] in H. assert (CInv c r1) by cinv.
  destruct b; [cinv|inversion H; subst; assumption].
Qed.

Theorem assign_commit_groups_CInv r ids r' c :
  assign_commit_groups r ids = Ok r' -> CInv c r -> CInv c r'.
Proof.
  unfold assign_commit_groups. intros H HI. inv_bind H.
  set (r0 := r <| r_prs := _ |>) in H. assert (H0 : CInv c r0) by (subst r0; cinv). clearbody r0.
  match type of H with (if ?c then _ else _) = _ => destruct c end; [|inversion H; subst; exact H0].
  inv_bind H. destruct x0 as [r1 b]. cbn [fst snd] in H. assert (CInv c r1) by cinv.
  destruct b; [cinv|inversion H; subst; assumption].
Qed.

(* ------------------------------------------------------------------ *)
(* RawNode level, and what leaves the node in a Ready / LightReady *)
Definition NCInv (c : N) (n : rawnode) : Prop := CInv c (rn_raft n).

Lemma lift_NCInv n x n' c : lift n x = Ok n' -> (forall r, x = Ok r -> CInv c r) -> NCInv c n'.
Proof.
  unfold lift. intros H Hq. destruct x as [r|s]; cbn in H; [|discriminate].
  inversion H; subst. apply Hq. reflexivity.
Qed.

Lemma lift2_NCInv n x n' c0 c :
  lift2 n x = Ok (n', c0) -> (forall r c1, x = Ok (r, c1) -> CInv c r) -> NCInv c n'.
Proof.
  unfold lift2. intros H Hq. destruct x as [[r c1]|s]; cbn in H; [|discriminate].
  inversion H; subst. eapply Hq. reflexivity.
Qed.

Theorem rn_step_NCInv n m n' c0 c : rn_step n m = Ok (n', c0) -> NCInv c n -> NCInv c n'.
Proof.
  unfold rn_step. intros H HI.
  destruct (is_local_msg (m_type m)); [inversion H; subst; exact HI|].
  match type of H with (if ?c then _ else _) = _ => destruct c end; [|inversion H; subst; exact HI].
  eapply lift2_NCInv; [exact H|]. intros r c1 E. eapply step_CInv; [exact E|exact HI].
Qed.

Theorem rn_tick_NCInv n n' b c : rn_tick n = Ok (n', b) -> NCInv c n -> NCInv c n'.
Proof.
  unfold rn_tick. intros H HI. inv_bind H. destruct x as [r b0]. inversion H; subst.
  unfold NCInv. cbn. eapply tick_CInv; [exact Hx|exact HI].
Qed.

Theorem rn_campaign_NCInv n n' c0 c : rn_campaign n = Ok (n', c0) -> NCInv c n -> NCInv c n'.
Proof.
  unfold rn_campaign. intros H HI. eapply lift2_NCInv; [exact H|].
  intros r c1 E. eapply step_CInv; [exact E|exact HI].
Qed.

Theorem rn_propose_NCInv n ctx data n' c0 c :
  rn_propose n ctx data = Ok (n', c0) -> NCInv c n -> NCInv c n'.
Proof.
  unfold rn_propose. intros H HI. eapply lift2_NCInv; [exact H|].
  intros r c1 E. eapply step_CInv; [exact E|exact HI].
Qed.

Theorem rn_propose_conf_change_NCInv n ctx data ty ci n' c0 c :
  rn_propose_conf_change n ctx data ty ci = Ok (n', c0) -> NCInv c n -> NCInv c n'.
Proof.
  unfold rn_propose_conf_change. intros H HI. eapply lift2_NCInv; [exact H|].
  intros r c1 E. eapply step_CInv; [exact E|exact HI].
Qed.

Theorem rn_apply_conf_change_NCInv n cc n' o c :
  rn_apply_conf_change n cc = Ok (n', o) -> NCInv c n -> NCInv c n'.
Proof.
  unfold rn_apply_conf_change. intros H HI. inv_bind H. destruct x as [r o0]. inversion H; subst.
  unfold NCInv. cbn. eapply raft_apply_conf_change_CInv; [exact Hx|exact HI].
Qed.

Theorem rn_ping_NCInv n n' c : rn_ping n = Ok n' -> NCInv c n -> NCInv c n'.
Proof.
  unfold rn_ping. intros H HI. eapply lift_NCInv; [exact H|].
  intros r E. eapply ping_CInv; [exact E|exact HI].
Qed.

(* the messages handed to the application respect the bound, and the queue is drained *)
Lemma gen_light_ready_NCInv n n' lr c :
  gen_light_ready n = Ok (n', lr) -> NCInv c n ->
  NCInv c n' /\ r_msgs (rn_raft n') = [] /\
  committed (r_log (rn_raft n')) = committed (r_log (rn_raft n)) /\
  Forall (msg_commit_ok (committed (r_log (rn_raft n')))) (lr_messages lr).
Proof.
  unfold gen_light_ready. intros H HI. inv_bind H. inv_bind H. inversion H; subst. clear H.
  set (ce := match x with Some v => v | None => [] end).
  pose proof (reduce_uncommitted_size_CInv (rn_raft n) ce c HI) as (K1 & K2).
  assert (Hc : committed (r_log (reduce_uncommitted_size (rn_raft n) ce)) = committed (r_log (rn_raft n))).
  { destruct (reduce_uncommitted_spec (rn_raft n) ce) as (_ & _ & _ & [E|E] & _); rewrite E; reflexivity. }
  unfold NCInv. cbn. split; [split; [exact K1|constructor]|]. split; [reflexivity|].
  split; [exact Hc|exact K2].
Qed.

Theorem rn_ready_NCInv n n' rd c :
  rn_ready n = Ok (n', rd) -> NCInv c n ->
  NCInv c n' /\ Forall (msg_commit_ok (committed (r_log (rn_raft n')))) (lr_messages (rd_light rd)).
Proof.
  unfold rn_ready. intros H HI. inv_bind H. inv_bind H.
  destruct x0 as [[[snap csi] rec_snap] ms2]. inv_bind H. destruct x0 as [n2 light].
  inversion H; subst. clear H.
  eapply gen_light_ready_NCInv in Hx1; [|unfold NCInv; cbn; exact HI].
  destruct Hx1 as (A & _ & _ & B). unfold NCInv in *. cbn. split; [exact A|exact B].
Qed.

Lemma commit_ready_NCInv n rd n' c : commit_ready n rd = Ok n' -> NCInv c n -> NCInv c n'.
Proof.
  unfold commit_ready. intros H HI.
  set (n0 := match rd_ss rd with Some ss => n <| rn_prev_ss := ss |> | None => n end) in H.
  assert (H0 : NCInv c n0) by (subst n0; destruct (rd_ss rd); exact HI). clearbody n0.
  set (n1 := match rd_hs rd with Some hs => n0 <| rn_prev_hs := hs |> | None => n0 end) in H.
  assert (H1 : NCInv c n1) by (subst n1; destruct (rd_hs rd); exact H0). clearbody n1.
  destruct (rn_records n1); [discriminate|].
  match type of H with (if ?c then _ else _) = _ => destruct c end; [discriminate|].
  inv_bind H. inv_bind H. inversion H; subst. unfold NCInv in *. cbn.
  assert (E1 : committed x = committed (r_log (rn_raft n1))).
  { destruct (rr_snapshot _) as [[i t]|]; [|inversion Hx; reflexivity].
    eapply stable_snap_committed; exact Hx. }
  assert (E2 : committed x0 = committed x).
  { destruct (rr_last_entry _) as [[i t]|]; [|inversion Hx0; reflexivity].
    eapply stable_entries_committed; exact Hx0. }
  apply (CInv_grow (rn_raft n1)); [cbn; lia|reflexivity|exact H1].
Qed.

Theorem rn_advance_append_async_NCInv n rd n' c :
  rn_advance_append_async n rd = Ok n' -> NCInv c n -> NCInv c n'.
Proof. apply commit_ready_NCInv. Qed.

Theorem rn_on_persist_ready_NCInv n num n' c :
  rn_on_persist_ready n num = Ok n' -> NCInv c n -> NCInv c n'.
Proof.
  unfold rn_on_persist_ready. intros H HI.
  destruct (fold_records (rn_records n) num 0 0 0) as [[[recs index] t] snap_index].
  inv_bind H. inv_bind H. inversion H; subst. unfold NCInv in *. cbn in *.
  assert (H1 : CInv c x).
  { destruct (negb (snap_index =? 0)); [eapply on_persist_snap_CInv; eassumption|].
    inversion Hx; subst. exact HI. }
  destruct (negb (index =? 0)); [eapply on_persist_entries_CInv; eassumption|].
  inversion Hx0; subst. exact H1.
Qed.

Theorem rn_advance_append_NCInv n rd n' lr c :
  rn_advance_append n rd = Ok (n', lr) -> NCInv c n ->
  NCInv c n' /\ Forall (msg_commit_ok (committed (r_log (rn_raft n')))) (lr_messages lr).
Proof.
  unfold rn_advance_append. intros H HI. inv_bind H. inv_bind H. inv_bind H.
  destruct x1 as [n3 light].
  assert (H2 : NCInv c x0).
  { eapply rn_on_persist_ready_NCInv; [exact Hx0|]. eapply commit_ready_NCInv; eassumption. }
  destruct (gen_light_ready_NCInv _ _ _ _ Hx1 H2) as (H3 & _ & _ & Hm).
  match type of H with (if ?c then _ else _) = _ => destruct c end; [discriminate|].
  inv_bind H. destruct x1 as [n4 ci].
  assert (H4 : rn_raft n4 = rn_raft n3).
  { match type of Hx2 with (if ?c then _ else _) = _ => destruct c end;
      [inversion Hx2; subst; reflexivity|].
    match type of Hx2 with (if ?c then _ else _) = _ => destruct c end; [discriminate|].
    inversion Hx2; subst; reflexivity. }
  match type of H with (if ?c then _ else _) = _ => destruct c end; [discriminate|].
  inversion H; subst. unfold NCInv in *. cbn [lr_messages]. rewrite H4. split; assumption.
Qed.

Theorem rn_advance_apply_to_NCInv n a n' c : rn_advance_apply_to n a = Ok n' -> NCInv c n -> NCInv c n'.
Proof.
  unfold rn_advance_apply_to. intros H HI. eapply lift_NCInv; [exact H|].
  intros r E. eapply commit_apply_CInv; [exact E|exact HI].
Qed.

Theorem rn_advance_NCInv n rd n' lr c :
  rn_advance n rd = Ok (n', lr) -> NCInv c n ->
  NCInv c n' /\ Forall (msg_commit_ok (committed (r_log (rn_raft n')))) (lr_messages lr).
Proof.
  unfold rn_advance. intros H HI. inv_bind H. destruct x as [n1 l1]. cbn [fst snd] in H.
  inv_bind H. inversion H; subst.
  destruct (rn_advance_append_NCInv _ _ _ _ _ Hx HI) as (A & B).
  pose proof (rn_advance_apply_to_NCInv _ _ _ (committed (r_log (rn_raft n1))) Hx0) as K.
  split; [eapply rn_advance_apply_to_NCInv; eassumption|].
  assert (Hle : committed (r_log (rn_raft n1)) <= committed (r_log (rn_raft n'))).
  { apply CInv_le. apply K. destruct A as (_ & A2). split; [apply N.le_refl|exact A2]. }
  eapply Forall_impl; [|exact B]. intros m. apply msg_commit_ok_mono. exact Hle.
Qed.

Theorem rn_report_unreachable_NCInv n id n' c :
  rn_report_unreachable n id = Ok n' -> NCInv c n -> NCInv c n'.
Proof.
  unfold rn_report_unreachable. intros H HI. inv_bind H. destruct x as [r c1]. inversion H; subst.
  unfold NCInv. cbn. eapply step_CInv; [exact Hx|exact HI].
Qed.

Theorem rn_report_snapshot_NCInv n id f n' c :
  rn_report_snapshot n id f = Ok n' -> NCInv c n -> NCInv c n'.
Proof.
  unfold rn_report_snapshot. intros H HI. inv_bind H. destruct x as [r c1]. inversion H; subst.
  unfold NCInv. cbn. eapply step_CInv; [exact Hx|exact HI].
Qed.

Theorem rn_request_snapshot_NCInv n n' c0 c :
  rn_request_snapshot n = Ok (n', c0) -> NCInv c n -> NCInv c n'.
Proof.
  unfold rn_request_snapshot. intros H HI. eapply lift2_NCInv; [exact H|].
  intros r c1 E. eapply request_snapshot_CInv; [exact E|exact HI].
Qed.

Theorem rn_transfer_leader_NCInv n t n' c : rn_transfer_leader n t = Ok n' -> NCInv c n -> NCInv c n'.
Proof.
  unfold rn_transfer_leader. intros H HI. inv_bind H. destruct x as [r c1]. inversion H; subst.
  unfold NCInv. cbn. eapply step_CInv; [exact Hx|exact HI].
Qed.

Theorem rn_read_index_NCInv n ctx n' c : rn_read_index n ctx = Ok n' -> NCInv c n -> NCInv c n'.
Proof.
  unfold rn_read_index. intros H HI. inv_bind H. destruct x as [r c1]. inversion H; subst.
  unfold NCInv. cbn. eapply step_CInv; [exact Hx|exact HI].
Qed.

(* an empty outbound queue satisfies the invariant at the node's own commit index *)
Lemma CInv_init r : r_msgs r = [] -> CInv (committed (r_log r)) r.
Proof. intros E. split; [apply N.le_refl|rewrite E; constructor]. Qed.

Theorem set_max_apply_unpersisted_log_limit_CInv r lim c :
  CInv c r -> CInv c (set_max_apply_unpersisted_log_limit r lim).
Proof. unfold set_max_apply_unpersisted_log_limit. intros; cinv. Qed.

(* what the invariant says *)
Theorem CInv_meaning c r :
  CInv c r ->
  c <= committed (r_log r) /\
  forall m, In m (r_msgs r) -> m_type m = MsgAppend \/ m_type m = MsgHeartbeat ->
    m_commit m <= committed (r_log r).
Proof.
  intros (H1 & H2). split; [exact H1|]. intros m Hin Ht.
  rewrite Forall_forall in H2. apply (H2 m Hin). unfold commit_bearing.
  destruct Ht as [->| ->]; reflexivity.
Qed.

Theorem msg_commit_ok_meaning c m :
  msg_commit_ok c m <-> (m_type m = MsgAppend \/ m_type m = MsgHeartbeat -> m_commit m <= c).
Proof.
  unfold msg_commit_ok, commit_bearing. split.
  - intros H [E|E]; apply H; rewrite E; reflexivity.
  - intros H Hb. apply H. apply orb_true_iff in Hb. destruct Hb as [E|E]; apply N.eqb_eq in E; auto.
Qed.

Theorem commit_inv_raft_api : forall c,
  (forall r m r' c0, step r m = Ok (r', c0) -> CInv c r -> CInv c r') /\
  (forall r r' b, tick r = Ok (r', b) -> CInv c r -> CInv c r') /\
  (forall r cc r' o, raft_apply_conf_change r cc = Ok (r', o) -> CInv c r -> CInv c r') /\
  (forall r i t r', on_persist_entries r i t = Ok r' -> CInv c r -> CInv c r') /\
  (forall r i r', on_persist_snap r i = Ok r' -> CInv c r -> CInv c r') /\
  (forall r a r', commit_apply r a = Ok r' -> CInv c r -> CInv c r') /\
  (forall r ents, CInv c r -> CInv c (reduce_uncommitted_size r ents)) /\
  (forall r hs r', load_state r hs = Ok r' -> CInv c r -> CInv c r') /\
  (forall r r' c0, request_snapshot r = Ok (r', c0) -> CInv c r -> CInv c r') /\
  (forall r r', ping r = Ok r' -> CInv c r -> CInv c r') /\
  (forall r target cp r', adjust_max_inflight_msgs r target cp = Ok r' -> CInv c r -> CInv c r') /\
  (forall r, CInv c r -> CInv c (maybe_free_inflight_buffers r)) /\
  (forall r lim, CInv c r -> CInv c (set_max_apply_unpersisted_log_limit r lim)) /\
  (forall r e r', enable_group_commit r e = Ok r' -> CInv c r -> CInv c r') /\
  (forall r ids r', assign_commit_groups r ids = Ok r' -> CInv c r -> CInv c r') /\
  (forall r s r' b, restore r s = Ok (r', b) -> CInv c r -> CInv c r') /\
  (forall r r', become_leader r = Ok r' -> CInv c r -> CInv c r') /\
  (forall r t l r', become_follower r t l = Ok r' -> CInv c r -> CInv c r').
Proof.
  intros c. repeat match goal with |- _ /\ _ => split end; intros.
  - eapply step_CInv; eassumption.
  - eapply tick_CInv; eassumption.
  - eapply raft_apply_conf_change_CInv; eassumption.
  - eapply on_persist_entries_CInv; eassumption.
  - eapply on_persist_snap_CInv; eassumption.
  - eapply commit_apply_CInv; eassumption.
  - apply reduce_uncommitted_size_CInv; assumption.
  - eapply load_state_CInv; eassumption.
  - eapply request_snapshot_CInv; eassumption.
  - eapply ping_CInv; eassumption.
  - eapply adjust_max_inflight_msgs_CInv; eassumption.
  - apply maybe_free_inflight_buffers_CInv; assumption.
  - apply set_max_apply_unpersisted_log_limit_CInv; assumption.
  - eapply enable_group_commit_CInv; eassumption.
  - eapply assign_commit_groups_CInv; eassumption.
  - eapply restore_CInv; eassumption.
  - eapply become_leader_CInv; eassumption.
  - eapply become_follower_CInv; eassumption.
Qed.

Theorem commit_inv_rawnode_api : forall c,
  (forall n m n' c0, rn_step n m = Ok (n', c0) -> NCInv c n -> NCInv c n') /\
  (forall n n' b, rn_tick n = Ok (n', b) -> NCInv c n -> NCInv c n') /\
  (forall n n' c0, rn_campaign n = Ok (n', c0) -> NCInv c n -> NCInv c n') /\
  (forall n ctx data n' c0, rn_propose n ctx data = Ok (n', c0) -> NCInv c n -> NCInv c n') /\
  (forall n ctx data ty ci n' c0,
     rn_propose_conf_change n ctx data ty ci = Ok (n', c0) -> NCInv c n -> NCInv c n') /\
  (forall n cc n' o, rn_apply_conf_change n cc = Ok (n', o) -> NCInv c n -> NCInv c n') /\
  (forall n n', rn_ping n = Ok n' -> NCInv c n -> NCInv c n') /\
  (forall n n' rd, rn_ready n = Ok (n', rd) -> NCInv c n ->
     NCInv c n' /\ Forall (msg_commit_ok (committed (r_log (rn_raft n')))) (lr_messages (rd_light rd))) /\
  (forall n num n', rn_on_persist_ready n num = Ok n' -> NCInv c n -> NCInv c n') /\
  (forall n rd n' lr, rn_advance_append n rd = Ok (n', lr) -> NCInv c n ->
     NCInv c n' /\ Forall (msg_commit_ok (committed (r_log (rn_raft n')))) (lr_messages lr)) /\
  (forall n rd n', rn_advance_append_async n rd = Ok n' -> NCInv c n -> NCInv c n') /\
  (forall n a n', rn_advance_apply_to n a = Ok n' -> NCInv c n -> NCInv c n') /\
  (forall n rd n' lr, rn_advance n rd = Ok (n', lr) -> NCInv c n ->
     NCInv c n' /\ Forall (msg_commit_ok (committed (r_log (rn_raft n')))) (lr_messages lr)) /\
  (forall n id n', rn_report_unreachable n id = Ok n' -> NCInv c n -> NCInv c n') /\
  (forall n id f n', rn_report_snapshot n id f = Ok n' -> NCInv c n -> NCInv c n') /\
  (forall n n' c0, rn_request_snapshot n = Ok (n', c0) -> NCInv c n -> NCInv c n') /\
  (forall n t n', rn_transfer_leader n t = Ok n' -> NCInv c n -> NCInv c n') /\
  (forall n ctx n', rn_read_index n ctx = Ok n' -> NCInv c n -> NCInv c n').
Proof.
  intros c. repeat match goal with |- _ /\ _ => split end; intros.
  - eapply rn_step_NCInv; eassumption.
  - eapply rn_tick_NCInv; eassumption.
  - eapply rn_campaign_NCInv; eassumption.
  - eapply rn_propose_NCInv; eassumption.
  - eapply rn_propose_conf_change_NCInv; eassumption.
  - eapply rn_apply_conf_change_NCInv; eassumption.
  - eapply rn_ping_NCInv; eassumption.
  - eapply rn_ready_NCInv; eassumption.
  - eapply rn_on_persist_ready_NCInv; eassumption.
  - eapply rn_advance_append_NCInv; eassumption.
  - eapply rn_advance_append_async_NCInv; eassumption.
  - eapply rn_advance_apply_to_NCInv; eassumption.
  - eapply rn_advance_NCInv; eassumption.
  - eapply rn_report_unreachable_NCInv; eassumption.
  - eapply rn_report_snapshot_NCInv; eassumption.
  - eapply rn_request_snapshot_NCInv; eassumption.
  - eapply rn_transfer_leader_NCInv; eassumption.
  - eapply rn_read_index_NCInv; eassumption.
Qed.
