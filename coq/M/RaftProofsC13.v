(* C13 — replication flow control and well-formed append/heartbeat messages:
   lemmas and theorems about M/Progress.v, M/RaftLog.v (log_entries/slice) and
   the flow-control part of M/Raft.v.  Statements are pinned in Props/C13.v. *)
From RV Require Import Base.Prelude Base.IdSet M.Util M.UtilProofs M.Proto M.MemStorage
  M.MemStorageProofs M.Inflights M.InflightsProofs M.Progress M.RaftLog M.Quorum M.ConfChange
  M.Msg M.Raft M.RaftProofs.
From RV Require M.RaftLogProofs.
From RecordUpdate Require Import RecordSet.
Import RecordSetNotations.

Local Open Scope N_scope.

(* ================================================================== *)
(* 1. Inflights facts in the form needed here                          *)
(* ================================================================== *)

Notation IInv := InflightsProofs.Inv.
Notation iabs := InflightsProofs.abs.

Lemma IInv_count_le_cap s : IInv s -> (Inflights.count s <= Inflights.cap s)%nat.
Proof. intros (H & _). exact H. Qed.

Lemma IInv_new c : IInv (Inflights.new c).
Proof. apply Inv_new. Qed.

Lemma IInv_reset s : IInv s -> IInv (Inflights.reset s).
Proof.
  intros H. destruct (reset_refines s H) as (s' & E & HI & _).
  cbn in E. inversion E; subst. exact HI.
Qed.

Lemma IInv_maybe_free_buffer s : IInv s -> IInv (Inflights.maybe_free_buffer s).
Proof.
  intros H. destruct (maybe_free_refines s H) as (s' & E & HI & _).
  cbn in E. inversion E; subst. exact HI.
Qed.

Lemma IInv_free_to s to s' : IInv s -> Inflights.free_to s to = Ok s' -> IInv s'.
Proof.
  intros H E. destruct (free_to_refines s to H) as (s1 & E1 & HI & _).
  cbn in E1. rewrite E in E1. inversion E1; subst. exact HI.
Qed.

Lemma IInv_free_first_one s s' : IInv s -> Inflights.free_first_one s = Ok s' -> IInv s'.
Proof.
  intros H E. destruct (free_first_refines s H) as (s1 & E1 & HI & _).
  cbn in E1. rewrite E in E1. inversion E1; subst. exact HI.
Qed.

Lemma IInv_set_cap s c s' : IInv s -> Inflights.set_cap s c = Ok s' -> IInv s'.
Proof.
  intros H E. destruct (set_cap_refines s c H) as (s1 & E1 & HI & _).
  cbn in E1. rewrite E in E1. inversion E1; subst. exact HI.
Qed.

(* add on a window that is not full: succeeds, keeps the invariant, appends
   exactly one element to the abstract FIFO, leaves both capacities alone *)
Lemma IInv_add s x :
  IInv s -> Inflights.full s = false ->
  exists s', Inflights.add s x = Ok s' /\ IInv s' /\ iabs s' = iabs s ++ [x]
             /\ Inflights.cap s' = Inflights.cap s
             /\ Inflights.incoming_cap s' = Inflights.incoming_cap s
             /\ Inflights.count s' = S (Inflights.count s).
Proof.
  intros H F. destruct (add_refines s x H F) as (s' & E & HI & A).
  cbn in E. exists s'. split; [exact E|]. split; [exact HI|].
  unfold abs_state in A. cbn [sstep q fcap pending] in A. inversion A as [[A1 A2 A3]].
  split; [reflexivity|]. split; [reflexivity|]. split; [reflexivity|].
  rewrite (count_abs s'), (count_abs s), A1, app_length. cbn. lia.
Qed.

(* add returned Ok: the window was not full *)
Lemma add_ok_not_full s x s' : Inflights.add s x = Ok s' -> Inflights.full s = false.
Proof. unfold Inflights.add. destruct (Inflights.full s); [discriminate|reflexivity]. Qed.

(* ================================================================== *)
(* 2. Progress: the window invariant and every operation               *)
(* ================================================================== *)

Definition PrInv (pr : progress) : Prop := IInv (ins pr).

Lemma PrInv_ins_eq p p' : ins p' = ins p -> PrInv p -> PrInv p'.
Proof. unfold PrInv. intros ->. exact (fun H => H). Qed.

Lemma PrInv_pr_new next c : PrInv (pr_new next c).
Proof. apply IInv_new. Qed.

Lemma PrInv_set_matched p v : PrInv p -> PrInv (set_matched p v). Proof. exact (fun H => H). Qed.
Lemma PrInv_set_next_idx p v : PrInv p -> PrInv (set_next_idx p v). Proof. exact (fun H => H). Qed.
Lemma PrInv_set_paused p v : PrInv p -> PrInv (set_paused p v). Proof. exact (fun H => H). Qed.
Lemma PrInv_set_pending_snapshot p v : PrInv p -> PrInv (set_pending_snapshot p v).
Proof. exact (fun H => H). Qed.
Lemma PrInv_set_pending_request_snapshot p v : PrInv p -> PrInv (set_pending_request_snapshot p v).
Proof. exact (fun H => H). Qed.
Lemma PrInv_set_recent_active p v : PrInv p -> PrInv (set_recent_active p v).
Proof. exact (fun H => H). Qed.
Lemma PrInv_set_commit_group_id p v : PrInv p -> PrInv (set_commit_group_id p v).
Proof. exact (fun H => H). Qed.
Lemma PrInv_set_committed_index p v : PrInv p -> PrInv (set_committed_index p v).
Proof. exact (fun H => H). Qed.
Lemma PrInv_set_ins p i : IInv i -> PrInv (set_ins p i). Proof. exact (fun H => H). Qed.

Lemma PrInv_reset_state p st : PrInv p -> PrInv (reset_state p st).
Proof. intros H. apply IInv_reset. exact H. Qed.

Lemma PrInv_pr_reset p next : PrInv p -> PrInv (pr_reset p next).
Proof. intros H. apply IInv_reset. exact H. Qed.

Lemma PrInv_become_probe p : PrInv p -> PrInv (become_probe p).
Proof. intros H. unfold become_probe. destruct (pr_state p); apply IInv_reset; exact H. Qed.

Lemma PrInv_become_replicate p : PrInv p -> PrInv (become_replicate p).
Proof. intros H. apply IInv_reset. exact H. Qed.

Lemma PrInv_become_snapshot p i : PrInv p -> PrInv (become_snapshot p i).
Proof. intros H. apply IInv_reset. exact H. Qed.

Lemma PrInv_snapshot_failure p : PrInv p -> PrInv (snapshot_failure p).
Proof. exact (fun H => H). Qed.
Lemma PrInv_resume p : PrInv p -> PrInv (resume p). Proof. exact (fun H => H). Qed.
Lemma PrInv_pause p : PrInv p -> PrInv (pause p). Proof. exact (fun H => H). Qed.
Lemma PrInv_optimistic_update p n : PrInv p -> PrInv (optimistic_update p n).
Proof. exact (fun H => H). Qed.

Lemma ins_maybe_update p n : ins (fst (maybe_update p n)) = ins p.
Proof.
  unfold maybe_update. cbn [fst].
  destruct (matched p <? n); cbn;
    match goal with |- ins (if ?c then _ else _) = _ => destruct c end; reflexivity.
Qed.

Lemma PrInv_maybe_update p n : PrInv p -> PrInv (fst (maybe_update p n)).
Proof. apply PrInv_ins_eq, ins_maybe_update. Qed.

Lemma ins_update_committed p ci : ins (update_committed p ci) = ins p.
Proof. unfold update_committed. destruct (Progress.committed_index p <? ci); reflexivity. Qed.

Lemma PrInv_update_committed p ci : PrInv p -> PrInv (update_committed p ci).
Proof. apply PrInv_ins_eq, ins_update_committed. Qed.

Lemma ins_maybe_decr_to p rej hint rs : ins (fst (maybe_decr_to p rej hint rs)) = ins p.
Proof.
  unfold maybe_decr_to.
  destruct (pstate_eqb (pr_state p) Replicate).
  - destruct ((rej <? matched p) || ((rej =? matched p) && (rs =? INVALID_INDEX))); [reflexivity|].
    destruct (rs =? INVALID_INDEX); reflexivity.
  - match goal with |- ins (fst (if ?c then _ else _)) = _ => destruct c end; [reflexivity|].
    cbn [fst]. destruct (rs =? INVALID_INDEX); [reflexivity|].
    destruct (pending_request_snapshot p =? INVALID_INDEX); reflexivity.
Qed.

Lemma PrInv_maybe_decr_to p rej hint rs : PrInv p -> PrInv (fst (maybe_decr_to p rej hint rs)).
Proof. apply PrInv_ins_eq, ins_maybe_decr_to. Qed.

(* is_paused = false rules out Snapshot, a paused probe and a full window *)
Lemma not_paused_cases pr :
  is_paused pr = false ->
  (pr_state pr = Probe /\ paused pr = false) \/
  (pr_state pr = Replicate /\ Inflights.full (ins pr) = false).
Proof. unfold is_paused. destruct (pr_state pr); intros H; auto. discriminate. Qed.

(* update_state, exactly *)
Lemma update_state_probe pr last : pr_state pr = Probe -> update_state pr last = Ok (pause pr).
Proof. unfold update_state. intros ->. reflexivity. Qed.

Lemma update_state_replicate pr last pr' :
  pr_state pr = Replicate -> update_state pr last = Ok pr' ->
  exists i, Inflights.add (ins pr) last = Ok i /\ pr' = set_ins (optimistic_update pr last) i.
Proof.
  unfold update_state. intros ->. intros H. inv_bind H. inversion H; subst. eauto.
Qed.

(* update_state on a progress that is not paused: never panics, keeps the
   invariant; in Replicate it consumes exactly one slot of the window *)
Theorem update_state_ok pr last :
  PrInv pr -> is_paused pr = false ->
  exists pr', update_state pr last = Ok pr' /\ PrInv pr' /\
    (pr_state pr = Probe -> pr' = pause pr) /\
    (pr_state pr = Replicate ->
       iabs (ins pr') = iabs (ins pr) ++ [last] /\
       Inflights.count (ins pr') = S (Inflights.count (ins pr)) /\
       (Inflights.count (ins pr') <= Inflights.cap (ins pr'))%nat /\
       Inflights.cap (ins pr') = Inflights.cap (ins pr) /\
       next_idx pr' = last + 1 /\ pr_state pr' = Replicate /\ matched pr' = matched pr).
Proof.
  intros HI Hp. destruct (not_paused_cases pr Hp) as [[Hs Hpa]|[Hs Hf]].
  - exists (pause pr). split; [apply update_state_probe; exact Hs|].
    split; [exact HI|]. split; [reflexivity|]. rewrite Hs. discriminate.
  - destruct (IInv_add (ins pr) last HI Hf) as (i & Ea & Hi & Hab & Hcap & _ & Hcnt).
    exists (set_ins (optimistic_update pr last) i).
    split; [unfold update_state; rewrite Hs, Ea; reflexivity|].
    split; [exact Hi|]. split; [rewrite Hs; discriminate|]. intros _.
    cbn [ins set_ins next_idx optimistic_update set_next_idx pr_state matched].
    split; [exact Hab|]. split; [exact Hcnt|].
    split; [apply IInv_count_le_cap; exact Hi|]. split; [exact Hcap|].
    split; [reflexivity|]. split; [exact Hs|reflexivity].
Qed.

(* whenever update_state returns Ok the invariant is kept (no is_paused premise:
   an Ok result of add already means the window was not full) *)
Lemma PrInv_update_state pr last pr' : PrInv pr -> update_state pr last = Ok pr' -> PrInv pr'.
Proof.
  intros HI H. unfold update_state in H. destruct (pr_state pr) eqn:Hs.
  - inversion H; subst. exact HI.
  - inv_bind H. inversion H; subst.
    destruct (IInv_add (ins pr) last HI (add_ok_not_full _ _ _ Hx)) as (i & Ea & Hi & _).
    rewrite Ea in Hx. inversion Hx; subst. exact Hi.
  - discriminate.
Qed.

Lemma update_state_not_add_full pr last :
  is_paused pr = false -> update_state pr last <> Panic Inflights.site_add_full.
Proof.
  intros Hp. destruct (not_paused_cases pr Hp) as [[Hs _]|[Hs Hf]]; unfold update_state; rewrite Hs.
  - discriminate.
  - unfold Inflights.add. rewrite Hf.
    destruct (allocated (ins pr)); cbn.
    + match goal with |- context [if ?c then Panic _ else _] => destruct c end; discriminate.
    + destruct (negb (Inflights.count (ins pr) =? 0)%nat); [discriminate|].
      destruct (negb (Inflights.start (ins pr) =? 0)%nat); [discriminate|].
      destruct (incoming_cap (ins pr)); [discriminate|]. cbn.
      match goal with |- context [if ?c then Panic _ else _] => destruct c end; discriminate.
Qed.

(* ================================================================== *)
(* 3. send, for the message kinds of this property                     *)
(* ================================================================== *)

(* what [send] does to a non-vote, non-local message built with term 0 and no
   sender: it stamps the sender and the current term and queues it *)
Definition stamped (r : raft) (m : msg) : msg := m <| m_from := r_id r |> <| m_term := r_term r |>.

Lemma send_plain r m :
  is_vote_type (m_type m) = false ->
  (m_type m =? MsgPropose) = false -> (m_type m =? MsgReadIndex) = false ->
  m_term m = 0 -> m_from m = 0 ->
  send r m = Ok (r <| r_msgs := r_msgs r ++ [stamped r m] |>).
Proof.
  intros Hv Hp Hr Ht Hf. unfold send. rewrite Hf.
  change (0 =? INVALID_ID) with true. cbv iota.
  set (m0 := m <| m_from := r_id r |>).
  change (m_type m0) with (m_type m). change (m_term m0) with (m_term m).
  rewrite Hv, Ht, Hp, Hr. change (0 =? 0) with true. cbn [negb andb bind].
  set (m1 := m0 <| m_term := r_term r |>).
  change (m_type m1) with (m_type m).
  unfold is_vote_type in Hv.
  apply orb_false_iff in Hv. destruct Hv as [Hv _].
  apply orb_false_iff in Hv. destruct Hv as [Hv _].
  apply orb_false_iff in Hv. destruct Hv as [Hv1 Hv2].
  rewrite Hv1, Hv2. reflexivity.
Qed.

(* ================================================================== *)
(* 4. maybe_send_append                                                 *)
(* ================================================================== *)

Definition last_idx (ents : list entry) : N := e_index (List.last ents entry_default).

(* the two messages maybe_send_append builds (before [send] stamps them) *)
Definition snap_msg (to : N) (s : snapshot) : msg :=
  msg_default <| m_to := to |> <| m_type := MsgSnapshot |> <| m_snapshot := s |>.

Definition app_msg (r : raft) (to : N) (pr : progress) (t : N) (ents : list entry) : msg :=
  msg_default <| m_to := to |> <| m_type := MsgAppend |> <| m_index := next_idx pr - 1 |>
              <| m_log_term := t |> <| m_entries := ents |> <| m_commit := committed (r_log r) |>.

Theorem maybe_send_append_paused r to pr ae :
  is_paused pr = true -> maybe_send_append r to pr ae = Ok (r, pr, false).
Proof. intros H. unfold maybe_send_append. rewrite H. reflexivity. Qed.

Corollary maybe_send_append_snapshot_state r to pr ae :
  pr_state pr = Snapshot -> maybe_send_append r to pr ae = Ok (r, pr, false).
Proof. intros H. apply maybe_send_append_paused. unfold is_paused. rewrite H. reflexivity. Qed.

Corollary maybe_send_append_probe_paused r to pr ae :
  pr_state pr = Probe -> paused pr = true -> maybe_send_append r to pr ae = Ok (r, pr, false).
Proof. intros H Hp. apply maybe_send_append_paused. unfold is_paused. rewrite H. exact Hp. Qed.

Corollary maybe_send_append_window_full r to pr ae :
  pr_state pr = Replicate -> Inflights.full (ins pr) = true ->
  maybe_send_append r to pr ae = Ok (r, pr, false).
Proof. intros H Hp. apply maybe_send_append_paused. unfold is_paused. rewrite H. exact Hp. Qed.

Lemma prepare_send_snapshot_some r to pr m' pr' :
  prepare_send_snapshot r (msg_default <| m_to := to |>) pr to = Ok (Some (m', pr')) ->
  recent_active pr = true /\
  exists s, raft_snapshot r (pending_request_snapshot pr) to = Ok (SOk s) /\ s_index s <> 0 /\
            m' = snap_msg to s /\ pr' = become_snapshot pr (s_index s).
Proof.
  unfold prepare_send_snapshot. intros H.
  destruct (recent_active pr); cbn [negb] in H; [|discriminate]. split; [reflexivity|].
  inv_bind H. destruct x as [s|e].
  - destruct (s_index s =? 0) eqn:E; [discriminate|]. inversion H; subst.
    exists s. split; [exact Hx|]. split; [apply N.eqb_neq; exact E|]. split; reflexivity.
  - destruct e; discriminate.
Qed.

Lemma prepare_send_entries_ok r to pr t ents m' pr' :
  prepare_send_entries r (msg_default <| m_to := to |>) pr t ents = Ok (m', pr') ->
  next_idx pr <> 0 /\ m' = app_msg r to pr t ents /\
  (ents = [] -> pr' = pr) /\ (ents <> [] -> update_state pr (last_idx ents) = Ok pr').
Proof.
  unfold prepare_send_entries. intros H.
  destruct (next_idx pr =? 0) eqn:E; [discriminate|]. split; [apply N.eqb_neq; exact E|].
  destruct ents as [|e0 rest].
  - inversion H; subst. split; [reflexivity|]. split; [reflexivity|]. intros C; congruence.
  - inv_bind H. inversion H; subst. split; [reflexivity|].
    split; [discriminate|]. intros _. exact Hx.
Qed.

Lemma last_cons_nonempty {A} (x : A) l d : l <> [] -> List.last (x :: l) d = List.last l d.
Proof. destruct l; [congruence|reflexivity]. Qed.

Lemma last_app_nonempty {A} (a b : list A) d : b <> [] -> List.last (a ++ b) d = List.last b d.
Proof.
  intros Hb. induction a as [|x a IH]; [reflexivity|].
  cbn [app]. rewrite last_cons_nonempty; [exact IH|].
  destruct a; cbn; [exact Hb|discriminate].
Qed.

Definition not_app_to (to : N) (x : msg) : Prop := (m_type x =? MsgAppend) && (m_to x =? to) = false.

(* try_batching succeeded: the FIRST queued MsgAppend for [to] got the entries
   appended and the commit refreshed; every other queued message is untouched *)
Lemma try_batching_true r to msgs pr ents msgs' pr' :
  try_batching r to msgs pr ents = Ok (msgs', pr', true) ->
  exists pre m post, msgs = pre ++ m :: post /\ Forall (not_app_to to) pre /\
    m_type m = MsgAppend /\ m_to m = to /\
    msgs' = pre ++ (m <| m_entries := m_entries m ++ ents |>
                       <| m_commit := committed (r_log r) |>) :: post /\
    (ents = [] -> pr' = pr) /\
    (ents <> [] -> is_continuous_ents m ents = true /\ update_state pr (last_idx ents) = Ok pr').
Proof.
  revert msgs'. induction msgs as [|m rest IH]; intros msgs' H; cbn [try_batching] in H.
  - discriminate.
  - destruct ((m_type m =? MsgAppend) && (m_to m =? to)) eqn:E.
    + apply andb_prop in E. destruct E as [E1 E2].
      apply N.eqb_eq in E1. apply N.eqb_eq in E2.
      exists [], m, rest. split; [reflexivity|]. split; [constructor|].
      split; [exact E1|]. split; [exact E2|].
      destruct ents as [|e0 et].
      * inversion H; subst. split.
        { cbn [app]. f_equal. rewrite app_nil_r. destruct m; reflexivity. }
        split; [reflexivity|]. intros C; congruence.
      * destruct (is_continuous_ents m (e0 :: et)) eqn:Ec; cbn [negb] in H; [|discriminate].
        inv_bind H. inversion H; subst. split; [reflexivity|].
        split; [discriminate|]. intros _. split; [reflexivity|].
        rewrite last_app_nonempty in Hx by discriminate. exact Hx.
    + inv_bind H. destruct x as [[rest' pr1] b]. inversion H; subst.
      destruct (IH rest' Hx) as (pre & m0 & post & A & B & C & D & F & G & K).
      exists (m :: pre), m0, post. split; [rewrite A; reflexivity|].
      split; [constructor; [exact E|exact B]|]. split; [exact C|]. split; [exact D|].
      split; [rewrite F; reflexivity|]. split; [exact G|exact K].
Qed.

(* what one call can have done when it reports "sent" *)
Definition sent_snapshot (r : raft) (to : N) (pr : progress) (r' : raft) (pr' : progress) : Prop :=
  recent_active pr = true /\
  exists s, raft_snapshot r (pending_request_snapshot pr) to = Ok (SOk s) /\ s_index s <> 0 /\
    r' = r <| r_msgs := r_msgs r ++ [stamped r (snap_msg to s)] |> /\
    pr' = become_snapshot pr (s_index s).

Definition sent_append (r : raft) (to : N) (pr : progress) (ae : bool) (r' : raft) (pr' : progress)
  : Prop :=
  pending_request_snapshot pr = 0 /\ next_idx pr <> 0 /\
  exists t ents,
    RaftLog.term (r_log r) (next_idx pr - 1) = Ok (SOk t) /\
    log_entries (r_log r) (next_idx pr) (Some (r_max_msg_size r)) = Ok (SOk ents) /\
    (ae = false -> ents <> []) /\
    r' = r <| r_msgs := r_msgs r ++ [stamped r (app_msg r to pr t ents)] |> /\
    (ents = [] -> pr' = pr) /\
    (ents <> [] -> update_state pr (last_idx ents) = Ok pr').

Definition sent_batched (r : raft) (to : N) (pr : progress) (ae : bool) (r' : raft) (pr' : progress)
  : Prop :=
  r_batch_append r = true /\ pending_request_snapshot pr = 0 /\ next_idx pr <> 0 /\
  exists t ents msgs',
    RaftLog.term (r_log r) (next_idx pr - 1) = Ok (SOk t) /\
    log_entries (r_log r) (next_idx pr) (Some (r_max_msg_size r)) = Ok (SOk ents) /\
    (ae = false -> ents <> []) /\
    try_batching r to (r_msgs r) pr ents = Ok (msgs', pr', true) /\
    r' = r <| r_msgs := msgs' |>.

Theorem maybe_send_append_cases r to pr ae r' pr' b :
  maybe_send_append r to pr ae = Ok (r', pr', b) ->
  (b = false /\ r' = r /\ pr' = pr) \/
  (b = true /\ is_paused pr = false /\
   (sent_snapshot r to pr r' pr' \/ sent_append r to pr ae r' pr' \/ sent_batched r to pr ae r' pr')).
Proof.
  unfold maybe_send_append. intros H.
  destruct (is_paused pr) eqn:Hp; [inversion H; subst; left; auto|].
  (* the snapshot continuation, shared by two branches *)
  assert (Hsnap : forall r' pr' b,
    (x <- prepare_send_snapshot r (msg_default <| m_to := to |>) pr to ;;
     match x with
     | None => Ok (r, pr, false)
     | Some (m', pr'0) => r'0 <- send r m' ;; Ok (r'0, pr'0, true)
     end) = Ok (r', pr', b) ->
    (b = false /\ r' = r /\ pr' = pr) \/ (b = true /\ sent_snapshot r to pr r' pr')).
  { clear H. intros r1 pr1 b1 H. inv_bind H. destruct x as [[m1 pr2]|].
    - inv_bind H. inversion H; subst. right. split; [reflexivity|].
      destruct (prepare_send_snapshot_some _ _ _ _ _ Hx) as (Hra & s & Hs & Hnz & -> & ->).
      split; [exact Hra|]. exists s. split; [exact Hs|]. split; [exact Hnz|].
      rewrite send_plain in Hx0 by reflexivity. inversion Hx0; subst. split; reflexivity.
    - inversion H; subst. left. auto. }
  destruct (negb (pending_request_snapshot pr =? INVALID_INDEX)) eqn:Eprs.
  { destruct (Hsnap _ _ _ H) as [A|[A B]]; [left; exact A|right; auto]. }
  apply negb_false_iff in Eprs. apply N.eqb_eq in Eprs.
  inv_bind H. rename x into ents, Hx into Hents.
  match type of H with (if ?c then _ else _) = _ => destruct c eqn:Eempty end;
    [inversion H; subst; left; auto|].
  destruct (next_idx pr =? 0) eqn:Enz; [discriminate|]. apply N.eqb_neq in Enz.
  inv_bind H. rename x into t, Hx into Hterm.
  assert (Hfall : match t, ents with SOk _, SOk _ => False | _, _ => True end ->
                  (b = false /\ r' = r /\ pr' = pr) \/ (b = true /\ sent_snapshot r to pr r' pr')).
  { intros Hsh. destruct t as [t|et]; destruct ents as [ents|ee]; try contradiction.
    - destruct ee; try (apply Hsnap; exact H). inversion H; subst. left; auto.
    - apply Hsnap; exact H.
    - destruct ee; try (apply Hsnap; exact H). inversion H; subst. left; auto. }
  destruct t as [t|et]; [destruct ents as [ents|ee]|];
    try (destruct Hfall as [A|[A B]]; [exact I|left; exact A|right; auto]).
  assert (Hne : ae = false -> ents <> []).
  { intros ->. cbn [negb andb] in Eempty. destruct ents; [discriminate|discriminate]. }
  inv_bind H. destruct x as [[msgs' pr1] batched].
  destruct batched.
  - (* batched *)
    inversion H; subst. destruct (r_batch_append r) eqn:Eb; [|inversion Hx; discriminate].
    right. split; [reflexivity|]. split; [reflexivity|]. right. right.
    split; [exact Eb|]. split; [exact Eprs|]. split; [exact Enz|].
    exists t, ents, msgs'. auto.
  - inv_bind H. destruct x as [m' pr2]. inv_bind H. inversion H; subst.
    destruct (prepare_send_entries_ok _ _ _ _ _ _ _ Hx0) as (_ & -> & He & Hn).
    rewrite send_plain in Hx1 by reflexivity. inversion Hx1; subst.
    right. split; [reflexivity|]. split; [reflexivity|]. right. left.
    split; [exact Eprs|]. split; [exact Enz|]. exists t, ents. auto 10.
Qed.

(* ------------------------------------------------------------------ *)
(* the progress after a call *)

(* the only ways the progress can have changed *)
Definition pr_step (pr pr' : progress) : Prop :=
  pr' = pr \/ (exists i, pr' = become_snapshot pr i) \/
  (is_paused pr = false /\ exists last, update_state pr last = Ok pr').

Lemma maybe_send_append_pr_step r to pr ae r' pr' b :
  maybe_send_append r to pr ae = Ok (r', pr', b) -> pr_step pr pr'.
Proof.
  intros H. destruct (maybe_send_append_cases _ _ _ _ _ _ _ H) as [(_ & _ & ->)|(_ & Hp & C)];
    [left; reflexivity|].
  destruct C as [(_ & s & _ & _ & _ & ->)|[(_ & _ & t & ents & _ & _ & _ & _ & He & Hn)|
                 (_ & _ & _ & t & ents & msgs' & _ & _ & _ & Hb & _)]].
  - right; left; eauto.
  - destruct ents as [|e0 et]; [left; apply He; reflexivity|].
    right; right. split; [exact Hp|]. eexists. apply Hn. discriminate.
  - destruct (try_batching_true _ _ _ _ _ _ _ Hb) as (pre & m0 & post & _ & _ & _ & _ & _ & He & Hn).
    destruct ents as [|e0 et]; [left; apply He; reflexivity|].
    right; right. split; [exact Hp|]. eexists. apply Hn. discriminate.
Qed.

Lemma PrInv_pr_step pr pr' : PrInv pr -> pr_step pr pr' -> PrInv pr'.
Proof.
  intros HI [->|[(i & ->)|(_ & last & H)]]; [exact HI|apply PrInv_become_snapshot; exact HI|].
  eapply PrInv_update_state; eassumption.
Qed.

(* maybe_send_append keeps the window invariant, batching on or off *)
Theorem maybe_send_append_PrInv r to pr ae r' pr' b :
  PrInv pr -> maybe_send_append r to pr ae = Ok (r', pr', b) -> PrInv pr'.
Proof. intros HI H. eapply PrInv_pr_step; [exact HI|]. eapply maybe_send_append_pr_step; exact H. Qed.

(* ------------------------------------------------------------------ *)
(* panics: under the window invariant none comes from the window *)

Lemma bind_panic {A B} (a : Res A) (f : A -> Res B) s :
  bind a f = Panic s -> a = Panic s \/ exists x, a = Ok x /\ f x = Panic s.
Proof. destruct a as [x|s0]; cbn; intros H; [right; eauto|left; inversion H; reflexivity]. Qed.

Lemma try_batching_no_panic r to msgs pr ents :
  PrInv pr -> is_paused pr = false -> exists x, try_batching r to msgs pr ents = Ok x.
Proof.
  intros HI Hp. induction msgs as [|m rest IH]; cbn [try_batching]; [eauto|].
  destruct ((m_type m =? MsgAppend) && (m_to m =? to)).
  - destruct ents as [|e0 et]; [eauto|].
    destruct (negb (is_continuous_ents m (e0 :: et))); [eauto|].
    destruct (update_state_ok pr (e_index (List.last (m_entries m ++ e0 :: et) entry_default)) HI Hp)
      as (pr' & E & _).
    rewrite E. cbn [bind]. eauto.
  - destruct IH as ([[rest' pr'] b] & E). rewrite E. cbn [bind]. eauto.
Qed.

(* every panic of maybe_send_append on a progress satisfying the window
   invariant is a panic of one of its three reads (entries, term, snapshot), the
   next_idx - 1 underflow, or one of the two snapshot fatals; in particular
   Inflights.add never fires "cannot add into a full inflights" and
   update_state never fires "unhandled state" *)
Theorem maybe_send_append_panic_causes r to pr ae s :
  PrInv pr -> maybe_send_append r to pr ae = Panic s ->
  raft_snapshot r (pending_request_snapshot pr) to = Panic s
  \/ s = site_snapshot_err \/ s = site_snapshot_empty
  \/ log_entries (r_log r) (next_idx pr) (Some (r_max_msg_size r)) = Panic s
  \/ s = site_next_idx_underflow
  \/ RaftLog.term (r_log r) (next_idx pr - 1) = Panic s.
Proof.
  intros HI H. unfold maybe_send_append in H.
  destruct (is_paused pr) eqn:Hp; [discriminate|].
  assert (Hsnap :
    (x <- prepare_send_snapshot r (msg_default <| m_to := to |>) pr to ;;
     match x with
     | None => Ok (r, pr, false)
     | Some (m', pr'0) => r'0 <- send r m' ;; Ok (r'0, pr'0, true)
     end) = Panic s ->
    raft_snapshot r (pending_request_snapshot pr) to = Panic s
    \/ s = site_snapshot_err \/ s = site_snapshot_empty).
  { clear H. intros H. apply bind_panic in H. destruct H as [H|(x & Hx & H)].
    - unfold prepare_send_snapshot in H. destruct (negb (recent_active pr)); [discriminate|].
      apply bind_panic in H. destruct H as [H|(y & Hy & H)]; [left; exact H|].
      destruct y as [sn|e].
      + destruct (s_index sn =? 0); inversion H. right; right; reflexivity.
      + destruct e; inversion H; right; left; reflexivity.
    - destruct x as [[m1 pr1]|]; [|discriminate].
      destruct (prepare_send_snapshot_some _ _ _ _ _ Hx) as (_ & sn & _ & _ & -> & _).
      rewrite send_plain in H by reflexivity. discriminate. }
  destruct (negb (pending_request_snapshot pr =? INVALID_INDEX)).
  { destruct (Hsnap H) as [A|[A|A]]; auto. }
  apply bind_panic in H. destruct H as [H|(ents & Hents & H)]; [auto 6|].
  match type of H with (if ?c then _ else _) = _ => destruct c end; [discriminate|].
  destruct (next_idx pr =? 0); [inversion H; auto 6|].
  apply bind_panic in H. destruct H as [H|(t & Hterm & H)]; [auto 8|].
  assert (Hfall : match t, ents with SOk _, SOk _ => False | _, _ => True end ->
    raft_snapshot r (pending_request_snapshot pr) to = Panic s
    \/ s = site_snapshot_err \/ s = site_snapshot_empty).
  { intros Hsh. destruct t as [t|et]; destruct ents as [ents|ee]; try contradiction.
    - destruct ee; try (apply Hsnap; exact H); discriminate.
    - apply Hsnap; exact H.
    - destruct ee; try (apply Hsnap; exact H); discriminate. }
  destruct t as [t|et]; [destruct ents as [ents|ee]|];
    try (destruct Hfall as [A|[A|A]]; [exact I|auto|auto|auto]).
  apply bind_panic in H. destruct H as [H|(x & Hx & H)].
  - destruct (r_batch_append r); [|discriminate].
    destruct (try_batching_no_panic r to (r_msgs r) pr ents HI Hp) as (y & E). congruence.
  - destruct x as [[msgs' pr1] batched]. destruct batched; [discriminate|].
    apply bind_panic in H. destruct H as [H|(y & Hy & H)].
    + unfold prepare_send_entries in H. destruct (next_idx pr =? 0); [inversion H; auto 6|].
      destruct ents as [|e0 et]; [discriminate|].
      apply bind_panic in H. destruct H as [H|(z & _ & H)]; [|discriminate].
      destruct (update_state_ok pr (e_index (List.last (e0 :: et) entry_default)) HI Hp)
        as (pr' & E & _). congruence.
    + destruct y as [m' pr2].
      destruct (prepare_send_entries_ok _ _ _ _ _ _ _ Hy) as (_ & -> & _).
      rewrite send_plain in H by reflexivity. discriminate.
Qed.

(* ------------------------------------------------------------------ *)
(* Theorem 2: the shape of what is sent, batching off *)

Theorem maybe_send_append_shape r to pr ae r' pr' :
  r_batch_append r = false ->
  maybe_send_append r to pr ae = Ok (r', pr', true) ->
  is_paused pr = false /\
  exists m, r' = r <| r_msgs := r_msgs r ++ [m] |> /\
    m_to m = to /\ m_from m = r_id r /\ m_term m = r_term r /\
    ((* (a) a snapshot *)
     (m = stamped r (snap_msg to (m_snapshot m)) /\ m_type m = MsgSnapshot /\
      recent_active pr = true /\
      raft_snapshot r (pending_request_snapshot pr) to = Ok (SOk (m_snapshot m)) /\
      s_index (m_snapshot m) <> 0 /\
      pr' = become_snapshot pr (s_index (m_snapshot m)) /\
      pr_state pr' = Snapshot /\ pending_snapshot pr' = s_index (m_snapshot m))
     \/
     (* (b) an append anchored in the leader's own log *)
     (m = stamped r (app_msg r to pr (m_log_term m) (m_entries m)) /\ m_type m = MsgAppend /\
      pending_request_snapshot pr = 0 /\ next_idx pr <> 0 /\
      m_index m = next_idx pr - 1 /\
      RaftLog.term (r_log r) (next_idx pr - 1) = Ok (SOk (m_log_term m)) /\
      log_entries (r_log r) (next_idx pr) (Some (r_max_msg_size r)) = Ok (SOk (m_entries m)) /\
      m_commit m = committed (r_log r) /\
      (ae = false -> m_entries m <> []) /\
      (m_entries m = [] -> pr' = pr) /\
      (m_entries m <> [] ->
         (pr_state pr = Probe /\ pr' = pause pr) \/
         (pr_state pr = Replicate /\
          exists i, Inflights.add (ins pr) (last_idx (m_entries m)) = Ok i /\
                    pr' = set_ins (optimistic_update pr (last_idx (m_entries m))) i)))).
Proof.
  intros Hb H.
  destruct (maybe_send_append_cases _ _ _ _ _ _ _ H) as [(C & _)|(_ & Hp & C)]; [discriminate|].
  split; [exact Hp|].
  destruct C as [(Hra & s & Hs & Hnz & -> & ->)|[(Hprs & Hnx & t & ents & Ht & He & Hae & -> & H0 & H1)|
                 (Hb' & _)]]; [| |congruence].
  - eexists. split; [reflexivity|]. split; [reflexivity|]. split; [reflexivity|].
    split; [reflexivity|]. left. cbn. auto 10.
  - eexists. split; [reflexivity|]. split; [reflexivity|]. split; [reflexivity|].
    split; [reflexivity|]. right.
    change (m_entries (stamped r (app_msg r to pr t ents))) with ents.
    change (m_log_term (stamped r (app_msg r to pr t ents))) with t.
    split; [reflexivity|]. split; [reflexivity|]. split; [exact Hprs|]. split; [exact Hnx|].
    split; [reflexivity|]. split; [exact Ht|]. split; [exact He|]. split; [reflexivity|].
    split; [exact Hae|]. split; [exact H0|]. intros Hne. specialize (H1 Hne).
    destruct (not_paused_cases pr Hp) as [[Hs _]|[Hs _]].
    + left. split; [exact Hs|]. rewrite update_state_probe in H1 by exact Hs. congruence.
    + right. split; [exact Hs|]. apply update_state_replicate; assumption.
Qed.

(* at most one entry-carrying append while probing: after it the progress is
   paused, and a paused probe sends nothing (on any node state) until resumed *)
Theorem probe_one_outstanding r to pr ae r' pr' :
  maybe_send_append r to pr ae = Ok (r', pr', true) -> pr_state pr = Probe ->
  (* nothing else can have happened to the progress *)
  (pr' = pr \/ (exists i, pr' = become_snapshot pr i) \/ pr' = pause pr) /\
  (* an append carrying entries pauses *)
  (forall m, r_msgs r' = r_msgs r ++ [m] -> m_type m = MsgAppend -> m_entries m <> [] ->
     pr' = pause pr /\
     forall r2 ae2, maybe_send_append r2 to pr' ae2 = Ok (r2, pr', false)).
Proof.
  intros H Hs.
  destruct (maybe_send_append_cases _ _ _ _ _ _ _ H) as [(C & _)|(_ & Hp & C)]; [discriminate|].
  destruct C as [(_ & s & _ & _ & -> & ->)|[(_ & _ & t & ents & _ & _ & _ & -> & He & Hn)|
                 (_ & _ & _ & t & ents & msgs' & _ & _ & _ & Hb & ->)]].
  - split; [right; left; eauto|]. intros m Hm Ht _. cbn in Hm.
    apply app_inv_head in Hm. inversion Hm; subst. discriminate.
  - split.
    + destruct ents as [|e0 et]; [left; apply He; reflexivity|].
      right; right. specialize (Hn ltac:(discriminate)).
      rewrite update_state_probe in Hn by exact Hs. congruence.
    + intros m Hm _ Hne. cbn in Hm. apply app_inv_head in Hm. inversion Hm; subst.
      change (m_entries (stamped r (app_msg r to pr t ents))) with ents in Hne.
      specialize (Hn Hne). rewrite update_state_probe in Hn by exact Hs. inversion Hn; subst.
      split; [reflexivity|]. intros r2 ae2. apply maybe_send_append_probe_paused; [exact Hs|reflexivity].
  - destruct (try_batching_true _ _ _ _ _ _ _ Hb) as (pre & m0 & post & Hm0 & _ & _ & _ & Hm' & He & Hn).
    split.
    + destruct ents as [|e0 et]; [left; apply He; reflexivity|].
      right; right. destruct (Hn ltac:(discriminate)) as [_ Hu].
      rewrite update_state_probe in Hu by exact Hs. congruence.
    + intros m Hm _ _. exfalso. cbn in Hm. rewrite Hm', Hm0 in Hm.
      apply (f_equal (@length msg)) in Hm. rewrite !app_length in Hm. cbn in Hm. lia.
Qed.

(* one slot of the window per entry-carrying append while replicating *)
Theorem replicate_one_slot r to pr ae r' pr' :
  maybe_send_append r to pr ae = Ok (r', pr', true) -> pr_state pr = Replicate -> PrInv pr ->
  Inflights.full (ins pr) = false /\
  (pr' = pr \/ (exists i, pr' = become_snapshot pr i) \/
   exists last, iabs (ins pr') = iabs (ins pr) ++ [last] /\
     Inflights.count (ins pr') = S (Inflights.count (ins pr)) /\
     (Inflights.count (ins pr') <= Inflights.cap (ins pr'))%nat /\
     Inflights.cap (ins pr') = Inflights.cap (ins pr) /\
     next_idx pr' = last + 1 /\ pr_state pr' = Replicate /\ matched pr' = matched pr).
Proof.
  intros H Hs HI.
  destruct (maybe_send_append_cases _ _ _ _ _ _ _ H) as [(C & _)|(_ & Hp & _)]; [discriminate|].
  split; [unfold is_paused in Hp; rewrite Hs in Hp; exact Hp|].
  destruct (maybe_send_append_pr_step _ _ _ _ _ _ _ H) as [->|[A|(_ & last & Hu)]]; auto.
  right; right. exists last.
  destruct (update_state_ok pr last HI Hp) as (pr1 & E & _ & _ & Hr).
  rewrite E in Hu. inversion Hu; subst. apply Hr; exact Hs.
Qed.

(* ================================================================== *)
(* 5. The entries handed to an append: a slice of the log, size-limited *)
(* ================================================================== *)

(* What is needed of the log representation (C14's RaftLogProofs.RepInv implies
   it, see [RepInv_LogInv] below): the store satisfies the MemStorage
   representation invariant, and the unstable entries are numbered consecutively
   from the unstable offset. *)
Definition LogInv (l : raft_log) : Prop :=
  MemStorageProofs.RepInv (store l) /\ contiguous_from (u_offset (unst l)) (u_entries (unst l)).

(* the entry the log holds at index i: the store's below the unstable offset,
   the unstable one from the offset on *)
Definition log_at (l : raft_log) (i : N) : option entry :=
  if i <? u_offset (unst l) then entry_at (store l) i
  else nth_error (u_entries (unst l)) (N.to_nat (i - u_offset (unst l))).

(* ents is, element by element, what the log holds at lo, lo+1, ... *)
Definition from_log (l : raft_log) (lo : N) (ents : list entry) : Prop :=
  forall k e, nth_error ents k = Some e -> log_at l (lo + N.of_nat k) = Some e.

Definition within_limit (mx : N) (ents : list entry) : Prop :=
  mx <> NO_LIMIT -> total_size entry_size ents <= mx \/ length ents = 1%nat.

Lemma nth_error_firstn_some {A} (l : list A) n k e :
  nth_error (firstn n l) k = Some e -> nth_error l k = Some e /\ (k < n)%nat.
Proof.
  revert n k. induction l as [|x l IH]; intros n k H.
  - rewrite firstn_nil in H. destruct k; discriminate.
  - destruct n; [destruct k; discriminate|]. destruct k; cbn [firstn nth_error] in *.
    + split; [exact H|lia].
    + destruct (IH _ _ H). split; [assumption|lia].
Qed.

Lemma limit_size_prefix l max : exists k, limit_size l max = firstn k l.
Proof. destruct (limit_size_spec entry_size l max) as ((k & _ & E) & _). exists k. exact E. Qed.

Lemma limit_size_contig lo l max : contiguous_from lo l -> contiguous_from lo (limit_size l max).
Proof. intros H. destruct (limit_size_prefix l max) as (k & ->). apply contig_firstn. exact H. Qed.

Lemma limit_size_from_log lg lo l max : from_log lg lo l -> from_log lg lo (limit_size l max).
Proof.
  intros H. destruct (limit_size_prefix l max) as (j & ->). intros k e Hk.
  apply nth_error_firstn_some in Hk. apply H. apply Hk.
Qed.

Lemma limit_size_within lo l mx :
  contiguous_from lo l -> lo <> 0 -> within_limit mx (limit_size l (Some mx)).
Proof.
  intros Hc Hlo Hmx. destruct (limit_size_spec entry_size l (Some mx)) as (_ & _ & _ & Hs).
  apply Hs; [|reflexivity|exact Hmx].
  destruct l as [|e t]; [exact I|]. destruct Hc as [He _]. cbn.
  apply entry_size_pos. congruence.
Qed.

Lemma limit_size_length_le l max : (length (limit_size l max) <= length l)%nat.
Proof. destruct (limit_size_prefix l max) as (k & ->). rewrite firstn_length. lia. Qed.

Lemma storage_entries_ok_spec m lo hi max ctx m' ents :
  MemStorageProofs.RepInv m -> storage_entries m lo hi max ctx = Ok (m', SOk ents) ->
  exists raw, ents = limit_size raw max /\ contiguous_from lo raw /\
              N.of_nat (length raw) <= hi - lo /\
              (forall k e, nth_error raw k = Some e -> entry_at m (lo + N.of_nat k) = Some e).
Proof.
  intros HI H. unfold storage_entries in H. rewrite (first_index_ok m HI) in H. cbn [bind] in H.
  destruct (lo <? first_of m) eqn:E1; [discriminate|].
  destruct (MemStorage.last_index m =? u64_max); [discriminate|].
  destruct (MemStorage.last_index m + 1 <? hi); [discriminate|].
  destruct (trig_log m && can_async ctx); [discriminate|].
  cbn [bind] in H.
  destruct (hi <? first_of m) eqn:E4; [discriminate|].
  match type of H with (if ?c then _ else _) = _ => destruct c eqn:E5 end; [discriminate|].
  match type of H with (if ?c then _ else _) = _ => destruct c eqn:E6 end; [discriminate|].
  injection H as _ He. subst ents. eexists. split; [reflexivity|]. split; [|split].
  - apply contig_firstn.
    replace lo with (first_of m + N.of_nat (N.to_nat (lo - first_of m))) at 1 by lia.
    apply contig_skipn. destruct HI as (Hc & _). exact Hc.
  - rewrite firstn_length. lia.
  - intros k e Hk. apply nth_error_firstn_some in Hk. destruct Hk as [Hk _].
    rewrite nth_error_skipn' in Hk. unfold entry_at.
    destruct (lo + N.of_nat k <? first_of m) eqn:E7; [lia|]. rewrite <- Hk. f_equal. lia.
Qed.

Lemma u_slice_spec u lo hi ents :
  contiguous_from (u_offset u) (u_entries u) -> u_slice u lo hi = Ok ents ->
  u_offset u <= lo /\ contiguous_from lo ents /\
  (forall k e, nth_error ents k = Some e ->
     nth_error (u_entries u) (N.to_nat (lo + N.of_nat k - u_offset u)) = Some e).
Proof.
  intros Hc H. unfold u_slice in H. inv_bind H. inversion H; subst.
  unfold u_must_check_outofbounds in Hx.
  destruct (hi <? lo); [discriminate|].
  destruct ((lo <? u_offset u) || (u_offset u + N.of_nat (length (u_entries u)) <? hi)) eqn:E;
    [discriminate|].
  apply orb_false_iff in E. destruct E as [E _].
  split; [lia|]. split.
  - apply contig_firstn.
    replace lo with (u_offset u + N.of_nat (N.to_nat (lo - u_offset u))) at 1 by lia.
    apply contig_skipn. exact Hc.
  - intros k e Hk. apply nth_error_firstn_some in Hk. destruct Hk as [Hk _].
    rewrite nth_error_skipn' in Hk. rewrite <- Hk. f_equal. lia.
Qed.

Lemma from_log_app l lo a b :
  from_log l lo a -> from_log l (lo + N.of_nat (length a)) b -> from_log l lo (a ++ b).
Proof.
  intros Ha Hb k e Hk. destruct (Nat.lt_ge_cases k (length a)) as [Hlt|Hge].
  - rewrite nth_error_app1 in Hk by exact Hlt. apply Ha. exact Hk.
  - rewrite nth_error_app2 in Hk by exact Hge. specialize (Hb _ _ Hk).
    replace (lo + N.of_nat k) with (lo + N.of_nat (length a) + N.of_nat (k - length a)) by lia.
    exact Hb.
Qed.

Definition good_slice (l : raft_log) (lo mx : N) (ents : list entry) : Prop :=
  contiguous_from lo ents /\ from_log l lo ents /\ (lo <> 0 -> within_limit mx ents).

Lemma good_slice_nil l lo mx : good_slice l lo mx [].
Proof.
  split; [exact I|]. split; [intros [|k] e H; discriminate|]. intros _ _. left. cbn. lia.
Qed.

Lemma good_slice_limit l lo mx raw :
  contiguous_from lo raw -> from_log l lo raw -> good_slice l lo mx (limit_size raw (Some mx)).
Proof.
  intros Hc Hf. split; [apply limit_size_contig; exact Hc|].
  split; [apply limit_size_from_log; exact Hf|]. intros Hlo. eapply limit_size_within; eassumption.
Qed.

(* RaftLog::slice: a successful read is, element by element, what the log holds
   at lo, lo+1, ...; its indexes are consecutive from lo; and for lo <> 0 and a
   real limit it is within the limit unless it is one entry *)
Theorem slice_spec l lo hi mx ents :
  LogInv l -> slice l lo hi (Some mx) = Ok (SOk ents) -> good_slice l lo mx ents.
Proof.
  intros (HS & HU) H. unfold slice in H. inv_bind H.
  destruct x as [e|]; [discriminate|].
  assert (Hle : lo <= hi).
  { unfold must_check_outofbounds in Hx. destruct (hi <? lo) eqn:E; [discriminate|]. lia. }
  destruct (lo =? hi) eqn:Eeq; [inversion H; subst; apply good_slice_nil|].
  inv_bind H.
  (* the stored part *)
  assert (Hst : match x with
                | inl early => early = SOk ents -> good_slice l lo mx ents
                | inr ents0 => contiguous_from lo ents0 /\ from_log l lo ents0 /\
                               (lo <? u_offset (unst l) = true ->
                                lo + N.of_nat (length ents0) = N.min hi (u_offset (unst l))) /\
                               (lo <? u_offset (unst l) = false -> ents0 = [])
                end).
  { clear H. destruct (lo <? u_offset (unst l)) eqn:Eoff.
    - inv_bind Hx0. unfold store_entries in Hx1. inv_bind Hx1. inversion Hx1; subst. clear Hx1.
      destruct x1 as [m' sr]. cbn [snd] in Hx0.
      destruct sr as [ents0|e].
      + destruct (storage_entries_ok_spec _ _ _ _ _ _ _ HS Hx2) as (raw & -> & Hc & Hlen & Hat).
        assert (Hfl : from_log l lo raw).
        { intros k e Hk. unfold log_at.
          assert (k < length raw)%nat by (apply nth_error_Some; congruence).
          destruct (lo + N.of_nat k <? u_offset (unst l)) eqn:E; [|lia]. apply Hat. exact Hk. }
        match type of Hx0 with (if ?c then _ else _) = _ => destruct c eqn:Elen end;
          inversion Hx0; subst.
        * intros E. inversion E; subst. apply good_slice_limit; assumption.
        * split; [apply limit_size_contig; exact Hc|].
          split; [apply limit_size_from_log; exact Hfl|]. split; [|discriminate]. intros _.
          pose proof (limit_size_length_le raw (Some mx)). lia.
      + destruct e; inversion Hx0; subst; discriminate.
    - inversion Hx0; subst. split; [exact I|]. split; [intros [|k] e H; discriminate|].
      split; [discriminate|reflexivity]. }
  destruct x as [early|ents0].
  - inversion H; subst. apply Hst. reflexivity.
  - destruct Hst as (Hc0 & Hf0 & Hlen & Hnil). inv_bind H. inversion H; subst. clear H.
    assert (Hc2 : contiguous_from lo x /\ from_log l lo x).
    { destruct (u_offset (unst l) <? hi) eqn:Ehi.
      - inv_bind Hx1. inversion Hx1; subst.
        destruct (u_slice_spec _ _ _ _ HU Hx2) as (Hoff & Hcu & Hnu).
        assert (Hfu : from_log l (N.max lo (u_offset (unst l))) x0).
        { intros k e Hk. unfold log_at.
          destruct (N.max lo (u_offset (unst l)) + N.of_nat k <? u_offset (unst l)) eqn:E; [lia|].
          apply Hnu. exact Hk. }
        destruct (lo <? u_offset (unst l)) eqn:Eoff.
        + specialize (Hlen eq_refl).
          assert (Hjoin : lo + N.of_nat (length ents0) = N.max lo (u_offset (unst l))) by lia.
          split; [apply contig_app|apply from_log_app]; try assumption; rewrite Hjoin; assumption.
        + rewrite (Hnil eq_refl). cbn [app].
          replace (N.max lo (u_offset (unst l))) with lo in * by lia. split; assumption.
      - inversion Hx1; subst. split; assumption. }
    destruct Hc2. apply good_slice_limit; assumption.
Qed.

Theorem log_entries_spec l i mx ents :
  LogInv l -> log_entries l i (Some mx) = Ok (SOk ents) -> good_slice l i mx ents.
Proof.
  intros HI H. unfold log_entries in H.
  destruct (RaftLog.last_index l <? i); [inversion H; subst; apply good_slice_nil|].
  destruct (RaftLog.last_index l =? u64_max); [discriminate|].
  eapply slice_spec; eassumption.
Qed.

(* bridge to C14's representation invariant and abstraction of the RaftLog *)
Lemma RepInv_LogInv rw l : RaftLogProofs.RepInv rw l -> LogInv l.
Proof. intros H. split; [apply (RaftLogProofs.ri_store rw l H)|apply (RaftLogProofs.ri_contig rw l H)]. Qed.

Lemma log_at_abs rw l i :
  RaftLogProofs.RepInv rw l -> RaftLogProofs.ll_first (RaftLogProofs.abs l) <= i ->
  log_at l i = RaftLogProofs.ll_get (RaftLogProofs.abs l) i.
Proof.
  intros H Hi. unfold log_at. destruct (i <? u_offset (unst l)) eqn:E.
  - destruct (u_snapshot (unst l)) as [s|] eqn:Es.
    + exfalso. pose proof (RaftLogProofs.ri_shape rw l H) as Hsh. rewrite Es in Hsh.
      unfold RaftLogProofs.ll_first, RaftLogProofs.abs in Hi. rewrite Es in Hi. cbn in Hi. lia.
    + symmetry. apply (RaftLogProofs.abs_get_stable rw); [exact H|exact Es|].
      unfold RaftLogProofs.ll_first, RaftLogProofs.abs in Hi. rewrite Es in Hi. cbn in Hi.
      pose proof (first_pos _ (RaftLogProofs.ri_store rw l H)). lia.
  - symmetry. apply (RaftLogProofs.abs_get_unstable rw); [exact H|lia].
Qed.

(* Theorem 3: the entries of an emitted MsgAppend (batching off) are, element by
   element, the leader's own log entries at m_index+1, m_index+2, ...; their
   indexes are consecutive; and they are within max_size_per_msg unless a
   single entry *)
Theorem append_entries_contiguous r to pr ae r' pr' m :
  LogInv (r_log r) -> r_batch_append r = false ->
  maybe_send_append r to pr ae = Ok (r', pr', true) ->
  r_msgs r' = r_msgs r ++ [m] -> m_type m = MsgAppend ->
  contiguous_from (m_index m + 1) (m_entries m) /\
  from_log (r_log r) (m_index m + 1) (m_entries m) /\
  (r_max_msg_size r <> NO_LIMIT ->
     total_size entry_size (m_entries m) <= r_max_msg_size r \/ length (m_entries m) = 1%nat).
Proof.
  intros HL Hb H Hm Ht.
  destruct (maybe_send_append_shape _ _ _ _ _ _ Hb H) as (_ & m0 & -> & _ & _ & _ & C).
  cbn in Hm. apply app_inv_head in Hm. inversion Hm; subst m0. clear Hm.
  destruct C as [(_ & Ht' & _)|(_ & _ & _ & Hnx & Hidx & _ & He & _)]; [rewrite Ht in Ht'; discriminate|].
  destruct (log_entries_spec _ _ _ _ HL He) as (Hc & Hf & Hw).
  rewrite Hidx. replace (next_idx pr - 1 + 1) with (next_idx pr) by lia.
  split; [exact Hc|]. split; [exact Hf|]. apply Hw. exact Hnx.
Qed.

(* the same against C14's abstract log: entries = the abstract log's entries at
   next_idx.., anchor term = the abstract log's term at next_idx-1 *)
Theorem append_entries_abs rw r to pr ae r' pr' m :
  RaftLogProofs.RepInv rw (r_log r) -> r_batch_append r = false ->
  maybe_send_append r to pr ae = Ok (r', pr', true) ->
  r_msgs r' = r_msgs r ++ [m] -> m_type m = MsgAppend ->
  RaftLogProofs.ll_term (RaftLogProofs.abs (r_log r)) (m_index m) = SOk (m_log_term m) /\
  (RaftLogProofs.ll_first (RaftLogProofs.abs (r_log r)) <= m_index m + 1 ->
   forall k e, nth_error (m_entries m) k = Some e ->
     RaftLogProofs.ll_get (RaftLogProofs.abs (r_log r)) (m_index m + 1 + N.of_nat k) = Some e).
Proof.
  intros HR Hb H Hm Ht.
  destruct (append_entries_contiguous _ _ _ _ _ _ _ (RepInv_LogInv _ _ HR) Hb H Hm Ht) as (_ & Hf & _).
  destruct (maybe_send_append_shape _ _ _ _ _ _ Hb H) as (_ & m0 & E & _ & _ & _ & C).
  rewrite E in Hm. cbn in Hm. apply app_inv_head in Hm. inversion Hm; subst m0. clear Hm.
  destruct C as [(_ & Ht' & _)|(_ & _ & _ & Hnx & Hidx & Hterm & _)]; [rewrite Ht in Ht'; discriminate|].
  split.
  - rewrite (RaftLogProofs.term_abs rw _ _ HR) in Hterm. rewrite Hidx. inversion Hterm. reflexivity.
  - intros Hfirst k e Hk. rewrite <- (log_at_abs rw) by (exact HR || lia). apply Hf. exact Hk.
Qed.

(* ================================================================== *)
(* 5b. Batching (batch_append on): the merged message stays a slice      *)
(* ================================================================== *)

Lemma contig_last_idx l f :
  contiguous_from f l -> l <> [] -> last_idx l = f + N.of_nat (length l) - 1.
Proof.
  revert f. induction l as [|a t IH]; intros f Hc Hne; [congruence|].
  destruct Hc as [Ha Ht]. destruct t as [|b t'].
  - unfold last_idx. cbn. lia.
  - unfold last_idx in *. change (List.last (a :: b :: t') entry_default)
      with (List.last (b :: t') entry_default).
    rewrite (IH (f + 1) Ht ltac:(discriminate)). cbn [length]. lia.
Qed.

(* an append message that is a slice of log [l] anchored at (m_index, m_log_term) *)
Definition app_wf (l : raft_log) (m : msg) : Prop :=
  contiguous_from (m_index m + 1) (m_entries m) /\
  from_log l (m_index m + 1) (m_entries m) /\
  RaftLog.term l (m_index m) = Ok (SOk (m_log_term m)).

(* the continuity test of try_batching, spelled out *)
Lemma is_continuous_ents_spec m e0 et :
  is_continuous_ents m (e0 :: et) = true ->
  e_index e0 = (match m_entries m with [] => m_index m | _ => last_idx (m_entries m) end) + 1.
Proof.
  unfold is_continuous_ents, last_idx. intros H. apply N.eqb_eq in H.
  destruct (m_entries m); lia.
Qed.

(* merging contiguous entries that pass the continuity test into a contiguous
   message gives a contiguous message with the same anchor *)
Lemma merge_contiguous m ents lo :
  ents <> [] -> is_continuous_ents m ents = true ->
  contiguous_from (m_index m + 1) (m_entries m) -> contiguous_from lo ents ->
  lo = m_index m + 1 + N.of_nat (length (m_entries m)) /\
  contiguous_from (m_index m + 1) (m_entries m ++ ents).
Proof.
  intros Hne Hc Hm He. destruct ents as [|e0 et]; [congruence|].
  pose proof (is_continuous_ents_spec _ _ _ Hc) as Hi.
  destruct He as [He0 Het].
  assert (Hlo : lo = m_index m + 1 + N.of_nat (length (m_entries m))).
  { destruct (m_entries m) as [|a t] eqn:Em; [cbn; lia|].
    rewrite (contig_last_idx _ _ Hm ltac:(discriminate)) in Hi. cbn [length] in *. lia. }
  split; [exact Hlo|]. apply contig_app; [exact Hm|]. rewrite <- Hlo. split; assumption.
Qed.

Definition merged (r : raft) (m : msg) (ents : list entry) : msg :=
  m <| m_entries := m_entries m ++ ents |> <| m_commit := committed (r_log r) |>.

(* try_batching_contiguous: the message try_batching rewrites keeps its anchor
   (m_index, m_log_term), gets the current commit index, and -- if it was a
   slice of the leader's log and the new entries are one starting at [lo] --
   is again a slice of that log *)
Theorem try_batching_contiguous r to msgs pr ents msgs' pr' lo :
  try_batching r to msgs pr ents = Ok (msgs', pr', true) ->
  contiguous_from lo ents -> from_log (r_log r) lo ents ->
  exists pre m post, msgs = pre ++ m :: post /\ Forall (not_app_to to) pre /\
    m_type m = MsgAppend /\ m_to m = to /\
    msgs' = pre ++ merged r m ents :: post /\
    m_index (merged r m ents) = m_index m /\ m_log_term (merged r m ents) = m_log_term m /\
    m_commit (merged r m ents) = committed (r_log r) /\
    (ents <> [] -> contiguous_from (m_index m + 1) (m_entries m) ->
       lo = m_index m + 1 + N.of_nat (length (m_entries m)) /\
       contiguous_from (m_index m + 1) (m_entries (merged r m ents))) /\
    (app_wf (r_log r) m -> app_wf (r_log r) (merged r m ents)).
Proof.
  intros H Hc Hf.
  destruct (try_batching_true _ _ _ _ _ _ _ H) as (pre & m & post & A & B & C & D & F & G & K).
  exists pre, m, post. split; [exact A|]. split; [exact B|]. split; [exact C|]. split; [exact D|].
  split; [exact F|]. split; [reflexivity|]. split; [reflexivity|]. split; [reflexivity|].
  change (m_entries (merged r m ents)) with (m_entries m ++ ents).
  split.
  - intros Hne Hm. destruct (K Hne) as [Hcont _]. eapply merge_contiguous; eassumption.
  - intros (Hm & Hfm & Ht). unfold app_wf.
    change (m_entries (merged r m ents)) with (m_entries m ++ ents).
    change (m_index (merged r m ents)) with (m_index m).
    change (m_log_term (merged r m ents)) with (m_log_term m).
    destruct ents as [|e0 et]; [rewrite app_nil_r; auto|].
    destruct (K ltac:(discriminate)) as [Hcont _].
    destruct (merge_contiguous m (e0 :: et) lo ltac:(discriminate) Hcont Hm Hc) as (Hlo & Hc2).
    split; [exact Hc2|]. split; [|exact Ht].
    apply from_log_app; [exact Hfm|]. rewrite <- Hlo. exact Hf.
Qed.

(* at the level of maybe_send_append: a batched send rewrites one queued
   MsgAppend for [to]; under the log invariant, if that message was a slice of
   the current log it still is, with the current commit index *)
Theorem maybe_send_append_batched_wf r to pr ae r' pr' :
  LogInv (r_log r) -> sent_batched r to pr ae r' pr' ->
  exists pre m post ents, r_msgs r = pre ++ m :: post /\ Forall (not_app_to to) pre /\
    m_type m = MsgAppend /\ m_to m = to /\
    r' = r <| r_msgs := pre ++ merged r m ents :: post |> /\
    log_entries (r_log r) (next_idx pr) (Some (r_max_msg_size r)) = Ok (SOk ents) /\
    m_commit (merged r m ents) = committed (r_log r) /\
    (ents <> [] -> contiguous_from (m_index m + 1) (m_entries m) ->
       next_idx pr = m_index m + 1 + N.of_nat (length (m_entries m)) /\
       contiguous_from (m_index m + 1) (m_entries (merged r m ents))) /\
    (app_wf (r_log r) m -> app_wf (r_log r) (merged r m ents)).
Proof.
  intros HL (_ & _ & _ & t & ents & msgs' & _ & He & _ & Hb & ->).
  destruct (log_entries_spec _ _ _ _ HL He) as (Hc & Hf & _).
  destruct (try_batching_contiguous _ _ _ _ _ _ _ _ Hb Hc Hf)
    as (pre & m & post & A & B & C & D & F & _ & _ & G & K & W).
  exists pre, m, post, ents. rewrite F. auto 12.
Qed.

(* ================================================================== *)
(* 6. Heartbeats                                                        *)
(* ================================================================== *)

Definition hb_msg (r : raft) (to : N) (pr : progress) (ctx : option (list N)) : msg :=
  let m := msg_default <| m_to := to |> <| m_type := MsgHeartbeat |>
             <| m_commit := N.min (matched pr) (committed (r_log r)) |> in
  match ctx with Some c => m <| m_context := c |> | None => m end.

Lemma send_heartbeat_exact r to pr ctx :
  send_heartbeat r to pr ctx = Ok (r <| r_msgs := r_msgs r ++ [stamped r (hb_msg r to pr ctx)] |>).
Proof. unfold send_heartbeat. destruct ctx; rewrite send_plain by reflexivity; reflexivity. Qed.

(* Theorem 5: send_heartbeat never panics and queues exactly one MsgHeartbeat
   whose commit is min(matched, committed) *)
Theorem heartbeat_commit r to pr ctx :
  exists m, send_heartbeat r to pr ctx = Ok (r <| r_msgs := r_msgs r ++ [m] |>) /\
    m_type m = MsgHeartbeat /\ m_to m = to /\ m_from m = r_id r /\ m_term m = r_term r /\
    m_commit m = N.min (matched pr) (committed (r_log r)) /\
    m_commit m <= matched pr /\ m_commit m <= committed (r_log r) /\
    m_context m = (match ctx with Some c => c | None => [] end) /\
    m_entries m = [] /\ m_index m = 0 /\ m_log_term m = 0.
Proof.
  exists (stamped r (hb_msg r to pr ctx)). split; [apply send_heartbeat_exact|].
  destruct ctx; cbn; repeat split; lia.
Qed.

(* bcast_heartbeat: one such heartbeat per peer, nothing else changes *)
Definition is_heartbeat_of (r : raft) (ctx : option (list N)) (m : msg) : Prop :=
  exists pr, get_pr r (m_to m) = Some pr /\ m_to m <> r_id r /\
             m = stamped r (hb_msg r (m_to m) pr ctx).

Lemma hb_loop r ctx ids acc r' :
  for_each_peer ids (r_id r)
    (fun r0 id => match get_pr r0 id with
                  | Some pr => send_heartbeat r0 id pr ctx
                  | None => Panic site_pr_unwrap
                  end) (r <| r_msgs := r_msgs r ++ acc |>) = Ok r' ->
  exists new, r' = r <| r_msgs := r_msgs r ++ acc ++ new |> /\ Forall (is_heartbeat_of r ctx) new.
Proof.
  revert acc. induction ids as [|id rest IH]; intros acc H; cbn [for_each_peer] in H.
  - inversion H; subst. exists []. rewrite app_nil_r. split; [reflexivity|constructor].
  - change (r_id (r <| r_msgs := r_msgs r ++ acc |>)) with (r_id r) in H.
    destruct (id =? r_id r) eqn:Eid; [apply IH; exact H|].
    inv_bind H.
    change (get_pr (r <| r_msgs := r_msgs r ++ acc |>) id) with (get_pr r id) in Hx.
    destruct (get_pr r id) as [pr|] eqn:Epr; [|discriminate].
    rewrite send_heartbeat_exact in Hx. inversion Hx; subst x. clear Hx.
    cbn in H. rewrite <- app_assoc in H.
    change (stamped (r <| r_msgs := r_msgs r ++ acc |>) (hb_msg (r <| r_msgs := r_msgs r ++ acc |>) id pr ctx))
      with (stamped r (hb_msg r id pr ctx)) in H.
    destruct (IH (acc ++ [stamped r (hb_msg r id pr ctx)])) as (new & E & F).
    { rewrite <- H. reflexivity. }
    exists (stamped r (hb_msg r id pr ctx) :: new). split.
    + rewrite E. rewrite <- app_assoc. reflexivity.
    + constructor; [|exact F]. exists pr.
      assert (Hto : m_to (stamped r (hb_msg r id pr ctx)) = id) by (destruct ctx; reflexivity).
      rewrite Hto. split; [exact Epr|]. split; [apply N.eqb_neq; exact Eid|reflexivity].
Qed.

Theorem bcast_heartbeat_with_ctx_spec r ctx r' :
  bcast_heartbeat_with_ctx r ctx = Ok r' ->
  exists new, r' = r <| r_msgs := r_msgs r ++ new |> /\ Forall (is_heartbeat_of r ctx) new.
Proof.
  unfold bcast_heartbeat_with_ctx. intros H.
  destruct (hb_loop r ctx (pids (t_progress (r_prs r))) [] r') as (new & E & F).
  { rewrite <- H. f_equal. rewrite app_nil_r. destruct r; reflexivity. }
  exists new. split; [exact E|exact F].
Qed.

Lemma is_heartbeat_of_commit r ctx m :
  is_heartbeat_of r ctx m ->
  m_type m = MsgHeartbeat /\ m_commit m <= committed (r_log r) /\
  exists pr, get_pr r (m_to m) = Some pr /\ m_commit m = N.min (matched pr) (committed (r_log r))
             /\ m_commit m <= matched pr.
Proof.
  intros (pr & Hg & _ & E). rewrite E at 1 2. 
  assert (Hc : m_commit m = N.min (matched pr) (committed (r_log r))) by (rewrite E; destruct ctx; reflexivity).
  split; [destruct ctx; reflexivity|]. split; [destruct ctx; cbn; lia|].
  exists pr. split; [exact Hg|]. split; [exact Hc|]. rewrite Hc. lia.
Qed.

(* ================================================================== *)
(* 7. Uncommitted-size accounting                                       *)
(* ================================================================== *)

(* Theorem 6a: the refusal condition, exactly *)
Theorem uncommitted_refused_iff r ents :
  snd (maybe_increase_uncommitted_size r ents) = false <->
  (r_max_uncommitted_size r <> NO_LIMIT /\ data_size ents <> 0 /\ r_uncommitted_size r <> 0 /\
   r_max_uncommitted_size r < data_size ents + r_uncommitted_size r).
Proof.
  unfold maybe_increase_uncommitted_size, NO_LIMIT.
  destruct (r_max_uncommitted_size r =? u64_max) eqn:E1; cbn [snd].
  - split; [discriminate|]. intros (H & _). lia.
  - destruct (data_size ents =? 0) eqn:E2; cbn [orb snd]; [split; [discriminate|lia]|].
    destruct (r_uncommitted_size r =? 0) eqn:E3; cbn [orb snd]; [split; [discriminate|lia]|].
    destruct (data_size ents + r_uncommitted_size r <=? r_max_uncommitted_size r) eqn:E4;
      cbn [snd]; [split; [discriminate|lia]|].
    split; [intros _; lia|reflexivity].
Qed.

(* Theorem 6b: the effect *)
Theorem uncommitted_effect r ents r' ok :
  maybe_increase_uncommitted_size r ents = (r', ok) ->
  (ok = false -> r' = r) /\
  (ok = true ->
     (r_max_uncommitted_size r = NO_LIMIT /\ r' = r) \/
     (r_max_uncommitted_size r <> NO_LIMIT /\
      r' = r <| r_uncommitted_size := r_uncommitted_size r + data_size ents |>)).
Proof.
  unfold maybe_increase_uncommitted_size, NO_LIMIT.
  destruct (r_max_uncommitted_size r =? u64_max) eqn:E1.
  - intros H; inversion H; subst. split; [discriminate|]. intros _. left. split; [lia|reflexivity].
  - match goal with |- (if ?c then _ else _) = _ -> _ => destruct c end;
      intros H; inversion H; subst.
    + split; [discriminate|]. intros _. right. split; [lia|reflexivity].
    + split; [reflexivity|discriminate].
Qed.

(* Theorem 6c: consequences.  Empty payloads are never refused; one proposal
   is always admitted when nothing is outstanding; otherwise an admitted
   proposal keeps the total within max_uncommitted_size. *)
Theorem uncommitted_bound r ents r' ok :
  maybe_increase_uncommitted_size r ents = (r', ok) ->
  (data_size ents = 0 -> ok = true /\ r_uncommitted_size r' = r_uncommitted_size r) /\
  (r_uncommitted_size r = 0 -> ok = true) /\
  (ok = true -> r_max_uncommitted_size r <> NO_LIMIT ->
     r_uncommitted_size r' = r_uncommitted_size r + data_size ents /\
     (data_size ents = 0 \/ r_uncommitted_size r = 0 \/
      r_uncommitted_size r' <= r_max_uncommitted_size r)) /\
  (ok = false -> r' = r) /\
  r_max_uncommitted_size r' = r_max_uncommitted_size r.
Proof.
  intros H.
  pose proof (uncommitted_refused_iff r ents) as Hiff. rewrite H in Hiff. cbn [snd] in Hiff.
  destruct (uncommitted_effect _ _ _ _ H) as (Hf & Ht).
  split; [|split; [|split; [|split]]].
  - intros Hz. assert (ok = true) as -> by (destruct ok; [reflexivity|]; destruct Hiff as [A _]; specialize (A eq_refl); lia).
    split; [reflexivity|]. destruct (Ht eq_refl) as [(_ & ->)|(_ & ->)]; [reflexivity|]. cbn. lia.
  - intros Hz. destruct ok; [reflexivity|]. destruct Hiff as [A _]. specialize (A eq_refl). lia.
  - intros -> Hlim. destruct (Ht eq_refl) as [(A & _)|(_ & ->)]; [congruence|]. cbn.
    split; [reflexivity|].
    destruct (N.eq_dec (data_size ents) 0) as [|Hd]; [left; assumption|].
    destruct (N.eq_dec (r_uncommitted_size r) 0) as [|Hu]; [right; left; assumption|].
    right; right.
    destruct (N.le_gt_cases (r_uncommitted_size r + data_size ents) (r_max_uncommitted_size r)) as [L|G];
      [exact L|].
    destruct Hiff as [_ B]. assert (true = false) by (apply B; repeat split; try assumption; lia).
    discriminate.
  - exact Hf.
  - destruct ok; [destruct (Ht eq_refl) as [(_ & ->)|(_ & ->)]; reflexivity|rewrite (Hf eq_refl); reflexivity].
Qed.

(* Theorem 6d: releasing.  Only a leader's counter is touched, it never
   underflows (saturates at 0), never grows, and nothing else changes. *)
Theorem reduce_uncommitted_spec r ents :
  let r' := reduce_uncommitted_size r ents in
  (is_leader r = false -> r' = r) /\
  (r_max_uncommitted_size r = NO_LIMIT -> r' = r) /\
  (ents = [] -> r' = r) /\
  (r' = r \/
   r' = r <| r_uncommitted_size :=
             r_uncommitted_size r - data_size (skip_le_tail ents (r_last_log_tail_index r)) |>) /\
  r_uncommitted_size r' <= r_uncommitted_size r /\
  (is_leader r = true -> r_max_uncommitted_size r <> NO_LIMIT -> ents <> [] ->
   r_uncommitted_size r' =
     r_uncommitted_size r - data_size (skip_le_tail ents (r_last_log_tail_index r))).
Proof.
  cbv zeta. unfold reduce_uncommitted_size, NO_LIMIT.
  destruct (is_leader r) eqn:El; cbn [negb].
  2:{ repeat split; auto; try lia; intros; try discriminate. }
  destruct (r_max_uncommitted_size r =? u64_max) eqn:Em; cbn [orb].
  { repeat split; auto; try lia; intros; try lia. }
  destruct ents as [|e0 et].
  { repeat split; auto; try lia; intros; try congruence. }
  set (sz := data_size (skip_le_tail (e0 :: et) (r_last_log_tail_index r))). clearbody sz.
  destruct (r_uncommitted_size r <? sz) eqn:Elt.
  - split; [discriminate|]. split; [lia|]. split; [discriminate|].
    split; [right; replace (r_uncommitted_size r - sz) with 0 by lia; reflexivity|].
    cbn. split; [lia|]. intros _ _ _. lia.
  - split; [discriminate|]. split; [lia|]. split; [discriminate|].
    split; [right; reflexivity|]. cbn. split; [lia|]. intros _ _ _. reflexivity.
Qed.
