From RV Require Import Base.Prelude M.Inflights.
