(* Proofs about the Inflights model: it refines a bounded FIFO under every
   sequence of operations (C18). *)
From RV Require Import Base.Prelude M.Inflights.
From Coq Require Import Sorting.Sorted.

(* ------------------------------------------------------------------ *)
(* The abstract specification: a bounded FIFO with a deferred capacity. *)

Record fifo := mkFifo { q : list N; fcap : nat; pending : option nat }.

Fixpoint dropwhile_le (to : N) (l : list N) : list N :=
  match l with
  | [] => []
  | b :: t => if (to <? b)%N then l else dropwhile_le to t
  end.

Definition settle (f : fifo) : fifo :=
  match q f, pending f with
  | [], Some c => mkFifo [] c None
  | _, _ => f
  end.

Definition snew (c : nat) : fifo := mkFifo [] c None.

Definition sfull (f : fifo) : bool :=
  (length (q f) =? fcap f) ||
  match pending f with Some c => c <=? length (q f) | None => false end.

Definition sfree_to (f : fifo) (to : N) : fifo :=
  settle (mkFifo (dropwhile_le to (q f)) (fcap f) (pending f)).

Definition sstep (f : fifo) (o : op) : fifo :=
  match o with
  | OAdd x => mkFifo (q f ++ [x]) (fcap f) (pending f)
  | OFreeTo to => sfree_to f to
  | OFreeFirst => match q f with [] => f | b :: _ => sfree_to f b end
  | OReset => mkFifo [] (match pending f with Some c => c | None => fcap f end) None
  | OSetCap c =>
      match Nat.compare (fcap f) c with
      | Eq => mkFifo (q f) (fcap f) None
      | Lt => mkFifo (q f) c None
      | Gt => match q f with
              | [] => mkFifo [] c None
              | _ => mkFifo (q f) (fcap f) (Some c)
              end
      end
  | OMaybeFree => f
  end.

(* ------------------------------------------------------------------ *)
(* Abstraction function: the [count] elements from [start], modulo [cap]. *)

Definition pos (c st k : nat) : nat := if c <=? st + k then st + k - c else st + k.

Definition ring (buf : list N) (c st n : nat) : list N :=
  map (fun k => nth (pos c st k) buf 0%N) (seq 0 n).

Definition abs (s : inflights) : list N := ring (buffer s) (cap s) (start s) (count s).

Definition abs_state (s : inflights) : fifo := mkFifo (abs s) (cap s) (incoming_cap s).

Definition Inv (s : inflights) : Prop :=
  count s <= cap s /\
  (start s < cap s \/ start s = 0) /\
  length (buffer s) <= cap s /\
  (cap s < start s + count s -> length (buffer s) = cap s) /\
  (start s + count s <= cap s -> start s + count s <= length (buffer s)) /\
  (forall c, incoming_cap s = Some c -> c < cap s /\ 0 < count s) /\
  (allocated s = false -> buffer s = []).

(* ------------------------------------------------------------------ *)
(* Generic list lemmas *)

Lemma upd_length {A} (l : list A) i a : length (upd l i a) = length l.
Proof. revert i; induction l as [|h t IH]; intros [|i]; cbn; auto. Qed.

Lemma nth_upd_eq {A} (l : list A) i a d : i < length l -> nth i (upd l i a) d = a.
Proof. revert i; induction l as [|h t IH]; intros [|i] H; cbn in *; try lia; auto. apply IH; lia. Qed.

Lemma nth_upd_neq {A} (l : list A) i j a d : i <> j -> nth j (upd l i a) d = nth j l d.
Proof.
  revert i j; induction l as [|h t IH]; intros [|i] [|j] H; cbn; auto; try lia.
Qed.

Lemma ring_length buf c st n : length (ring buf c st n) = n.
Proof. unfold ring. rewrite map_length, seq_length. reflexivity. Qed.

Lemma ring_ext buf buf' c c' st st' n :
  (forall k, k < n -> nth (pos c st k) buf 0%N = nth (pos c' st' k) buf' 0%N) ->
  ring buf c st n = ring buf' c' st' n.
Proof.
  intros H. unfold ring. apply map_ext_in. intros k Hk. apply in_seq in Hk. apply H. lia.
Qed.

Lemma ring_S buf c st n :
  ring buf c st (S n) = ring buf c st n ++ [nth (pos c st n) buf 0%N].
Proof. unfold ring. rewrite seq_S, map_app. reflexivity. Qed.

Ltac case_leb :=
  repeat match goal with
  | |- context [?a <=? ?b] => destruct (Nat.leb_spec a b)
  | |- context [?a <? ?b] => destruct (Nat.ltb_spec a b)
  | |- context [?a =? ?b] => destruct (Nat.eqb_spec a b)
  end; try lia.

Lemma pos_pos c st j k :
  st < c -> j + k <= c -> k < c \/ k = 0 -> pos c (pos c st j) k = pos c st (j + k).
Proof.
  intros Hst Hjk Hk. unfold pos.
  destruct (c <=? st + j) eqn:E1; destruct (c <=? st + (j + k)) eqn:E2;
    try destruct (c <=? st + j - c + k) eqn:E3; try destruct (c <=? st + j + k) eqn:E4; lia.
Qed.

Lemma pos_lt c st k : st < c -> k <= c -> pos c st k < c.
Proof. intros. unfold pos. destruct (c <=? st + k) eqn:E; lia. Qed.

Lemma pos_0 c st : st < c \/ st = 0 -> pos c st 0 = st.
Proof. intros H. unfold pos. destruct (c <=? st + 0) eqn:E; lia. Qed.

Lemma pos_inj c st k k' : st < c -> k < c -> k' < c -> pos c st k = pos c st k' -> k = k'.
Proof.
  intros Hst Hk Hk'. unfold pos.
  destruct (c <=? st + k) eqn:E1; destruct (c <=? st + k') eqn:E2; lia.
Qed.

Lemma seq_shift_add i n : seq i n = map (fun k => i + k) (seq 0 n).
Proof.
  revert i. induction n as [|n IH]; intros i; [reflexivity|].
  cbn [seq map]. rewrite Nat.add_0_r. f_equal.
  rewrite (IH (S i)), <- seq_shift, map_map.
  apply map_ext. intros k. lia.
Qed.

Lemma ring_shift buf c st j n :
  st < c -> j + n <= c ->
  ring buf c (pos c st j) n = map (fun k => nth (pos c st k) buf 0%N) (seq j n).
Proof.
  intros Hst Hjn. unfold ring. rewrite (seq_shift_add j n), map_map.
  apply map_ext_in. intros k Hk. apply in_seq in Hk.
  rewrite pos_pos; auto; lia.
Qed.

(* ------------------------------------------------------------------ *)
(* free_to's loop computes dropwhile on the ring *)

Lemma idx_ok {A} (l : list A) i s d : i < length l -> idx l i s = Ok (nth i l d).
Proof. intros H. unfold idx. rewrite (nth_error_nth' l d H). reflexivity. Qed.

Lemma free_loop_spec buf c st to : forall fuel i,
  st < c -> i + fuel <= c ->
  (forall k, k < i + fuel -> pos c st k < length buf) ->
  exists j, j <= fuel /\
    free_loop buf c to fuel i (pos c st i) = Ok (i + j, pos c st (i + j)) /\
    dropwhile_le to (map (fun k => nth (pos c st k) buf 0%N) (seq i fuel)) =
    map (fun k => nth (pos c st k) buf 0%N) (seq (i + j) (fuel - j)).
Proof.
  induction fuel as [|fuel IH]; intros i Hst Hle Hin.
  - exists 0. cbn. rewrite Nat.add_0_r. auto.
  - cbn [free_loop seq map dropwhile_le].
    rewrite (idx_ok buf (pos c st i) site_free_index 0%N) by (apply Hin; lia).
    cbn [bind].
    destruct (to <? nth (pos c st i) buf 0)%N eqn:Elt.
    + exists 0. rewrite Nat.add_0_r, Nat.sub_0_r. cbn [seq map]. auto with arith.
    + assert (Hw : (if c <=? S (pos c st i) then S (pos c st i) - c else S (pos c st i))
                   = pos c st (S i)).
      { unfold pos. case_leb. }
      rewrite Hw.
      destruct (IH (S i)) as (j & Hj & Hl & Hd); try lia.
      { intros k Hk. apply Hin. lia. }
      exists (S j). split; [lia|]. replace (i + S j) with (S i + j) by lia. split.
      * exact Hl.
      * rewrite Hd. reflexivity.
Qed.

Lemma dropwhile_le_spec to l :
  exists removed, l = removed ++ dropwhile_le to l /\
    Forall (fun b => (b <= to)%N) removed /\
    match dropwhile_le to l with [] => True | b :: _ => (to < b)%N end.
Proof.
  induction l as [|b t IH].
  - exists []. cbn. auto.
  - cbn [dropwhile_le]. destruct (to <? b)%N eqn:E.
    + exists []. cbn. split; [reflexivity|]. split; [constructor|]. lia.
    + destruct IH as (r & Hr & Hf & Hh). exists (b :: r). cbn. split; [congruence|].
      split; [constructor; [lia|assumption]|assumption].
Qed.

(* ------------------------------------------------------------------ *)
(* Invariant facts *)

Lemma Inv_pos_lt s k : Inv s -> k < count s -> pos (cap s) (start s) k < length (buffer s).
Proof.
  intros (Hc & Hs & Hl & Hw & Hn & _) Hk. unfold pos.
  destruct (cap s <=? start s + k) eqn:E.
  - assert (length (buffer s) = cap s) by (apply Hw; lia). lia.
  - destruct (Nat.le_gt_cases (start s + count s) (cap s)) as [H|H].
    + specialize (Hn H). lia.
    + assert (length (buffer s) = cap s) by (apply Hw; lia). lia.
Qed.

Lemma Inv_new c : Inv (new c).
Proof.
  unfold Inv, new; cbn.
  split; [lia|]. split; [destruct c; lia|]. split; [lia|]. split; [lia|]. split; [lia|].
  split; [intros ? H; discriminate|]. reflexivity.
Qed.

Lemma abs_new c : abs_state (new c) = snew c.
Proof. reflexivity. Qed.

Lemma full_sfull s : full s = sfull (abs_state s).
Proof. unfold full, sfull, abs_state, abs; cbn. rewrite ring_length. reflexivity. Qed.

Lemma count_abs s : count s = length (abs s).
Proof. unfold abs. rewrite ring_length. reflexivity. Qed.

(* ------------------------------------------------------------------ *)
(* Per-operation refinement *)

Definition refines_step (s : inflights) (o : op) : Prop :=
  exists s', step s o = Ok s' /\ Inv s' /\ abs_state s' = sstep (abs_state s) o.

Lemma ring_0 buf c st : ring buf c st 0 = [].
Proof. reflexivity. Qed.

Lemma reset_refines s : Inv s -> refines_step s OReset.
Proof.
  intros HI. exists (reset s). split; [reflexivity|]. split.
  - unfold Inv, reset; cbn.
    split; [lia|]. split; [lia|]. split; [lia|]. split; [lia|]. split; [lia|].
    split; [intros ? H; discriminate|]. reflexivity.
  - reflexivity.
Qed.

Lemma maybe_free_refines s : Inv s -> refines_step s OMaybeFree.
Proof.
  intros HI. exists (maybe_free_buffer s). split; [reflexivity|].
  unfold maybe_free_buffer. destruct (Nat.eqb_spec (count s) 0) as [E|E].
  - destruct HI as (Hc & Hs & Hl & Hw & Hn & Hi & Ha). split.
    + unfold Inv; cbn.
      split; [lia|]. split; [lia|]. split; [lia|]. split; [lia|]. split; [lia|].
      split; [intros c Hc'; specialize (Hi c Hc'); lia|]. reflexivity.
    + unfold abs_state, abs; cbn. rewrite E. reflexivity.
  - split; [assumption|reflexivity].
Qed.

Lemma nth_skipn {A} (l : list A) n k d : nth k (skipn n l) d = nth (n + k) l d.
Proof.
  revert l; induction n as [|n IH]; intros l; [reflexivity|].
  destruct l as [|h t]; cbn [skipn]; [destruct k; reflexivity|]. apply IH.
Qed.

Lemma nth_firstn {A} (l : list A) n k d : k < n -> nth k (firstn n l) d = nth k l d.
Proof.
  revert l k; induction n as [|n IH]; intros l k H; [lia|].
  destruct l as [|h t]; [reflexivity|]. destruct k as [|k]; [reflexivity|].
  cbn. apply IH. lia.
Qed.

Lemma set_cap_refines s ic : Inv s -> refines_step s (OSetCap ic).
Proof.
  intros HI. pose proof HI as (Hc & Hs & Hl & Hw & Hn & Hi & Ha).
  unfold refines_step. cbn [step]. unfold set_cap, sstep, abs_state at 2. cbn [fcap q pending].
  destruct (Nat.compare_spec (cap s) ic) as [E|E|E].
  - (* equal *)
    eexists. split; [reflexivity|]. split.
    + unfold Inv; cbn. repeat (split; [assumption|]). split; [intros ? H; discriminate|assumption].
    + reflexivity.
  - (* grow *)
    destruct (Nat.leb_spec (start s + count s) (cap s)) as [Hnw|Hwr].
    + eexists. split; [reflexivity|]. split.
      * unfold Inv; cbn.
        split; [lia|]. split; [lia|]. split; [lia|]. split; [lia|]. split; [intros _; apply Hn; lia|].
        split; [intros ? H; discriminate|assumption].
      * unfold abs_state, abs; cbn. f_equal. apply ring_ext. intros k Hk. unfold pos. case_leb.
    + assert (Hlen : length (buffer s) = cap s) by (apply Hw; lia).
      assert (Hst : start s < cap s) by lia.
      rewrite Hlen, Nat.eqb_refl. cbn [negb].
      destruct (Nat.ltb_spec (cap s) (start s)); [lia|].
      destruct (Nat.ltb_spec (count s) (cap s - start s)); [lia|].
      destruct (Nat.ltb_spec (cap s) (count s - (cap s - start s))); [lia|].
      eexists. split; [reflexivity|].
      assert (Hbl : length (skipn (start s) (buffer s)
                            ++ firstn (count s - (cap s - start s)) (buffer s)) = count s).
      { rewrite app_length, skipn_length, firstn_length. lia. }
      split.
      * unfold Inv; cbn [start count buffer cap incoming_cap allocated]. rewrite Hbl.
        split; [lia|]. split; [lia|]. split; [lia|]. split; [lia|]. split; [lia|].
        split; [intros ? H'; discriminate|].
        destruct (Nat.ltb_spec 0 ic); [discriminate|lia].
      * unfold abs_state, abs; cbn [start count buffer cap incoming_cap]. f_equal.
        apply ring_ext. intros k Hk.
        assert (Hp0 : pos ic 0 k = k) by (unfold pos; case_leb). rewrite Hp0.
        destruct (Nat.lt_ge_cases k (cap s - start s)) as [Hk1|Hk1].
        -- rewrite app_nth1 by (rewrite skipn_length; lia).
           rewrite nth_skipn. f_equal. unfold pos. case_leb.
        -- rewrite app_nth2 by (rewrite skipn_length; lia).
           rewrite skipn_length, Hlen.
           rewrite nth_firstn by lia. f_equal. unfold pos. case_leb.
  - (* shrink *)
    destruct (Nat.eqb_spec (count s) 0) as [E0|E0].
    + eexists. split; [reflexivity|]. split.
      * unfold Inv; cbn [start count buffer cap incoming_cap allocated].
        assert (Hb : (if allocated s then [] else buffer s) = []).
        { destruct (allocated s); [reflexivity|]. apply Ha. reflexivity. }
        rewrite Hb. cbn [length].
        split; [lia|]. split; [lia|]. split; [lia|]. split; [lia|]. split; [lia|].
        split; [intros ? H'; discriminate|]. reflexivity.
      * unfold abs_state, abs; cbn [start count buffer cap incoming_cap]. rewrite E0. reflexivity.
    + eexists. split; [reflexivity|]. split.
      * unfold Inv; cbn [start count buffer cap incoming_cap allocated].
        repeat (split; [assumption|]). split; [|assumption].
        intros c Hc'. inversion Hc'; subst. lia.
      * unfold abs_state, abs; cbn [start count buffer cap incoming_cap].
        destruct (count s) as [|n] eqn:En; [lia|]. rewrite ring_S.
        destruct (ring (buffer s) (cap s) (start s) n); reflexivity.
Qed.

Lemma add_refines s x : Inv s -> full s = false -> refines_step s (OAdd x).
Proof.
  intros HI Hfull. pose proof HI as (Hc & Hs & Hl & Hw & Hn & Hi & Ha).
  unfold refines_step. cbn [step]. unfold add. rewrite Hfull.
  assert (Hcnt : count s < cap s).
  { unfold full in Hfull. apply orb_false_iff in Hfull. destruct Hfull as [H1 _].
    apply Nat.eqb_neq in H1. lia. }
  (* the lazily (re)allocated state has the same fields as s, except [allocated] *)
  assert (Hs1 : exists al,
    (if allocated s then Ok s
     else if negb (count s =? 0) then Panic site_add_dbg_count
     else if negb (start s =? 0) then Panic site_add_dbg_start
     else match incoming_cap s with
          | Some _ => Panic site_add_dbg_incoming
          | None => Ok (mkInf (start s) (count s) [] (cap s) None (0 <? cap s))
          end) = Ok (mkInf (start s) (count s) (buffer s) (cap s) (incoming_cap s) al)
    /\ al = true).
  { destruct (allocated s) eqn:Eal.
    - exists true. split; [destruct s; cbn in *; subst; reflexivity|reflexivity].
    - specialize (Ha eq_refl). rewrite Ha in *. cbn [length] in *.
      assert (count s = 0 /\ start s = 0) as [Hc0 Hs0].
      { destruct (Nat.le_gt_cases (start s + count s) (cap s)) as [H|H].
        - specialize (Hn H). lia.
        - specialize (Hw H). lia. }
      rewrite Hc0, Hs0. cbn [Nat.eqb negb].
      destruct (incoming_cap s) as [c|] eqn:Eic.
      + destruct (Hi c eq_refl). lia.
      + exists (0 <? cap s). split; [reflexivity|]. apply Nat.ltb_lt. lia. }
  destruct Hs1 as (al & -> & ->). cbn [bind start count buffer cap incoming_cap allocated].
  set (next := if cap s <=? start s + count s then start s + count s - cap s else start s + count s).
  assert (Hnext : next = pos (cap s) (start s) (count s)) by reflexivity.
  assert (Hnlt : next < cap s) by (rewrite Hnext; apply pos_lt; lia).
  assert (Hnle : next <= length (buffer s)).
  { subst next. destruct (Nat.leb_spec (cap s) (start s + count s)) as [H|H].
    - destruct (Nat.eq_dec (start s + count s) (cap s)) as [He|He].
      + assert (start s + count s <= length (buffer s)) by (apply Hn; lia). lia.
      + assert (length (buffer s) = cap s) by (apply Hw; lia). lia.
    - apply Hn. lia. }
  destruct (Nat.ltb_spec (length (buffer s)) next) as [Hbad|_]; [lia|].
  eexists. split; [reflexivity|].
  set (buf' := if next =? length (buffer s) then buffer s ++ [x] else upd (buffer s) next x).
  assert (Hlen' : length buf' = if next =? length (buffer s) then S (length (buffer s))
                                else length (buffer s)).
  { subst buf'. destruct (next =? length (buffer s)).
    - rewrite app_length. cbn. lia.
    - apply upd_length. }
  assert (Hnth : nth next buf' 0%N = x).
  { subst buf'. destruct (Nat.eqb_spec next (length (buffer s))) as [E|E].
    - rewrite app_nth2 by lia. rewrite E, Nat.sub_diag. reflexivity.
    - apply nth_upd_eq. lia. }
  assert (Hold : forall k, k < count s ->
            nth (pos (cap s) (start s) k) buf' 0%N = nth (pos (cap s) (start s) k) (buffer s) 0%N).
  { intros k Hk. pose proof (Inv_pos_lt s k HI Hk) as Hpl.
    assert (Hne : next <> pos (cap s) (start s) k).
    { rewrite Hnext. intros Heq. apply pos_inj in Heq; lia. }
    subst buf'. destruct (Nat.eqb_spec next (length (buffer s))) as [E|E].
    - apply app_nth1. assumption.
    - apply nth_upd_neq. assumption. }
  split.
  - unfold Inv; cbn [start count buffer cap incoming_cap allocated]. fold buf'. rewrite Hlen'.
    split; [lia|]. split; [assumption|].
    split; [destruct (Nat.eqb_spec next (length (buffer s))); lia|].
    split.
    { intros Hwr. destruct (Nat.eqb_spec next (length (buffer s))) as [E|E].
      - subst next. destruct (Nat.leb_spec (cap s) (start s + count s)) as [H|H]; [|lia].
        destruct (Nat.eq_dec (start s + count s) (cap s)) as [He|He].
        + assert (start s + count s <= length (buffer s)) by (apply Hn; lia). lia.
        + assert (length (buffer s) = cap s) by (apply Hw; lia). lia.
      - destruct (Nat.eq_dec (start s + count s) (cap s)) as [He|He].
        + assert (start s + count s <= length (buffer s)) by (apply Hn; lia). lia.
        + apply Hw. lia. }
    split.
    { intros Hnw. assert (Hlt : start s + count s < cap s) by lia.
      assert (Hne : next = start s + count s).
      { subst next. destruct (Nat.leb_spec (cap s) (start s + count s)); lia. }
      destruct (Nat.eqb_spec next (length (buffer s))); lia. }
    split; [intros c Hc'; destruct (Hi c Hc'); lia|]. discriminate.
  - unfold abs_state, abs; cbn [start count buffer cap incoming_cap sstep q fcap pending].
    fold buf'. f_equal. rewrite ring_S. rewrite <- Hnext, Hnth. f_equal.
    apply ring_ext. assumption.
Qed.

Lemma settle_nonempty b t c p : settle (mkFifo (b :: t) c p) = mkFifo (b :: t) c p.
Proof. reflexivity. Qed.

Lemma free_to_refines s to : Inv s -> refines_step s (OFreeTo to).
Proof.
  intros HI. pose proof HI as (Hc & Hs & Hl & Hw & Hn & Hi & Ha).
  unfold refines_step. cbn [step sstep]. unfold free_to, sfree_to.
  change (fcap (abs_state s)) with (cap s).
  change (pending (abs_state s)) with (incoming_cap s).
  change (q (abs_state s)) with (abs s).
  destruct (Nat.eqb_spec (count s) 0) as [E0|E0].
  { exists s. split; [reflexivity|]. split; [assumption|].
    unfold abs_state, abs. rewrite E0. cbn [ring seq map dropwhile_le].
    destruct (incoming_cap s) as [c|] eqn:Eic; [destruct (Hi c eq_refl); lia|].
    reflexivity. }
  assert (Hst : start s < cap s) by lia.
  assert (Hp0 : pos (cap s) (start s) 0 = start s) by (apply pos_0; lia).
  assert (Hin : forall k, k < 0 + count s -> pos (cap s) (start s) k < length (buffer s)).
  { intros k Hk. apply Inv_pos_lt; [assumption|lia]. }
  rewrite (idx_ok (buffer s) (start s) site_free_index 0%N)
    by (rewrite <- Hp0; apply Hin; lia).
  cbn [bind].
  assert (Habs : abs s = nth (start s) (buffer s) 0%N
                         :: map (fun k => nth (pos (cap s) (start s) k) (buffer s) 0%N)
                                (seq 1 (count s - 1))).
  { unfold abs, ring. destruct (count s) as [|n]; [lia|]. cbn [seq map].
    rewrite Hp0, Nat.sub_succ, Nat.sub_0_r. reflexivity. }
  destruct (to <? nth (start s) (buffer s) 0)%N eqn:Elt.
  { exists s. split; [reflexivity|]. split; [assumption|].
    unfold abs_state. rewrite Habs. cbn [dropwhile_le]. rewrite Elt. reflexivity. }
  destruct (free_loop_spec (buffer s) (cap s) (start s) to (count s) 0 Hst ltac:(lia) Hin)
    as (j & Hj & Hloop & Hdrop).
  rewrite Hp0 in Hloop. rewrite Hloop. cbn [bind Nat.add].
  fold (ring (buffer s) (cap s) (start s) (count s)) in Hdrop. fold (abs s) in Hdrop.
  rewrite Hdrop. cbn [Nat.add].
  assert (Hixlt : pos (cap s) (start s) j < cap s) by (apply pos_lt; lia).
  destruct (Nat.eqb_spec (count s - j) 0) as [Ej|Ej].
  - rewrite Ej. cbn [seq map].
    destruct (incoming_cap s) as [ic|] eqn:Eic.
    + eexists. split; [reflexivity|]. split; [|reflexivity].
      unfold Inv; cbn.
      split; [lia|]. split; [lia|]. split; [lia|]. split; [lia|]. split; [lia|].
      split; [intros ? H'; discriminate|]. reflexivity.
    + eexists. split; [reflexivity|]. split; [|reflexivity].
      assert (j = count s) by lia. subst j.
      unfold Inv; cbn [start count buffer cap incoming_cap allocated].
      split; [lia|]. split; [lia|]. split; [assumption|]. split; [lia|].
      split.
      { intros _. rewrite Nat.add_0_r. unfold pos.
        destruct (Nat.leb_spec (cap s) (start s + count s)) as [H|H].
        - destruct (Nat.eq_dec (start s + count s) (cap s)) as [He|He]; [lia|].
          assert (length (buffer s) = cap s) by (apply Hw; lia). lia.
        - apply Hn. lia. }
      split; [intros ? H'; discriminate|assumption].
  - eexists. split; [reflexivity|].
    assert (Hpj : pos (cap s) (start s) j =
                  if cap s <=? start s + j then start s + j - cap s else start s + j) by reflexivity.
    split.
    + unfold Inv; cbn [start count buffer cap incoming_cap allocated].
      split; [lia|]. split; [lia|]. split; [assumption|].
      split.
      { intros Hwr. apply Hw. rewrite Hpj in Hwr.
        destruct (Nat.leb_spec (cap s) (start s + j)); lia. }
      split.
      { intros Hnw. rewrite Hpj in *.
        destruct (Nat.leb_spec (cap s) (start s + j)) as [H|H].
        - assert (length (buffer s) = cap s) by (apply Hw; lia). lia.
        - assert (start s + count s <= length (buffer s)) by (apply Hn; lia). lia. }
      split; [intros c Hc'; destruct (Hi c Hc'); lia|assumption].
    + unfold abs_state, abs; cbn [start count buffer cap incoming_cap].
      rewrite ring_shift by lia.
      destruct (count s - j) as [|n] eqn:En; [lia|]. cbn [seq map]. reflexivity.
Qed.

Lemma free_first_refines s : Inv s -> refines_step s OFreeFirst.
Proof.
  intros HI. pose proof HI as (Hc & Hs & Hl & Hw & Hn & Hi & Ha).
  unfold refines_step. cbn [step sstep]. unfold free_first_one.
  destruct (Nat.ltb_spec 0 (count s)) as [Hpos|Hz].
  - assert (Hp0 : pos (cap s) (start s) 0 = start s) by (apply pos_0; lia).
    rewrite (idx_ok (buffer s) (start s) site_first_index 0%N)
      by (rewrite <- Hp0; apply Inv_pos_lt; assumption).
    cbn [bind].
    assert (Habs : exists t, abs s = nth (start s) (buffer s) 0%N :: t).
    { unfold abs, ring. destruct (count s) as [|n]; [lia|]. cbn [seq map]. rewrite Hp0. eauto. }
    destruct Habs as (t & Habs). unfold abs_state at 2. cbn [q]. rewrite Habs.
    destruct (free_to_refines s (nth (start s) (buffer s) 0%N) HI) as (s' & H1 & H2 & H3).
    exists s'. split; [exact H1|]. split; [exact H2|]. rewrite H3. reflexivity.
  - exists s. split; [reflexivity|]. split; [assumption|].
    unfold abs_state, abs. assert (count s = 0) as -> by lia. reflexivity.
Qed.

(* ------------------------------------------------------------------ *)
(* Main theorems *)

Theorem step_refines s o :
  Inv s -> (forall x, o = OAdd x -> full s = false) -> refines_step s o.
Proof.
  intros HI Hadd. destruct o as [x|x| | |c| ].
  - apply add_refines; [assumption|]. apply (Hadd x). reflexivity.
  - apply free_to_refines; assumption.
  - apply free_first_refines; assumption.
  - apply reset_refines; assumption.
  - apply set_cap_refines; assumption.
  - apply maybe_free_refines; assumption.
Qed.

Theorem add_full_panics s x : full s = true -> add s x = Panic site_add_full.
Proof. intros H. unfold add. rewrite H. reflexivity. Qed.

(* A history is valid when every add happens on a window that is not full
   (the documented precondition of [add]); everything else is unrestricted. *)
Fixpoint valid_hist (f : fifo) (ops : list op) : Prop :=
  match ops with
  | [] => True
  | o :: rest =>
      match o with OAdd _ => sfull f = false | _ => True end /\ valid_hist (sstep f o) rest
  end.

Theorem inflights_history_from s ops :
  Inv s -> valid_hist (abs_state s) ops ->
  exists s', run s ops = Ok s' /\ Inv s' /\ abs_state s' = fold_left sstep ops (abs_state s).
Proof.
  revert s. induction ops as [|o rest IH]; intros s HI Hv.
  - exists s. cbn. auto.
  - destruct Hv as [Ho Hrest].
    destruct (step_refines s o HI) as (s1 & H1 & H2 & H3).
    { intros x ->. rewrite full_sfull. exact Ho. }
    rewrite <- H3 in Hrest. destruct (IH s1 H2 Hrest) as (s' & Hr & HI' & Ha').
    exists s'. cbn [run fold_left]. rewrite H1. cbn [bind]. rewrite <- H3. auto.
Qed.

Theorem inflights_history c ops :
  valid_hist (snew c) ops ->
  exists s, run (new c) ops = Ok s /\ Inv s /\
            abs_state s = fold_left sstep ops (snew c) /\
            count s = length (q (fold_left sstep ops (snew c))) /\
            full s = sfull (fold_left sstep ops (snew c)).
Proof.
  intros Hv. destruct (inflights_history_from (new c) ops (Inv_new c) Hv) as (s & H1 & H2 & H3).
  exists s. rewrite abs_new in H3.
  split; [exact H1|]. split; [exact H2|]. split; [exact H3|]. split.
  - rewrite <- H3. apply count_abs.
  - rewrite <- H3. apply full_sfull.
Qed.

(* ---- what the FIFO specification says (read these as the meaning of sstep) ---- *)

Lemma settle_q f : q (settle f) = q f.
Proof. unfold settle. destruct (q f) eqn:E; destruct (pending f); cbn; auto. Qed.

Theorem free_to_prefix f to :
  exists removed,
    q f = removed ++ q (sstep f (OFreeTo to)) /\
    Forall (fun b => (b <= to)%N) removed /\
    match q (sstep f (OFreeTo to)) with [] => True | b :: _ => (to < b)%N end.
Proof.
  cbn [sstep]. unfold sfree_to. rewrite settle_q. cbn [q]. apply dropwhile_le_spec.
Qed.

Theorem no_loss_set_cap f c : q (sstep f (OSetCap c)) = q f.
Proof.
  cbn [sstep]. destruct (Nat.compare (fcap f) c); try reflexivity.
  destruct (q f) eqn:E; cbn; auto.
Qed.

Theorem no_loss_maybe_free f : sstep f OMaybeFree = f.
Proof. reflexivity. Qed.

Theorem add_appends f x : q (sstep f (OAdd x)) = q f ++ [x].
Proof. reflexivity. Qed.

(* a smaller capacity governs fullness immediately ... *)
Theorem shrink_governs_full f c :
  c < fcap f -> length (q f) <= fcap f ->
  sfull (sstep f (OSetCap c)) = (c <=? length (q f)).
Proof.
  intros Hlt Hlen. cbn [sstep].
  destruct (Nat.compare_spec (fcap f) c) as [E|E|E]; try lia.
  destruct (q f) as [|b t] eqn:Eq; unfold sfull; cbn [q fcap pending length].
  - case_leb.
  - cbn [length] in Hlen. case_leb.
Qed.

(* ... and becomes the capacity no later than when the window drains *)
Theorem shrink_applied_on_drain f c o :
  pending f = Some c ->
  (o = OReset \/ (exists to, o = OFreeTo to) \/ o = OFreeFirst) ->
  q (sstep f o) = [] -> q f <> [] ->
  fcap (sstep f o) = c /\ pending (sstep f o) = None.
Proof.
  intros Hp Ho Hq Hne.
  destruct Ho as [Ho|[Ho|Ho]]; [subst o|destruct Ho as (to & Ho); subst o|subst o]; cbn [sstep] in *.
  - rewrite Hp. auto.
  - unfold sfree_to in *. rewrite settle_q in Hq. cbn [q] in Hq.
    unfold settle. cbn [q pending]. rewrite Hq, Hp. auto.
  - destruct (q f) as [|b t] eqn:Eq; [congruence|].
    unfold sfree_to in *. rewrite settle_q in Hq. cbn [q] in Hq.
    unfold settle. cbn [q pending]. rewrite Hq, Hp. auto.
Qed.

(* With strictly increasing contents (the way the leader uses the window:
   indexes are added in increasing order) free_first_one pops exactly the head. *)
Definition incr (l : list N) : Prop := StronglySorted N.lt l.

Lemma dropwhile_head_incr b t : incr (b :: t) -> dropwhile_le b (b :: t) = t.
Proof.
  intros H. inversion H as [|? ? Hs Hf]; subst. cbn [dropwhile_le].
  rewrite N.ltb_irrefl. destruct t as [|b' t']; [reflexivity|].
  cbn [dropwhile_le]. inversion Hf; subst. destruct (N.ltb_spec b b'); [reflexivity|lia].
Qed.

Theorem free_first_pops f :
  incr (q f) -> q (sstep f OFreeFirst) = tl (q f).
Proof.
  intros H. cbn [sstep]. destruct (q f) as [|b t] eqn:E; [rewrite E; reflexivity|].
  unfold sfree_to. rewrite settle_q. cbn [q]. rewrite E. apply dropwhile_head_incr. assumption.
Qed.

Lemma dropwhile_incr to l : incr l -> incr (dropwhile_le to l).
Proof.
  induction l as [|b t IH]; intros H; [constructor|].
  cbn [dropwhile_le]. destruct (to <? b)%N; [assumption|]. apply IH. inversion H; assumption.
Qed.

Lemma incr_snoc l x : incr l -> (forall b, In b l -> (b < x)%N) -> incr (l ++ [x]).
Proof.
  induction l as [|a t IH]; intros H Hx; cbn.
  - constructor; constructor.
  - inversion H as [|? ? Hs Hf]; subst. constructor.
    + apply IH; [assumption|]. intros b Hb. apply Hx. right. assumption.
    + apply Forall_app. split; [assumption|]. constructor; [|constructor]. apply Hx. left. reflexivity.
Qed.

(* histories whose adds are increasing keep the window strictly increasing *)
Fixpoint incr_hist (f : fifo) (ops : list op) : Prop :=
  match ops with
  | [] => True
  | o :: rest =>
      match o with OAdd x => forall b, In b (q f) -> (b < x)%N | _ => True end
      /\ incr_hist (sstep f o) rest
  end.

Theorem incr_preserved f o :
  incr (q f) ->
  match o with OAdd x => forall b, In b (q f) -> (b < x)%N | _ => True end ->
  incr (q (sstep f o)).
Proof.
  intros H Ho. destruct o as [x|to| | |c| ].
  - cbn [sstep q]. apply incr_snoc; assumption.
  - cbn [sstep]. unfold sfree_to. rewrite settle_q. cbn [q]. apply dropwhile_incr. assumption.
  - cbn [sstep]. destruct (q f) as [|b t] eqn:E; [rewrite E; assumption|].
    unfold sfree_to. rewrite settle_q. cbn [q]. rewrite E. apply dropwhile_incr. assumption.
  - cbn. constructor.
  - rewrite no_loss_set_cap. assumption.
  - assumption.
Qed.

(* non-vacuity: a wrapped-around ring state satisfying Inv, reached by a valid history *)
Example inv_wrapped_example :
  exists s, run (new 3) [OAdd 1%N; OAdd 2%N; OAdd 3%N; OFreeTo 2%N; OAdd 4%N; OSetCap 2] = Ok s
            /\ start s = 2 /\ count s = 2 /\ abs s = [3%N; 4%N] /\ incoming_cap s = Some 2
            /\ full s = true.
Proof. eexists. split; [vm_compute; reflexivity|]. vm_compute. auto. Qed.
