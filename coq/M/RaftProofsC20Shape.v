(* C20 extension: the LOG / STORAGE-SHAPE sites.
   With the RaftLog representation invariant lifted to the node (M/RaftProofsRepInv.v:
   LI rw r := RepInv rw (r_log r)) the calls of M/Raft.v and M/RawNode.v never return one of
   the [shape_sites] below.  Part 1: the RaftLog-level facts (leaf users), each derived from
   the component theorems of property C14 (M/RaftLogProofs*.v). *)
From RV Require Import Base.Prelude Base.IdSet M.Util M.UtilProofs M.Proto M.MemStorage
  M.MemStorageProofs M.Inflights M.Progress M.RaftLog M.Quorum M.ConfChange M.Msg M.Raft
  M.RawNode M.RaftProofs M.RaftLogProofs M.RaftLogProofsOps M.RaftLogProofsStore
  M.RaftLogProofsSlice M.RaftLogProofsHistory M.RaftProofsC20 M.RaftProofsC20Inv.
From RecordUpdate Require Import RecordSet.
Import RecordSetNotations.

Local Open Scope N_scope.

Notation RepInv := RaftLogProofs.RepInv.
Notation abs := RaftLogProofs.abs.

(* the sites excluded by the representation invariant *)
Definition shape_sites : list N :=
  [site_u_trunc_empty; site_u_slice_order; site_u_slice_bound; site_u_term_index;
   site_l_last_term; site_l_append_range; site_l_slice_order; site_l_slice_bound;
   site_l_slice_unavailable; site_l_next_entries; site_l_fuel; site_l_scan_empty;
   site_snapshot_err; site_req_snap_term;
   site_first_overflow; site_entries_last_overflow; site_entries_oob; site_entries_hi_underflow;
   site_entries_slice_order; site_entries_slice_end; site_term_index].

(* [nops x]: x is not a panic at a shape site *)
Definition nops {A} (x : Res A) : Prop :=
  match x with Ok _ => True | Panic s => ~ In s shape_sites end.

Lemma nops_ok {A} (a : A) : nops (Ok a). Proof. exact I. Qed.
Lemma nops_total {A} (x : Res A) : (exists a, x = Ok a) -> nops x.
Proof. intros [a ->]. exact I. Qed.
Lemma nops_only {A} (x : Res A) (L : list N) :
  (forall s, x = Panic s -> In s L) -> disj L shape_sites = true -> nops x.
Proof.
  intros H D. destruct x as [a|s]; [exact I|]. unfold nops.
  eapply disj_notin; [exact D|]. apply H. reflexivity.
Qed.
Lemma nops_panic_inv {A} (x : Res A) s : nops x -> x = Panic s -> ~ In s shape_sites.
Proof. intros H ->. exact H. Qed.
Lemma nops_bind {A B} (a : Res A) (f : A -> Res B) :
  nops a -> (forall x, a = Ok x -> nops (f x)) -> nops (bind a f).
Proof. destruct a as [x|s]; cbn [bind]; [intros _ H; apply H; reflexivity|intros H _; exact H]. Qed.

Lemma stamp_len es : forall t n, length (stamp es t n) = length es.
Proof. induction es as [|a b IH]; intros t n; cbn [stamp length]; [reflexivity|]. rewrite IH. reflexivity. Qed.
Lemma stamp_contiguous es : forall t n, contiguous_from n (stamp es t n).
Proof.
  induction es as [|a b IH]; intros t n; cbn [stamp contiguous_from]; [exact I|].
  split; [reflexivity|apply IH].
Qed.

(* ================================================================== *)
(* Part 1: RaftLog level *)
Section LogLevel.
Variable rw : bool.
Variable l : raft_log.
Hypothesis HI : RepInv rw l.

Lemma first_index_total : exists f, RaftLog.first_index l = Ok f /\ f = ll_first (abs l).
Proof. eexists. split; [apply (abs_base_first rw); exact HI|reflexivity]. Qed.

Lemma term_total i : exists v, RaftLog.term l i = Ok v.
Proof. eexists. apply (term_abs rw). exact HI. Qed.

Lemma match_term_total i t : exists b, match_term l i t = Ok b.
Proof. eexists. apply (match_term_abs rw). exact HI. Qed.

Lemma find_conflict_total ents : exists c, find_conflict l ents = Ok c.
Proof. eexists. apply (find_conflict_abs rw). exact HI. Qed.

(* an empty logical log has its boundary term: the storage answers term(snapshot index),
   and a pending snapshot carries its own *)
Lemma ents_or_bterm : ll_ents (abs l) <> [] \/ ll_bterm (abs l) <> None.
Proof.
  destruct HI as [Hs _ _ Hsh _ _ _ _]. unfold abs.
  destruct (u_snapshot (unst l)) as [s|]; cbn [ll_ents ll_bterm]; [right; discriminate|].
  destruct Hsh as (Hr & He & _).
  destruct (u_entries (unst l)) as [|e0 et] eqn:Eu.
  2:{ left. intros X. apply app_eq_nil in X. destruct X; discriminate. }
  specialize (He eq_refl). rewrite app_nil_r. unfold stable_part. rewrite He.
  destruct (entries (store l)) as [|s0 st] eqn:Ee.
  - right. unfold store_bterm, first_of. rewrite Ee.
    replace (snap_index (store l) + 1 - 1) with (snap_index (store l)) by lia.
    rewrite N.eqb_refl. discriminate.
  - left. unfold next_of. rewrite Ee. cbn [length].
    replace (N.to_nat (first_of (store l) + N.of_nat (S (length st)) - first_of (store l)))
      with (S (length st)) by lia.
    cbn [firstn]. discriminate.
Qed.

Lemma last_term_total : exists t, last_term l = Ok t.
Proof.
  rewrite (last_term_abs rw l HI).
  destruct (last_term_defined (abs l) ents_or_bterm) as [t ->]. eauto.
Qed.

Lemma is_up_to_date_total i t : exists b, is_up_to_date l i t = Ok b.
Proof. unfold is_up_to_date. destruct last_term_total as [lt ->]. cbn [bind]. eauto. Qed.

(* term at the last index is always known (site_req_snap_term) *)
Lemma term_at_last_ok : exists t, RaftLog.term l (last_index l) = Ok (SOk t).
Proof.
  rewrite (term_abs rw l _ HI), (abs_last rw l HI).
  destruct (last_term_defined (abs l) ents_or_bterm) as [t ->]. eauto.
Qed.

Lemma commit_info_only s : commit_info l = Panic s -> s = site_l_commit_info.
Proof.
  rewrite (commit_info_abs rw l HI). destruct (ll_term _ _); [discriminate|].
  intros H; injection H as <-. reflexivity.
Qed.

Lemma log_entries_total i max : exists v, log_entries l i max = Ok v.
Proof.
  destruct (N.le_gt_cases (ll_first (abs l)) i) as [H|H].
  - eexists. apply (log_entries_abs rw); assumption.
  - eexists. apply (log_entries_compacted rw); assumption.
Qed.

Lemma has_next_entries_since_total since :
  since < u64_max -> exists b, has_next_entries_since l since = Ok b.
Proof. intros H. eexists. apply (has_next_entries_since_abs rw); assumption. Qed.

Lemma next_entries_since_total since max :
  since < u64_max -> exists v, next_entries_since l since max = Ok v.
Proof. intros H. eexists. apply (next_entries_since_abs rw); assumption. Qed.

Lemma storage_term_total i : exists v, storage_term (store l) i = Ok v.
Proof. apply term_no_panic. exact (ri_store rw l HI). Qed.

Lemma maybe_persist_total i t : exists v, maybe_persist l i t = Ok v.
Proof. destruct (maybe_persist_ok rw l i t HI) as (l' & b & E & _). eauto. Qed.

(* find_conflict_by_term: only the u64 underflow of the decrement can remain *)
Lemma fcbt_loop_only fuel : forall ci t s,
  fcbt_loop l fuel ci t = Panic s -> s = site_l_fuel \/ s = site_l_underflow.
Proof.
  induction fuel as [|f IH]; intros ci t s H; cbn [fcbt_loop] in H.
  - injection H as <-. left; reflexivity.
  - destruct (term_total ci) as [v E]. rewrite E in H. cbn [bind] in H.
    destruct v as [t'|e]; [|discriminate].
    destruct (t <? t'); [|discriminate].
    destruct (ci =? 0); [injection H as <-; right; reflexivity|eapply IH; exact H].
Qed.

Lemma find_conflict_by_term_only i t s :
  find_conflict_by_term l i t = Panic s -> s = site_l_underflow.
Proof.
  intros H. pose proof (find_conflict_by_term_fuel_sufficient rw l i t HI) as F.
  unfold find_conflict_by_term in H, F. destruct (last_index l <? i); [discriminate|].
  destruct first_index_total as (f & E & _). rewrite E in H, F. cbn [bind] in H, F.
  destruct (fcbt_loop_only _ _ _ _ H) as [->| ->]; [contradiction|reflexivity].
Qed.

(* reading a range inside the log *)
Lemma slice_in_range lo hi page :
  ll_first (abs l) <= lo -> lo < hi -> hi <= ll_last (abs l) + 1 ->
  exists r, slice l lo hi (Some page) = Ok (SOk r) /\ r <> [] /\
            (length r <= N.to_nat (hi - lo))%nat.
Proof.
  intros H1 H2 H3.
  destruct (slice_limited rw l lo hi page HI H1 H2 H3) as (r & E & (k & Hk & ->) & Hne & _).
  exists (firstn k (ll_range (abs l) lo hi)). split; [exact E|]. split; [exact Hne|].
  rewrite firstn_length. rewrite ll_range_length in * by lia. lia.
Qed.

(* the conf-change scan of hup / maybe_commit_by_vote *)
Lemma scan_conf_total fuel : forall lo hi page,
  ll_first (abs l) <= lo -> hi <= ll_last (abs l) + 1 -> (N.to_nat (hi - lo) < fuel)%nat ->
  exists b, scan_conf l fuel lo hi page = Ok b.
Proof.
  induction fuel as [|f IH]; intros lo hi page H1 H3 Hf; [lia|].
  cbn [scan_conf]. destruct (lo <? hi) eqn:E; [|eauto].
  destruct (slice_in_range lo hi page H1 ltac:(lia) H3) as (r & Es & Hne & Hlen).
  rewrite Es. cbn [bind]. destruct r as [|e0 et]; [congruence|].
  destruct (existsb is_conf_entry (e0 :: et)); [eauto|].
  apply IH; [lia|exact H3|]. cbn [length] in *. lia.
Qed.

(* appending freshly stamped entries after the last index *)
Lemma log_append_stamp_total es t :
  last_index l + N.of_nat (length es) < u64_max ->
  exists v, log_append l (stamp es t (last_index l + 1)) = Ok v.
Proof.
  intros Hroom. destruct es as [|e et]; [cbn; eauto|].
  pose proof (abs_last rw l HI) as Hl.
  pose proof (stamp_contiguous (e :: et) t (last_index l + 1)) as Hc.
  pose proof (stamp_len (e :: et) t (last_index l + 1)) as Hlen.
  cbn [stamp] in *.
  pose proof (ri_commit rw l HI). pose proof (ri_persisted rw l HI) as [Hp _].
  pose proof (RaftLogProofsOps.ll_last_upper rw l HI) as Hup.
  edestruct (log_append_ok rw l (mkEntry (e_type e) t (last_index l + 1) (e_data e) (e_context e))
               (stamp et t (last_index l + 1 + 1)) HI) as (l' & E & _); cbn [e_index]; try lia.
  all: first [exact Hc|cbn [length] in *; lia|eexists; exact E].
Qed.

(* an inbound append whose entries are numbered consecutively and carry non-zero terms
   can only fail with the conflict-below-commit fatal *)
Lemma maybe_append_only i t cmt ents s :
  contiguous_from (i + 1) ents -> nz_terms ents -> (i <= ll_last (abs l) \/ t <> 0) ->
  i + N.of_nat (length ents) < u64_max ->
  maybe_append l i t cmt ents = Panic s -> s = site_l_append_conflict.
Proof.
  intros Hc Hnz Hit Hbd H.
  destruct (ll_match (abs l) i t) eqn:Em.
  2:{ rewrite (maybe_append_reject rw l i t cmt ents HI Em) in H. discriminate. }
  destruct (N.eq_dec (ll_find_conflict (abs l) ents) 0) as [Hz|Hz].
  { destruct (maybe_append_ok rw l i t cmt ents HI Hc Hnz Hit Hbd Em (or_introl Hz)) as (l' & Ho & _).
    rewrite Ho in H. discriminate. }
  destruct (N.le_gt_cases (ll_find_conflict (abs l) ents) (committed l)) as [Hle|Hgt].
  - rewrite (maybe_append_fatal rw l i t cmt ents HI Em ltac:(lia)) in H. injection H as <-. reflexivity.
  - destruct (maybe_append_ok rw l i t cmt ents HI Hc Hnz Hit Hbd Em (or_intror Hgt)) as (l' & Ho & _).
    rewrite Ho in H. discriminate.
Qed.

End LogLevel.
