From RV Require Import Base.Prelude Base.IdSet M.Util M.UtilProofs M.Proto M.MemStorage
  M.MemStorageProofs M.Inflights M.InflightsProofs M.Progress M.RaftLog M.Quorum M.ConfChange
  M.Msg M.Raft M.RaftProofs M.RaftProofsC13.
From RecordUpdate Require Import RecordSet.
Import RecordSetNotations.
Local Open Scope N_scope.

(* ================================================================== *)
(* 8. The window invariant over the whole node                          *)
(* ================================================================== *)

Definition PrsInv (m : list (N * progress)) : Prop := Forall (fun kp => PrInv (snd kp)) m.
Definition RInv (r : raft) : Prop := PrsInv (t_progress (r_prs r)).

Lemma pget_PrInv m id p : PrsInv m -> pget m id = Some p -> PrInv p.
Proof.
  induction m as [|[k q] t IH]; cbn [pget]; [discriminate|].
  intros H. inversion H; subst. destruct (k =? id).
  - intros E; inversion E; subst; assumption.
  - apply IH; assumption.
Qed.

Lemma pput_PrsInv m id p : PrsInv m -> PrInv p -> PrsInv (pput m id p).
Proof.
  intros H Hp. induction m as [|[k q] t IH]; cbn [pput].
  - constructor; [exact Hp|constructor].
  - inversion H; subst. destruct (id <? k); [constructor; assumption|].
    destruct (id =? k); [constructor; assumption|].
    constructor; [assumption|apply IH; assumption].
Qed.

Lemma pdel_PrsInv m id : PrsInv m -> PrsInv (pdel m id).
Proof.
  intros H. induction m as [|[k q] t IH]; cbn [pdel]; [constructor|].
  inversion H; subst. destruct (k =? id); [apply IH; assumption|].
  constructor; [assumption|apply IH; assumption].
Qed.

Lemma PrsInv_map (g : N * progress -> progress) m :
  (forall kp, PrInv (snd kp) -> PrInv (g kp)) ->
  PrsInv m -> PrsInv (map (fun kp => (fst kp, g kp)) m).
Proof.
  intros Hg H. induction H as [|kp t Hk Ht IH]; cbn [map]; constructor; [|exact IH].
  cbn [snd]. apply Hg. exact Hk.
Qed.

Lemma get_pr_PrInv r id p : RInv r -> get_pr r id = Some p -> PrInv p.
Proof. unfold RInv, get_pr. apply pget_PrInv. Qed.

Lemma put_pr_RInv r id p : RInv r -> PrInv p -> RInv (put_pr r id p).
Proof. unfold RInv, put_pr. cbn. apply pput_PrsInv. Qed.

(* a state with the same progress map *)
Lemma RInv_same r r' : t_progress (r_prs r') = t_progress (r_prs r) -> RInv r -> RInv r'.
Proof. unfold RInv. intros ->. exact (fun H => H). Qed.

Create HintDb rinv.
#[export] Hint Resolve PrInv_pr_new PrInv_set_matched PrInv_set_next_idx PrInv_set_paused
  PrInv_set_pending_snapshot PrInv_set_pending_request_snapshot PrInv_set_recent_active
  PrInv_set_commit_group_id PrInv_set_committed_index PrInv_reset_state PrInv_pr_reset
  PrInv_become_probe PrInv_become_replicate PrInv_become_snapshot PrInv_snapshot_failure
  PrInv_resume PrInv_pause PrInv_optimistic_update PrInv_maybe_update PrInv_update_committed
  PrInv_maybe_decr_to get_pr_PrInv put_pr_RInv : rinv.

Lemma maybe_update_eq_PrInv p n p' b : maybe_update p n = (p', b) -> PrInv p -> PrInv p'.
Proof. intros E H. pose proof (PrInv_maybe_update p n H) as K. rewrite E in K. exact K. Qed.

Lemma maybe_decr_to_eq_PrInv p a b c p' d :
  maybe_decr_to p a b c = (p', d) -> PrInv p -> PrInv p'.
Proof. intros E H. pose proof (PrInv_maybe_decr_to p a b c H) as K. rewrite E in K. exact K. Qed.

#[export] Hint Resolve maybe_update_eq_PrInv maybe_decr_to_eq_PrInv : rinv.

Ltac rinv_frame := solve [unfold RInv in *; cbn in *; assumption].
#[export] Hint Extern 6 (RInv _) => rinv_frame : rinv.

Ltac crush_step H :=
  match type of H with
  | Ok _ = Ok _ => inversion H; subst; clear H
  | Panic _ = Ok _ => discriminate H
  | bind _ _ = Ok _ =>
      let x := fresh "x" in let Hx := fresh "Hx" in
      apply bind_ok in H; destruct H as (x & Hx & H)
  | (if ?c then _ else _) = _ => destruct c eqn:?; cbv beta iota in H
  | (match ?x with _ => _ end) = _ => destruct x eqn:?; cbv beta iota in H
  end.

Ltac crush H := repeat (crush_step H).
Ltac rinv := eauto 12 with rinv.

Lemma send_RInv r m r' : send r m = Ok r' -> RInv r -> RInv r'.
Proof. unfold send. intros H HI. inv_bind H. inversion H; subst. rinv. Qed.
#[export] Hint Resolve send_RInv : rinv.

Lemma maybe_send_append_RInv r to pr ae r' pr' b :
  maybe_send_append r to pr ae = Ok (r', pr', b) -> RInv r -> RInv r' /\ (PrInv pr -> PrInv pr').
Proof.
  intros H HI. split; [|intros Hp; eapply maybe_send_append_PrInv; eassumption].
  destruct (maybe_send_append_cases _ _ _ _ _ _ _ H) as [(_ & -> & _)|(_ & _ & C)]; [exact HI|].
  destruct C as [(_ & s & _ & _ & -> & _)|[(_ & _ & t & ents & _ & _ & _ & -> & _)|
                 (_ & _ & _ & t & ents & msgs' & _ & _ & _ & _ & ->)]]; rinv.
Qed.

Lemma maybe_send_append_RInv1 r to pr ae r' pr' b :
  maybe_send_append r to pr ae = Ok (r', pr', b) -> RInv r -> RInv r'.
Proof. intros H HI. apply (maybe_send_append_RInv _ _ _ _ _ _ _ H HI). Qed.
Lemma maybe_send_append_RInv2 r to pr ae r' pr' b :
  maybe_send_append r to pr ae = Ok (r', pr', b) -> PrInv pr -> PrInv pr'.
Proof. intros H HI. eapply maybe_send_append_PrInv; eassumption. Qed.
#[export] Hint Resolve maybe_send_append_RInv1 maybe_send_append_RInv2 : rinv.

Lemma send_append_to_RInv r to r' : send_append_to r to = Ok r' -> RInv r -> RInv r'.
Proof. unfold send_append_to. intros H HI. crush H. rinv. Qed.
#[export] Hint Resolve send_append_to_RInv : rinv.

Lemma send_append_aggressively_loop_RInv fuel : forall r to pr r' pr',
  send_append_aggressively_loop fuel r to pr = Ok (r', pr') -> RInv r -> PrInv pr ->
  RInv r' /\ PrInv pr'.
Proof.
  induction fuel as [|f IH]; intros r to pr r' pr' H HI Hp; cbn [send_append_aggressively_loop] in H;
    [discriminate|].
  inv_bind H. destruct x as [[r1 pr1] b]. destruct b.
  - eapply IH; [exact H| |]; rinv.
  - inversion H; subst. split; rinv.
Qed.

Lemma send_append_aggressively_RInv r to r' :
  send_append_aggressively r to = Ok r' -> RInv r -> RInv r'.
Proof.
  unfold send_append_aggressively. intros H HI.
  destruct (get_pr r to) as [pr|] eqn:E; [|discriminate].
  inv_bind H. destruct x as [r1 pr1]. inversion H; subst.
  destruct (send_append_aggressively_loop_RInv _ _ _ _ _ _ Hx HI) as [A B]; rinv.
Qed.
#[export] Hint Resolve send_append_aggressively_RInv : rinv.

Lemma send_heartbeat_RInv r to pr ctx r' : send_heartbeat r to pr ctx = Ok r' -> RInv r -> RInv r'.
Proof. unfold send_heartbeat. intros H HI. rinv. Qed.
#[export] Hint Resolve send_heartbeat_RInv : rinv.

Lemma for_each_peer_RInv (f : raft -> N -> Res raft) :
  (forall r id r', f r id = Ok r' -> RInv r -> RInv r') ->
  forall ids self r r', for_each_peer ids self f r = Ok r' -> RInv r -> RInv r'.
Proof.
  intros Hf ids self. induction ids as [|id rest IH]; intros r r' H HI; cbn [for_each_peer] in H.
  - inversion H; subst. exact HI.
  - destruct (id =? self); [eapply IH; eassumption|].
    inv_bind H. eapply IH; [exact H|]. eapply Hf; eassumption.
Qed.

Lemma bcast_append_RInv r r' : bcast_append r = Ok r' -> RInv r -> RInv r'.
Proof. unfold bcast_append. apply for_each_peer_RInv. intros; rinv. Qed.
#[export] Hint Resolve bcast_append_RInv : rinv.

Lemma bcast_heartbeat_with_ctx_RInv r ctx r' :
  bcast_heartbeat_with_ctx r ctx = Ok r' -> RInv r -> RInv r'.
Proof.
  unfold bcast_heartbeat_with_ctx. apply for_each_peer_RInv.
  intros r0 id r1 H HI. destruct (get_pr r0 id); [rinv|discriminate].
Qed.
#[export] Hint Resolve bcast_heartbeat_with_ctx_RInv : rinv.

Lemma bcast_heartbeat_RInv r r' : bcast_heartbeat r = Ok r' -> RInv r -> RInv r'.
Proof. unfold bcast_heartbeat. rinv. Qed.
#[export] Hint Resolve bcast_heartbeat_RInv : rinv.

Lemma maybe_commit_RInv r r' b : maybe_commit r = Ok (r', b) -> RInv r -> RInv r'.
Proof. unfold maybe_commit. intros H HI. crush H; rinv. Qed.
#[export] Hint Resolve maybe_commit_RInv : rinv.

Lemma maybe_increase_uncommitted_size_RInv r ents r' ok :
  maybe_increase_uncommitted_size r ents = (r', ok) -> RInv r -> RInv r'.
Proof.
  intros H HI. destruct (uncommitted_effect _ _ _ _ H) as (A & B).
  destruct ok; [destruct (B eq_refl) as [(_ & ->)|(_ & ->)]; rinv|rewrite (A eq_refl); exact HI].
Qed.
#[export] Hint Resolve maybe_increase_uncommitted_size_RInv : rinv.

Lemma reduce_uncommitted_size_RInv r ents : RInv r -> RInv (reduce_uncommitted_size r ents).
Proof.
  intros HI. destruct (reduce_uncommitted_spec r ents) as (_ & _ & _ & [E|E] & _); rewrite E; rinv.
Qed.
#[export] Hint Resolve reduce_uncommitted_size_RInv : rinv.

Lemma append_entry_RInv r es r' b : append_entry r es = Ok (r', b) -> RInv r -> RInv r'.
Proof.
  unfold append_entry. intros H HI.
  destruct (maybe_increase_uncommitted_size r es) as [r1 ok] eqn:E.
  assert (RInv r1) by rinv. crush H; rinv.
Qed.
#[export] Hint Resolve append_entry_RInv : rinv.

Lemma reset_RInv r t r' : reset r t = Ok r' -> RInv r -> RInv r'.
Proof.
  unfold reset. intros H HI.
  set (r0 := if negb (r_term r =? t) then r <| r_term := t |> <| r_vote := INVALID_ID |> else r) in H.
  assert (H0 : RInv r0) by (subst r0; destruct (negb (r_term r =? t)); rinv).
  clearbody r0. destruct (r_draws r0) as [|d ds]; [discriminate|]. inversion H; subst. clear H.
  unfold RInv. cbn.
  apply (PrsInv_map (fun kp => if fst kp =? r_id r0 then _ else _)); [|exact H0].
  intros kp Hk. destruct (fst kp =? r_id r0); rinv.
Qed.
#[export] Hint Resolve reset_RInv : rinv.

Lemma become_follower_RInv r t l r' : become_follower r t l = Ok r' -> RInv r -> RInv r'.
Proof. unfold become_follower. intros H HI. crush H. assert (RInv x) by rinv. rinv. Qed.
#[export] Hint Resolve become_follower_RInv : rinv.

Lemma become_candidate_RInv r r' : become_candidate r = Ok r' -> RInv r -> RInv r'.
Proof. unfold become_candidate. intros H HI. crush H. assert (RInv x) by rinv. rinv. Qed.
#[export] Hint Resolve become_candidate_RInv : rinv.

Lemma become_pre_candidate_RInv r r' : become_pre_candidate r = Ok r' -> RInv r -> RInv r'.
Proof. unfold become_pre_candidate. intros H HI. crush H. rinv. Qed.
#[export] Hint Resolve become_pre_candidate_RInv : rinv.

Lemma become_leader_RInv r r' : become_leader r = Ok r' -> RInv r -> RInv r'.
Proof.
  unfold become_leader. intros H HI.
  destruct (role_eqb (r_state r) Follower); [discriminate|].
  inv_bind H. assert (Hx0 : RInv x) by rinv.
  match type of H with (if ?c then _ else _) = _ => destruct c end; [discriminate|].
  match type of H with (match ?g with _ => _ end) = _ => destruct g as [pr|] eqn:Eg end; [|discriminate].
  inv_bind H. destruct x0 as [r6 ok]. destruct ok; [|discriminate]. inversion H; subst.
  eapply append_entry_RInv; [exact Hx1|].
  assert (Hp : PrInv pr) by (eapply pget_PrInv; [exact Hx0|exact Eg]).
  unfold RInv. cbn. apply pput_PrsInv; [exact Hx0|rinv].
Qed.
#[export] Hint Resolve become_leader_RInv : rinv.

Lemma poll_gen_RInv rc r from v r' res :
  (forall r r', rc r = Ok r' -> RInv r -> RInv r') ->
  poll_gen rc r from v = Ok (r', res) -> RInv r -> RInv r'.
Proof.
  unfold poll_gen. intros Hrc H HI.
  set (r0 := r <| r_prs := (r_prs r) <| t_votes := _ |> |>) in H.
  assert (H0 : RInv r0) by (subst r0; rinv). clearbody r0.
  crush H; rinv.
Qed.

Lemma send_vote_requests_RInv ids : forall r vm t c ct tr r',
  send_vote_requests ids r vm t c ct tr = Ok r' -> RInv r -> RInv r'.
Proof.
  induction ids as [|id rest IH]; intros r vm t c ct tr r' H HI; cbn [send_vote_requests] in H.
  - inversion H; subst; exact HI.
  - destruct (id =? r_id r); [eapply IH; eassumption|].
    inv_bind H. inv_bind H. eapply IH; [exact H|]. rinv.
Qed.
#[export] Hint Resolve send_vote_requests_RInv : rinv.

Lemma campaign_real_RInv tr r r' : campaign_real tr r = Ok r' -> RInv r -> RInv r'.
Proof.
  unfold campaign_real. intros H HI. inv_bind H. inv_bind H. destruct x0 as [r2 res].
  assert (RInv r2).
  { eapply poll_gen_RInv; [|exact Hx0|rinv]. intros; discriminate. }
  crush H; rinv.
Qed.
#[export] Hint Resolve campaign_real_RInv : rinv.

Lemma poll_RInv r from v r' res : poll r from v = Ok (r', res) -> RInv r -> RInv r'.
Proof. unfold poll. apply poll_gen_RInv. intros; rinv. Qed.
#[export] Hint Resolve poll_RInv : rinv.

Lemma campaign_pre_RInv r r' : campaign_pre r = Ok r' -> RInv r -> RInv r'.
Proof.
  unfold campaign_pre. intros H HI. inv_bind H. inv_bind H. destruct x0 as [r2 res].
  assert (RInv r2) by rinv. crush H; rinv.
Qed.
#[export] Hint Resolve campaign_pre_RInv : rinv.

Lemma hup_RInv r tl r' : hup r tl = Ok r' -> RInv r -> RInv r'.
Proof. unfold hup. intros H HI. crush H; rinv. Qed.
#[export] Hint Resolve hup_RInv : rinv.

Lemma maybe_commit_by_vote_RInv r m r' : maybe_commit_by_vote r m = Ok r' -> RInv r -> RInv r'.
Proof.
  unfold maybe_commit_by_vote. intros H HI.
  destruct ((m_commit m =? 0) || (m_commit_term m =? 0)); [inversion H; subst; exact HI|].
  destruct ((m_commit m <=? committed (r_log r)) || is_leader r); [inversion H; subst; exact HI|].
  inv_bind H. destruct x as [l' b].
  assert (H1 : RInv (r <| r_log := l' |>)) by rinv.
  crush H; rinv.
Qed.
#[export] Hint Resolve maybe_commit_by_vote_RInv : rinv.

Lemma handle_ready_read_index_RInv r req i r' om :
  handle_ready_read_index r req i = Ok (r', om) -> RInv r -> RInv r'.
Proof. unfold handle_ready_read_index. intros H HI. crush H; rinv. Qed.
#[export] Hint Resolve handle_ready_read_index_RInv : rinv.

Lemma respond_reads_RInv rss : forall r r', respond_reads r rss = Ok r' -> RInv r -> RInv r'.
Proof.
  induction rss as [|rs rest IH]; intros r r' H HI; cbn [respond_reads] in H.
  - inversion H; subst; exact HI.
  - inv_bind H. destruct x as [r1 om]. inv_bind H. eapply IH; [exact H|].
    assert (RInv r1) by rinv. destruct om; [rinv|inversion Hx0; subst; assumption].
Qed.
#[export] Hint Resolve respond_reads_RInv : rinv.

Lemma send_timeout_now_RInv r to r' : send_timeout_now r to = Ok r' -> RInv r -> RInv r'.
Proof. unfold send_timeout_now. rinv. Qed.
#[export] Hint Resolve send_timeout_now_RInv : rinv.

Lemma send_request_snapshot_RInv r r' : send_request_snapshot r = Ok r' -> RInv r -> RInv r'.
Proof. unfold send_request_snapshot. intros H HI. crush H; rinv. Qed.
#[export] Hint Resolve send_request_snapshot_RInv : rinv.

Lemma handle_append_entries_RInv r m r' : handle_append_entries r m = Ok r' -> RInv r -> RInv r'.
Proof.
  unfold handle_append_entries. intros H HI.
  destruct (negb (r_pending_request_snapshot r =? INVALID_INDEX)); [rinv|].
  destruct (m_index m <? committed (r_log r)); [rinv|].
  inv_bind H. destruct x as [l' res].
  assert (H1 : RInv (r <| r_log := l' |>)) by rinv.
  crush H; rinv.
Qed.
#[export] Hint Resolve handle_append_entries_RInv : rinv.

Lemma handle_heartbeat_RInv r m r' : handle_heartbeat r m = Ok r' -> RInv r -> RInv r'.
Proof.
  unfold handle_heartbeat. intros H HI. inv_bind H.
  assert (H1 : RInv (r <| r_log := x |>)) by rinv.
  crush H; rinv.
Qed.
#[export] Hint Resolve handle_heartbeat_RInv : rinv.

Lemma fresh_progress_PrsInv ids n mi : PrsInv (fresh_progress ids n mi).
Proof.
  unfold fresh_progress, PrsInv. induction ids as [|i t IH]; cbn [map]; constructor; [|exact IH].
  cbn [snd]. rinv.
Qed.

Lemma apply_changes_PrsInv chs : forall m n mi, PrsInv m -> PrsInv (apply_changes m chs n mi).
Proof.
  induction chs as [|[id [|]] rest IH]; intros m n mi H; cbn [apply_changes]; [exact H| |].
  - apply IH. apply pput_PrsInv; [exact H|rinv].
  - apply IH. apply pdel_PrsInv. exact H.
Qed.

Lemma post_conf_change_RInv r r' cs : post_conf_change r = Ok (r', cs) -> RInv r -> RInv r'.
Proof.
  unfold post_conf_change. intros H HI.
  set (r0 := r <| r_promotable := _ |>) in H.
  assert (H0 : RInv r0) by (subst r0; rinv). clearbody r0.
  match type of H with (if ?c then _ else _) = _ => destruct c end; [inversion H; subst; exact H0|].
  match type of H with (if ?c then _ else _) = _ => destruct c end; [inversion H; subst; exact H0|].
  inv_bind H. destruct x as [r1 b]. assert (H1 : RInv r1) by rinv.
  inv_bind H. assert (H2 : RInv x).
  { destruct b; [rinv|]. eapply for_each_peer_RInv; [|exact Hx0|exact H1].
    intros ra id rb Hf Ha. destruct (get_pr ra id) as [pr|] eqn:Eg; [|discriminate].
    inv_bind Hf. destruct x0 as [[rc prc] bc]. inversion Hf; subst. rinv. }
  inv_bind H. assert (H3 : RInv x0).
  { destruct (ro_last_pending_request_ctx (r_read_only x)) as [ctx|]; [|inversion Hx1; subst; exact H2].
    destruct (ro_recv_ack (r_read_only x) (r_id x) ctx) as [ro' acks].
    assert (RInv (x <| r_read_only := ro' |>)) by rinv.
    destruct acks as [a|]; [|inversion Hx1; subst; assumption].
    match type of Hx1 with (if ?c then _ else _) = _ => destruct c end;
      [|inversion Hx1; subst; assumption].
    inv_bind Hx1. destruct x1 as [ro2 rss].
    eapply respond_reads_RInv; [exact Hx1|]. rinv. }
  inversion H; subst.
  destruct (r_lead_transferee x0); [|exact H3].
  match goal with |- RInv (if ?c then _ else _) => destruct c end; rinv.
Qed.
#[export] Hint Resolve post_conf_change_RInv : rinv.

Lemma restore_RInv r s r' b : restore r s = Ok (r', b) -> RInv r -> RInv r'.
Proof.
  unfold restore. intros H HI.
  destruct (s_index s <? committed (r_log r)); [inversion H; subst; exact HI|].
  destruct (negb (role_eqb (r_state r) Follower)).
  { inv_bind H. inversion H; subst. rinv. }
  match type of H with (if ?c then _ else _) = _ => destruct c end; [inversion H; subst; exact HI|].
  inv_bind H.
  match type of H with (if ?c then _ else _) = _ => destruct c end.
  { inv_bind H. inversion H; subst. rinv. }
  inv_bind H.
  destruct (ConfChange.restore empty_tracker (s_cs s)) as [[c' ids']|e]; [|discriminate].
  inv_bind H. destruct x1 as [r1 new_cs].
  assert (H1 : RInv r1).
  { eapply post_conf_change_RInv; [exact Hx1|]. unfold RInv, set_conf_prs. cbn.
    apply fresh_progress_PrsInv. }
  match type of H with (if ?c then _ else _) = _ => destruct c end; [discriminate|].
  destruct (get_pr r1 (r_id r1)) as [pr|] eqn:Eg; [|discriminate].
  destruct (next_idx pr =? 0); [discriminate|]. inversion H; subst.
  assert (RInv (put_pr r1 (r_id r1) (fst (maybe_update pr (next_idx pr - 1))))) by rinv.
  rinv.
Qed.
#[export] Hint Resolve restore_RInv : rinv.

Lemma handle_snapshot_RInv r m r' : handle_snapshot r m = Ok r' -> RInv r -> RInv r'.
Proof.
  unfold handle_snapshot. intros H HI. inv_bind H. destruct x as [r1 ok].
  assert (RInv r1) by rinv. destruct ok; rinv.
Qed.
#[export] Hint Resolve handle_snapshot_RInv : rinv.

Lemma handle_append_response_RInv r m r' : handle_append_response r m = Ok r' -> RInv r -> RInv r'.
Proof.
  unfold handle_append_response. intros H HI. inv_bind H.
  destruct (get_pr r (m_from m)) as [pr0|] eqn:Eg; [|inversion H; subst; exact HI].
  assert (Hp0 : PrInv pr0) by rinv.
  set (pr := update_committed (set_recent_active pr0 true) (m_commit m)) in H.
  assert (Hp : PrInv pr) by (subst pr; rinv). clearbody pr.
  destruct (m_reject m).
  - destruct (maybe_decr_to pr (m_index m) x (m_request_snapshot m)) as [pr1 dec] eqn:Ed.
    assert (Hp1 : PrInv pr1) by rinv.
    destruct dec; [|inversion H; subst; rinv].
    eapply send_append_to_RInv; [exact H|]. apply put_pr_RInv; [exact HI|].
    destruct (pstate_eqb (pr_state pr1) Replicate); rinv.
  - destruct (maybe_update pr (m_index m)) as [pr1 upd] eqn:Eu.
    assert (Hp1 : PrInv pr1) by rinv.
    destruct (negb upd); [inversion H; subst; rinv|].
    inv_bind H. assert (Hp2 : PrInv x0).
    { destruct (pr_state pr1).
      - inversion Hx0; subst. rinv.
      - inv_bind Hx0. inversion Hx0; subst. apply PrInv_set_ins.
        eapply IInv_free_to; [exact Hp1|exact Hx1].
      - inversion Hx0; subst. destruct (is_snapshot_caught_up pr1); rinv. }
    inv_bind H. destruct x1 as [r1 cmt]. assert (H1 : RInv r1) by rinv.
    inv_bind H. assert (H2 : RInv x1).
    { destruct cmt; [destruct (should_bcast_commit r1); [rinv|inversion Hx2; subst; exact H1]|].
      destruct (is_paused pr); [rinv|inversion Hx2; subst; exact H1]. }
    inv_bind H. assert (H3 : RInv x2) by rinv.
    crush H; rinv.
Qed.
#[export] Hint Resolve handle_append_response_RInv : rinv.

Lemma handle_heartbeat_response_RInv r m r' :
  handle_heartbeat_response r m = Ok r' -> RInv r -> RInv r'.
Proof.
  unfold handle_heartbeat_response. intros H HI.
  destruct (get_pr r (m_from m)) as [pr0|] eqn:Eg; [|inversion H; subst; exact HI].
  assert (Hp0 : PrInv pr0) by rinv.
  set (pr := resume (set_recent_active (update_committed pr0 (m_commit m)) true)) in H.
  assert (Hp : PrInv pr) by (subst pr; rinv). clearbody pr.
  inv_bind H. assert (Hp1 : PrInv x).
  { match type of Hx with (if ?c then _ else _) = _ => destruct c end;
      [|inversion Hx; subst; exact Hp].
    inv_bind Hx. inversion Hx; subst. apply PrInv_set_ins.
    eapply IInv_free_first_one; [exact Hp|exact Hx0]. }
  inv_bind H. assert (H1 : RInv x0).
  { match type of Hx0 with (if ?c then _ else _) = _ => destruct c end;
      [|inversion Hx0; subst; rinv].
    inv_bind Hx0. destruct x1 as [[ra pra] ba]. inversion Hx0; subst. rinv. }
  match type of H with (if ?c then _ else _) = _ => destruct c end; [inversion H; subst; exact H1|].
  destruct (ro_recv_ack (r_read_only x0) (m_from m) (m_context m)) as [ro' acks].
  assert (RInv (x0 <| r_read_only := ro' |>)) by rinv.
  destruct acks as [a|]; [|inversion H; subst; assumption].
  match type of H with (if ?c then _ else _) = _ => destruct c end; [|inversion H; subst; assumption].
  inv_bind H. destruct x1 as [ro2 rss]. eapply respond_reads_RInv; [exact H|]. rinv.
Qed.
#[export] Hint Resolve handle_heartbeat_response_RInv : rinv.

Lemma handle_transfer_leader_RInv r m r' : handle_transfer_leader r m = Ok r' -> RInv r -> RInv r'.
Proof.
  unfold handle_transfer_leader. intros H HI.
  destruct (get_pr r (m_from m)) as [p0|]; [|inversion H; subst; exact HI].
  destruct (IdSet.mem (m_from m) (learners (conf_of r))); [inversion H; subst; exact HI|].
  assert (Hcont : forall ra, RInv ra ->
    (if m_from m =? r_id ra then Ok ra else
       let rb := ra <| r_election_elapsed := 0 |> <| r_lead_transferee := Some (m_from m) |> in
       match get_pr rb (m_from m) with
       | None => Panic site_pr_unwrap
       | Some pr =>
           if matched pr =? RaftLog.last_index (r_log rb) then send_timeout_now rb (m_from m)
           else y <- maybe_send_append rb (m_from m) pr true ;;
                let '(r', pr', _) := y in Ok (put_pr r' (m_from m) pr')
       end) = Ok r' -> RInv r').
  { intros ra Ha Hc. destruct (m_from m =? r_id ra); [inversion Hc; subst; exact Ha|].
    cbv zeta in Hc.
    set (rb := ra <| r_election_elapsed := 0 |> <| r_lead_transferee := Some (m_from m) |>) in Hc.
    assert (Hb : RInv rb) by (subst rb; rinv). clearbody rb.
    destruct (get_pr rb (m_from m)) as [pr|] eqn:Eg; [|discriminate].
    destruct (matched pr =? RaftLog.last_index (r_log rb)); [rinv|].
    inv_bind Hc. destruct x as [[rc prc] bc]. inversion Hc; subst. rinv. }
  destruct (r_lead_transferee r) as [last|].
  - destruct (last =? m_from m); [inversion H; subst; exact HI|].
    apply (Hcont (r <| r_lead_transferee := None |>)); [rinv|exact H].
  - apply (Hcont r HI H).
Qed.
#[export] Hint Resolve handle_transfer_leader_RInv : rinv.

Lemma handle_snapshot_status_RInv r m r' : handle_snapshot_status r m = Ok r' -> RInv r -> RInv r'.
Proof.
  unfold handle_snapshot_status. intros H HI.
  destruct (get_pr r (m_from m)) as [pr|] eqn:Eg; [|inversion H; subst; exact HI].
  assert (PrInv pr) by rinv.
  destruct (negb (pstate_eqb (pr_state pr) Snapshot)); [inversion H; subst; exact HI|].
  inversion H; subst. destruct (m_reject m); rinv.
Qed.
#[export] Hint Resolve handle_snapshot_status_RInv : rinv.

Lemma handle_unreachable_RInv r m r' : handle_unreachable r m = Ok r' -> RInv r -> RInv r'.
Proof.
  unfold handle_unreachable. intros H HI.
  destruct (get_pr r (m_from m)) as [pr|] eqn:Eg; [|inversion H; subst; exact HI].
  assert (PrInv pr) by rinv. inversion H; subst.
  destruct (pstate_eqb (pr_state pr) Replicate); rinv.
Qed.
#[export] Hint Resolve handle_unreachable_RInv : rinv.

Lemma filter_conf_changes_prs ents : forall r info i r' ents' ok,
  filter_conf_changes r ents info i = (r', ents', ok) -> r_prs r' = r_prs r.
Proof.
  induction ents as [|e rest IH]; intros r info i r' ents' ok H; cbn [filter_conf_changes] in H.
  - inversion H; reflexivity.
  - destruct (negb (is_conf_entry e)).
    + destruct (filter_conf_changes r rest _ (i + 1)) as [[ra ea] oa] eqn:E.
      inversion H; subst. eapply IH; exact E.
    + match type of H with (if ?c then _ else _) = _ => destruct c end; [inversion H; reflexivity|].
      match type of H with (if ?c then _ else _) = _ => destruct c end.
      * destruct (filter_conf_changes r rest _ (i + 1)) as [[ra ea] oa] eqn:E.
        inversion H; subst. eapply IH; exact E.
      * match type of H with (let '(_, _, _) := filter_conf_changes ?r1 _ _ _ in _) = _ =>
          destruct (filter_conf_changes r1 rest
                      match info with _ :: t => t | [] => [] end (i + 1)) as [[ra ea] oa] eqn:E end.
        inversion H; subst. rewrite (IH _ _ _ _ _ _ E). reflexivity.
Qed.

Lemma filter_conf_changes_RInv r ents info i r' ents' ok :
  filter_conf_changes r ents info i = (r', ents', ok) -> RInv r -> RInv r'.
Proof. intros H. apply RInv_same. rewrite (filter_conf_changes_prs _ _ _ _ _ _ _ H). reflexivity. Qed.
#[export] Hint Resolve filter_conf_changes_RInv : rinv.

Lemma quorum_recently_active_PrsInv t p t' b :
  quorum_recently_active t p = (t', b) -> PrsInv (t_progress t) -> PrsInv (t_progress t').
Proof.
  unfold quorum_recently_active. intros H HI. inversion H; subst. cbn.
  apply (PrsInv_map (fun kp => set_recent_active (snd kp) (fst kp =? p))); [|exact HI].
  intros kp Hk. rinv.
Qed.

Lemma step_leader_RInv r m r' c : step_leader r m = Ok (r', c) -> RInv r -> RInv r'.
Proof.
  unfold step_leader. intros H HI.
  destruct (m_type m =? MsgBeat). { crush H; rinv. }
  destruct (m_type m =? MsgCheckQuorum).
  { destruct (quorum_recently_active (r_prs r) (r_id r)) as [prs' active] eqn:Eq.
    assert (H1 : RInv (r <| r_prs := prs' |>)).
    { unfold RInv. cbn. eapply quorum_recently_active_PrsInv; [exact Eq|exact HI]. }
    crush H; rinv. }
  destruct (m_type m =? MsgPropose).
  { destruct (m_entries m); [discriminate|].
    destruct (get_pr r (r_id r)); [|inversion H; subst; exact HI].
    destruct (r_lead_transferee r); [inversion H; subst; exact HI|].
    match type of H with (let '(_, _, _) := ?f in _) = _ => destruct f as [[r1 ents] ok] eqn:Ef end.
    assert (H1 : RInv r1) by rinv.
    crush H; rinv. }
  destruct (m_type m =? MsgReadIndex).
  { inv_bind H. destruct (negb x); [inversion H; subst; exact HI|].
    assert (Hans : forall ra c,
      (x <- handle_ready_read_index r m (committed (r_log r)) ;;
       (let '(r1, om) := x in
        r2 <- match om with Some mm => send r1 mm | None => Ok r1 end ;; Ok (r2, E_OK))) = Ok (ra, c) ->
      RInv ra).
    { intros ra c0 Ha. inv_bind Ha. destruct x0 as [r1 om]. assert (RInv r1) by rinv.
      inv_bind Ha. inversion Ha; subst. destruct om; [rinv|inversion Hx1; subst; assumption]. }
    match type of H with (if ?c then _ else _) = _ => destruct c end; [eapply Hans; exact H|].
    match type of H with (if ?c then _ else _) = _ => destruct c end; [|eapply Hans; exact H].
    inv_bind H. inv_bind H. inv_bind H. inversion H; subst.
    eapply bcast_heartbeat_with_ctx_RInv; [exact Hx2|]. rinv. }
  crush H; rinv.
Qed.
#[export] Hint Resolve step_leader_RInv : rinv.

Lemma step_candidate_RInv r m r' c : step_candidate r m = Ok (r', c) -> RInv r -> RInv r'.
Proof.
  unfold step_candidate. intros H HI.
  destruct (m_type m =? MsgPropose); [inversion H; subst; exact HI|].
  match type of H with (if ?c then _ else _) = _ => destruct c end.
  { destruct (negb (r_term r =? m_term m)); [discriminate|].
    inv_bind H. assert (RInv x) by rinv. inv_bind H. inversion H; subst.
    destruct (m_type m =? MsgAppend); [rinv|]. destruct (m_type m =? MsgHeartbeat); rinv. }
  match type of H with (if ?c then _ else _) = _ => destruct c end; [|inversion H; subst; exact HI].
  match type of H with (if ?c then _ else _) = _ => destruct c end; [inversion H; subst; exact HI|].
  inv_bind H. destruct x as [r1 res]. cbn [fst] in H. inv_bind H. inversion H; subst. rinv.
Qed.
#[export] Hint Resolve step_candidate_RInv : rinv.

Lemma step_follower_RInv r m r' c : step_follower r m = Ok (r', c) -> RInv r -> RInv r'.
Proof.
  unfold step_follower. intros H HI.
  assert (Hf : RInv (r <| r_election_elapsed := 0 |> <| r_leader_id := m_from m |>)) by rinv.
  destruct (m_type m =? MsgPropose). { crush H; rinv. }
  destruct (m_type m =? MsgAppend). { crush H; rinv. }
  destruct (m_type m =? MsgHeartbeat). { crush H; rinv. }
  destruct (m_type m =? MsgSnapshot). { crush H; rinv. }
  destruct (m_type m =? MsgTransferLeader). { crush H; rinv. }
  destruct (m_type m =? MsgTimeoutNow). { crush H; rinv. }
  destruct (m_type m =? MsgReadIndex). { crush H; rinv. }
  destruct (m_type m =? MsgReadIndexResp); [|inversion H; subst; exact HI].
  destruct (m_entries m) as [|e [|e2 t]]; try (inversion H; subst; exact HI).
  inv_bind H. inversion H; subst. rinv.
Qed.
#[export] Hint Resolve step_follower_RInv : rinv.

Theorem step_RInv r m r' c : step r m = Ok (r', c) -> RInv r -> RInv r'.
Proof.
  unfold step. intros H HI. inv_bind H.
  assert (Hpre : match x with inl (r1, _) => RInv r1 | inr r1 => RInv r1 end).
  { clear H. destruct (m_term m =? 0); [inversion Hx; subst; exact HI|].
    destruct (r_term r <? m_term m).
    - match type of Hx with (if ?c then _ else _) = _ => destruct c end;
        [inversion Hx; subst; exact HI|].
      match type of Hx with (if ?c then _ else _) = _ => destruct c end;
        [inversion Hx; subst; exact HI|].
      match type of Hx with (if ?c then _ else _) = _ => destruct c end;
        inv_bind Hx; inversion Hx; subst; rinv.
    - destruct (m_term m <? r_term r); [|inversion Hx; subst; exact HI].
      match type of Hx with (if ?c then _ else _) = _ => destruct c end;
        [inv_bind Hx; inversion Hx; subst; rinv|].
      match type of Hx with (if ?c then _ else _) = _ => destruct c end;
        [inv_bind Hx; inversion Hx; subst; rinv|inversion Hx; subst; exact HI]. }
  destruct x as [[r1 c1]|r1]; [inversion H; subst; exact Hpre|].
  destruct (m_type m =? MsgHup). { crush H; rinv. }
  match type of H with (if ?c then _ else _) = _ => destruct c end.
  { inv_bind H. inv_bind H.
    match type of H with (if ?c then _ else _) = _ => destruct c end.
    - inv_bind H. assert (RInv x1) by rinv.
      destruct (m_type m =? MsgRequestVote); inversion H; subst; rinv.
    - inv_bind H. inv_bind H. inv_bind H. inversion H; subst. rinv. }
  destruct (r_state r1); rinv.
Qed.
#[export] Hint Resolve step_RInv : rinv.

(* ------------------------------------------------------------------ *)
(* ticks and the rest of the Raft API *)

Lemma tick_election_RInv r r' b : tick_election r = Ok (r', b) -> RInv r -> RInv r'.
Proof.
  unfold tick_election. intros H HI.
  set (r0 := r <| r_election_elapsed := r_election_elapsed r + 1 |>) in H.
  assert (H0 : RInv r0) by (subst r0; rinv). clearbody r0.
  match type of H with (if ?c then _ else _) = _ => destruct c end; [inversion H; subst; exact H0|].
  inv_bind H. destruct x as [r1 c]. inversion H; subst. cbn [fst].
  eapply step_RInv; [exact Hx|]. rinv.
Qed.
#[export] Hint Resolve tick_election_RInv : rinv.

Lemma tick_heartbeat_RInv r r' b : tick_heartbeat r = Ok (r', b) -> RInv r -> RInv r'.
Proof.
  unfold tick_heartbeat. intros H HI.
  set (r0 := r <| r_heartbeat_elapsed := r_heartbeat_elapsed r + 1 |>
               <| r_election_elapsed := r_election_elapsed r + 1 |>) in H.
  assert (H0 : RInv r0) by (subst r0; rinv). clearbody r0.
  inv_bind H. destruct x as [r1 hr].
  assert (H1 : RInv r1).
  { destruct (r_election_timeout r0 <=? r_election_elapsed r0); [|inversion Hx; subst; exact H0].
    inv_bind Hx. destruct x as [ra ha].
    assert (Ha : RInv ra).
    { destruct (r_check_quorum (r0 <| r_election_elapsed := 0 |>)).
      - inv_bind Hx0. destruct x as [rb cb]. inversion Hx0; subst. cbn [fst].
        eapply step_RInv; [exact Hx1|]. rinv.
      - inversion Hx0; subst. rinv. }
    inversion Hx; subst.
    match goal with |- RInv (if ?c then _ else _) => destruct c end; rinv. }
  destruct (negb (is_leader r1)); [inversion H; subst; exact H1|].
  destruct (r_heartbeat_timeout r1 <=? r_heartbeat_elapsed r1); [|inversion H; subst; exact H1].
  inv_bind H. destruct x as [rb cb]. inversion H; subst. cbn [fst].
  eapply step_RInv; [exact Hx0|]. rinv.
Qed.
#[export] Hint Resolve tick_heartbeat_RInv : rinv.

Theorem tick_RInv r r' b : tick r = Ok (r', b) -> RInv r -> RInv r'.
Proof. unfold tick. destruct (r_state r); rinv. Qed.
#[export] Hint Resolve tick_RInv : rinv.

Theorem on_persist_entries_RInv r i t r' : on_persist_entries r i t = Ok r' -> RInv r -> RInv r'.
Proof.
  unfold on_persist_entries. intros H HI. inv_bind H. destruct x as [l' upd].
  set (r0 := r <| r_log := l' |>) in H. assert (H0 : RInv r0) by (subst r0; rinv). clearbody r0.
  destruct (upd && is_leader r0); [|inversion H; subst; exact H0].
  destruct (get_pr r0 (r_id r0)) as [pr|] eqn:Eg; [|discriminate].
  destruct (maybe_update pr i) as [pr' u] eqn:Eu.
  assert (H1 : RInv (put_pr r0 (r_id r0) pr')) by rinv.
  destruct u; [|inversion H; subst; exact H1].
  inv_bind H. destruct x as [r1 c]. assert (RInv r1) by rinv.
  destruct (c && should_bcast_commit r1); [rinv|inversion H; subst; assumption].
Qed.

Theorem on_persist_snap_RInv r i r' : on_persist_snap r i = Ok r' -> RInv r -> RInv r'.
Proof. unfold on_persist_snap. intros H HI. inv_bind H. inversion H; subst. rinv. Qed.

Theorem commit_apply_internal_RInv r a sk r' :
  commit_apply_internal r a sk = Ok r' -> RInv r -> RInv r'.
Proof.
  unfold commit_apply_internal. intros H HI. inv_bind H.
  set (r0 := r <| r_log := x |>) in H. assert (H0 : RInv r0) by (subst r0; rinv). clearbody r0.
  match type of H with (if ?c then _ else _) = _ => destruct c end; [|inversion H; subst; exact H0].
  inv_bind H. destruct x0 as [r1 ok]. assert (RInv r1) by rinv.
  destruct (negb ok); [discriminate|]. inversion H; subst. rinv.
Qed.

Theorem commit_apply_RInv r a r' : commit_apply r a = Ok r' -> RInv r -> RInv r'.
Proof. unfold commit_apply. apply commit_apply_internal_RInv. Qed.

Theorem raft_apply_conf_change_RInv r cc r' ocs :
  raft_apply_conf_change r cc = Ok (r', ocs) -> RInv r -> RInv r'.
Proof.
  unfold raft_apply_conf_change. intros H HI.
  match type of H with (match ?res with _ => _ end) = _ => destruct res as [[c' chs]|e] end;
    [|inversion H; subst; exact HI].
  inv_bind H. destruct x as [r1 cs]. inversion H; subst. cbn [fst].
  eapply post_conf_change_RInv; [exact Hx|]. unfold RInv, set_conf_prs. cbn.
  apply apply_changes_PrsInv. exact HI.
Qed.

Theorem load_state_RInv r hs r' : load_state r hs = Ok r' -> RInv r -> RInv r'.
Proof. unfold load_state. intros H HI. crush H; rinv. Qed.

Theorem request_snapshot_RInv r r' c : request_snapshot r = Ok (r', c) -> RInv r -> RInv r'.
Proof.
  unfold request_snapshot. intros H HI.
  destruct (is_leader r); [inversion H; subst; exact HI|].
  destruct (r_leader_id r =? INVALID_ID); [inversion H; subst; exact HI|].
  match type of H with (if ?c then _ else _) = _ => destruct c end; [inversion H; subst; exact HI|].
  match type of H with (if ?c then _ else _) = _ => destruct c end; [inversion H; subst; exact HI|].
  inv_bind H. destruct x as [rt|e]; [|discriminate].
  destruct (r_term r =? rt); [|inversion H; subst; exact HI].
  inv_bind H. inversion H; subst. eapply send_request_snapshot_RInv; [exact Hx0|]. rinv.
Qed.

Theorem ping_RInv r r' : ping r = Ok r' -> RInv r -> RInv r'.
Proof. unfold ping. intros H HI. destruct (is_leader r); [rinv|inversion H; subst; exact HI]. Qed.

(* runtime window resizing keeps the invariant *)
Theorem adjust_max_inflight_msgs_RInv r target c r' :
  adjust_max_inflight_msgs r target c = Ok r' -> RInv r -> RInv r'.
Proof.
  unfold adjust_max_inflight_msgs. intros H HI.
  destruct (get_pr r target) as [pr|] eqn:Eg; [|inversion H; subst; exact HI].
  assert (Hp : PrInv pr) by rinv. inv_bind H. inversion H; subst.
  apply put_pr_RInv; [exact HI|]. apply PrInv_set_ins. eapply IInv_set_cap; [exact Hp|exact Hx].
Qed.

Theorem maybe_free_inflight_buffers_RInv r : RInv r -> RInv (maybe_free_inflight_buffers r).
Proof.
  unfold maybe_free_inflight_buffers, RInv. cbn. intros HI.
  apply (PrsInv_map (fun kp => set_ins (snd kp) (Inflights.maybe_free_buffer (ins (snd kp)))));
    [|exact HI].
  intros kp Hk. apply PrInv_set_ins. apply IInv_maybe_free_buffer. exact Hk.
Qed.

Theorem set_max_apply_unpersisted_log_limit_RInv r lim :
  RInv r -> RInv (set_max_apply_unpersisted_log_limit r lim).
Proof. unfold set_max_apply_unpersisted_log_limit. intros; rinv. Qed.

Theorem enable_group_commit_RInv r e r' : enable_group_commit r e = Ok r' -> RInv r -> RInv r'.
Proof.
  unfold enable_group_commit. intros H HI.
  set (r0 := r <| r_prs := _ |>) in H. assert (H0 : RInv r0) by (subst r0; rinv). clearbody r0.
  destruct (is_leader r0 && negb e); [|inversion H; subst; exact H0].
  inv_bind H. destruct x as [r1 b]. cbn [fst snd] in H. assert (RInv r1) by rinv.
  destruct b; [rinv|inversion H; subst; assumption].
Qed.

Lemma assign_groups_PrsInv ids : forall m m', assign_groups m ids = Ok m' -> PrsInv m -> PrsInv m'.
Proof.
  induction ids as [|[peer g] rest IH]; intros m m' H HI; cbn [assign_groups] in H.
  - inversion H; subst; exact HI.
  - destruct (g =? 0); [discriminate|].
    destruct (pget m peer) as [pr|] eqn:Eg; [|eapply IH; eassumption].
    eapply IH; [exact H|]. apply pput_PrsInv; [exact HI|].
    apply PrInv_set_commit_group_id. eapply pget_PrInv; eassumption.
Qed.

Theorem assign_commit_groups_RInv r ids r' : assign_commit_groups r ids = Ok r' -> RInv r -> RInv r'.
Proof.
  unfold assign_commit_groups. intros H HI. inv_bind H.
  set (r0 := r <| r_prs := _ |>) in H.
  assert (H0 : RInv r0).
  { subst r0. unfold RInv. cbn. eapply assign_groups_PrsInv; [exact Hx|exact HI]. }
  clearbody r0.
  match type of H with (if ?c then _ else _) = _ => destruct c end; [|inversion H; subst; exact H0].
  inv_bind H. destruct x0 as [r1 b]. cbn [fst snd] in H. assert (RInv r1) by rinv.
  destruct b; [rinv|inversion H; subst; assumption].
Qed.

(* ------------------------------------------------------------------ *)
(* RawNode wrappers *)
From RV Require Import M.RawNode.

Definition NInv (n : rawnode) : Prop := RInv (rn_raft n).

Lemma lift_NInv n x n' : lift n x = Ok n' -> (forall r, x = Ok r -> RInv r) -> NInv n'.
Proof. unfold lift. intros H Hx. inv_bind H. inversion H; subst. apply Hx. exact Hx0. Qed.

Lemma lift2_NInv n x n' c :
  lift2 n x = Ok (n', c) -> (forall r c, x = Ok (r, c) -> RInv r) -> NInv n'.
Proof.
  unfold lift2. intros H Hx. inv_bind H. destruct x0 as [r c0]. inversion H; subst.
  eapply Hx. exact Hx0.
Qed.

Theorem rn_step_NInv n m n' c : rn_step n m = Ok (n', c) -> NInv n -> NInv n'.
Proof.
  unfold rn_step. intros H HI.
  destruct (is_local_msg (m_type m)); [inversion H; subst; exact HI|].
  match type of H with (if ?c then _ else _) = _ => destruct c end; [|inversion H; subst; exact HI].
  eapply lift2_NInv; [exact H|]. intros r c0 E. eapply step_RInv; [exact E|exact HI].
Qed.

Theorem rn_tick_NInv n n' b : rn_tick n = Ok (n', b) -> NInv n -> NInv n'.
Proof.
  unfold rn_tick. intros H HI. inv_bind H. destruct x as [r b0]. inversion H; subst.
  unfold NInv. cbn. eapply tick_RInv; [exact Hx|exact HI].
Qed.

Theorem rn_campaign_NInv n n' c : rn_campaign n = Ok (n', c) -> NInv n -> NInv n'.
Proof.
  unfold rn_campaign. intros H HI. eapply lift2_NInv; [exact H|].
  intros r c0 E. eapply step_RInv; [exact E|exact HI].
Qed.

Theorem rn_propose_NInv n ctx data n' c : rn_propose n ctx data = Ok (n', c) -> NInv n -> NInv n'.
Proof.
  unfold rn_propose. intros H HI. eapply lift2_NInv; [exact H|].
  intros r c0 E. eapply step_RInv; [exact E|exact HI].
Qed.

Theorem rn_propose_conf_change_NInv n ctx data ty ci n' c :
  rn_propose_conf_change n ctx data ty ci = Ok (n', c) -> NInv n -> NInv n'.
Proof.
  unfold rn_propose_conf_change. intros H HI. eapply lift2_NInv; [exact H|].
  intros r c0 E. eapply step_RInv; [exact E|exact HI].
Qed.

Theorem rn_apply_conf_change_NInv n cc n' o :
  rn_apply_conf_change n cc = Ok (n', o) -> NInv n -> NInv n'.
Proof.
  unfold rn_apply_conf_change. intros H HI. inv_bind H. destruct x as [r o0]. inversion H; subst.
  unfold NInv. cbn. eapply raft_apply_conf_change_RInv; [exact Hx|exact HI].
Qed.

Theorem rn_ping_NInv n n' : rn_ping n = Ok n' -> NInv n -> NInv n'.
Proof.
  unfold rn_ping. intros H HI. eapply lift_NInv; [exact H|].
  intros r E. eapply ping_RInv; [exact E|exact HI].
Qed.

Lemma gen_light_ready_NInv n n' lr : gen_light_ready n = Ok (n', lr) -> NInv n -> NInv n'.
Proof.
  unfold gen_light_ready. intros H HI. inv_bind H. inv_bind H. inversion H; subst.
  unfold NInv. cbn.
  assert (K : RInv (reduce_uncommitted_size (rn_raft n) match x with Some v => v | None => [] end))
    by (apply reduce_uncommitted_size_RInv; exact HI).
  exact K.
Qed.

Theorem rn_ready_NInv n n' rd : rn_ready n = Ok (n', rd) -> NInv n -> NInv n'.
Proof.
  unfold rn_ready. intros H HI. inv_bind H. inv_bind H.
  destruct x0 as [[[snap csi] rec_snap] ms2]. inv_bind H. destruct x0 as [n2 light].
  inversion H; subst. unfold NInv. cbn.
  eapply gen_light_ready_NInv in Hx1; [exact Hx1|]. unfold NInv. cbn. exact HI.
Qed.

Lemma commit_ready_NInv n rd n' : commit_ready n rd = Ok n' -> NInv n -> NInv n'.
Proof.
  unfold commit_ready. intros H HI.
  set (n0 := match rd_ss rd with Some ss => n <| rn_prev_ss := ss |> | None => n end) in H.
  assert (H0 : NInv n0) by (subst n0; destruct (rd_ss rd); exact HI). clearbody n0.
  set (n1 := match rd_hs rd with Some hs => n0 <| rn_prev_hs := hs |> | None => n0 end) in H.
  assert (H1 : NInv n1) by (subst n1; destruct (rd_hs rd); exact H0). clearbody n1.
  destruct (rn_records n1); [discriminate|].
  match type of H with (if ?c then _ else _) = _ => destruct c end; [discriminate|].
  inv_bind H. inv_bind H. inversion H; subst. unfold NInv in *. cbn. rinv.
Qed.

Theorem rn_advance_append_async_NInv n rd n' :
  rn_advance_append_async n rd = Ok n' -> NInv n -> NInv n'.
Proof. apply commit_ready_NInv. Qed.

Theorem rn_on_persist_ready_NInv n num n' : rn_on_persist_ready n num = Ok n' -> NInv n -> NInv n'.
Proof.
  unfold rn_on_persist_ready. intros H HI.
  destruct (fold_records (rn_records n) num 0 0 0) as [[[recs index] t] snap_index].
  inv_bind H. inv_bind H. inversion H; subst. unfold NInv in *. cbn in *.
  assert (H1 : RInv x).
  { destruct (negb (snap_index =? 0)); [eapply on_persist_snap_RInv; eassumption|].
    inversion Hx; subst. exact HI. }
  destruct (negb (index =? 0)); [eapply on_persist_entries_RInv; eassumption|].
  inversion Hx0; subst. exact H1.
Qed.

Theorem rn_advance_append_NInv n rd n' lr : rn_advance_append n rd = Ok (n', lr) -> NInv n -> NInv n'.
Proof.
  unfold rn_advance_append. intros H HI. inv_bind H. inv_bind H. inv_bind H.
  destruct x1 as [n3 light].
  assert (H3 : NInv n3).
  { eapply gen_light_ready_NInv; [exact Hx1|]. eapply rn_on_persist_ready_NInv; [exact Hx0|].
    eapply commit_ready_NInv; eassumption. }
  match type of H with (if ?c then _ else _) = _ => destruct c end; [discriminate|].
  inv_bind H. destruct x1 as [n4 ci].
  assert (H4 : NInv n4).
  { match type of Hx2 with (if ?c then _ else _) = _ => destruct c end;
      [inversion Hx2; subst; exact H3|].
    match type of Hx2 with (if ?c then _ else _) = _ => destruct c end; [discriminate|].
    inversion Hx2; subst; exact H3. }
  match type of H with (if ?c then _ else _) = _ => destruct c end; [discriminate|].
  inversion H; subst. exact H4.
Qed.

Theorem rn_advance_apply_to_NInv n a n' : rn_advance_apply_to n a = Ok n' -> NInv n -> NInv n'.
Proof.
  unfold rn_advance_apply_to. intros H HI. eapply lift_NInv; [exact H|].
  intros r E. eapply commit_apply_RInv; [exact E|exact HI].
Qed.

Theorem rn_advance_apply_NInv n n' : rn_advance_apply n = Ok n' -> NInv n -> NInv n'.
Proof. unfold rn_advance_apply. apply rn_advance_apply_to_NInv. Qed.

Theorem rn_advance_NInv n rd n' lr : rn_advance n rd = Ok (n', lr) -> NInv n -> NInv n'.
Proof.
  unfold rn_advance. intros H HI. inv_bind H. destruct x as [n1 l1]. cbn [fst snd] in H.
  inv_bind H. inversion H; subst.
  eapply rn_advance_apply_to_NInv; [exact Hx0|]. eapply rn_advance_append_NInv; eassumption.
Qed.

Theorem rn_report_unreachable_NInv n id n' : rn_report_unreachable n id = Ok n' -> NInv n -> NInv n'.
Proof.
  unfold rn_report_unreachable. intros H HI. inv_bind H. destruct x as [r c]. inversion H; subst.
  unfold NInv. cbn. eapply step_RInv; [exact Hx|exact HI].
Qed.

Theorem rn_report_snapshot_NInv n id f n' : rn_report_snapshot n id f = Ok n' -> NInv n -> NInv n'.
Proof.
  unfold rn_report_snapshot. intros H HI. inv_bind H. destruct x as [r c]. inversion H; subst.
  unfold NInv. cbn. eapply step_RInv; [exact Hx|exact HI].
Qed.

Theorem rn_request_snapshot_NInv n n' c : rn_request_snapshot n = Ok (n', c) -> NInv n -> NInv n'.
Proof.
  unfold rn_request_snapshot. intros H HI. eapply lift2_NInv; [exact H|].
  intros r c0 E. eapply request_snapshot_RInv; [exact E|exact HI].
Qed.

Theorem rn_transfer_leader_NInv n t n' : rn_transfer_leader n t = Ok n' -> NInv n -> NInv n'.
Proof.
  unfold rn_transfer_leader. intros H HI. inv_bind H. destruct x as [r c]. inversion H; subst.
  unfold NInv. cbn. eapply step_RInv; [exact Hx|exact HI].
Qed.

Theorem rn_read_index_NInv n ctx n' : rn_read_index n ctx = Ok n' -> NInv n -> NInv n'.
Proof.
  unfold rn_read_index. intros H HI. inv_bind H. destruct x as [r c]. inversion H; subst.
  unfold NInv. cbn. eapply step_RInv; [exact Hx|exact HI].
Qed.

(* what the invariant gives, for every tracked peer *)
Theorem RInv_window_bound r id pr :
  RInv r -> get_pr r id = Some pr ->
  (Inflights.count (ins pr) <= Inflights.cap (ins pr))%nat /\
  Inflights.count (ins pr) = length (iabs (ins pr)).
Proof.
  intros HI Hg. pose proof (get_pr_PrInv _ _ _ HI Hg) as Hp.
  split; [apply IInv_count_le_cap; exact Hp|apply count_abs].
Qed.
