From RV Require Import Base.Prelude Base.IdSet M.Util M.UtilProofs M.Proto M.MemStorage
  M.MemStorageProofs M.Inflights M.InflightsProofs M.Progress M.RaftLog M.Quorum M.ConfChange
  M.Msg M.Raft M.RaftProofs M.RaftProofsC13.
From RecordUpdate Require Import RecordSet.
Import RecordSetNotations.
Local Open Scope N_scope.

(* ================================================================== *)
(* 8. The window invariant over the whole node                          *)
(* ================================================================== *)

Definition PrsInv (m : list (N * progress)) : Prop := Forall (fun kp => PrInv (snd kp)) m.
Definition RInv (r : raft) : Prop := PrsInv (t_progress (r_prs r)).

Lemma pget_PrInv m id p : PrsInv m -> pget m id = Some p -> PrInv p.
Proof.
  induction m as [|[k q] t IH]; cbn [pget]; [discriminate|].
  intros H. inversion H; subst. destruct (k =? id).
  - intros E; inversion E; subst; assumption.
  - apply IH; assumption.
Qed.

Lemma pput_PrsInv m id p : PrsInv m -> PrInv p -> PrsInv (pput m id p).
Proof.
  intros H Hp. induction m as [|[k q] t IH]; cbn [pput].
  - constructor; [exact Hp|constructor].
  - inversion H; subst. destruct (id <? k); [constructor; assumption|].
    destruct (id =? k); [constructor; assumption|].
    constructor; [assumption|apply IH; assumption].
Qed.

Lemma pdel_PrsInv m id : PrsInv m -> PrsInv (pdel m id).
Proof.
  intros H. induction m as [|[k q] t IH]; cbn [pdel]; [constructor|].
  inversion H; subst. destruct (k =? id); [apply IH; assumption|].
  constructor; [assumption|apply IH; assumption].
Qed.

Lemma PrsInv_map (g : N * progress -> progress) m :
  (forall kp, PrInv (snd kp) -> PrInv (g kp)) ->
  PrsInv m -> PrsInv (map (fun kp => (fst kp, g kp)) m).
Proof.
  intros Hg H. induction H as [|kp t Hk Ht IH]; cbn [map]; constructor; [|exact IH].
  cbn [snd]. apply Hg. exact Hk.
Qed.

Lemma get_pr_PrInv r id p : RInv r -> get_pr r id = Some p -> PrInv p.
Proof. unfold RInv, get_pr. apply pget_PrInv. Qed.

Lemma put_pr_RInv r id p : RInv r -> PrInv p -> RInv (put_pr r id p).
Proof. unfold RInv, put_pr. cbn. apply pput_PrsInv. Qed.

(* a state with the same progress map *)
Lemma RInv_same r r' : t_progress (r_prs r') = t_progress (r_prs r) -> RInv r -> RInv r'.
Proof. unfold RInv. intros ->. exact (fun H => H). Qed.

Create HintDb rinv.
#[export] Hint Resolve PrInv_pr_new PrInv_set_matched PrInv_set_next_idx PrInv_set_paused
  PrInv_set_pending_snapshot PrInv_set_pending_request_snapshot PrInv_set_recent_active
  PrInv_set_commit_group_id PrInv_set_committed_index PrInv_reset_state PrInv_pr_reset
  PrInv_become_probe PrInv_become_replicate PrInv_become_snapshot PrInv_snapshot_failure
  PrInv_resume PrInv_pause PrInv_optimistic_update PrInv_maybe_update PrInv_update_committed
  PrInv_maybe_decr_to get_pr_PrInv put_pr_RInv : rinv.

Lemma maybe_update_eq_PrInv p n p' b : maybe_update p n = (p', b) -> PrInv p -> PrInv p'.
Proof. intros E H. pose proof (PrInv_maybe_update p n H) as K. rewrite E in K. exact K. Qed.

Lemma maybe_decr_to_eq_PrInv p a b c p' d :
  maybe_decr_to p a b c = (p', d) -> PrInv p -> PrInv p'.
Proof. intros E H. pose proof (PrInv_maybe_decr_to p a b c H) as K. rewrite E in K. exact K. Qed.

#[export] Hint Resolve maybe_update_eq_PrInv maybe_decr_to_eq_PrInv : rinv.

Ltac rinv_frame := solve [unfold RInv in *; cbn in *; assumption].
#[export] Hint Extern 6 (RInv _) => rinv_frame : rinv.

Ltac crush_step H :=
  match type of H with
  | Ok _ = Ok _ => inversion H; subst; clear H
  | Panic _ = Ok _ => discriminate H
  | bind _ _ = Ok _ =>
      let x := fresh "x" in let Hx := fresh "Hx" in
      apply bind_ok in H; destruct H as (x & Hx & H)
  | (if ?c then _ else _) = _ => destruct c eqn:?; cbv beta iota in H
  | (match ?x with _ => _ end) = _ => destruct x eqn:?; cbv beta iota in H
  end.

Ltac crush H := repeat (crush_step H).
Ltac rinv := eauto 12 with rinv.

Lemma send_RInv r m r' : send r m = Ok r' -> RInv r -> RInv r'.
Proof. unfold send. intros H HI. inv_bind H. inversion H; subst. rinv. Qed.
#[export] Hint Resolve send_RInv : rinv.

Lemma maybe_send_append_RInv r to pr ae r' pr' b :
  maybe_send_append r to pr ae = Ok (r', pr', b) -> RInv r -> RInv r' /\ (PrInv pr -> PrInv pr').
Proof.
  intros H HI. split; [|intros Hp; eapply maybe_send_append_PrInv; eassumption].
  destruct (maybe_send_append_cases _ _ _ _ _ _ _ H) as [(_ & -> & _)|(_ & _ & C)]; [exact HI|].
  destruct C as [(_ & s & _ & _ & -> & _)|[(_ & _ & t & ents & _ & _ & _ & -> & _)|
                 (_ & _ & _ & t & ents & msgs' & _ & _ & _ & _ & ->)]]; rinv.
Qed.

Lemma maybe_send_append_RInv1 r to pr ae r' pr' b :
  maybe_send_append r to pr ae = Ok (r', pr', b) -> RInv r -> RInv r'.
Proof. intros H HI. apply (maybe_send_append_RInv _ _ _ _ _ _ _ H HI). Qed.
Lemma maybe_send_append_RInv2 r to pr ae r' pr' b :
  maybe_send_append r to pr ae = Ok (r', pr', b) -> PrInv pr -> PrInv pr'.
Proof. intros H HI. eapply maybe_send_append_PrInv; eassumption. Qed.
#[export] Hint Resolve maybe_send_append_RInv1 maybe_send_append_RInv2 : rinv.

Lemma send_append_to_RInv r to r' : send_append_to r to = Ok r' -> RInv r -> RInv r'.
Proof. unfold send_append_to. intros H HI. crush H. rinv. Qed.
#[export] Hint Resolve send_append_to_RInv : rinv.

Lemma send_append_aggressively_loop_RInv fuel : forall r to pr r' pr',
  send_append_aggressively_loop fuel r to pr = Ok (r', pr') -> RInv r -> PrInv pr ->
  RInv r' /\ PrInv pr'.
Proof.
  induction fuel as [|f IH]; intros r to pr r' pr' H HI Hp; cbn [send_append_aggressively_loop] in H;
    [discriminate|].
  inv_bind H. destruct x as [[r1 pr1] b]. destruct b.
  - eapply IH; [exact H| |]; rinv.
  - inversion H; subst. split; rinv.
Qed.

Lemma send_append_aggressively_RInv r to r' :
  send_append_aggressively r to = Ok r' -> RInv r -> RInv r'.
Proof.
  unfold send_append_aggressively. intros H HI.
  destruct (get_pr r to) as [pr|] eqn:E; [|discriminate].
  inv_bind H. destruct x as [r1 pr1]. inversion H; subst.
  destruct (send_append_aggressively_loop_RInv _ _ _ _ _ _ Hx HI) as [A B]; rinv.
Qed.
#[export] Hint Resolve send_append_aggressively_RInv : rinv.

Lemma send_heartbeat_RInv r to pr ctx r' : send_heartbeat r to pr ctx = Ok r' -> RInv r -> RInv r'.
Proof. unfold send_heartbeat. intros H HI. rinv. Qed.
#[export] Hint Resolve send_heartbeat_RInv : rinv.

Lemma for_each_peer_RInv (f : raft -> N -> Res raft) :
  (forall r id r', f r id = Ok r' -> RInv r -> RInv r') ->
  forall ids self r r', for_each_peer ids self f r = Ok r' -> RInv r -> RInv r'.
Proof.
  intros Hf ids self. induction ids as [|id rest IH]; intros r r' H HI; cbn [for_each_peer] in H.
  - inversion H; subst. exact HI.
  - destruct (id =? self); [eapply IH; eassumption|].
    inv_bind H. eapply IH; [exact H|]. eapply Hf; eassumption.
Qed.

Lemma bcast_append_RInv r r' : bcast_append r = Ok r' -> RInv r -> RInv r'.
Proof. unfold bcast_append. apply for_each_peer_RInv. intros; rinv. Qed.
#[export] Hint Resolve bcast_append_RInv : rinv.

Lemma bcast_heartbeat_with_ctx_RInv r ctx r' :
  bcast_heartbeat_with_ctx r ctx = Ok r' -> RInv r -> RInv r'.
Proof.
  unfold bcast_heartbeat_with_ctx. apply for_each_peer_RInv.
  intros r0 id r1 H HI. destruct (get_pr r0 id); [rinv|discriminate].
Qed.
#[export] Hint Resolve bcast_heartbeat_with_ctx_RInv : rinv.

Lemma bcast_heartbeat_RInv r r' : bcast_heartbeat r = Ok r' -> RInv r -> RInv r'.
Proof. unfold bcast_heartbeat. rinv. Qed.
#[export] Hint Resolve bcast_heartbeat_RInv : rinv.

Lemma maybe_commit_RInv r r' b : maybe_commit r = Ok (r', b) -> RInv r -> RInv r'.
Proof. unfold maybe_commit. intros H HI. crush H; rinv. Qed.
#[export] Hint Resolve maybe_commit_RInv : rinv.

Lemma maybe_increase_uncommitted_size_RInv r ents r' ok :
  maybe_increase_uncommitted_size r ents = (r', ok) -> RInv r -> RInv r'.
Proof.
  intros H HI. destruct (uncommitted_effect _ _ _ _ H) as (A & B).
  destruct ok; [destruct (B eq_refl) as [(_ & ->)|(_ & ->)]; rinv|rewrite (A eq_refl); exact HI].
Qed.
#[export] Hint Resolve maybe_increase_uncommitted_size_RInv : rinv.

Lemma reduce_uncommitted_size_RInv r ents : RInv r -> RInv (reduce_uncommitted_size r ents).
Proof.
  intros HI. destruct (reduce_uncommitted_spec r ents) as (_ & _ & _ & [E|E] & _); rewrite E; rinv.
Qed.
#[export] Hint Resolve reduce_uncommitted_size_RInv : rinv.

Lemma append_entry_RInv r es r' b : append_entry r es = Ok (r', b) -> RInv r -> RInv r'.
Proof.
  unfold append_entry. intros H HI.
  destruct (maybe_increase_uncommitted_size r es) as [r1 ok] eqn:E.
  assert (RInv r1) by rinv. crush H; rinv.
Qed.
#[export] Hint Resolve append_entry_RInv : rinv.

Lemma reset_RInv r t r' : reset r t = Ok r' -> RInv r -> RInv r'.
Proof.
  unfold reset. intros H HI.
  set (r0 := if negb (r_term r =? t) then r <| r_term := t |> <| r_vote := INVALID_ID |> else r) in H.
  assert (H0 : RInv r0) by (subst r0; destruct (negb (r_term r =? t)); rinv).
  clearbody r0. destruct (r_draws r0) as [|d ds]; [discriminate|]. inversion H; subst. clear H.
  unfold RInv. cbn.
  apply (PrsInv_map (fun kp => if fst kp =? r_id r0 then _ else _)); [|exact H0].
  intros kp Hk. destruct (fst kp =? r_id r0); rinv.
Qed.
#[export] Hint Resolve reset_RInv : rinv.

Lemma become_follower_RInv r t l r' : become_follower r t l = Ok r' -> RInv r -> RInv r'.
Proof. unfold become_follower. intros H HI. crush H. assert (RInv x) by rinv. rinv. Qed.
#[export] Hint Resolve become_follower_RInv : rinv.

Lemma become_candidate_RInv r r' : become_candidate r = Ok r' -> RInv r -> RInv r'.
Proof. unfold become_candidate. intros H HI. crush H. assert (RInv x) by rinv. rinv. Qed.
#[export] Hint Resolve become_candidate_RInv : rinv.

Lemma become_pre_candidate_RInv r r' : become_pre_candidate r = Ok r' -> RInv r -> RInv r'.
Proof. unfold become_pre_candidate. intros H HI. crush H. rinv. Qed.
#[export] Hint Resolve become_pre_candidate_RInv : rinv.

Lemma become_leader_RInv r r' : become_leader r = Ok r' -> RInv r -> RInv r'.
Proof.
  unfold become_leader. intros H HI.
  destruct (role_eqb (r_state r) Follower); [discriminate|].
  inv_bind H. assert (Hx0 : RInv x) by rinv.
  match type of H with (if ?c then _ else _) = _ => destruct c end; [discriminate|].
  match type of H with (match ?g with _ => _ end) = _ => destruct g as [pr|] eqn:Eg end; [|discriminate].
  inv_bind H. destruct x0 as [r6 ok]. destruct ok; [|discriminate]. inversion H; subst.
  eapply append_entry_RInv; [exact Hx1|].
  assert (Hp : PrInv pr) by (eapply pget_PrInv; [exact Hx0|exact Eg]).
  unfold RInv. cbn. apply pput_PrsInv; [exact Hx0|rinv].
Qed.
#[export] Hint Resolve become_leader_RInv : rinv.

Lemma poll_gen_RInv rc r from v r' res :
  (forall r r', rc r = Ok r' -> RInv r -> RInv r') ->
  poll_gen rc r from v = Ok (r', res) -> RInv r -> RInv r'.
Proof.
  unfold poll_gen. intros Hrc H HI.
  set (r0 := r <| r_prs := (r_prs r) <| t_votes := _ |> |>) in H.
  assert (H0 : RInv r0) by (subst r0; rinv). clearbody r0.
  crush H; rinv.
Qed.

Lemma send_vote_requests_RInv ids : forall r vm t c ct tr r',
  send_vote_requests ids r vm t c ct tr = Ok r' -> RInv r -> RInv r'.
Proof.
  induction ids as [|id rest IH]; intros r vm t c ct tr r' H HI; cbn [send_vote_requests] in H.
  - inversion H; subst; exact HI.
  - destruct (id =? r_id r); [eapply IH; eassumption|].
    inv_bind H. inv_bind H. eapply IH; [exact H|]. rinv.
Qed.
#[export] Hint Resolve send_vote_requests_RInv : rinv.

Lemma campaign_real_RInv tr r r' : campaign_real tr r = Ok r' -> RInv r -> RInv r'.
Proof.
  unfold campaign_real. intros H HI. inv_bind H. inv_bind H. destruct x0 as [r2 res].
  assert (RInv r2).
  { eapply poll_gen_RInv; [|exact Hx0|rinv]. intros; discriminate. }
  crush H; rinv.
Qed.
#[export] Hint Resolve campaign_real_RInv : rinv.

Lemma poll_RInv r from v r' res : poll r from v = Ok (r', res) -> RInv r -> RInv r'.
Proof. unfold poll. apply poll_gen_RInv. intros; rinv. Qed.
#[export] Hint Resolve poll_RInv : rinv.

Lemma campaign_pre_RInv r r' : campaign_pre r = Ok r' -> RInv r -> RInv r'.
Proof.
  unfold campaign_pre. intros H HI. inv_bind H. inv_bind H. destruct x0 as [r2 res].
  assert (RInv r2) by rinv. crush H; rinv.
Qed.
#[export] Hint Resolve campaign_pre_RInv : rinv.

Lemma hup_RInv r tl r' : hup r tl = Ok r' -> RInv r -> RInv r'.
Proof. unfold hup. intros H HI. crush H; rinv. Qed.
#[export] Hint Resolve hup_RInv : rinv.

Lemma maybe_commit_by_vote_RInv r m r' : maybe_commit_by_vote r m = Ok r' -> RInv r -> RInv r'.
Proof.
  unfold maybe_commit_by_vote. intros H HI.
  destruct ((m_commit m =? 0) || (m_commit_term m =? 0)); [inversion H; subst; exact HI|].
  destruct ((m_commit m <=? committed (r_log r)) || is_leader r); [inversion H; subst; exact HI|].
  inv_bind H. destruct x as [l' b].
  assert (H1 : RInv (r <| r_log := l' |>)) by rinv.
  crush H; rinv.
Qed.
#[export] Hint Resolve maybe_commit_by_vote_RInv : rinv.

Lemma handle_ready_read_index_RInv r req i r' om :
  handle_ready_read_index r req i = Ok (r', om) -> RInv r -> RInv r'.
Proof. unfold handle_ready_read_index. intros H HI. crush H; rinv. Qed.
#[export] Hint Resolve handle_ready_read_index_RInv : rinv.

Lemma respond_reads_RInv rss : forall r r', respond_reads r rss = Ok r' -> RInv r -> RInv r'.
Proof.
  induction rss as [|rs rest IH]; intros r r' H HI; cbn [respond_reads] in H.
  - inversion H; subst; exact HI.
  - inv_bind H. destruct x as [r1 om]. inv_bind H. eapply IH; [exact H|].
    assert (RInv r1) by rinv. destruct om; [rinv|inversion Hx0; subst; assumption].
Qed.
#[export] Hint Resolve respond_reads_RInv : rinv.

Lemma send_timeout_now_RInv r to r' : send_timeout_now r to = Ok r' -> RInv r -> RInv r'.
Proof. unfold send_timeout_now. rinv. Qed.
#[export] Hint Resolve send_timeout_now_RInv : rinv.

Lemma send_request_snapshot_RInv r r' : send_request_snapshot r = Ok r' -> RInv r -> RInv r'.
Proof. unfold send_request_snapshot. intros H HI. crush H; rinv. Qed.
#[export] Hint Resolve send_request_snapshot_RInv : rinv.

Lemma handle_append_entries_RInv r m r' : handle_append_entries r m = Ok r' -> RInv r -> RInv r'.
Proof.
  unfold handle_append_entries. intros H HI.
  destruct (negb (r_pending_request_snapshot r =? INVALID_INDEX)); [rinv|].
  destruct (m_index m <? committed (r_log r)); [rinv|].
  inv_bind H. destruct x as [l' res].
  assert (H1 : RInv (r <| r_log := l' |>)) by rinv.
  crush H; rinv.
Qed.
#[export] Hint Resolve handle_append_entries_RInv : rinv.

Lemma handle_heartbeat_RInv r m r' : handle_heartbeat r m = Ok r' -> RInv r -> RInv r'.
Proof.
  unfold handle_heartbeat. intros H HI. inv_bind H.
  assert (H1 : RInv (r <| r_log := x |>)) by rinv.
  crush H; rinv.
Qed.
#[export] Hint Resolve handle_heartbeat_RInv : rinv.
