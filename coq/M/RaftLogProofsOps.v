(* C14, part 2: the mutators of RaftLog act on the logical log [abs] as the
   obvious list operations and preserve [RepInv]:
   commit_to, maybe_commit, applied_to, append (= truncate-then-append),
   maybe_append, restore; exact characterisation of the two documented fatal
   cases (append below commit, conflict at or below commit). *)
From RV Require Import Base.Prelude M.Util M.UtilProofs M.MemStorage M.MemStorageProofs
  M.RaftLog M.RaftLogProofs.

Local Open Scope N_scope.

Ltac splits := repeat match goal with |- _ /\ _ => split end.

(* ================================================================== *)
(* frame lemmas                                                        *)
(* ================================================================== *)
Lemma abs_ext : forall l l', store l' = store l -> unst l' = unst l -> abs l' = abs l.
Proof. intros l l' Hs Hu. unfold abs, stable_part. rewrite Hs, Hu. reflexivity. Qed.

Lemma RepInv_set_committed : forall rw l c,
    RepInv rw l -> committed l <= c -> c <= ll_last (abs l) ->
    (rw = false -> applied l <= c) -> RepInv rw (set_committed l c).
Proof.
  intros rw l c H Hc Hl Ha. destruct H as [Hs Hq Hct Hsh Hp Hcm Hap Hb].
  assert (Habs : abs (set_committed l c) = abs l) by (apply abs_ext; reflexivity).
  constructor; rewrite ?Habs; cbn [set_committed store unst committed persisted applied]; auto.
  destruct (u_snapshot (unst l)) as [s|].
  - destruct Hsh as [Ho Hsc]. split; [exact Ho|lia].
  - destruct Hsh as (Hr & He & Hfc). split; [exact Hr|]. split; [exact He|lia].
Qed.

Lemma RepInv_set_applied : forall rw l a,
    RepInv rw l -> (rw = false -> a <= committed l) -> RepInv rw (set_applied l a).
Proof.
  intros rw l a H Ha. destruct H as [Hs Hq Hct Hsh Hp Hcm Hap Hb].
  assert (Habs : abs (set_applied l a) = abs l) by (apply abs_ext; reflexivity).
  constructor; rewrite ?Habs; cbn [set_applied store unst committed persisted applied]; auto.
Qed.

Lemma RepInv_set_persisted : forall rw l p,
    RepInv rw l -> p < u_offset (unst l) -> p < next_of (store l) -> RepInv rw (set_persisted l p).
Proof.
  intros rw l p H H1 H2. destruct H as [Hs Hq Hct Hsh Hp Hcm Hap Hb].
  assert (Habs : abs (set_persisted l p) = abs l) by (apply abs_ext; reflexivity).
  constructor; rewrite ?Habs; cbn [set_persisted store unst committed persisted applied]; auto.
Qed.

(* leaving the restart window is sound as soon as applied <= committed *)
Lemma RepInv_close_window : forall l, RepInv true l -> applied l <= committed l -> RepInv false l.
Proof. intros l H Ha. destruct H. constructor; auto. Qed.

Lemma RepInv_open_window : forall rw l, RepInv rw l -> RepInv true l.
Proof. intros rw l H. destruct H. constructor; auto. intros; discriminate. Qed.

(* ================================================================== *)
(* commit_to / maybe_commit / applied_to                               *)
(* ================================================================== *)
Theorem commit_to_ok : forall rw l tc,
    RepInv rw l -> tc <= ll_last (abs l) ->
    exists l', commit_to l tc = Ok l' /\ RepInv rw l' /\ abs l' = abs l
               /\ committed l' = N.max (committed l) tc
               /\ persisted l' = persisted l /\ applied l' = applied l
               /\ store l' = store l /\ unst l' = unst l.
Proof.
  intros rw l tc H Hl. unfold commit_to. destruct (tc <=? committed l) eqn:E.
  - exists l. splits; auto. lia.
  - rewrite (abs_last rw l H). destruct (ll_last (abs l) <? tc) eqn:E2; [lia|].
    exists (set_committed l tc). split; [reflexivity|]. split.
    + apply RepInv_set_committed; auto; [lia|]. intros Hrw. pose proof (ri_applied rw l H Hrw). lia.
    + split; [apply abs_ext; reflexivity|]. cbn. splits; auto. lia.
Qed.

Theorem commit_to_panics_iff : forall rw l tc,
    RepInv rw l ->
    (commit_to l tc = Panic site_l_commit_range <-> committed l < tc /\ ll_last (abs l) < tc).
Proof.
  intros rw l tc H. unfold commit_to. rewrite (abs_last rw l H).
  destruct (tc <=? committed l) eqn:E; [split; [discriminate|lia]|].
  destruct (ll_last (abs l) <? tc) eqn:E2; split; try discriminate; try lia; auto.
Qed.

Theorem maybe_commit_ok : forall rw l i t,
    RepInv rw l -> (i <= ll_last (abs l) \/ t <> 0) ->
    exists l' b, maybe_commit l i t = Ok (l', b) /\ RepInv rw l' /\ abs l' = abs l
      /\ b = (committed l <? i) && ll_match (abs l) i t
      /\ committed l' = (if b then i else committed l)
      /\ persisted l' = persisted l /\ applied l' = applied l.
Proof.
  intros rw l i t H Hit. unfold maybe_commit. destruct (committed l <? i) eqn:E.
  - rewrite (term_abs rw l i H). cbn [bind]. fold (ll_match (abs l) i t).
    destruct (ll_match (abs l) i t) eqn:Em.
    + assert (Hil : i <= ll_last (abs l)).
      { destruct Hit as [Hit|Hit]; [exact Hit|].
        unfold ll_match, ll_term in Em.
        destruct (ll_last (abs l) <? i) eqn:E3; [|lia].
        rewrite Bool.orb_true_r in Em. cbn in Em. lia. }
      destruct (commit_to_ok rw l i H Hil) as (l' & Hc & Hr & Ha & Hcm & Hp & Hap & _).
      rewrite Hc. cbn [bind]. exists l', true. splits; auto. lia.
    + exists l, false. splits; auto.
  - exists l, false. splits; auto.
Qed.

Theorem applied_to_ok : forall rw l i,
    RepInv rw l -> applied l <= i <= committed l ->
    exists l', applied_to l i = Ok l' /\ RepInv rw l' /\ abs l' = abs l
               /\ applied l' = (if i =? 0 then applied l else i)
               /\ committed l' = committed l /\ persisted l' = persisted l.
Proof.
  intros rw l i H Hi. unfold applied_to. destruct (i =? 0) eqn:E0.
  - exists l. splits; auto.
  - destruct ((committed l <? i) || (i <? applied l)) eqn:E; [lia|].
    exists (set_applied l i). split; [reflexivity|]. split; [apply RepInv_set_applied; auto; lia|].
    split; [apply abs_ext; reflexivity|]. cbn. auto.
Qed.

Theorem applied_to_panics_iff : forall l i,
    applied_to l i = Panic site_l_applied_range <-> i <> 0 /\ (committed l < i \/ i < applied l).
Proof.
  intros l i. unfold applied_to. destruct (i =? 0) eqn:E0; [split; [discriminate|lia]|].
  destruct ((committed l <? i) || (i <? applied l)) eqn:E; split; try discriminate; try lia; auto.
Qed.

(* ================================================================== *)
(* append                                                              *)
(* ================================================================== *)
Lemma trunc_append_ok : forall u e0 t,
    let ents := e0 :: t in
    let s := e_index e0 in
    s <= u_offset u + N.of_nat (length (u_entries u)) ->
    exists u', u_truncate_and_append u ents = Ok u'
      /\ u_snapshot u' = u_snapshot u
      /\ ((s <= u_offset u /\ u_offset u' = s /\ u_entries u' = ents)
          \/ (u_offset u < s /\ u_offset u' = u_offset u
              /\ u_entries u' = firstn (N.to_nat (s - u_offset u)) (u_entries u) ++ ents)).
Proof.
  intros u e0 t ents s Hs. subst ents s. unfold u_truncate_and_append.
  destruct (e_index e0 =? u_offset u + N.of_nat (length (u_entries u))) eqn:EA.
  - cbn [bind]. eexists. split; [reflexivity|]. split; [reflexivity|].
    cbn [u_offset u_entries].
    destruct (N.eq_dec (N.of_nat (length (u_entries u))) 0) as [Hz|Hz].
    + left. split; [lia|]. split; [lia|]. destruct (u_entries u); [reflexivity|cbn in Hz; lia].
    + right. split; [lia|]. split; [reflexivity|]. f_equal. symmetry. apply firstn_all2. lia.
  - destruct (e_index e0 <=? u_offset u) eqn:EB.
    + cbn [bind]. eexists. split; [reflexivity|]. split; [reflexivity|]. left. cbn. split; [lia|auto].
    + unfold u_must_check_outofbounds.
      destruct (e_index e0 <? u_offset u) eqn:E1; [lia|].
      destruct ((u_offset u <? u_offset u) || (u_offset u + N.of_nat (length (u_entries u)) <? e_index e0)) eqn:E2; [lia|].
      cbn [bind]. eexists. split; [reflexivity|]. split; [reflexivity|]. right. cbn. split; [lia|auto].
Qed.

Lemma trunc_append_gap_panics : forall u e0 t,
    u_offset u + N.of_nat (length (u_entries u)) < e_index e0 ->
    u_truncate_and_append u (e0 :: t) = Panic site_u_slice_bound.
Proof.
  intros u e0 t H. unfold u_truncate_and_append.
  destruct (e_index e0 =? u_offset u + N.of_nat (length (u_entries u))) eqn:EA; [lia|].
  destruct (e_index e0 <=? u_offset u) eqn:EB; [lia|].
  unfold u_must_check_outofbounds.
  destruct (e_index e0 <? u_offset u) eqn:E1; [lia|].
  destruct ((u_offset u <? u_offset u) || (u_offset u + N.of_nat (length (u_entries u)) <? e_index e0)) eqn:E2; [reflexivity|lia].
Qed.

Lemma ll_last_upper : forall rw l, RepInv rw l ->
    ll_last (abs l) + 1 = u_offset (unst l) + N.of_nat (length (u_entries (unst l))).
Proof.
  intros rw l H. destruct H as [Hs _ _ Hsh _ _ _ _]. unfold abs, ll_last.
  destruct (u_snapshot (unst l)) as [s|]; cbn [ll_base ll_ents].
  - destruct Hsh as [Ho _]. lia.
  - destruct Hsh as (Hr & _ & _). pose proof (first_pos _ Hs).
    rewrite app_length, (stable_part_length l Hr). lia.
Qed.

Lemma firstn_firstn_min : forall {A} (l : list A) i j, firstn i (firstn j l) = firstn (Nat.min i j) l.
Proof. intros. apply firstn_firstn. Qed.

(* The heart of append: replacing the unstable part by the result of
   truncate_and_append is truncate-at-index-then-append on the logical log. *)
Lemma append_unstable_abs : forall rw l e0 t u' p,
    let ents := e0 :: t in
    let s := e_index e0 in
    RepInv rw l -> contiguous_from s ents ->
    committed l < s -> s <= ll_last (abs l) + 1 -> p <= persisted l -> p < s ->
    s + N.of_nat (length ents) <= u64_max ->
    u_snapshot u' = u_snapshot (unst l) ->
    ((s <= u_offset (unst l) /\ u_offset u' = s /\ u_entries u' = ents)
     \/ (u_offset (unst l) < s /\ u_offset u' = u_offset (unst l)
         /\ u_entries u' = firstn (N.to_nat (s - u_offset (unst l))) (u_entries (unst l)) ++ ents)) ->
    abs (set_persisted (set_unst l u') p) = ll_append (abs l) ents
    /\ RepInv rw (set_persisted (set_unst l u') p).
Proof.
  intros rw l e0 t u' p ents s H Hc Hcs Hsl Hpp Hps Hbd Hsn Hcase.
  pose proof (ll_last_upper rw l H) as Hup.
  pose proof H as H0. destruct H0 as [Hs Hq Hct Hsh Hp Hcm Hap Hb].
  assert (Habs : abs (set_persisted (set_unst l u') p) = ll_append (abs l) ents).
  { unfold abs, ll_append, stable_part. cbn [set_persisted set_unst store unst ents]. rewrite Hsn. fold s.
    destruct (u_snapshot (unst l)) as [sn|]; cbn [ll_base ll_bterm ll_ents].
    - destruct Hsh as [Ho Hsc]. f_equal.
      destruct Hcase as [(Hle & Ho' & He')|(Hlt & Ho' & He')]; rewrite He'.
      + replace (N.to_nat (s - s_index sn - 1)) with O by lia. reflexivity.
      + f_equal. f_equal. lia.
    - destruct Hsh as (Hr & He & Hfc). pose proof (first_pos _ Hs) as Hfp.
      pose proof (stable_part_length l Hr) as Hlen. unfold stable_part in Hlen.
      f_equal. rewrite firstn_app, Hlen.
      destruct Hcase as [(Hle & Ho' & He')|(Hlt & Ho' & He')]; rewrite He', Ho'.
      + replace (N.to_nat (s - (first_of (store l) - 1) - 1) - N.to_nat (u_offset (unst l) - first_of (store l)))%nat
          with O by lia.
        cbn [firstn]. rewrite app_nil_r, firstn_firstn. f_equal. f_equal. lia.
      + rewrite app_assoc. f_equal. f_equal.
        * symmetry. apply firstn_all2. rewrite Hlen. lia.
        * f_equal. lia. }
  split; [exact Habs|].
  assert (Hlast : ll_last (ll_append (abs l) ents) = s + N.of_nat (length ents) - 1).
  { unfold ll_append, ll_last. cbn [ents ll_base ll_ents]. fold s.
    rewrite app_length, firstn_length.
    assert (Hbs : ll_base (abs l) < s).
    { unfold abs. destruct (u_snapshot (unst l)); cbn [ll_base]; [destruct Hsh; lia|].
      destruct Hsh as (_ & _ & Hfc). pose proof (first_pos _ Hs). lia. }
    unfold ll_last in Hsl. cbn [length]. lia. }
  constructor; rewrite ?Habs, ?Hlast; cbn [set_persisted set_unst store unst committed persisted applied]; auto.
  - (* unstable entries contiguous from the new offset *)
    destruct Hcase as [(Hle & Ho' & He')|(Hlt & Ho' & He')]; rewrite He', Ho'; [exact Hc|].
    apply contig_app; [apply contig_firstn; exact Hct|].
    rewrite firstn_length.
    replace (u_offset (unst l) + N.of_nat (Nat.min (N.to_nat (s - u_offset (unst l))) (length (u_entries (unst l)))))
      with s by lia.
    exact Hc.
  - rewrite Hsn. destruct (u_snapshot (unst l)) as [sn|].
    + destruct Hsh as [Ho Hsc]. split; [|exact Hsc].
      destruct Hcase as [(Hle & Ho' & He')|(Hlt & Ho' & He')]; rewrite Ho'; lia.
    + destruct Hsh as (Hr & He & Hfc). pose proof (first_pos _ Hs).
      split; [|split; [|exact Hfc]].
      * destruct Hcase as [(Hle & Ho' & He')|(Hlt & Ho' & He')]; rewrite Ho'; lia.
      * intros Hnil. exfalso.
        destruct Hcase as [(Hle & Ho' & He')|(Hlt & Ho' & He')]; rewrite He' in Hnil.
        -- discriminate.
        -- apply app_eq_nil in Hnil. destruct Hnil; discriminate.
  - destruct Hp as [Hp1 Hp2]. split; [|lia].
    destruct Hcase as [(Hle & Ho' & He')|(Hlt & Ho' & He')]; rewrite Ho'; lia.
  - cbn [ents length]. lia.
  - cbn [ents length] in *. lia.
Qed.

Theorem log_append_ok : forall rw l e0 t,
    let ents := e0 :: t in
    let s := e_index e0 in
    RepInv rw l -> contiguous_from s ents ->
    committed l < s -> s <= ll_last (abs l) + 1 -> persisted l < s ->
    s + N.of_nat (length ents) <= u64_max ->
    exists l', log_append l ents = Ok (l', s + N.of_nat (length ents) - 1)
      /\ RepInv rw l' /\ abs l' = ll_append (abs l) ents
      /\ committed l' = committed l /\ persisted l' = persisted l /\ applied l' = applied l
      /\ store l' = store l.
Proof.
  intros rw l e0 t ents s H Hc Hcs Hsl Hps Hbd. subst ents s.
  pose proof (ll_last_upper rw l H) as Hup.
  destruct (trunc_append_ok (unst l) e0 t ltac:(lia)) as (u' & Hu & Hsn & Hcase).
  destruct (append_unstable_abs rw l e0 t u' (persisted l) H Hc Hcs Hsl ltac:(lia) Hps Hbd Hsn Hcase) as [Habs Hr].
  change (set_persisted (set_unst l u') (persisted l)) with (set_unst l u') in *.
  unfold log_append. destruct (e_index e0 =? 0) eqn:E0; [lia|].
  destruct (e_index e0 - 1 <? committed l) eqn:E1; [lia|].
  rewrite Hu. cbn [bind].
  exists (set_unst l u'). split.
  - f_equal. f_equal. rewrite (abs_last rw _ Hr), Habs.
    unfold ll_append, ll_last. cbn [ll_base ll_ents].
    rewrite app_length, firstn_length.
    assert (Hbs : ll_base (abs l) < e_index e0).
    { destruct H as [Hs _ _ Hsh _ _ _ _]. unfold abs.
      destruct (u_snapshot (unst l)); cbn [ll_base]; [destruct Hsh; lia|].
      destruct Hsh as (_ & _ & Hfc). pose proof (first_pos _ Hs). lia. }
    unfold ll_last in Hsl. cbn [length]. lia.
  - splits; auto.
Qed.

Theorem log_append_nil : forall l, log_append l [] = Ok (l, last_index l).
Proof. reflexivity. Qed.

Ltac case_if_in H :=
  match type of H with context [if ?c then _ else _] => destruct c eqn:?; cbn [bind] in H end.

Lemma trunc_append_sites : forall u ents s,
    u_truncate_and_append u ents = Panic s ->
    s = site_u_trunc_empty \/ s = site_u_slice_order \/ s = site_u_slice_bound.
Proof.
  intros u ents s H. unfold u_truncate_and_append in H.
  destruct ents as [|e0 t]; [inversion H; auto|].
  case_if_in H; [discriminate|]. case_if_in H; [discriminate|].
  unfold u_must_check_outofbounds in H.
  case_if_in H; [inversion H; auto|]. case_if_in H; [inversion H; auto|discriminate].
Qed.

(* the fatal case of append is exactly "append below commit" *)
Theorem log_append_fatal_iff : forall l e0 t,
    log_append l (e0 :: t) = Panic site_l_append_range
    <-> 0 < e_index e0 /\ e_index e0 - 1 < committed l.
Proof.
  intros l e0 t. unfold log_append. destruct (e_index e0 =? 0) eqn:E0; [split; [discriminate|lia]|].
  destruct (e_index e0 - 1 <? committed l) eqn:E1; [split; [lia|reflexivity]|].
  split; [|lia]. intros Hp. exfalso.
  destruct (u_truncate_and_append (unst l) (e0 :: t)) eqn:Eu; cbn [bind] in Hp; [discriminate|].
  inversion Hp; subst. apply trunc_append_sites in Eu.
  destruct Eu as [Eu|[Eu|Eu]]; discriminate.
Qed.

(* a gap after the last index is the other way append can fail *)
Theorem log_append_gap_panics : forall rw l e0 t,
    RepInv rw l -> committed l < e_index e0 -> ll_last (abs l) + 1 < e_index e0 ->
    log_append l (e0 :: t) = Panic site_u_slice_bound.
Proof.
  intros rw l e0 t H Hc Hg. pose proof (ll_last_upper rw l H) as Hup.
  unfold log_append. destruct (e_index e0 =? 0) eqn:E0; [lia|].
  destruct (e_index e0 - 1 <? committed l) eqn:E1; [lia|].
  rewrite trunc_append_gap_panics by lia. reflexivity.
Qed.

(* ================================================================== *)
(* entries at or below the truncation point are untouched               *)
(* ================================================================== *)
Lemma ll_get_append_below : forall L e0 t i,
    i < e_index e0 -> e_index e0 <= ll_last L + 1 -> ll_get (ll_append L (e0 :: t)) i = ll_get L i.
Proof.
  intros L e0 t i Hi Hs. unfold ll_get, ll_append, ll_last in *. cbn [ll_base ll_ents].
  destruct (i <=? ll_base L) eqn:E; [reflexivity|].
  destruct (nth_error (ll_ents L) (N.to_nat (i - ll_base L - 1))) eqn:En.
  - rewrite nth_error_app1.
    + rewrite nth_error_firstn_lt by lia. exact En.
    + rewrite firstn_length. assert ((N.to_nat (i - ll_base L - 1) < length (ll_ents L))%nat).
      { apply nth_error_Some. congruence. } lia.
  - apply nth_error_None in En. lia.
Qed.

(* ================================================================== *)
(* maybe_append                                                        *)
(* ================================================================== *)
Lemma ll_match_in_range : forall L j t,
    ll_match L j t = true -> t <> 0 -> ll_base L <= j <= ll_last L.
Proof.
  intros L j t Hm Ht. unfold ll_match, ll_term in Hm.
  destruct ((j <? ll_base L) || (ll_last L <? j)) eqn:E.
  - cbn in Hm. lia.
  - apply Bool.orb_false_iff in E. lia.
Qed.

Definition nz_terms (ents : list entry) : Prop := Forall (fun e => e_term e <> 0) ents.

(* shape of the conflict search over a contiguous batch with non-zero terms *)
Lemma find_conflict_props : forall L ents j,
    contiguous_from j ents -> nz_terms ents -> 0 < j -> j <= ll_last L + 1 ->
    let ci := ll_find_conflict L ents in
    (ci = 0 /\ j + N.of_nat (length ents) <= ll_last L + 1)
    \/ (ci <> 0 /\ j <= ci /\ ci < j + N.of_nat (length ents) /\ ci <= ll_last L + 1
        /\ exists e r, skipn (N.to_nat (ci - j)) ents = e :: r /\ e_index e = ci).
Proof.
  intros L ents. induction ents as [|e rest IH]; intros j Hc Hnz Hj Hjl; cbn [ll_find_conflict].
  - left. cbn [length]. split; [reflexivity|lia].
  - destruct Hc as [He Hc]. inversion Hnz as [|? ? Hte Hnz']; subst.
    destruct (ll_match L (e_index e) (e_term e)) eqn:Em.
    + pose proof (ll_match_in_range L _ _ Em Hte) as Hr.
      destruct (IH (e_index e + 1) Hc Hnz' ltac:(lia) ltac:(lia)) as [[H0 Hl]|(Hn0 & H1 & H2 & H3 & e' & r & Hsk & Hi)].
      * left. cbn [length]. split; [exact H0|lia].
      * right. cbn [length]. split; [exact Hn0|]. split; [lia|]. split; [lia|]. split; [exact H3|].
        exists e', r. split; [|exact Hi].
        replace (N.to_nat (ll_find_conflict L rest - e_index e))
          with (S (N.to_nat (ll_find_conflict L rest - (e_index e + 1)))) by lia.
        cbn [skipn]. exact Hsk.
    + right. cbn [length]. split; [lia|]. split; [lia|]. split; [lia|]. split; [lia|].
      exists e, rest. split; [|reflexivity].
      replace (N.to_nat (e_index e - e_index e)) with O by lia. reflexivity.
Qed.

Definition ll_maybe_append (L : LL) (i : N) (ents : list entry) : LL :=
  let ci := ll_find_conflict L ents in
  if ci =? 0 then L else ll_append L (skipn (N.to_nat (ci - (i + 1))) ents).

Theorem maybe_append_reject : forall rw l i t cmt ents,
    RepInv rw l -> ll_match (abs l) i t = false ->
    maybe_append l i t cmt ents = Ok (l, None).
Proof.
  intros rw l i t cmt ents H Hm. unfold maybe_append.
  rewrite (match_term_abs rw l i t H), Hm. reflexivity.
Qed.

Theorem maybe_append_fatal : forall rw l i t cmt ents,
    RepInv rw l -> ll_match (abs l) i t = true ->
    0 < ll_find_conflict (abs l) ents <= committed l ->
    maybe_append l i t cmt ents = Panic site_l_append_conflict.
Proof.
  intros rw l i t cmt ents H Hm Hc. unfold maybe_append.
  rewrite (match_term_abs rw l i t H), Hm. cbn [bind negb].
  rewrite (find_conflict_abs rw l ents H). cbn [bind].
  destruct (ll_find_conflict (abs l) ents =? 0) eqn:E0; [lia|].
  destruct (ll_find_conflict (abs l) ents <=? committed l) eqn:E1; [reflexivity|lia].
Qed.

Theorem maybe_append_ok : forall rw l i t cmt ents,
    RepInv rw l -> contiguous_from (i + 1) ents -> nz_terms ents ->
    (i <= ll_last (abs l) \/ t <> 0) ->
    i + N.of_nat (length ents) < u64_max ->
    ll_match (abs l) i t = true ->
    let ci := ll_find_conflict (abs l) ents in
    ci = 0 \/ committed l < ci ->
    exists l', maybe_append l i t cmt ents = Ok (l', Some (ci, i + N.of_nat (length ents)))
      /\ RepInv rw l' /\ abs l' = ll_maybe_append (abs l) i ents
      /\ committed l' = N.max (committed l) (N.min cmt (i + N.of_nat (length ents)))
      /\ persisted l' = (if ci =? 0 then persisted l else N.min (persisted l) (ci - 1))
      /\ applied l' = applied l /\ store l' = store l.
Proof.
  intros rw l i t cmt ents H Hc Hnz Hit Hbd Hm ci Hci. subst ci.
  remember (ll_find_conflict (abs l) ents) as ci eqn:Eci.
  assert (Hil : i <= ll_last (abs l)).
  { destruct Hit as [Hit|Hit]; [exact Hit|]. apply (ll_match_in_range _ _ _ Hm Hit). }
  pose proof (ri_bound rw l H) as Hlb.
  unfold maybe_append. rewrite (match_term_abs rw l i t H), Hm. cbn [bind negb].
  rewrite (find_conflict_abs rw l ents H). cbn [bind].
  unfold ll_maybe_append. rewrite <- Eci.
  destruct (find_conflict_props (abs l) ents (i + 1) Hc Hnz ltac:(lia) ltac:(lia))
    as [[H0 Hl]|(Hn0 & H1 & H2 & H3 & e & r & Hsk & Hi)]; rewrite <- Eci in *.
  - (* no conflict: nothing appended *)
    rewrite H0. cbn [N.eqb]. change (0 =? 0) with true. cbn [bind].
    destruct (u64_max <? i + N.of_nat (length ents)) eqn:Eo; [lia|].
    destruct (commit_to_ok rw l (N.min cmt (i + N.of_nat (length ents))) H ltac:(lia))
      as (l' & Hct & Hr & Ha & Hcm & Hp & Hap & Hst & _).
    rewrite Hct. cbn [bind]. exists l'. splits; auto.
  - destruct (ci =? 0) eqn:E0; [lia|].
    destruct Hci as [Hci|Hci]; [lia|].
    destruct (ci <=? committed l) eqn:E1; [lia|].
    destruct (i =? u64_max) eqn:E2; [lia|].
    destruct (ci <? i + 1) eqn:E3; [lia|].
    destruct (N.of_nat (length ents) <? ci - (i + 1)) eqn:E4; [lia|]. cbv zeta.
    rewrite Hsk.
    assert (Hce : contiguous_from (e_index e) (e :: r)).
    { rewrite <- Hsk, Hi.
      replace ci with (i + 1 + N.of_nat (N.to_nat (ci - (i + 1)))) at 1 by lia.
      apply contig_skipn. exact Hc. }
    assert (Hlen : length (e :: r) = (length ents - N.to_nat (ci - (i + 1)))%nat).
    { rewrite <- Hsk. apply skipn_length. }
    pose proof (ll_last_upper rw l H) as Hup.
    destruct (trunc_append_ok (unst l) e r ltac:(lia)) as (u' & Hu & Hsn & Hcase).
    set (p := N.min (persisted l) (ci - 1)).
    destruct (append_unstable_abs rw l e r u' p H Hce ltac:(lia) ltac:(lia) ltac:(lia) ltac:(lia)
                ltac:(lia) Hsn Hcase) as [Habs Hr].
    unfold log_append. destruct (e_index e =? 0) eqn:E5; [lia|].
    destruct (e_index e - 1 <? committed l) eqn:E6; [lia|].
    rewrite Hu. cbn [bind fst].
    assert (Hl1 : (if ci - 1 <? persisted (set_unst l u') then set_persisted (set_unst l u') (ci - 1)
                   else set_unst l u') = set_persisted (set_unst l u') p).
    { cbn [set_unst persisted]. subst p.
      destruct (ci - 1 <? persisted l) eqn:E7.
      - rewrite N.min_r by lia. reflexivity.
      - rewrite N.min_l by lia. reflexivity. }
    rewrite Hl1.
    destruct (u64_max <? i + N.of_nat (length ents)) eqn:Eo; [lia|].
    assert (Hlast' : ll_last (abs (set_persisted (set_unst l u') p)) = i + N.of_nat (length ents)).
    { rewrite Habs. unfold ll_append, ll_last. cbn [ll_base ll_ents].
      rewrite app_length, firstn_length, Hlen.
      assert (Hbs : ll_base (abs l) < e_index e).
      { destruct H as [Hs _ _ Hsh _ _ _ _]. unfold abs.
        destruct (u_snapshot (unst l)); cbn [ll_base]; [destruct Hsh; lia|].
        destruct Hsh as (_ & _ & Hfc). pose proof (first_pos _ Hs). lia. }
      unfold ll_last in H3. lia. }
    destruct (commit_to_ok rw _ (N.min cmt (i + N.of_nat (length ents))) Hr ltac:(lia))
      as (l' & Hct & Hr' & Ha & Hcm & Hp & Hap & Hst & _).
    rewrite Hct. cbn [bind]. exists l'. splits; auto; congruence.
Qed.

(* the fatal case of maybe_append is exactly "conflict at or below commit" *)
Theorem maybe_append_fatal_iff : forall rw l i t cmt ents,
    RepInv rw l -> contiguous_from (i + 1) ents -> nz_terms ents ->
    (i <= ll_last (abs l) \/ t <> 0) ->
    i + N.of_nat (length ents) < u64_max ->
    (maybe_append l i t cmt ents = Panic site_l_append_conflict
     <-> ll_match (abs l) i t = true /\ 0 < ll_find_conflict (abs l) ents <= committed l).
Proof.
  intros rw l i t cmt ents H Hc Hnz Hit Hbd. split.
  - intros Hp. destruct (ll_match (abs l) i t) eqn:Em.
    + split; [reflexivity|].
      destruct (N.eq_dec (ll_find_conflict (abs l) ents) 0) as [Hz|Hz].
      * destruct (maybe_append_ok rw l i t cmt ents H Hc Hnz Hit Hbd Em (or_introl Hz)) as (l' & Ho & _).
        rewrite Ho in Hp. discriminate.
      * destruct (N.le_gt_cases (ll_find_conflict (abs l) ents) (committed l)) as [Hle|Hgt]; [lia|].
        destruct (maybe_append_ok rw l i t cmt ents H Hc Hnz Hit Hbd Em (or_intror Hgt)) as (l' & Ho & _).
        rewrite Ho in Hp. discriminate.
    + rewrite (maybe_append_reject rw l i t cmt ents H Em) in Hp. discriminate.
  - intros [Hm Hci]. apply (maybe_append_fatal rw); assumption.
Qed.

(* ================================================================== *)
(* restore                                                             *)
(* ================================================================== *)
Theorem log_restore_ok : forall rw l s,
    RepInv rw l -> committed l <= s_index s -> s_index s < u64_max ->
    exists l', log_restore l s = Ok l' /\ RepInv rw l'
      /\ abs l' = mkLL (s_index s) (Some (s_term s)) []
      /\ committed l' = s_index s
      /\ persisted l' = N.min (persisted l) (committed l)
      /\ applied l' = applied l /\ store l' = store l.
Proof.
  intros rw l s H Hc Hb. unfold log_restore.
  destruct (s_index s <? committed l) eqn:E; [lia|].
  destruct H as [Hs Hq Hct Hsh Hp Hcm Hap Hbd].
  eexists. split; [reflexivity|].
  assert (Hpers : persisted (if committed l <? persisted l then set_persisted l (committed l) else l)
                  = N.min (persisted l) (committed l)).
  { destruct (committed l <? persisted l) eqn:E2; cbn [set_persisted persisted]; lia. }
  assert (Hfr : forall x : unit, store (if committed l <? persisted l then set_persisted l (committed l) else l) = store l
                /\ applied (if committed l <? persisted l then set_persisted l (committed l) else l) = applied l).
  { intros _. destruct (committed l <? persisted l); split; reflexivity. }
  destruct (Hfr tt) as [Hst Hapl].
  assert (Habs : abs (set_unst (set_committed (if committed l <? persisted l then set_persisted l (committed l) else l) (s_index s))
                         (u_restore (unst (if committed l <? persisted l then set_persisted l (committed l) else l)) s))
                 = mkLL (s_index s) (Some (s_term s)) []).
  { unfold abs. cbn [set_unst set_committed unst u_restore u_snapshot u_entries]. reflexivity. }
  split; [|split; [exact Habs|]].
  - constructor; rewrite ?Habs;
      cbn [set_unst set_committed store unst u_restore u_snapshot u_entries u_offset committed persisted applied];
      rewrite ?Hst, ?Hapl, ?Hpers; auto.
    + exact I.
    + split; [reflexivity|lia].
    + split; lia.
    + unfold ll_last. cbn. lia.
    + intros Hrw. specialize (Hap Hrw). lia.
    + unfold ll_last. cbn. lia.
  - cbn [set_unst set_committed store committed persisted applied]. rewrite Hst, Hapl, Hpers. auto.
Qed.

Theorem log_restore_panics_iff : forall l s,
    log_restore l s = Panic site_l_restore_assert <-> s_index s < committed l.
Proof.
  intros l s. unfold log_restore. destruct (s_index s <? committed l) eqn:E; split; try discriminate; try lia; auto.
Qed.

(* ================================================================== *)
(* restart window, entries_size bookkeeping                            *)
(* ================================================================== *)
(* Raft::new moves applied with applied_to_unchecked, possibly beyond committed:
   the state stays inside RepInv with the window flag set *)
Theorem applied_to_unchecked_window : forall rw l i,
    RepInv rw l -> RepInv true (applied_to_unchecked l i).
Proof.
  intros rw l i H. apply (RepInv_set_applied true); [apply (RepInv_open_window rw); exact H|].
  intros; discriminate.
Qed.

Definition usize_ok (u : unstable) : Prop := u_entries_size u = sum_approx (u_entries u).

Lemma sum_approx_cons : forall e a, sum_approx (e :: a) = entry_approximate_size e + sum_approx a.
Proof. reflexivity. Qed.

Lemma sum_approx_app : forall a b, sum_approx (a ++ b) = sum_approx a + sum_approx b.
Proof.
  induction a as [|e a IH]; intros b.
  - change (sum_approx []) with 0. cbn [app]. lia.
  - cbn [app]. rewrite !sum_approx_cons, IH. lia.
Qed.

Theorem trunc_append_size : forall u ents u',
    usize_ok u -> u_truncate_and_append u ents = Ok u' -> usize_ok u'.
Proof.
  intros u ents u' Hu H. unfold usize_ok in *. unfold u_truncate_and_append in H.
  destruct ents as [|e0 t]; [discriminate|].
  case_if_in H.
  - inversion H; subst u'. cbn [u_entries u_entries_size]. rewrite sum_approx_app, ?sum_approx_cons. lia.
  - case_if_in H.
    + inversion H; subst u'. cbn [u_entries u_entries_size app]. rewrite ?sum_approx_cons. lia.
    + destruct (u_must_check_outofbounds u (u_offset u) (e_index e0)); cbn [bind] in H; [|discriminate].
      inversion H; subst u'. cbn [u_entries u_entries_size]. rewrite sum_approx_app, ?sum_approx_cons.
      pose proof (firstn_skipn (N.to_nat (e_index e0 - u_offset u)) (u_entries u)) as Hfs.
      assert (Hs : sum_approx (u_entries u)
                   = sum_approx (firstn (N.to_nat (e_index e0 - u_offset u)) (u_entries u))
                     + sum_approx (skipn (N.to_nat (e_index e0 - u_offset u)) (u_entries u))).
      { rewrite <- sum_approx_app, Hfs. reflexivity. }
      lia.
Qed.

Theorem usize_other_ops : forall u,
    usize_ok (u_new (u_offset u))
    /\ (forall s, usize_ok (u_restore u s))
    /\ (forall i t u', u_stable_entries u i t = Ok u' -> usize_ok u')
    /\ (forall i u', usize_ok u -> u_stable_snap u i = Ok u' -> usize_ok u').
Proof.
  intros u. unfold usize_ok. split; [reflexivity|]. split; [reflexivity|]. split.
  - intros i t u' H. unfold u_stable_entries in H.
    destruct (u_snapshot u); [discriminate|]. destruct (u_entries u); [discriminate|].
    case_if_in H; [discriminate|]. inversion H; subst. reflexivity.
  - intros i u' Hu H. unfold u_stable_snap in H. destruct (u_snapshot u); [|discriminate].
    case_if_in H; [discriminate|]. inversion H; subst. exact Hu.
Qed.
