(* Model of /repo/src/log_unstable.rs (Unstable) and /repo/src/raft_log.rs
   (RaftLog<MemStorage>).  The store is the MemStorage model; its two test
   triggers (trigger_snap_unavailable / trigger_log_unavailable) are assumed
   off, so storage reads do not change the store.  Debug-build semantics:
   fatal!/assert!/index/overflow are [Panic site] values.
   Arithmetic: every [u64] addition/subtraction whose operands come from the
   caller (idx + 1, idx + len, since + 1, persisted + limit, conflict - (idx+1),
   ents[0].index - 1, last + 1 - first, conflict_index -= 1) is an explicit
   overflow/underflow site.  Documented assumption for the remaining ones
   (snapshot.index + 1, offset + entries.len(), last entry index + 1, store
   last_index + 1 in [new]): indexes held in the log are < 2^64 - 1 - length, so
   they do not wrap (the differential harness keeps stored indexes < 2^62).
   No proofs here. *)
From RV Require Import Base.Prelude M.Util M.MemStorage.

Local Open Scope N_scope.

(* ------------------------------------------------------------------ *)
(* sites *)
Definition site_u_stable_entries_snap : site := 1401.  (* assert!(self.snapshot.is_none()) *)
Definition site_u_stable_entries_mismatch : site := 1402. (* "the last one of unstable.slice has different index" *)
Definition site_u_stable_entries_empty : site := 1403. (* "unstable.slice is empty" *)
Definition site_u_stable_snap_mismatch : site := 1404. (* "unstable.snap has different index" *)
Definition site_u_stable_snap_none : site := 1405.     (* "unstable.snap is none" *)
Definition site_u_trunc_empty : site := 1406.          (* ents[0] on empty slice *)
Definition site_u_slice_order : site := 1407.          (* "invalid unstable.slice {} > {}" *)
Definition site_u_slice_bound : site := 1408.          (* "unstable.slice[{}, {}] out of bound" *)
Definition site_u_term_index : site := 1409.           (* self.entries[idx - offset] in maybe_term *)
Definition site_l_last_term : site := 1410.            (* "unexpected error when getting the last term" *)
Definition site_l_append_conflict : site := 1411.      (* "entry {} conflict with committed entry {}" *)
Definition site_l_commit_range : site := 1412.         (* "to_commit {} is out of range [last_index {}]" *)
Definition site_l_applied_range : site := 1413.        (* "applied({}) is out of range" *)
Definition site_l_append_range : site := 1414.         (* "after {} is out of range [committed {}]" *)
Definition site_l_slice_order : site := 1415.          (* "invalid slice {} > {}" *)
Definition site_l_slice_bound : site := 1416.          (* "slice[{},{}] out of bound" *)
Definition site_l_slice_unavailable : site := 1417.    (* "entries[{}:{}] is unavailable from storage" *)
Definition site_l_next_entries : site := 1418.         (* fatal!("{}", e) in next_entries_since *)
Definition site_l_persist_snap_commit : site := 1419.  (* "snapshot's index {} > committed {}" *)
Definition site_l_persist_snap_offset : site := 1420.  (* "snapshot's index {} >= offset {}" *)
Definition site_l_restore_assert : site := 1421.       (* assert!(index >= self.committed) *)
Definition site_l_commit_info : site := 1422.          (* "last committed entry at {} is missing" *)
Definition site_l_overflow : site := 1423.             (* u64 add overflow (persisted + limit) *)
Definition site_l_underflow : site := 1424.            (* u64 sub underflow *)
Definition site_l_fuel : site := 1425.                 (* model loop fuel exhausted (never reached) *)
Definition site_l_sub_slice : site := 1426.            (* &ents[start..] out of range in maybe_append *)

(* ------------------------------------------------------------------ *)
(* Unstable *)
Record unstable := mkUn {
  u_snapshot : option snapshot;
  u_entries : list entry;
  u_entries_size : N;
  u_offset : N
}.

Definition u_new (offset : N) : unstable := mkUn None [] 0 offset.

Definition u_maybe_first_index (u : unstable) : option N :=
  option_map (fun s => s_index s + 1) (u_snapshot u).

Definition u_maybe_last_index (u : unstable) : option N :=
  match u_entries u with
  | [] => option_map s_index (u_snapshot u)
  | _ => Some (u_offset u + N.of_nat (length (u_entries u)) - 1)
  end.

Definition u_maybe_term (u : unstable) (i : N) : Res (option N) :=
  if i <? u_offset u then
    match u_snapshot u with
    | Some s => Ok (if i =? s_index s then Some (s_term s) else None)
    | None => Ok None
    end
  else
    match u_maybe_last_index u with
    | None => Ok None
    | Some last =>
        if last <? i then Ok None
        else e <- idx (u_entries u) (N.to_nat (i - u_offset u)) site_u_term_index ;;
             Ok (Some (e_term e))
    end.

Definition u_stable_entries (u : unstable) (index term : N) : Res unstable :=
  match u_snapshot u with
  | Some _ => Panic site_u_stable_entries_snap
  | None =>
      match u_entries u with
      | [] => Panic site_u_stable_entries_empty
      | _ =>
          let e := List.last (u_entries u) (mkEntry 0 0 0 [] []) in
          if negb (e_index e =? index) || negb (e_term e =? term)
          then Panic site_u_stable_entries_mismatch
          else Ok (mkUn None [] 0 (e_index e + 1))
      end
  end.

Definition u_stable_snap (u : unstable) (index : N) : Res unstable :=
  match u_snapshot u with
  | Some s => if negb (s_index s =? index) then Panic site_u_stable_snap_mismatch
              else Ok (mkUn None (u_entries u) (u_entries_size u) (u_offset u))
  | None => Panic site_u_stable_snap_none
  end.

Definition u_restore (u : unstable) (s : snapshot) : unstable :=
  mkUn (Some s) [] 0 (s_index s + 1).

Definition u_must_check_outofbounds (u : unstable) (lo hi : N) : Res unit :=
  if hi <? lo then Panic site_u_slice_order else
  let upper := u_offset u + N.of_nat (length (u_entries u)) in
  if (lo <? u_offset u) || (upper <? hi) then Panic site_u_slice_bound else Ok tt.

Definition sum_approx (l : list entry) : N :=
  fold_right (fun e acc => entry_approximate_size e + acc) 0 l.

Definition u_truncate_and_append (u : unstable) (ents : list entry) : Res unstable :=
  match ents with
  | [] => Panic site_u_trunc_empty
  | e0 :: _ =>
      let after := e_index e0 in
      u1 <- (if after =? u_offset u + N.of_nat (length (u_entries u)) then Ok u
             else if after <=? u_offset u then Ok (mkUn (u_snapshot u) [] 0 after)
             else
               _ <- u_must_check_outofbounds u (u_offset u) after ;;
               let k := N.to_nat (after - u_offset u) in
               Ok (mkUn (u_snapshot u) (firstn k (u_entries u))
                        (u_entries_size u - sum_approx (skipn k (u_entries u)))
                        (u_offset u))) ;;
      Ok (mkUn (u_snapshot u1) (u_entries u1 ++ ents)
               (u_entries_size u1 + sum_approx ents) (u_offset u1))
  end.

Definition u_slice (u : unstable) (lo hi : N) : Res (list entry) :=
  _ <- u_must_check_outofbounds u lo hi ;;
  let l := N.to_nat (lo - u_offset u) in
  let h := N.to_nat (hi - u_offset u) in
  Ok (firstn (h - l) (skipn l (u_entries u))).

(* ------------------------------------------------------------------ *)
(* RaftLog *)
Record raft_log := mkLog {
  store : mem;
  unst : unstable;
  committed : N;
  persisted : N;
  applied : N;
  max_apply_unpersisted_log_limit : N
}.

Definition set_unst (l : raft_log) (u : unstable) : raft_log :=
  mkLog (store l) u (committed l) (persisted l) (applied l) (max_apply_unpersisted_log_limit l).
Definition set_committed (l : raft_log) (c : N) : raft_log :=
  mkLog (store l) (unst l) c (persisted l) (applied l) (max_apply_unpersisted_log_limit l).
Definition set_persisted (l : raft_log) (p : N) : raft_log :=
  mkLog (store l) (unst l) (committed l) p (applied l) (max_apply_unpersisted_log_limit l).
Definition set_applied (l : raft_log) (a : N) : raft_log :=
  mkLog (store l) (unst l) (committed l) (persisted l) a (max_apply_unpersisted_log_limit l).
Definition set_limit (l : raft_log) (m : N) : raft_log :=
  mkLog (store l) (unst l) (committed l) (persisted l) (applied l) m.
Definition set_store (l : raft_log) (m : mem) : raft_log :=
  mkLog m (unst l) (committed l) (persisted l) (applied l) (max_apply_unpersisted_log_limit l).

Definition log_new (st : mem) (limit : N) : Res raft_log :=
  f <- storage_first_index st ;;
  let la := storage_last_index st in
  if f =? 0 then Panic site_l_underflow else
  Ok (mkLog st (u_new (la + 1)) (f - 1) la (f - 1) limit).

Definition first_index (l : raft_log) : Res N :=
  match u_maybe_first_index (unst l) with
  | Some i => Ok i
  | None => storage_first_index (store l)
  end.

Definition last_index (l : raft_log) : N :=
  match u_maybe_last_index (unst l) with
  | Some i => i
  | None => storage_last_index (store l)
  end.

Definition term (l : raft_log) (i : N) : Res (sres N) :=
  f <- first_index l ;;
  if f =? 0 then Panic site_l_underflow else
  let dummy := f - 1 in
  if (i <? dummy) || (last_index l <? i) then Ok (SOk 0) else
  mt <- u_maybe_term (unst l) i ;;
  match mt with
  | Some t => Ok (SOk t)
  | None => storage_term (store l) i
  end.

Definition term_ok_eq (r : sres N) (t : N) : bool :=
  match r with SOk t' => t' =? t | SErr _ => false end.

Definition last_term (l : raft_log) : Res N :=
  r <- term l (last_index l) ;;
  match r with SOk t => Ok t | SErr _ => Panic site_l_last_term end.

Definition match_term (l : raft_log) (i t : N) : Res bool :=
  r <- term l i ;; Ok (term_ok_eq r t).

Fixpoint find_conflict (l : raft_log) (ents : list entry) : Res N :=
  match ents with
  | [] => Ok 0
  | e :: rest =>
      b <- match_term l (e_index e) (e_term e) ;;
      if b then find_conflict l rest else Ok (e_index e)
  end.

(* the [loop] of find_conflict_by_term; every iteration lowers conflict_index,
   and term() answers Ok(0) below the dummy index, so [fuel] = distance to the
   dummy index + 2 suffices *)
Fixpoint fcbt_loop (l : raft_log) (fuel : nat) (ci t : N) : Res (N * option N) :=
  match fuel with
  | O => Panic site_l_fuel
  | S fuel' =>
      r <- term l ci ;;
      match r with
      | SOk t' =>
          if t <? t' then
            (if ci =? 0 then Panic site_l_underflow else fcbt_loop l fuel' (ci - 1) t)
          else Ok (ci, Some t')
      | SErr _ => Ok (ci, None)
      end
  end.

Definition find_conflict_by_term (l : raft_log) (index t : N) : Res (N * option N) :=
  if last_index l <? index then Ok (index, None) else
  f <- first_index l ;;
  fcbt_loop l (N.to_nat (index + 3 - N.min index f)) index t.

Definition commit_to (l : raft_log) (tc : N) : Res raft_log :=
  if tc <=? committed l then Ok l else
  if last_index l <? tc then Panic site_l_commit_range else
  Ok (set_committed l tc).

Definition log_append (l : raft_log) (ents : list entry) : Res (raft_log * N) :=
  match ents with
  | [] => Ok (l, last_index l)
  | e0 :: _ =>
      if e_index e0 =? 0 then Panic site_l_underflow else
      let after := e_index e0 - 1 in
      if after <? committed l then Panic site_l_append_range else
      u <- u_truncate_and_append (unst l) ents ;;
      let l' := set_unst l u in
      Ok (l', last_index l')
  end.

Definition maybe_append (l : raft_log) (i t cmt : N) (ents : list entry)
  : Res (raft_log * option (N * N)) :=
  b <- match_term l i t ;;
  if negb b then Ok (l, None) else
  ci <- find_conflict l ents ;;
  l1 <- (if ci =? 0 then Ok l
         else if ci <=? committed l then Panic site_l_append_conflict
         else
           if i =? u64_max then Panic site_l_overflow else          (* idx + 1 *)
           if ci <? i + 1 then Panic site_l_underflow else          (* conflict_idx - (idx + 1) *)
           (* &ents[start..]: compared in N so that a huge start is not converted to nat *)
           if N.of_nat (length ents) <? ci - (i + 1) then Panic site_l_sub_slice else
           let start := N.to_nat (ci - (i + 1)) in
           r <- log_append l (skipn start ents) ;;
           let l' := fst r in
           Ok (if ci - 1 <? persisted l' then set_persisted l' (ci - 1) else l')) ;;
  let last_new := i + N.of_nat (length ents) in
  if u64_max <? last_new then Panic site_l_overflow else            (* idx + ents.len() *)
  l2 <- commit_to l1 (N.min cmt last_new) ;;
  Ok (l2, Some (ci, last_new)).

Definition applied_to (l : raft_log) (i : N) : Res raft_log :=
  if i =? 0 then Ok l else
  if (committed l <? i) || (i <? applied l) then Panic site_l_applied_range
  else Ok (set_applied l i).

Definition applied_to_unchecked (l : raft_log) (i : N) : raft_log := set_applied l i.

Definition must_check_outofbounds (l : raft_log) (low high : N) : Res (option serr) :=
  if high <? low then Panic site_l_slice_order else
  f <- first_index l ;;
  if low <? f then Ok (Some Compacted) else
  if last_index l + 1 <? f then Panic site_l_underflow else         (* last_index() + 1 - first_index *)
  let length_ := last_index l + 1 - f in
  if (low <? f) || (f + length_ <? high) then Panic site_l_slice_bound else Ok None.

(* store.entries with the triggers off: the store is unchanged *)
Definition store_entries (l : raft_log) (low high : N) (max : option N) : Res (sres (list entry)) :=
  r <- storage_entries (store l) low high max (CtxEmpty false) ;; Ok (snd r).

Definition slice (l : raft_log) (low high : N) (max : option N) : Res (sres (list entry)) :=
  oe <- must_check_outofbounds l low high ;;
  match oe with
  | Some e => Ok (SErr e)
  | None =>
      if low =? high then Ok (SOk []) else
      let off := u_offset (unst l) in
      r1 <- (if low <? off then
               let uh := N.min high off in
               r <- store_entries l low uh max ;;
               match r with
               | SErr Compacted => Ok (inl (SErr Compacted))
               | SErr LogTemporarilyUnavailable => Ok (inl (SErr LogTemporarilyUnavailable))
               | SErr _ => Panic site_l_slice_unavailable
               | SOk ents =>
                   if N.of_nat (length ents) <? uh - low then Ok (inl (SOk ents))
                   else Ok (inr ents)
               end
             else Ok (inr [])) ;;
      match r1 with
      | inl early => Ok early
      | inr ents =>
          ents2 <- (if off <? high then
                      us <- u_slice (unst l) (N.max low off) high ;; Ok (ents ++ us)
                    else Ok ents) ;;
          Ok (SOk (limit_size ents2 max))
      end
  end.

Definition log_entries (l : raft_log) (i : N) (max : option N) : Res (sres (list entry)) :=
  let last := last_index l in
  if last <? i then Ok (SOk []) else
  if last =? u64_max then Panic site_l_overflow else slice l i (last + 1) max.

Definition is_up_to_date (l : raft_log) (last_i t : N) : Res bool :=
  lt <- last_term l ;;
  Ok ((lt <? t) || ((t =? lt) && (last_index l <=? last_i))).

Definition applied_index_upper_bound (l : raft_log) : Res N :=
  (* persisted.saturating_add(limit) *)
  let s := N.min u64_max (persisted l + max_apply_unpersisted_log_limit l) in
  Ok (N.min (committed l) s).

Definition next_entries_since (l : raft_log) (since : N) (max : option N)
  : Res (option (list entry)) :=
  if since =? u64_max then Panic site_l_overflow else               (* since_idx + 1 *)
  f <- first_index l ;;
  let offset := N.max (since + 1) f in
  ub <- applied_index_upper_bound l ;;
  if ub =? u64_max then Panic site_l_overflow else                  (* upper bound + 1 *)
  let high := ub + 1 in
  if offset <? high then
    r <- slice l offset high max ;;
    match r with
    | SOk v => Ok (Some v)
    | SErr _ => Panic site_l_next_entries
    end
  else Ok None.

Definition has_next_entries_since (l : raft_log) (since : N) : Res bool :=
  if since =? u64_max then Panic site_l_overflow else
  f <- first_index l ;;
  let offset := N.max (since + 1) f in
  ub <- applied_index_upper_bound l ;;
  if ub =? u64_max then Panic site_l_overflow else
  Ok (offset <? ub + 1).

Definition next_entries (l : raft_log) (max : option N) : Res (option (list entry)) :=
  next_entries_since l (applied l) max.

Definition has_next_entries (l : raft_log) : Res bool :=
  has_next_entries_since l (applied l).

Definition log_snapshot (l : raft_log) (request_index to : N) : Res (sres snapshot) :=
  match u_snapshot (unst l) with
  | Some s => if request_index <=? s_index s then Ok (SOk s)
              else r <- storage_snapshot (store l) request_index to ;; Ok (snd r)
  | None => r <- storage_snapshot (store l) request_index to ;; Ok (snd r)
  end.

Definition maybe_commit (l : raft_log) (max_index t : N) : Res (raft_log * bool) :=
  if committed l <? max_index then
    r <- term l max_index ;;
    if term_ok_eq r t then l' <- commit_to l max_index ;; Ok (l', true)
    else Ok (l, false)
  else Ok (l, false).

Definition maybe_persist (l : raft_log) (index t : N) : Res (raft_log * bool) :=
  let first_update := match u_snapshot (unst l) with
                      | Some s => s_index s
                      | None => u_offset (unst l)
                      end in
  if (persisted l <? index) && (index <? first_update) then
    r <- storage_term (store l) index ;;
    if term_ok_eq r t then Ok (set_persisted l index, true) else Ok (l, false)
  else Ok (l, false).

Definition maybe_persist_snap (l : raft_log) (index : N) : Res (raft_log * bool) :=
  if persisted l <? index then
    if committed l <? index then Panic site_l_persist_snap_commit else
    if u_offset (unst l) <=? index then Panic site_l_persist_snap_offset else
    Ok (set_persisted l index, true)
  else Ok (l, false).

Definition is_conf_entry (e : entry) : bool := (e_type e =? 1) || (e_type e =? 2).

(* RaftLog::scan specialised to the only callback used (raft.rs
   has_unapplied_conf_changes): page through [lo,hi) until a conf-change entry
   is seen; an empty page is the Err that the caller turns into fatal!. *)
Definition site_l_scan_empty : site := 1427. (* "error scanning unapplied entries" *)

Fixpoint scan_conf (l : raft_log) (fuel : nat) (lo hi page : N) : Res bool :=
  match fuel with
  | O => Panic site_l_fuel
  | S fuel' =>
      if lo <? hi then
        r <- slice l lo hi (Some page) ;;
        match r with
        | SErr _ => Panic site_l_scan_empty
        | SOk [] => Panic site_l_scan_empty
        | SOk ents =>
            if existsb is_conf_entry ents then Ok true
            else scan_conf l fuel' (lo + N.of_nat (length ents)) hi page
        end
      else Ok false
  end.

Definition log_restore (l : raft_log) (s : snapshot) : Res raft_log :=
  if s_index s <? committed l then Panic site_l_restore_assert else
  let l1 := if committed l <? persisted l then set_persisted l (committed l) else l in
  Ok (set_unst (set_committed l1 (s_index s)) (u_restore (unst l1) s)).

Definition commit_info (l : raft_log) : Res (N * N) :=
  r <- term l (committed l) ;;
  match r with SOk t => Ok (committed l, t) | SErr _ => Panic site_l_commit_info end.

Definition stable_entries (l : raft_log) (index t : N) : Res raft_log :=
  u <- u_stable_entries (unst l) index t ;; Ok (set_unst l u).

Definition stable_snap (l : raft_log) (index : N) : Res raft_log :=
  u <- u_stable_snap (unst l) index ;; Ok (set_unst l u).
