(* C20, part 3 (continued): per-function [safe] lemmas for M/Raft.v and M/RawNode.v:
   NodeInv is preserved by every call that returns Ok, and no call returns a node-local
   site (Inflights, update_state in Snapshot state, next_idx underflow, ReadOnly
   bookkeeping, missing-peer unwrap) from a state satisfying NodeInv. *)
From RV Require Import Base.Prelude Base.IdSet M.Util M.Proto M.MemStorage M.Inflights
  M.InflightsProofs M.Progress M.RaftLog M.Quorum M.ConfChange M.Msg M.Raft M.RawNode
  M.RaftProofs M.RaftProofsC15 M.RaftProofsC20 M.RaftProofsC20Iff M.RaftProofsC20Inv.
From RecordUpdate Require Import RecordSet.
Import RecordSetNotations.

Local Open Scope N_scope.

Definition has (r : raft) (id : N) : Prop := exists p, get_pr r id = Some p.
Definition keeps (r r' : raft) : Prop := forall id, has r id -> has r' id.
Definition post (r r' : raft) : Prop := NodeInv r' /\ keeps r r'.

Lemma keeps_refl r : keeps r r. Proof. intros id H; exact H. Qed.
Lemma keeps_trans a b c : keeps a b -> keeps b c -> keeps a c.
Proof. intros H1 H2 id H. apply H2, H1, H. Qed.
Lemma keeps_put_pr r id p : keeps r (put_pr r id p).
Proof.
  intros id' [q Hq]. unfold has, get_pr, put_pr. cbn.
  destruct (N.eq_dec id' id) as [->|Hne].
  - rewrite pget_pput_same. eauto.
  - rewrite pget_pput_other by exact Hne. eauto.
Qed.
Lemma has_put_pr r id p : has (put_pr r id p) id.
Proof. unfold has, get_pr, put_pr. cbn. rewrite pget_pput_same. eauto. Qed.

Lemma NodeInv_put_pr r id p : NodeInv r -> pr_ok p -> NodeInv (put_pr r id p).
Proof. intros [A B] Hp. split; [apply PrsOk_pput; assumption|exact B]. Qed.
Lemma NodeInv_get r id p : NodeInv r -> get_pr r id = Some p -> pr_ok p.
Proof. intros [A _] G. eapply A; exact G. Qed.

(* ------------------------------------------------------------------ *)
(* automation *)
Create HintDb safe.
Create HintDb prok.

#[export] Hint Resolve pr_ok_become_probe pr_ok_become_replicate pr_ok_become_snapshot
  pr_ok_update_committed pr_ok_set_recent_active pr_ok_set_ins : prok.
#[export] Hint Extern 1 (pr_ok (fst (maybe_update _ _))) => apply pr_ok_maybe_update : prok.
#[export] Hint Extern 1 (pr_ok (fst (maybe_decr_to _ _ _ _))) => apply pr_ok_maybe_decr_to : prok.
#[export] Hint Extern 1 (pr_ok (resume _)) => apply pr_ok_misc : prok.
#[export] Hint Extern 1 (pr_ok (pause _)) => apply pr_ok_misc : prok.
#[export] Hint Extern 1 (pr_ok (snapshot_failure _)) => apply pr_ok_misc : prok.
#[export] Hint Extern 1 (pr_ok (set_pending_request_snapshot _ _)) => apply pr_ok_misc : prok.
#[export] Hint Extern 1 (pr_ok (set_commit_group_id _ _)) => apply pr_ok_misc : prok.
#[export] Hint Extern 4 (pr_ok ?p) =>
  match goal with
  | H : pr_ok ?q |- _ => exact H
  | H : get_pr ?r ?id = Some p, N : NodeInv ?r' |- _ => exact (NodeInv_get r' id p N H)
  end : prok.

Ltac solve_prok := solve [eauto 8 with prok nocore].

Ltac solve_ni :=
  first [ match goal with H : NodeInv _ |- NodeInv _ => exact H end
        | apply NodeInv_put_pr; [solve_ni|solve_prok] ].

Ltac solve_keeps n :=
  lazymatch n with
  | O => fail
  | S ?k =>
    first [ exact (fun id H => H)
          | match goal with
            | H : keeps ?a ?b |- keeps ?a' ?c =>
                apply (keeps_trans a' b c); [exact H|solve_keeps k]
            end
          | match goal with
            | |- keeps ?a (put_pr ?b ?id ?p) =>
                apply (keeps_trans a b (put_pr b id p)); [solve_keeps k|apply keeps_put_pr]
            end ]
  end.

Ltac solve_post :=
  lazymatch goal with
  | |- post _ _ => split; [solve_ni|solve_keeps 8%nat]
  | |- NodeInv _ => solve_ni
  | |- keeps _ _ => solve_keeps 8%nat
  | |- pr_ok _ => solve_prok
  | |- True => exact I
  | |- _ /\ _ => split; solve_post
  | |- _ => idtac
  end.

Ltac brk :=
  repeat match goal with
  | H : _ /\ _ |- _ => destruct H
  | H : post _ _ |- _ => destruct H
  | H : True |- _ => clear H
  end; cbn [fst snd] in *.

#[export] Hint Extern 2 (NodeInv _) => match goal with H : NodeInv _ |- _ => exact H end : safe.
#[export] Hint Extern 2 (pr_ok _) => solve_prok : safe.
#[export] Hint Extern 9 (safe _ _) =>
  eapply safe_from_sites; [intros ? ?; eauto with sites nocore|vm_compute; reflexivity] : safe.

Ltac solve_contra :=
  solve [ repeat match goal with H : pr_ok _ |- _ => destruct H as [? ?] end; lia
        | match goal with
          | H : get_pr ?r ?id = None, K : has ?r' ?id |- _ =>
              let q := fresh in destruct K as [q K]; change (get_pr r id = Some q) in K; congruence
          end ].

#[export] Hint Extern 1 (is_paused _ = false) => assumption : safe.

Ltac sstep :=
  lazymatch goal with
  | |- safe _ (Ok _) => apply safe_ok; cbn [fst snd]; solve_post
  | |- safe _ (Panic _) => first [ apply safe_panic; vm_compute; reflexivity | exfalso; solve_contra ]
  | |- safe _ (bind (Ok _) _) => cbn [bind]; cbv beta
  | |- safe _ (bind (Panic _) _) => cbn [bind]
  | |- safe _ (bind (match ?x with _ => _ end) _) => destruct x eqn:?; brk
  | |- safe _ (bind _ _) =>
      eapply safe_bind; [ solve [ typeclasses eauto with safe ] | ];
      let x := fresh "x" in let E := fresh "E" in let Hx := fresh "Hx" in
      intros x E Hx; cbv beta in Hx; brk
  | |- safe _ (match ?x with _ => _ end) => destruct x eqn:?; brk
  | |- safe _ _ =>
      eapply safe_mono; [ solve [ typeclasses eauto with safe ] | ];
      let a := fresh "a" in let E := fresh "E" in let Ha := fresh "Ha" in
      intros a E Ha; cbv beta in Ha |- *; brk; solve_post
  end.

Ltac ssafe := cbv beta zeta; repeat sstep.

(* ------------------------------------------------------------------ *)
Lemma send_safe r m : NodeInv r -> safe (post r) (send r m).
Proof. intros H. unfold send. ssafe. Qed.
#[export] Hint Extern 1 (safe _ (send _ _)) => eapply send_safe : safe.

Lemma prepare_send_snapshot_safe r m pr to :
  pr_ok pr -> safe (fun x => match x with Some y => pr_ok (snd y) | None => True end)
                   (prepare_send_snapshot r m pr to).
Proof. intros H. unfold prepare_send_snapshot. ssafe. Qed.
#[export] Hint Extern 1 (safe _ (prepare_send_snapshot _ _ _ _)) => eapply prepare_send_snapshot_safe : safe.

Lemma update_state_safe p last : pr_ok p -> is_paused p = false -> safe pr_ok (update_state p last).
Proof.
  intros H Hp. destruct (update_state_ok p last H Hp) as (p' & E & Hp'). rewrite E. exact Hp'.
Qed.
#[export] Hint Extern 1 (safe _ (update_state _ _)) => eapply update_state_safe : safe.

Lemma prepare_send_entries_safe r m pr t ents :
  pr_ok pr -> is_paused pr = false -> safe (fun x => pr_ok (snd x)) (prepare_send_entries r m pr t ents).
Proof. intros H Hp. unfold prepare_send_entries. ssafe. Qed.
#[export] Hint Extern 1 (safe _ (prepare_send_entries _ _ _ _ _)) => eapply prepare_send_entries_safe : safe.

Lemma try_batching_safe r to msgs : forall pr ents,
  pr_ok pr -> is_paused pr = false ->
  safe (fun x => pr_ok (snd (fst x))) (try_batching r to msgs pr ents).
Proof.
  induction msgs as [|m rest IH]; intros pr ents H Hp; cbn [try_batching]; ssafe.
Qed.
#[export] Hint Extern 1 (safe _ (try_batching _ _ _ _ _)) => eapply try_batching_safe : safe.

Lemma maybe_send_append_safe r to pr ae :
  NodeInv r -> pr_ok pr ->
  safe (fun x => post r (fst (fst x)) /\ pr_ok (snd (fst x))) (maybe_send_append r to pr ae).
Proof. intros H Hp. unfold maybe_send_append. ssafe. Qed.
#[export] Hint Extern 1 (safe _ (maybe_send_append _ _ _ _)) => eapply maybe_send_append_safe : safe.

Lemma send_append_to_safe r to : NodeInv r -> has r to -> safe (post r) (send_append_to r to).
Proof. intros H Hh. unfold send_append_to. ssafe. Qed.
#[export] Hint Extern 1 (safe _ (send_append_to _ _)) => eapply send_append_to_safe : safe.

Lemma send_append_aggressively_loop_safe fuel : forall r to pr,
  NodeInv r -> pr_ok pr ->
  safe (fun x => post r (fst x) /\ pr_ok (snd x)) (send_append_aggressively_loop fuel r to pr).
Proof.
  induction fuel as [|f IH]; intros r to pr H Hp; cbn [send_append_aggressively_loop]; ssafe.
Qed.
#[export] Hint Extern 1 (safe _ (send_append_aggressively_loop _ _ _ _)) =>
  eapply send_append_aggressively_loop_safe : safe.

Lemma send_append_aggressively_safe r to :
  NodeInv r -> has r to -> safe (post r) (send_append_aggressively r to).
Proof. intros H Hh. unfold send_append_aggressively. ssafe. Qed.
#[export] Hint Extern 1 (safe _ (send_append_aggressively _ _)) => eapply send_append_aggressively_safe : safe.

Lemma send_heartbeat_safe r to pr ctx : NodeInv r -> safe (post r) (send_heartbeat r to pr ctx).
Proof. intros H. unfold send_heartbeat. destruct ctx; apply send_safe; exact H. Qed.
#[export] Hint Extern 1 (safe _ (send_heartbeat _ _ _ _)) => eapply send_heartbeat_safe : safe.

Lemma has_in_pids r id : In id (pids (t_progress (r_prs r))) -> has r id.
Proof. apply pget_in_pids. Qed.

Lemma for_each_peer_safe (f : raft -> N -> Res raft) ids self :
  (forall r0 id, NodeInv r0 -> has r0 id -> safe (post r0) (f r0 id)) ->
  forall r, NodeInv r -> (forall id, In id ids -> has r id) ->
  safe (post r) (for_each_peer ids self f r).
Proof.
  intros Hf. induction ids as [|id rest IH]; intros r H Hin; cbn [for_each_peer].
  - apply safe_ok. split; [exact H|apply keeps_refl].
  - destruct (id =? self).
    + apply IH; [exact H|]. intros i Hi. apply Hin. right. exact Hi.
    + eapply safe_bind; [apply Hf; [exact H|apply Hin; left; reflexivity]|].
      intros r1 _ [H1 K1]. eapply safe_mono.
      * apply IH; [exact H1|]. intros i Hi. apply K1, Hin. right. exact Hi.
      * intros a _ [Ha Ka]. split; [exact Ha|]. eapply keeps_trans; eassumption.
Qed.

Lemma bcast_append_safe r : NodeInv r -> safe (post r) (bcast_append r).
Proof.
  intros H. unfold bcast_append. apply for_each_peer_safe; [|exact H|intros id; apply has_in_pids].
  intros r0 id H0 Hh. apply send_append_to_safe; assumption.
Qed.
#[export] Hint Extern 1 (safe _ (bcast_append _)) => eapply bcast_append_safe : safe.

Lemma bcast_heartbeat_with_ctx_safe r ctx : NodeInv r -> safe (post r) (bcast_heartbeat_with_ctx r ctx).
Proof.
  intros H. unfold bcast_heartbeat_with_ctx.
  apply for_each_peer_safe; [|exact H|intros id; apply has_in_pids].
  intros r0 id H0 Hh. ssafe.
Qed.
#[export] Hint Extern 1 (safe _ (bcast_heartbeat_with_ctx _ _)) => eapply bcast_heartbeat_with_ctx_safe : safe.
Lemma bcast_heartbeat_safe r : NodeInv r -> safe (post r) (bcast_heartbeat r).
Proof. intros H. unfold bcast_heartbeat. apply bcast_heartbeat_with_ctx_safe. exact H. Qed.
#[export] Hint Extern 1 (safe _ (bcast_heartbeat _)) => eapply bcast_heartbeat_safe : safe.

Lemma maybe_commit_safe r : NodeInv r -> safe (fun x => post r (fst x)) (maybe_commit r).
Proof. intros H. unfold maybe_commit. ssafe. Qed.
#[export] Hint Extern 1 (safe _ (maybe_commit _)) => eapply maybe_commit_safe : safe.
