(* C20, part 3 (continued): per-function [safe] lemmas for M/Raft.v and M/RawNode.v:
   NodeInv is preserved by every call that returns Ok, and no call returns a node-local
   site (Inflights, update_state in Snapshot state, next_idx underflow, ReadOnly
   bookkeeping, missing-peer unwrap) from a state satisfying NodeInv. *)
From RV Require Import Base.Prelude Base.IdSet M.Util M.Proto M.MemStorage M.Inflights
  M.InflightsProofs M.Progress M.RaftLog M.Quorum M.ConfChange M.Msg M.Raft M.RawNode
  M.RaftProofs M.RaftProofsC20 M.RaftProofsC20Iff M.RaftProofsC20Inv
  M.RaftProofsC20Wit.
From RecordUpdate Require Import RecordSet.
Import RecordSetNotations.

Local Open Scope N_scope.

(* presence of a peer in a progress map, and its preservation *)
Definition hasL (m : list (N * progress)) (id : N) : Prop := exists p, pget m id = Some p.
Definition keepsL (m m' : list (N * progress)) : Prop := forall id, hasL m id -> hasL m' id.
Definition has (r : raft) (id : N) : Prop := hasL (t_progress (r_prs r)) id.
Definition keeps (r r' : raft) : Prop := keepsL (t_progress (r_prs r)) (t_progress (r_prs r')).
Definition post (r r' : raft) : Prop := NodeInv r' /\ keeps r r'.

Arguments PrsOk : simpl never.
Arguments RoInv : simpl never.
Arguments hasL : simpl never.
Arguments keepsL : simpl never.
Arguments pr_ok : simpl never.
Arguments pput : simpl never.
Arguments pget : simpl never.
Arguments maybe_update : simpl never.
Arguments maybe_decr_to : simpl never.
Arguments become_probe : simpl never.
Arguments become_replicate : simpl never.
Arguments become_snapshot : simpl never.
Arguments update_committed : simpl never.
Arguments resume : simpl never.
Arguments pause : simpl never.
Arguments snapshot_failure : simpl never.
Arguments set_recent_active : simpl never.
Arguments set_pending_request_snapshot : simpl never.
Arguments set_ins : simpl never.
Arguments fresh_progress : simpl never.

Lemma keepsL_refl m : keepsL m m. Proof. intros id H; exact H. Qed.
Lemma keepsL_trans a b c : keepsL a b -> keepsL b c -> keepsL a c.
Proof. intros H1 H2 id H. apply H2, H1, H. Qed.
Lemma keepsL_pput m id p : keepsL m (pput m id p).
Proof.
  intros id' [q Hq]. unfold hasL.
  destruct (N.eq_dec id' id) as [->|Hne].
  - rewrite pget_pput_same. eauto.
  - rewrite pget_pput_other by exact Hne. eauto.
Qed.
Lemma keepsL_pput_r a m id p : keepsL a m -> keepsL a (pput m id p).
Proof. intros H. eapply keepsL_trans; [exact H|apply keepsL_pput]. Qed.
Lemma hasL_pput m id p : hasL (pput m id p) id.
Proof. unfold hasL. rewrite pget_pput_same. eauto. Qed.
Lemma hasL_get m id p : pget m id = Some p -> hasL m id.
Proof. intros H. exists p. exact H. Qed.
Lemma PrsOk_get m id p : PrsOk m -> pget m id = Some p -> pr_ok p.
Proof. intros A G. eapply A; exact G. Qed.

Lemma keeps_refl r : keeps r r. Proof. apply keepsL_refl. Qed.
Lemma keeps_trans a b c : keeps a b -> keeps b c -> keeps a c.
Proof. apply keepsL_trans. Qed.
Lemma NodeInv_get r id p : NodeInv r -> get_pr r id = Some p -> pr_ok p.
Proof. intros [A _] G. eapply A; exact G. Qed.
Lemma NodeInv_intro r : PrsOk (t_progress (r_prs r)) -> RoInv (r_read_only r) -> NodeInv r.
Proof. split; assumption. Qed.

(* ------------------------------------------------------------------ *)
(* automation.  All facts are kept in a normal form over progress lists
   ([t_progress (r_prs x)] for a state variable x, [pput M id p]) and read-only
   records, obtained by REDUCTION ([cbn]) of the record updates: conversion between two
   nested record-update expressions is exponential and is never attempted. *)
Create HintDb safe.
Create HintDb prok.

#[export] Hint Resolve pr_ok_become_probe pr_ok_become_replicate pr_ok_become_snapshot
  pr_ok_update_committed pr_ok_set_recent_active pr_ok_set_ins : prok.
#[export] Hint Extern 1 (pr_ok (fst (maybe_update _ _))) => apply pr_ok_maybe_update : prok.
#[export] Hint Extern 1 (pr_ok (fst (maybe_decr_to _ _ _ _))) => apply pr_ok_maybe_decr_to : prok.
#[export] Hint Extern 1 (pr_ok (resume _)) => apply pr_ok_misc : prok.
#[export] Hint Extern 1 (pr_ok (pause _)) => apply pr_ok_misc : prok.
#[export] Hint Extern 1 (pr_ok (snapshot_failure _)) => apply pr_ok_misc : prok.
#[export] Hint Extern 1 (pr_ok (set_pending_request_snapshot _ _)) => apply pr_ok_misc : prok.
#[export] Hint Extern 1 (pr_ok (set_commit_group_id _ _)) => apply pr_ok_misc : prok.
#[export] Hint Extern 4 (pr_ok ?p) => match goal with H : pr_ok p |- _ => exact H end : prok.
#[export] Hint Extern 3 (Inv _) => assumption : prok.
#[export] Hint Extern 2 (pr_ok (if ?c then _ else _)) => destruct c : prok.

Ltac solve_prok := solve [eauto 8 with prok nocore].

(* normal form of one hypothesis *)
Ltac nrm_in H :=
  unfold post, NodeInv, keeps, has, get_pr in H; cbn in H.

(* bring every relevant hypothesis into normal form and saturate *)
Ltac brk :=
  repeat match goal with
  | H : post _ _ |- _ => nrm_in H; destruct H as [[? ?] ?]
  | H : NodeInv _ |- _ => nrm_in H; destruct H as [? ?]
  | H : keeps _ _ |- _ => nrm_in H
  | H : has _ _ |- _ => nrm_in H
  | H : get_pr _ _ = _ |- _ => nrm_in H
  | H : _ /\ _ |- _ => destruct H
  | H : True |- _ => clear H
  end;
  cbn [fst snd] in *;
  repeat match goal with
  | H : pget ?M ?id = Some ?p, N : PrsOk ?M |- _ =>
      lazymatch goal with
      | _ : pr_ok p |- _ => fail
      | _ => assert (pr_ok p) by (exact (PrsOk_get M id p N H))
      end
  | H : maybe_decr_to ?p ?a ?b ?c = (?x, _) |- _ =>
      lazymatch goal with
      | _ : pr_ok x |- _ => fail
      | _ => assert (pr_ok x)
               by (let X := fresh in
                   assert (X : pr_ok (fst (maybe_decr_to p a b c))) by (apply pr_ok_maybe_decr_to; solve_prok);
                   rewrite H in X; exact X)
      end
  | H : maybe_update ?p ?a = (?x, _) |- _ =>
      lazymatch goal with
      | _ : pr_ok x |- _ => fail
      | _ => assert (pr_ok x)
               by (let X := fresh in
                   assert (X : pr_ok (fst (maybe_update p a))) by (apply pr_ok_maybe_update; solve_prok);
                   rewrite H in X; exact X)
      end
  | H : ro_recv_ack ?ro ?id ?ctx = (?a, _), N : RoInv ?ro |- _ =>
      lazymatch goal with
      | _ : RoInv a |- _ => fail
      | _ => assert (RoInv a)
               by (let X := fresh in
                   pose proof (ro_recv_ack_inv ro id ctx N) as X; rewrite H in X; exact X)
      end
  end.

(* goals in normal form *)
Ltac solve_prs :=
  lazymatch goal with
  | |- PrsOk (pput _ _ _) => apply PrsOk_pput; [solve_prs|solve_prok]
  | |- PrsOk ?M => match goal with H : PrsOk M |- _ => exact H end
  end.

Ltac solve_ro :=
  lazymatch goal with
  | |- RoInv ?R => match goal with H : RoInv R |- _ => exact H end
  end.

Ltac solve_ni :=
  lazymatch goal with
  | |- NodeInv _ => apply NodeInv_intro; cbn; [solve_prs|solve_ro]
  end.

Ltac solve_keepsL n :=
  lazymatch n with
  | O => fail
  | S ?k =>
    lazymatch goal with
    | |- keepsL ?a ?a => apply keepsL_refl
    | |- keepsL ?a (pput ?b ?id ?p) => apply keepsL_pput_r; solve_keepsL k
    | |- keepsL ?a ?c =>
        match goal with
        | H : keepsL ?b c |- _ => apply (keepsL_trans a b c); [solve_keepsL k|exact H]
        end
    end
  end.

Ltac solve_keeps := unfold keeps; cbn; solve_keepsL 12%nat.

Ltac solve_hasL n :=
  lazymatch n with
  | O => fail
  | S ?k =>
    lazymatch goal with
    | |- hasL (pput _ ?id _) ?id => apply hasL_pput
    | |- hasL ?M ?id =>
        match goal with
        | H : hasL M id |- _ => exact H
        | H : pget M id = Some ?p |- _ => exact (hasL_get M id p H)
        | K : keepsL ?a M |- _ => apply K; solve_hasL k
        end
    end
  end.

Ltac solve_has := unfold has; cbn; solve_hasL 8%nat.

Ltac solve_post :=
  lazymatch goal with
  | |- context [match ?x with _ => _ end] => destruct x; solve_post
  | |- post _ _ => split; [solve_ni|solve_keeps]
  | |- NodeInv _ => solve_ni
  | |- keeps _ _ => solve_keeps
  | |- has _ _ => solve_has
  | |- pr_ok _ => solve_prok
  | |- RoInv _ => cbn; solve_ro
  | |- True => exact I
  | |- _ /\ _ => split; solve_post
  | |- _ => idtac
  end.

#[export] Hint Extern 2 (NodeInv _) => solve_ni : safe.
#[export] Hint Extern 2 (pr_ok _) => solve_prok : safe.
#[export] Hint Extern 2 (RoInv _) => cbn; solve_ro : safe.
#[export] Hint Extern 2 (has _ _) => solve_has : safe.
#[export] Hint Extern 2 (Inv (ins ?p)) =>
  let X := fresh in assert (X : pr_ok p) by solve_prok; exact (proj1 X) : safe.
#[export] Hint Extern 9 (safe _ _) =>
  eapply safe_from_sites; [intros ? ?; eauto with sites nocore|vm_compute; reflexivity] : safe.

Ltac solve_contra :=
  solve [ repeat match goal with H : pr_ok _ |- _ => destruct H as [? ?] end; lia
        | match goal with
          | H : pget ?M ?id = None |- _ =>
              let K := fresh in let q := fresh in
              assert (K : hasL M id) by solve_hasL 12%nat; destruct K as [q K]; congruence
          end ].

#[export] Hint Extern 1 (is_paused _ = false) => assumption : safe.

Lemma bind_assoc {A B C} (a : Res A) (f : A -> Res B) (g : B -> Res C) :
  bind (bind a f) g = bind a (fun x => bind (f x) g).
Proof. destruct a; reflexivity. Qed.

Ltac sstep :=
  lazymatch goal with
  | |- safe _ (Ok _) => apply safe_ok; cbv beta; cbn [fst snd]; solve_post
  | |- safe _ (Panic _) => first [ apply safe_panic; vm_compute; reflexivity | exfalso; solve_contra ]
  | |- safe _ (bind (Ok _) _) => cbn [bind]; cbv beta
  | |- safe _ (bind (Panic _) _) => cbn [bind]
  | |- safe _ (bind (match ?x with _ => _ end) _) => destruct x eqn:?; brk
  | |- safe _ (bind (bind _ _) _) => rewrite bind_assoc
  | |- safe _ (bind _ _) =>
      eapply safe_bind; [ solve [ typeclasses eauto with safe ] | ];
      let x := fresh "x" in let E := fresh "E" in let Hx := fresh "Hx" in
      intros x E Hx; cbv beta in Hx; brk
  | |- safe _ (match ?x with _ => _ end) => destruct x eqn:?; brk
  | |- safe _ _ =>
      eapply safe_mono; [ solve [ typeclasses eauto with safe ] | ];
      let a := fresh "a" in let E := fresh "E" in let Ha := fresh "Ha" in
      intros a E Ha; cbv beta in Ha |- *; brk; solve_post
  end.

(* last resort: case-split on some [if]/[match] scrutinee occurring inside the call *)
Ltac sdestr :=
  match goal with
  | |- safe _ ?a =>
      match a with
      | context [match ?c with _ => _ end] => destruct c eqn:?; brk
      end
  end.

Ltac ssafe := cbv beta zeta; brk; repeat (first [ sstep | sdestr ]).

(* ------------------------------------------------------------------ *)
Lemma send_safe r m : NodeInv r -> safe (post r) (send r m).
Proof. intros H. unfold send. ssafe. Qed.
#[export] Hint Extern 1 (safe _ (send _ _)) => eapply send_safe : safe.

Lemma prepare_send_snapshot_safe r m pr to :
  pr_ok pr -> safe (fun x => match x with Some y => pr_ok (snd y) | None => True end)
                   (prepare_send_snapshot r m pr to).
Proof. intros H. unfold prepare_send_snapshot. ssafe. Qed.
#[export] Hint Extern 1 (safe _ (prepare_send_snapshot _ _ _ _)) => eapply prepare_send_snapshot_safe : safe.

Lemma update_state_safe p last : pr_ok p -> is_paused p = false -> safe pr_ok (update_state p last).
Proof.
  intros H Hp. destruct (update_state_ok p last H Hp) as (p' & E & Hp'). rewrite E. exact Hp'.
Qed.
#[export] Hint Extern 1 (safe _ (update_state _ _)) => eapply update_state_safe : safe.

Lemma prepare_send_entries_safe r m pr t ents :
  pr_ok pr -> is_paused pr = false -> safe (fun x => pr_ok (snd x)) (prepare_send_entries r m pr t ents).
Proof. intros H Hp. unfold prepare_send_entries. ssafe. Qed.
#[export] Hint Extern 1 (safe _ (prepare_send_entries _ _ _ _ _)) => eapply prepare_send_entries_safe : safe.

Lemma try_batching_safe r to msgs : forall pr ents,
  pr_ok pr -> is_paused pr = false ->
  safe (fun x => pr_ok (snd (fst x))) (try_batching r to msgs pr ents).
Proof.
  induction msgs as [|m rest IH]; intros pr ents H Hp; cbn [try_batching]; ssafe.
Qed.
#[export] Hint Extern 1 (safe _ (try_batching _ _ _ _ _)) => eapply try_batching_safe : safe.

Lemma maybe_send_append_safe r to pr ae :
  NodeInv r -> pr_ok pr ->
  safe (fun x => post r (fst (fst x)) /\ pr_ok (snd (fst x))) (maybe_send_append r to pr ae).
Proof. intros H Hp. unfold maybe_send_append. ssafe. Qed.
#[export] Hint Extern 1 (safe _ (maybe_send_append _ _ _ _)) => eapply maybe_send_append_safe : safe.

Lemma send_append_to_safe r to : NodeInv r -> has r to -> safe (post r) (send_append_to r to).
Proof. intros H Hh. unfold send_append_to. ssafe. Qed.
#[export] Hint Extern 1 (safe _ (send_append_to _ _)) => eapply send_append_to_safe : safe.

Lemma send_append_aggressively_loop_safe fuel : forall r to pr,
  NodeInv r -> pr_ok pr ->
  safe (fun x => post r (fst x) /\ pr_ok (snd x)) (send_append_aggressively_loop fuel r to pr).
Proof.
  induction fuel as [|f IH]; intros r to pr H Hp; cbn [send_append_aggressively_loop]; ssafe.
Qed.
#[export] Hint Extern 1 (safe _ (send_append_aggressively_loop _ _ _ _)) =>
  eapply send_append_aggressively_loop_safe : safe.

Lemma send_append_aggressively_safe r to :
  NodeInv r -> has r to -> safe (post r) (send_append_aggressively r to).
Proof. intros H Hh. unfold send_append_aggressively. ssafe. Qed.
#[export] Hint Extern 1 (safe _ (send_append_aggressively _ _)) => eapply send_append_aggressively_safe : safe.

Lemma send_heartbeat_safe r to pr ctx : NodeInv r -> safe (post r) (send_heartbeat r to pr ctx).
Proof. intros H. unfold send_heartbeat. destruct ctx; apply send_safe; exact H. Qed.
#[export] Hint Extern 1 (safe _ (send_heartbeat _ _ _ _)) => eapply send_heartbeat_safe : safe.

Lemma has_in_pids r id : In id (pids (t_progress (r_prs r))) -> has r id.
Proof. apply pget_in_pids. Qed.

Lemma for_each_peer_safe (f : raft -> N -> Res raft) ids self :
  (forall r0 id, NodeInv r0 -> has r0 id -> safe (post r0) (f r0 id)) ->
  forall r, NodeInv r -> (forall id, In id ids -> has r id) ->
  safe (post r) (for_each_peer ids self f r).
Proof.
  intros Hf. induction ids as [|id rest IH]; intros r H Hin; cbn [for_each_peer].
  - apply safe_ok. split; [exact H|apply keeps_refl].
  - destruct (id =? self).
    + apply IH; [exact H|]. intros i Hi. apply Hin. right. exact Hi.
    + eapply safe_bind; [apply Hf; [exact H|apply Hin; left; reflexivity]|].
      intros r1 _ [H1 K1]. eapply safe_mono.
      * apply IH; [exact H1|]. intros i Hi. apply K1, Hin. right. exact Hi.
      * intros a _ [Ha Ka]. split; [exact Ha|]. eapply keeps_trans; eassumption.
Qed.

Lemma bcast_append_safe r : NodeInv r -> safe (post r) (bcast_append r).
Proof.
  intros H. unfold bcast_append. apply for_each_peer_safe; [|exact H|intros id; apply has_in_pids].
  intros r0 id H0 Hh. apply send_append_to_safe; assumption.
Qed.
#[export] Hint Extern 1 (safe _ (bcast_append _)) => eapply bcast_append_safe : safe.

Lemma bcast_heartbeat_with_ctx_safe r ctx : NodeInv r -> safe (post r) (bcast_heartbeat_with_ctx r ctx).
Proof.
  intros H. unfold bcast_heartbeat_with_ctx.
  apply for_each_peer_safe; [|exact H|intros id; apply has_in_pids].
  intros r0 id H0 Hh. ssafe.
Qed.
#[export] Hint Extern 1 (safe _ (bcast_heartbeat_with_ctx _ _)) => eapply bcast_heartbeat_with_ctx_safe : safe.
Lemma bcast_heartbeat_safe r : NodeInv r -> safe (post r) (bcast_heartbeat r).
Proof. intros H. unfold bcast_heartbeat. apply bcast_heartbeat_with_ctx_safe. exact H. Qed.
#[export] Hint Extern 1 (safe _ (bcast_heartbeat _)) => eapply bcast_heartbeat_safe : safe.

Lemma maybe_commit_safe r : NodeInv r -> safe (fun x => post r (fst x)) (maybe_commit r).
Proof. intros H. unfold maybe_commit. ssafe. Qed.
#[export] Hint Extern 1 (safe _ (maybe_commit _)) => eapply maybe_commit_safe : safe.

Lemma append_entry_safe r es : NodeInv r -> safe (fun x => post r (fst x)) (append_entry r es).
Proof.
  intros H. unfold append_entry.
  destruct (maybe_increase_uncommitted_size r es) as [r1 ok] eqn:E.
  assert (H1 : NodeInv r1 /\ keeps r r1).
  { unfold maybe_increase_uncommitted_size in E.
    repeat match type of E with (if ?c then _ else _) = _ => destruct c end;
      injection E as <- <-; split; try exact H; intros id hh; exact hh. }
  destruct H1 as [H1 K1]. ssafe.
Qed.
#[export] Hint Extern 1 (safe _ (append_entry _ _)) => eapply append_entry_safe : safe.

Lemma reset_safe r t : NodeInv r -> safe (post r) (reset r t).
Proof.
  intros H. unfold reset. cbv zeta.
  set (r0 := if negb (r_term r =? t) then r <| r_term := t |> <| r_vote := INVALID_ID |> else r).
  assert (E0 : t_progress (r_prs r0) = t_progress (r_prs r) /\ r_read_only r0 = r_read_only r)
    by (subst r0; destruct (negb _); split; reflexivity).
  destruct E0 as [Ep Er].
  destruct (r_draws r0) as [|d ds]; [apply safe_panic; vm_compute; reflexivity|].
  apply safe_ok. cbn.
  set (f := fun (k : N) (p0 : progress) =>
       if k =? r_id r0
       then set_committed_index (set_matched (pr_reset p0 (last_index (r_log r0) + 1))
              (persisted (r_log r0))) (committed (r_log r0))
       else pr_reset p0 (last_index (r_log r0) + 1)).
  split.
  - split; cbn.
    + rewrite Ep. apply (PrsOk_map f); [|apply H].
      intros k p Hp. unfold f. destruct (k =? r_id r0).
      * apply pr_ok_misc. apply pr_ok_misc. apply pr_ok_reset; [exact Hp|lia].
      * apply pr_ok_reset; [exact Hp|lia].
    + apply RoInv_new.
  - unfold keeps, keepsL, hasL. cbn [r_prs t_progress]. intros id [p Hp].
    change (exists p0, pget (map (fun kp => (fst kp, f (fst kp) (snd kp))) (t_progress (r_prs r0))) id = Some p0).
    rewrite Ep, (pget_map f), Hp. cbn [option_map]. eauto.
Qed.
#[export] Hint Extern 1 (safe _ (reset _ _)) => eapply reset_safe : safe.

Lemma become_follower_safe r t l : NodeInv r -> safe (post r) (become_follower r t l).
Proof. intros H. unfold become_follower. ssafe. Qed.
#[export] Hint Extern 1 (safe _ (become_follower _ _ _)) => eapply become_follower_safe : safe.

Lemma become_candidate_safe r : NodeInv r -> safe (post r) (become_candidate r).
Proof. intros H. unfold become_candidate. ssafe. Qed.
#[export] Hint Extern 1 (safe _ (become_candidate _)) => eapply become_candidate_safe : safe.

Lemma become_pre_candidate_safe r : NodeInv r -> safe (post r) (become_pre_candidate r).
Proof. intros H. unfold become_pre_candidate. ssafe. Qed.
#[export] Hint Extern 1 (safe _ (become_pre_candidate _)) => eapply become_pre_candidate_safe : safe.

Lemma become_leader_safe r : NodeInv r -> safe (post r) (become_leader r).
Proof. intros H. unfold become_leader. ssafe. Qed.
#[export] Hint Extern 1 (safe _ (become_leader _)) => eapply become_leader_safe : safe.

Lemma poll_gen_safe (rc : raft -> Res raft) r from v :
  (forall r0, NodeInv r0 -> safe (post r0) (rc r0)) ->
  NodeInv r -> safe (fun x => post r (fst x)) (poll_gen rc r from v).
Proof.
  intros Hrc H. unfold poll_gen. cbv zeta. brk.
  match goal with |- safe _ (match ?x with _ => _ end) => destruct x end.
  - ssafe.
  - ssafe.
  - match goal with |- safe _ (if ?c then _ else _) => destruct c end.
    + eapply safe_bind; [apply Hrc; solve_ni|]. intros x E Hx. brk. ssafe.
    + ssafe.
Qed.

Lemma send_vote_requests_safe ids : forall r vm t c ct tr,
  NodeInv r -> safe (post r) (send_vote_requests ids r vm t c ct tr).
Proof.
  induction ids as [|id rest IH]; intros r vm t c ct tr H; cbn [send_vote_requests]; ssafe.
Qed.
#[export] Hint Extern 1 (safe _ (send_vote_requests _ _ _ _ _ _ _)) => eapply send_vote_requests_safe : safe.

Lemma campaign_real_safe tr r : NodeInv r -> safe (post r) (campaign_real tr r).
Proof.
  intros H. unfold campaign_real.
  eapply safe_bind; [apply become_candidate_safe; exact H|]. intros r1 E1 Hx. brk.
  eapply safe_bind.
  { apply (poll_gen_safe (fun _ => Panic site_fuel)); [|solve_ni].
    intros r0 _. apply safe_panic. vm_compute. reflexivity. }
  intros x E2 Hx. cbv beta in Hx. brk. ssafe.
Qed.
#[export] Hint Extern 1 (safe _ (campaign_real _ _)) => eapply campaign_real_safe : safe.

Lemma poll_safe r from v : NodeInv r -> safe (fun x => post r (fst x)) (poll r from v).
Proof.
  intros H. unfold poll. apply poll_gen_safe; [|exact H].
  intros r0 H0. apply campaign_real_safe. exact H0.
Qed.
#[export] Hint Extern 1 (safe _ (poll _ _ _)) => eapply poll_safe : safe.

Lemma campaign_pre_safe r : NodeInv r -> safe (post r) (campaign_pre r).
Proof. intros H. unfold campaign_pre. ssafe. Qed.
#[export] Hint Extern 1 (safe _ (campaign_pre _)) => eapply campaign_pre_safe : safe.

Lemma hup_safe r tl : NodeInv r -> safe (post r) (hup r tl).
Proof. intros H. unfold hup. ssafe. Qed.
#[export] Hint Extern 1 (safe _ (hup _ _)) => eapply hup_safe : safe.

Lemma maybe_commit_by_vote_safe r m : NodeInv r -> safe (post r) (maybe_commit_by_vote r m).
Proof. intros H. unfold maybe_commit_by_vote. ssafe. Qed.
#[export] Hint Extern 1 (safe _ (maybe_commit_by_vote _ _)) => eapply maybe_commit_by_vote_safe : safe.

Lemma handle_ready_read_index_safe r req i :
  NodeInv r -> safe (fun x => post r (fst x)) (handle_ready_read_index r req i).
Proof. intros H. unfold handle_ready_read_index. ssafe. Qed.
#[export] Hint Extern 1 (safe _ (handle_ready_read_index _ _ _)) => eapply handle_ready_read_index_safe : safe.

Lemma respond_reads_safe rss : forall r, NodeInv r -> safe (post r) (respond_reads r rss).
Proof. induction rss as [|rs rest IH]; intros r H; cbn [respond_reads]; ssafe. Qed.
#[export] Hint Extern 1 (safe _ (respond_reads _ _)) => eapply respond_reads_safe : safe.

Lemma send_timeout_now_safe r to : NodeInv r -> safe (post r) (send_timeout_now r to).
Proof. intros H. unfold send_timeout_now. apply send_safe. exact H. Qed.
#[export] Hint Extern 1 (safe _ (send_timeout_now _ _)) => eapply send_timeout_now_safe : safe.

Lemma send_request_snapshot_safe r : NodeInv r -> safe (post r) (send_request_snapshot r).
Proof. intros H. unfold send_request_snapshot. ssafe. Qed.
#[export] Hint Extern 1 (safe _ (send_request_snapshot _)) => eapply send_request_snapshot_safe : safe.

Lemma handle_append_entries_safe r m : NodeInv r -> safe (post r) (handle_append_entries r m).
Proof. intros H. unfold handle_append_entries. ssafe. Qed.
#[export] Hint Extern 1 (safe _ (handle_append_entries _ _)) => eapply handle_append_entries_safe : safe.

Lemma handle_heartbeat_safe r m : NodeInv r -> safe (post r) (handle_heartbeat r m).
Proof. intros H. unfold handle_heartbeat. ssafe. Qed.
#[export] Hint Extern 1 (safe _ (handle_heartbeat _ _)) => eapply handle_heartbeat_safe : safe.

Lemma ro_advance_safe ro ctx : RoInv ro -> safe (fun x => RoInv (fst x)) (ro_advance ro ctx).
Proof. intros H. destruct (ro_advance_ok ro ctx H) as (ro' & rss & E & H'). rewrite E. exact H'. Qed.
#[export] Hint Extern 1 (safe _ (ro_advance _ _)) => eapply ro_advance_safe : safe.

Lemma ro_add_request_safe ro i req id : RoInv ro -> safe RoInv (ro_add_request ro i req id).
Proof.
  intros H. destruct (ro_add_request ro i req id) as [ro'|s] eqn:E.
  - eapply ro_add_request_inv; eassumption.
  - apply ro_add_request_sites_ok in E. destruct E as [<-|[]]. apply notin_b. vm_compute. reflexivity.
Qed.
#[export] Hint Extern 1 (safe _ (ro_add_request _ _ _ _)) => eapply ro_add_request_safe : safe.

Lemma pcc_loop_safe r :
  NodeInv r ->
  safe (post r)
    (for_each_peer (pids (t_progress (r_prs r))) (r_id r)
       (fun r id => match get_pr r id with
                    | None => Panic site_pr_unwrap
                    | Some pr =>
                        y <- maybe_send_append r id pr false ;;
                        let '(r', pr', _) := y in Ok (put_pr r' id pr')
                    end) r).
Proof.
  intros H. apply for_each_peer_safe; [|exact H|intros id; apply has_in_pids].
  intros r0 id H0 Hh. ssafe.
Qed.

Lemma post_conf_change_safe r : NodeInv r -> safe (fun x => post r (fst x)) (post_conf_change r).
Proof.
  intros H. unfold post_conf_change. cbv zeta. brk.
  match goal with |- safe _ (if ?c then _ else _) => destruct c end; [ssafe|].
  match goal with |- safe _ (if ?c then _ else _) => destruct c end; [ssafe|].
  eapply safe_bind; [apply maybe_commit_safe; solve_ni|]. intros [r1 b] E1 Hx. brk. cbv beta iota.
  eapply safe_bind.
  { instantiate (1 := post r1). destruct b; [apply bcast_append_safe; solve_ni|].
    apply pcc_loop_safe. solve_ni. }
  intros r2 E2 Hx. brk. ssafe.
Qed.
#[export] Hint Extern 1 (safe _ (post_conf_change _)) => eapply post_conf_change_safe : safe.

Lemma NodeInv_fresh r c ids n mi :
  NodeInv r -> 1 <= n -> NodeInv (set_conf_prs r c (fresh_progress ids n mi)).
Proof. intros [_ B] Hn. split; [apply PrsOk_fresh; exact Hn|exact B]. Qed.

Lemma restore_safe r s :
  NodeInv r -> 1 <= s_index s -> safe (fun x => NodeInv (fst x)) (restore r s).
Proof.
  intros H Hs. unfold restore. brk.
  match goal with |- safe _ (if ?c then _ else _) => destruct c end; [ssafe|].
  match goal with |- safe _ (if ?c then _ else _) => destruct c end; [ssafe|].
  cbv zeta.
  match goal with |- safe _ (if ?c then _ else _) => destruct c end; [ssafe|].
  eapply safe_bind; [solve [typeclasses eauto with safe]|]. intros mt _ _.
  match goal with |- safe _ (if ?c then _ else _) => destruct c end; [ssafe|].
  destruct (log_restore (r_log r) s) as [l'|s1] eqn:El; cbn [bind].
  2:{ apply log_restore_sites_ok in El. destruct El as [<-|[]]. apply notin_b. vm_compute. reflexivity. }
  assert (Eli : last_index l' = s_index s).
  { unfold log_restore in El. destruct (s_index s <? committed (r_log r)); [discriminate|].
    injection El as <-. reflexivity. }
  change (last_index (r_log (r <| r_log := l' |>))) with (last_index l'). rewrite Eli.
  destruct (ConfChange.restore empty_tracker (s_cs s)) as [[c' ids']|e]; [|ssafe].
  eapply safe_bind.
  { apply post_conf_change_safe. apply NodeInv_fresh; [|exact Hs]. solve_ni. }
  intros [r1 cs1] E1 Hx. brk. cbv beta iota. ssafe.
Qed.
#[export] Hint Extern 1 (safe _ (restore _ _)) => eapply restore_safe : safe.

Lemma handle_snapshot_safe r m :
  NodeInv r -> 1 <= s_index (m_snapshot m) -> safe NodeInv (handle_snapshot r m).
Proof. intros H Hs. unfold handle_snapshot. ssafe. Qed.
#[export] Hint Extern 1 (safe _ (handle_snapshot _ _)) => eapply handle_snapshot_safe : safe.

Lemma free_to_safe i x : Inv i -> safe Inv (Inflights.free_to i x).
Proof. intros H. destruct (inf_free_to_ok i x H) as (i' & E & H'). rewrite E. exact H'. Qed.
Lemma free_first_one_safe i : Inv i -> safe Inv (Inflights.free_first_one i).
Proof. intros H. destruct (inf_free_first_ok i H) as (i' & E & H'). rewrite E. exact H'. Qed.
Lemma set_cap_safe i c : Inv i -> safe Inv (Inflights.set_cap i c).
Proof. intros H. destruct (inf_set_cap_ok i c H) as (i' & E & H'). rewrite E. exact H'. Qed.
#[export] Hint Extern 1 (safe _ (Inflights.free_to _ _)) => eapply free_to_safe : safe.
#[export] Hint Extern 1 (safe _ (Inflights.free_first_one _)) => eapply free_first_one_safe : safe.
#[export] Hint Extern 1 (safe _ (Inflights.set_cap _ _)) => eapply set_cap_safe : safe.
#[export] Hint Extern 2 (Inv (ins ?p)) =>
  let X := fresh in assert (X : pr_ok p) by solve_prok; exact (proj1 X) : safe.
#[export] Hint Extern 3 (Inv _) => assumption : prok.
#[export] Hint Extern 2 (pr_ok (if ?c then _ else _)) => destruct c : prok.


Lemma handle_append_response_safe r m : NodeInv r -> safe (post r) (handle_append_response r m).
Proof. intros H. unfold handle_append_response. ssafe. Qed.
#[export] Hint Extern 1 (safe _ (handle_append_response _ _)) => eapply handle_append_response_safe : safe.

Lemma handle_heartbeat_response_safe r m : NodeInv r -> safe (post r) (handle_heartbeat_response r m).
Proof. intros H. unfold handle_heartbeat_response. ssafe. Qed.
#[export] Hint Extern 1 (safe _ (handle_heartbeat_response _ _)) => eapply handle_heartbeat_response_safe : safe.


Lemma handle_transfer_leader_safe r m : NodeInv r -> safe (post r) (handle_transfer_leader r m).
Proof. intros H. unfold handle_transfer_leader. ssafe. Qed.
#[export] Hint Extern 1 (safe _ (handle_transfer_leader _ _)) => eapply handle_transfer_leader_safe : safe.

Lemma handle_snapshot_status_safe r m : NodeInv r -> safe (post r) (handle_snapshot_status r m).
Proof. intros H. unfold handle_snapshot_status. ssafe. Qed.
#[export] Hint Extern 1 (safe _ (handle_snapshot_status _ _)) => eapply handle_snapshot_status_safe : safe.

Lemma handle_unreachable_safe r m : NodeInv r -> safe (post r) (handle_unreachable r m).
Proof. intros H. unfold handle_unreachable. ssafe. Qed.
#[export] Hint Extern 1 (safe _ (handle_unreachable _ _)) => eapply handle_unreachable_safe : safe.

Lemma NodeInv_quorum_recently_active r :
  NodeInv r -> NodeInv (r <| r_prs := fst (quorum_recently_active (r_prs r) (r_id r)) |>) /\
               keeps r (r <| r_prs := fst (quorum_recently_active (r_prs r) (r_id r)) |>).
Proof.
  intros [A B]. unfold quorum_recently_active. cbn [fst].
  set (f := fun (k : N) (p : progress) => set_recent_active p (k =? r_id r)).
  split.
  - split; [|exact B]. cbn [r_prs t_progress].
    change (PrsOk (map (fun kp => (fst kp, f (fst kp) (snd kp))) (t_progress (r_prs r)))).
    apply PrsOk_map; [|exact A]. intros k p Hp. exact Hp.
  - unfold keeps, keepsL, hasL. cbn [r_prs t_progress]. intros id [p Hp].
    change (exists p0, pget (map (fun kp => (fst kp, f (fst kp) (snd kp))) (t_progress (r_prs r))) id = Some p0).
    rewrite (pget_map f), Hp. cbn [option_map]. eauto.
Qed.

Lemma filter_footprint ents : forall r info i r' ents' ok,
  filter_conf_changes r ents info i = (r', ents', ok) ->
  t_progress (r_prs r') = t_progress (r_prs r) /\ r_read_only r' = r_read_only r.
Proof.
  induction ents as [|e rest IH]; intros r info i r' ents' ok H; cbn [filter_conf_changes] in H.
  - injection H as <- _ _. split; reflexivity.
  - repeat match type of H with
           | (match filter_conf_changes ?a ?b ?c ?d with _ => _ end) = _ =>
               destruct (filter_conf_changes a b c d) as [[ra ea] oa] eqn:F; apply IH in F
           | (if ?c then _ else _) = _ => destruct c
           end; injection H as <- _ _; try (split; reflexivity); exact F.
Qed.

Lemma step_leader_safe r m : NodeInv r -> safe (fun x => NodeInv (fst x)) (step_leader r m).
Proof.
  intros H. unfold step_leader. cbv zeta.
  destruct (NodeInv_quorum_recently_active r H) as [Hq Kq].
  destruct (quorum_recently_active (r_prs r) (r_id r)) as [prs' active]. cbn [fst] in Hq, Kq.
  destruct (filter_conf_changes r (m_entries m) (m_ccinfo m) 0) as [[r1 ents] ok] eqn:Ef.
  apply filter_footprint in Ef. destruct Ef as (Ef1 & Ef2).
  assert (H1 : NodeInv r1) by (destruct H as [A B]; split; [rewrite Ef1; exact A|rewrite Ef2; exact B]).
  assert (K1 : keeps r r1) by (unfold keeps; rewrite Ef1; apply keepsL_refl).
  ssafe.
Qed.
#[export] Hint Extern 1 (safe _ (step_leader _ _)) => eapply step_leader_safe : safe.

Definition snap_ok (m : msg) : Prop := m_type m = MsgSnapshot -> 1 <= s_index (m_snapshot m).

#[export] Hint Extern 3 (1 <= s_index (m_snapshot _)) =>
  first [ assumption
        | match goal with
          | Hs : snap_ok _ |- _ =>
              apply Hs; unfold MsgSnapshot, MsgAppend, MsgHeartbeat in *; lia
          end ] : safe.

Lemma step_candidate_safe r m :
  NodeInv r -> snap_ok m -> safe (fun x => NodeInv (fst x)) (step_candidate r m).
Proof. intros H Hs. unfold step_candidate. ssafe. Qed.
#[export] Hint Extern 1 (safe _ (step_candidate _ _)) => eapply step_candidate_safe : safe.

Lemma step_follower_safe r m :
  NodeInv r -> snap_ok m -> safe (fun x => NodeInv (fst x)) (step_follower r m).
Proof. intros H Hs. unfold step_follower. ssafe. Qed.
#[export] Hint Extern 1 (safe _ (step_follower _ _)) => eapply step_follower_safe : safe.
#[export] Hint Extern 1 (snap_ok _) => assumption : safe.

Theorem step_safe r m : NodeInv r -> snap_ok m -> safe (fun x => NodeInv (fst x)) (step r m).
Proof. intros H Hs. unfold step. ssafe. Qed.
#[export] Hint Extern 1 (safe _ (step _ _)) => eapply step_safe : safe.

Lemma snap_ok_local m : m_type m <> MsgSnapshot -> snap_ok m.
Proof. intros H E. contradiction. Qed.
#[export] Hint Extern 2 (snap_ok (new_message _ _ _)) => apply snap_ok_local; discriminate : safe.
#[export] Hint Extern 2 (snap_ok (set _ _ _)) => apply snap_ok_local; discriminate : safe.

Lemma tick_election_safe r : NodeInv r -> safe (fun x => NodeInv (fst x)) (tick_election r).
Proof. intros H. unfold tick_election. ssafe. Qed.
Lemma tick_heartbeat_safe r : NodeInv r -> safe (fun x => NodeInv (fst x)) (tick_heartbeat r).
Proof. intros H. unfold tick_heartbeat. ssafe. Qed.
Theorem tick_safe r : NodeInv r -> safe (fun x => NodeInv (fst x)) (tick r).
Proof.
  intros H. unfold tick. destruct (r_state r);
    first [apply tick_election_safe; exact H|apply tick_heartbeat_safe; exact H].
Qed.
#[export] Hint Extern 1 (safe _ (tick _)) => eapply tick_safe : safe.

Theorem on_persist_entries_safe r i t : NodeInv r -> safe NodeInv (on_persist_entries r i t).
Proof. intros H. unfold on_persist_entries. ssafe. Qed.
#[export] Hint Extern 1 (safe _ (on_persist_entries _ _ _)) => eapply on_persist_entries_safe : safe.

Theorem on_persist_snap_safe r i : NodeInv r -> safe NodeInv (on_persist_snap r i).
Proof. intros H. unfold on_persist_snap. ssafe. Qed.
#[export] Hint Extern 1 (safe _ (on_persist_snap _ _)) => eapply on_persist_snap_safe : safe.

Theorem commit_apply_internal_safe r app skip : NodeInv r -> safe NodeInv (commit_apply_internal r app skip).
Proof. intros H. unfold commit_apply_internal. ssafe. Qed.
Theorem commit_apply_safe r app : NodeInv r -> safe NodeInv (commit_apply r app).
Proof. intros H. apply commit_apply_internal_safe. exact H. Qed.
#[export] Hint Extern 1 (safe _ (commit_apply _ _)) => eapply commit_apply_safe : safe.

(* a membership change creates Progress entries with next_idx = last_index: the log must
   not be empty (true on every leader: it holds at least its own no-op entry) *)
Theorem raft_apply_conf_change_safe r cc :
  NodeInv r -> 1 <= last_index (r_log r) -> safe (fun x => NodeInv (fst x)) (raft_apply_conf_change r cc).
Proof.
  intros H Hl. unfold raft_apply_conf_change. cbv zeta.
  match goal with |- safe _ (match ?x with _ => _ end) => destruct x as [[c' chs]|e] end; [|ssafe].
  eapply safe_bind.
  { apply post_conf_change_safe. destruct H as [A B]. split; [|exact B].
    cbn [set_conf_prs r_prs t_progress]. 
    change (PrsOk (apply_changes (t_progress (r_prs r)) chs (last_index (r_log r)) (t_max_inflight (r_prs r)))).
    apply PrsOk_apply_changes; assumption. }
  intros x E Hx. cbv beta in Hx. brk. ssafe.
Qed.

Theorem load_state_safe r hs : NodeInv r -> safe NodeInv (load_state r hs).
Proof. intros H. unfold load_state. ssafe. Qed.

Theorem request_snapshot_safe r : NodeInv r -> safe (fun x => NodeInv (fst x)) (request_snapshot r).
Proof. intros H. unfold request_snapshot. ssafe. Qed.

Theorem ping_safe r : NodeInv r -> safe NodeInv (ping r).
Proof. intros H. unfold ping. ssafe. Qed.

Theorem adjust_max_inflight_msgs_safe r t c : NodeInv r -> safe NodeInv (adjust_max_inflight_msgs r t c).
Proof. intros H. unfold adjust_max_inflight_msgs. ssafe. Qed.

Theorem maybe_free_inflight_buffers_inv r : NodeInv r -> NodeInv (maybe_free_inflight_buffers r).
Proof.
  intros [A B]. split; [|exact B]. unfold maybe_free_inflight_buffers. cbn [r_prs t_progress].
  set (f := fun (_ : N) (p : progress) => set_ins p (Inflights.maybe_free_buffer (ins p))).
  change (PrsOk (map (fun kp => (fst kp, f (fst kp) (snd kp))) (t_progress (r_prs r)))).
  apply PrsOk_map; [|exact A]. intros k p [Hi Hn]. split; [apply inf_maybe_free_inv; exact Hi|exact Hn].
Qed.

Theorem set_max_apply_unpersisted_log_limit_inv r k :
  NodeInv r -> NodeInv (set_max_apply_unpersisted_log_limit r k).
Proof. exact (fun H => H). Qed.

Theorem enable_group_commit_safe r e : NodeInv r -> safe NodeInv (enable_group_commit r e).
Proof. intros H. unfold enable_group_commit. ssafe. Qed.

Lemma assign_groups_inv ids : forall m m', PrsOk m -> assign_groups m ids = Ok m' -> PrsOk m'.
Proof.
  induction ids as [|[peer g] rest IH]; intros m m' H E; cbn [assign_groups] in E.
  - injection E as <-. exact H.
  - destruct (g =? 0); [discriminate|].
    destruct (pget m peer) as [pr|] eqn:G; [|eapply IH; eassumption].
    eapply IH; [|exact E]. apply PrsOk_pput; [exact H|]. apply pr_ok_misc. eapply H; exact G.
Qed.

Theorem assign_commit_groups_safe r ids : NodeInv r -> safe NodeInv (assign_commit_groups r ids).
Proof.
  intros H. unfold assign_commit_groups.
  destruct (assign_groups (t_progress (r_prs r)) ids) as [m'|s] eqn:E; cbn [bind].
  2:{ apply assign_groups_sites_ok in E. destruct E as [<-|[]]. apply notin_b. vm_compute. reflexivity. }
  assert (H' : NodeInv (r <| r_prs := r_prs r <| t_progress := m' |> |>)).
  { destruct H as [A B]. split; [|exact B]. cbn. eapply assign_groups_inv; eassumption. }
  ssafe.
Qed.

(* ================================================================== *)
(* RawNode *)
Definition RnInv (n : rawnode) : Prop := NodeInv (rn_raft n).

Lemma lift_safe n x : safe NodeInv x -> safe RnInv (lift n x).
Proof. unfold lift. destruct x as [r|s]; cbn [bind]; [intros H; exact H|intros H; exact H]. Qed.
Lemma lift2_safe n x : safe (fun y => NodeInv (fst y)) x -> safe (fun y => RnInv (fst y)) (lift2 n x).
Proof. unfold lift2. destruct x as [[r c]|s]; cbn [bind]; [intros H; exact H|intros H; exact H]. Qed.

Theorem rn_step_safe n m : RnInv n -> snap_ok m -> safe (fun y => RnInv (fst y)) (rn_step n m).
Proof.
  intros H Hs. unfold rn_step. destruct (is_local_msg _); [exact H|].
  destruct (_ || _); [|exact H]. apply lift2_safe. apply step_safe; assumption.
Qed.

Theorem rn_tick_safe n : RnInv n -> safe (fun y => RnInv (fst y)) (rn_tick n).
Proof.
  intros H. unfold rn_tick. eapply safe_bind; [apply tick_safe; exact H|].
  intros x _ Hx. exact Hx.
Qed.

Theorem rn_campaign_safe n : RnInv n -> safe (fun y => RnInv (fst y)) (rn_campaign n).
Proof.
  intros H. unfold rn_campaign. apply lift2_safe. apply step_safe; [exact H|].
  apply snap_ok_local. discriminate.
Qed.

Theorem rn_propose_safe n c d : RnInv n -> safe (fun y => RnInv (fst y)) (rn_propose n c d).
Proof.
  intros H. unfold rn_propose. apply lift2_safe. apply step_safe; [exact H|].
  apply snap_ok_local. discriminate.
Qed.

Theorem rn_propose_conf_change_safe n c d ty ci :
  RnInv n -> safe (fun y => RnInv (fst y)) (rn_propose_conf_change n c d ty ci).
Proof.
  intros H. unfold rn_propose_conf_change. apply lift2_safe. apply step_safe; [exact H|].
  apply snap_ok_local. discriminate.
Qed.

Theorem rn_apply_conf_change_safe n cc :
  RnInv n -> 1 <= last_index (r_log (rn_raft n)) ->
  safe (fun y => RnInv (fst y)) (rn_apply_conf_change n cc).
Proof.
  intros H Hl. unfold rn_apply_conf_change.
  eapply safe_bind; [apply raft_apply_conf_change_safe; assumption|].
  intros x _ Hx. exact Hx.
Qed.

Theorem rn_ping_safe n : RnInv n -> safe RnInv (rn_ping n).
Proof. intros H. unfold rn_ping. apply lift_safe. apply ping_safe. exact H. Qed.

Lemma NodeInv_reduce r ce : NodeInv r -> NodeInv (reduce_uncommitted_size r ce).
Proof.
  intros H. unfold reduce_uncommitted_size.
  repeat match goal with |- NodeInv (if ?c then _ else _) => destruct c end; exact H.
Qed.

Theorem gen_light_ready_safe n : RnInv n -> safe (fun y => RnInv (fst y)) (gen_light_ready n).
Proof.
  intros H. unfold gen_light_ready. cbv zeta.
  eapply safe_bind; [solve [typeclasses eauto with safe]|]. intros oe _ _.
  assert (H' : NodeInv (reduce_uncommitted_size (rn_raft n) match oe with Some v => v | None => [] end))
    by (apply NodeInv_reduce; exact H).
  eapply safe_bind.
  { instantiate (1 := fun _ => True).
    destruct (match oe with Some v => v | None => [] end); [exact I|].
    match goal with |- safe _ (if ?c then _ else _) => destruct c end; [exact I|].
    apply safe_panic. vm_compute. reflexivity. }
  intros csi _ _. apply safe_ok. exact H'.
Qed.

Theorem rn_ready_safe n : RnInv n -> safe (fun y => RnInv (fst y)) (rn_ready n).
Proof.
  intros H. unfold rn_ready. cbv zeta.
  eapply safe_bind.
  { instantiate (1 := fun _ => True).
    match goal with |- safe _ (if ?c then _ else _) => destruct c end; [|exact I].
    eapply safe_bind; [solve [typeclasses eauto with safe]|]. intros; exact I. }
  intros recs _ _.
  eapply safe_bind.
  { instantiate (1 := fun _ => True).
    destruct (u_snapshot _); [|exact I].
    match goal with |- safe _ (if ?c then _ else _) => destruct c end;
      [apply safe_panic; vm_compute; reflexivity|].
    eapply safe_bind; [solve [typeclasses eauto with safe]|]. intros b _ _.
    destruct b; [apply safe_panic; vm_compute; reflexivity|exact I]. }
  intros [[[snap csi] rec_snap] ms2] _ _. cbv beta iota.
  eapply safe_bind.
  { apply gen_light_ready_safe. exact H. }
  intros [n2 light] _ Hx. exact Hx.
Qed.

Theorem commit_ready_safe n rd : RnInv n -> safe RnInv (commit_ready n rd).
Proof.
  intros H. unfold commit_ready. fold (rn_apply_rd n rd).
  destruct (rn_apply_rd_fields n rd) as [Er Ef]. rewrite Er, Ef.
  destruct (rn_records n) as [|rr0 rest]; [apply safe_panic; vm_compute; reflexivity|].
  match goal with |- safe _ (if ?c then _ else _) => destruct c end;
    [apply safe_panic; vm_compute; reflexivity|].
  eapply safe_bind.
  { instantiate (1 := fun _ => True).
    destruct (rr_snapshot _) as [[i t]|]; [|exact I]. solve [typeclasses eauto with safe]. }
  intros l1 _ _.
  eapply safe_bind.
  { instantiate (1 := fun _ => True).
    destruct (rr_last_entry _) as [[i t]|]; [|exact I]. solve [typeclasses eauto with safe]. }
  intros l2 _ _. apply safe_ok.
  exact H.
Qed.

Theorem rn_on_persist_ready_safe n k : RnInv n -> safe RnInv (rn_on_persist_ready n k).
Proof.
  intros H. unfold rn_on_persist_ready.
  destruct (fold_records _ _ _ _ _) as [[[recs i] t] si].
  eapply safe_bind.
  { instantiate (1 := NodeInv).
    match goal with |- safe _ (if ?c then _ else _) => destruct c end;
      [apply on_persist_snap_safe; exact H|exact H]. }
  intros r1 _ H1.
  eapply safe_bind.
  { instantiate (1 := NodeInv).
    match goal with |- safe _ (if ?c then _ else _) => destruct c end;
      [apply on_persist_entries_safe; exact H1|exact H1]. }
  intros r2 _ H2. exact H2.
Qed.

Theorem rn_advance_append_safe n rd : RnInv n -> safe (fun y => RnInv (fst y)) (rn_advance_append n rd).
Proof.
  intros H. unfold rn_advance_append.
  eapply safe_bind; [apply commit_ready_safe; exact H|]. intros n1 _ H1.
  eapply safe_bind; [apply rn_on_persist_ready_safe; exact H1|]. intros n2 _ H2.
  eapply safe_bind; [apply gen_light_ready_safe; exact H2|]. intros [n3 light] _ H3.
  cbv beta iota. cbn [fst] in H3.
  match goal with |- safe _ (if ?c then _ else _) => destruct c end;
    [apply safe_panic; vm_compute; reflexivity|].
  cbv zeta.
  eapply safe_bind.
  { instantiate (1 := fun y => RnInv (fst y)).
    match goal with |- safe _ (if ?c then _ else _) => destruct c end; [exact H3|].
    match goal with |- safe _ (if ?c then _ else _) => destruct c end;
      [apply safe_panic; vm_compute; reflexivity|exact H3]. }
  intros [n4 ci] _ H4. cbv beta iota.
  match goal with |- safe _ (if ?c then _ else _) => destruct c end;
    [apply safe_panic; vm_compute; reflexivity|exact H4].
Qed.

Theorem rn_advance_apply_to_safe n app : RnInv n -> safe RnInv (rn_advance_apply_to n app).
Proof. intros H. unfold rn_advance_apply_to. apply lift_safe. apply commit_apply_safe. exact H. Qed.

Theorem rn_advance_apply_safe n : RnInv n -> safe RnInv (rn_advance_apply n).
Proof. intros H. apply rn_advance_apply_to_safe. exact H. Qed.

Theorem rn_advance_safe n rd : RnInv n -> safe (fun y => RnInv (fst y)) (rn_advance n rd).
Proof.
  intros H. unfold rn_advance. cbv zeta.
  eapply safe_bind; [apply rn_advance_append_safe; exact H|]. intros x _ Hx.
  eapply safe_bind; [apply rn_advance_apply_to_safe; exact Hx|]. intros n' _ Hn. exact Hn.
Qed.

Theorem rn_advance_append_async_safe n rd : RnInv n -> safe RnInv (rn_advance_append_async n rd).
Proof. apply commit_ready_safe. Qed.

Lemma step_fst_safe n m :
  RnInv n -> snap_ok m -> safe RnInv (x <- step (rn_raft n) m ;; Ok (n <| rn_raft := fst x |>)).
Proof.
  intros H Hs. eapply safe_bind; [apply step_safe; [exact H|exact Hs]|]. intros x _ Hx. exact Hx.
Qed.

Theorem rn_report_unreachable_safe n id : RnInv n -> safe RnInv (rn_report_unreachable n id).
Proof. intros H. apply step_fst_safe; [exact H|apply snap_ok_local; discriminate]. Qed.
Theorem rn_report_snapshot_safe n id f : RnInv n -> safe RnInv (rn_report_snapshot n id f).
Proof. intros H. apply step_fst_safe; [exact H|apply snap_ok_local; discriminate]. Qed.
Theorem rn_transfer_leader_safe n t : RnInv n -> safe RnInv (rn_transfer_leader n t).
Proof. intros H. apply step_fst_safe; [exact H|apply snap_ok_local; discriminate]. Qed.
Theorem rn_read_index_safe n c : RnInv n -> safe RnInv (rn_read_index n c).
Proof. intros H. apply step_fst_safe; [exact H|apply snap_ok_local; discriminate]. Qed.
Theorem rn_request_snapshot_safe n : RnInv n -> safe (fun y => RnInv (fst y)) (rn_request_snapshot n).
Proof. intros H. unfold rn_request_snapshot. apply lift2_safe. apply request_snapshot_safe. exact H. Qed.

(* ================================================================== *)
(* (a) function level, no invariant on the node needed: from maybe_send_append the
   Inflights window of the progress handed in is never over-filled, whatever the state,
   because is_paused = false means "not full". *)
Lemma update_state_no_panic p last s :
  Inv (ins p) -> is_paused p = false -> update_state p last = Panic s -> False.
Proof.
  intros Hi Hp H. unfold update_state, is_paused in *. destruct (pr_state p); try discriminate.
  destruct (inf_add_ok (ins p) last Hi Hp) as (i & E & _). rewrite E in H. discriminate.
Qed.

Lemma try_batching_panic_update_state r to msgs : forall pr ents s,
  try_batching r to msgs pr ents = Panic s -> exists last, update_state pr last = Panic s.
Proof.
  induction msgs as [|m rest IH]; intros pr ents s H; cbn [try_batching] in H; [discriminate|].
  destruct ((m_type m =? MsgAppend) && (m_to m =? to)).
  - destruct ents; [discriminate|]. destruct (negb _); [discriminate|].
    apply bind_panic in H. destruct H as [H|(? & _ & H)]; [eauto|discriminate].
  - apply bind_panic in H. destruct H as [H|([[a b] c] & _ & H)]; [eauto|discriminate].
Qed.

Theorem maybe_send_append_no_inflights_panic r to pr ae s :
  Inv (ins pr) -> maybe_send_append r to pr ae = Panic s -> ~ In s update_state_sites.
Proof.
  intros Hi H Hin. unfold maybe_send_append in H.
  destruct (is_paused pr) eqn:Hp; [discriminate|].
  assert (Snap : forall x : Res (raft * progress * bool),
            x = (y <- prepare_send_snapshot r (msg_default <| m_to := to |>) pr to ;;
                 match y with
                 | None => Ok (r, pr, false)
                 | Some (m', pr') => r' <- send r m' ;; Ok (r', pr', true)
                 end) -> x = Panic s -> False).
  { intros x -> X. apply bind_panic in X. destruct X as [X|(y & _ & X)].
    - apply prepare_send_snapshot_sites_ok in X.
      eapply (disj_notin prepare_send_snapshot_sites update_state_sites); [vm_compute; reflexivity|exact X|exact Hin].
    - destruct y as [[m' pr']|]; [|discriminate].
      apply bind_panic in X. destruct X as [X|(? & _ & X)]; [|discriminate].
      apply send_sites_ok in X.
      eapply (disj_notin send_sites update_state_sites); [vm_compute; reflexivity|exact X|exact Hin]. }
  cbv zeta in H.
  destruct (negb (pending_request_snapshot pr =? INVALID_INDEX)); [eapply Snap; [reflexivity|exact H]|].
  apply bind_panic in H. destruct H as [H|(ents & _ & H)].
  { apply log_entries_sites_ok in H.
    eapply (disj_notin log_entries_sites update_state_sites); [vm_compute; reflexivity|exact H|exact Hin]. }
  cbv beta in H.
  match type of H with (if ?c then _ else _) = _ => destruct c end; [discriminate|].
  destruct (next_idx pr =? 0).
  { injection H as <-. revert Hin. apply notin_b. vm_compute. reflexivity. }
  apply bind_panic in H. destruct H as [H|(t & _ & H)].
  { apply term_sites_ok in H.
    eapply (disj_notin term_sites update_state_sites); [vm_compute; reflexivity|exact H|exact Hin]. }
  cbv beta in H. destruct t as [t|e], ents as [ents|e'].
  - apply bind_panic in H. destruct H as [H|([[msgs' pr'] b] & _ & H)].
    + destruct (r_batch_append r); [|discriminate].
      apply try_batching_panic_update_state in H. destruct H as [last H].
      eapply update_state_no_panic; eassumption.
    + cbv beta iota in H. destruct b; [discriminate|].
      apply bind_panic in H. destruct H as [H|([m' pr''] & _ & H)].
      * apply prepare_send_entries_panics_iff in H.
        destruct H as [[_ ->]|(_ & _ & A)].
        -- revert Hin. apply notin_b. vm_compute. reflexivity.
        -- eapply update_state_no_panic; eassumption.
      * cbv beta iota in H. apply bind_panic in H. destruct H as [H|(? & _ & H)]; [|discriminate].
        apply send_sites_ok in H.
        eapply (disj_notin send_sites update_state_sites); [vm_compute; reflexivity|exact H|exact Hin].
  - destruct e'; try discriminate; eapply Snap; try reflexivity; exact H.
  - eapply Snap; [reflexivity|exact H].
  - destruct e'; try discriminate; eapply Snap; try reflexivity; exact H.
Qed.

(* ================================================================== *)
(* reading a [safe] statement *)
Lemma safe_split {A} (P : A -> Prop) (x : Res A) :
  safe P x -> (forall a, x = Ok a -> P a) /\ (forall s, x = Panic s -> ~ In s local_sites).
Proof. intros H. split; intros y ->; exact H. Qed.

(* the definitions, written out *)
Lemma NodeInv_def_pin r :
  NodeInv r <->
  (forall id p, get_pr r id = Some p -> InflightsProofs.Inv (ins p) /\ 1 <= next_idx p) /\
  ro_queue (r_read_only r) = map fst (ro_pending (r_read_only r)).
Proof. reflexivity. Qed.

Lemma local_sites_def_pin :
  local_sites =
  [site_add_full; site_add_dbg_count; site_add_dbg_start; site_add_dbg_incoming; site_add_next;
   site_setcap_dbg_len; site_setcap_slice; site_free_index; site_first_index; site_count_underflow;
   site_update_state_snapshot; site_next_idx_underflow; site_ro_missing; site_pr_unwrap].
Proof. reflexivity. Qed.

Lemma safe_def_pin {A} (P : A -> Prop) (x : Res A) :
  safe P x <-> (forall a, x = Ok a -> P a) /\ (forall s, x = Panic s -> ~ In s local_sites).
Proof.
  split; [apply safe_split|]. intros [H1 H2]. destruct x as [a|s]; [apply H1|apply H2]; reflexivity.
Qed.

(* NodeInv holds initially: fresh progress entries (as built by confchange::restore with
   next_idx >= 1) and an empty ReadOnly *)
Theorem NodeInv_initial r ids n mi o :
  1 <= n -> t_progress (r_prs r) = fresh_progress ids n mi -> r_read_only r = ro_new o -> NodeInv r.
Proof.
  intros Hn Hp Hr. split; [rewrite Hp; apply PrsOk_fresh; exact Hn|rewrite Hr; apply RoInv_new].
Qed.

(* ================================================================== *)
(* non-vacuity *)
Lemma nodeinv_k_leader : NodeInv C20W.k_leader.
Proof.
  split; [|reflexivity].
  intros id p G. vm_compute in G.
  repeat match type of G with (if ?c then _ else _) = _ => destruct c end; try discriminate;
    injection G as <-; (split; [unfold Inv; cbn; repeat split; try lia; intros; discriminate|cbn; lia]).
Qed.

Lemma nodeinv_nonvacuous :
  exists r m r', NodeInv r /\ snap_ok m /\ r_state r = Leader /\ step r m = Ok (r', E_OK) /\ NodeInv r'.
Proof.
  assert (Hs : snap_ok C20W.k_ack4) by (apply snap_ok_local; discriminate).
  assert (E : exists r', step C20W.k_leader C20W.k_ack4 = Ok (r', E_OK)) by (eexists; vm_compute; reflexivity).
  destruct E as [r' E].
  exists C20W.k_leader, C20W.k_ack4, r'.
  split; [exact nodeinv_k_leader|]. split; [exact Hs|]. split; [reflexivity|]. split; [exact E|].
  exact (safe_ok_inv _ _ _ (step_safe _ _ nodeinv_k_leader Hs) E).
Qed.

Lemma snap_ok_def_pin m : snap_ok m <-> (m_type m = MsgSnapshot -> 1 <= s_index (m_snapshot m)).
Proof. reflexivity. Qed.
Lemma RnInv_def_pin n : RnInv n <-> NodeInv (rn_raft n).
Proof. reflexivity. Qed.
Lemma post_def_pin r r' :
  post r r' <-> NodeInv r' /\ (forall id, (exists p, get_pr r id = Some p) -> exists p, get_pr r' id = Some p).
Proof. reflexivity. Qed.
Lemma has_def_pin r id : has r id <-> exists p, get_pr r id = Some p.
Proof. reflexivity. Qed.
Lemma pr_ok_def_pin p : pr_ok p <-> InflightsProofs.Inv (ins p) /\ 1 <= next_idx p.
Proof. reflexivity. Qed.
Lemma RoInv_def_pin ro : RoInv ro <-> ro_queue ro = map fst (ro_pending ro).
Proof. reflexivity. Qed.

(* ================================================================== *)
(* NodeInv holds after construction (Raft::new / RawNode::new).  The Progress entries are
   created with next_idx = last_index (possibly 0 on an empty log); the final
   become_follower resets them to last_index + 1. *)
Lemma reset_establishes r t r' :
  reset r t = Ok r' ->
  (forall id p, get_pr r id = Some p -> Inv (ins p)) -> NodeInv r'.
Proof.
  unfold reset. cbv zeta. intros H Hi.
  set (r0 := if negb (r_term r =? t) then r <| r_term := t |> <| r_vote := INVALID_ID |> else r) in *.
  assert (Ep : t_progress (r_prs r0) = t_progress (r_prs r))
    by (subst r0; destruct (negb _); reflexivity).
  destruct (r_draws r0) as [|d ds]; [discriminate|]. injection H as <-.
  set (f := fun (k : N) (p0 : progress) =>
       if k =? r_id r0
       then set_committed_index (set_matched (pr_reset p0 (last_index (r_log r0) + 1))
              (persisted (r_log r0))) (committed (r_log r0))
       else pr_reset p0 (last_index (r_log r0) + 1)).
  split; [|apply RoInv_new].
  cbn [r_prs t_progress]. rewrite Ep.
  change (PrsOk (map (fun kp => (fst kp, f (fst kp) (snd kp))) (t_progress (r_prs r)))).
  intros id p G. rewrite (pget_map f) in G.
  destruct (pget (t_progress (r_prs r)) id) as [q|] eqn:E; [|discriminate].
  injection G as <-. specialize (Hi id q E). unfold f.
  destruct (id =? r_id r0); (split; [apply inf_reset_inv; exact Hi|cbn; lia]).
Qed.

Lemma pget_fresh_inv ids n mi id p : pget (fresh_progress ids n mi) id = Some p -> Inv (ins p).
Proof.
  unfold fresh_progress. induction ids as [|k t IH]; cbn [map pget]; [discriminate|].
  unfold pget; fold pget. cbn [fst snd].
  destruct (k =? id); [intros H; injection H as <-; apply Inv_new|exact IH].
Qed.

Lemma pcc_nonleader r :
  is_leader r = false ->
  post_conf_change r =
  Ok (r <| r_promotable := voters_contains (conf_of r) (r_id r) |>, to_conf_state (conf_of r)).
Proof.
  intros H. unfold post_conf_change. cbv zeta.
  change (is_leader (r <| r_promotable := voters_contains (conf_of r) (r_id r) |>)) with (is_leader r).
  rewrite H, andb_false_r. cbn [negb orb]. reflexivity.
Qed.

Theorem raft_new_NodeInv c st sa d r : raft_new c st sa d = Ok (inr r) -> NodeInv r.
Proof.
  unfold raft_new. intros H.
  destruct (negb (cfg_validate c)); [discriminate|]. cbv zeta in H.
  inv_bind H. rename x into l.
  destruct (ConfChange.restore empty_tracker (cs st)) as [[c' ids']|e]; [|discriminate].
  inv_bind H. destruct x as [r2 new_cs].
  destruct (negb (conf_state_eq new_cs (cs st))); [discriminate|].
  inv_bind H. rename x into r3. inv_bind H. rename x into r4. inv_bind H. rename x into r5.
  inv_bind H. injection H as <-.
  (* the progress map is still the fresh one when become_follower runs *)
  rewrite pcc_nonleader in Hx0 by reflexivity. injection Hx0 as Er2 _.
  assert (E2 : t_progress (r_prs r2) = fresh_progress ids' (last_index l) (c_max_inflight_msgs c))
    by (rewrite <- Er2; reflexivity).
  assert (E3 : t_progress (r_prs r3) = t_progress (r_prs r2)).
  { destruct (hs_eqb (hs st) hs_default); [injection Hx1 as <-; reflexivity|].
    unfold load_state in Hx1. destruct (_ || _); [discriminate|]. injection Hx1 as <-. reflexivity. }
  assert (S2 : r_state r2 = Follower) by (rewrite <- Er2; reflexivity).
  assert (S3 : r_state r3 = Follower).
  { destruct (hs_eqb (hs st) hs_default); [injection Hx1 as <-; exact S2|].
    unfold load_state in Hx1. destruct (_ || _); [discriminate|]. injection Hx1 as <-. exact S2. }
  assert (E4 : t_progress (r_prs r4) = t_progress (r_prs r3)).
  { destruct (0 <? c_applied c); [|injection Hx2 as <-; reflexivity].
    unfold commit_apply_internal in Hx2. cbn [negb] in Hx2. inv_bind Hx2.
    match type of Hx2 with context [is_leader ?rr] =>
      change (is_leader rr) with (role_eqb (r_state r3) Leader) in Hx2 end.
    rewrite S3 in Hx2.
    cbn [role_eqb] in Hx2. rewrite andb_false_r in Hx2. injection Hx2 as <-. reflexivity. }
  unfold become_follower in Hx3. inv_bind Hx3. injection Hx3 as <-.
  match goal with Hr : reset _ _ = Ok ?rr |- _ =>
    apply reset_establishes in Hr;
      [exact Hr|intros id p G; unfold get_pr in G; rewrite E4, E3, E2 in G; eapply pget_fresh_inv; exact G]
  end.
Qed.

Theorem rn_new_RnInv c st sa d n : rn_new c st sa d = Ok (inr n) -> RnInv n.
Proof.
  unfold rn_new. intros H. destruct (c_id c =? 0); [discriminate|].
  inv_bind H. destruct x as [e|r]; [discriminate|]. injection H as <-.
  apply raft_new_NodeInv in Hx. exact Hx.
Qed.
