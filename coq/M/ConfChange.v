(* Model of the configuration-change algebra of raft-rs:
     /repo/src/confchange/changer.rs   (Changer, IncrChangeMap, check_invariants)
     /repo/src/confchange/restore.rs   (to_conf_change_single, restore)
     /repo/src/confchange.rs           (joint)
     /repo/src/tracker.rs              (Configuration, to_conf_state, ProgressTracker::apply_conf)
     /repo/proto/src/confchange.rs     (ConfChangeV2::enter_joint / leave_joint, ConfChange::into_v2)
     /repo/proto/src/confstate.rs      (conf_state_eq)
     /repo/src/raft.rs                 (Raft::apply_conf_change dispatch, Raft::new restore + fatal)

   Sets of ids are sorted duplicate-free lists (Base/IdSet.v).  The progress map
   is modelled by its key set only ([HashMap::insert] on an existing key replaces
   the Progress value; the key set is unchanged, which [insert] models).

   Hash order: the Rust iterates [cfg.voters.outgoing] (leave_joint) and the
   learner sets (check_invariants) in hash order.  The model iterates in
   increasing id order.  This only affects (a) the ORDER of the Remove entries
   pushed by leave_joint - they are all Removes of distinct ids, so every order
   gives the same progress map; the differential compares them sorted - and
   (b) which of several failing learners is reported first by check_invariants;
   the error *code* is the same for all of them in every state the differential
   can construct (see harness/src/c_confchange.rs).

   No proofs in this file. *)
From RV Require Import Base.Prelude Base.IdSet.

(* ---------- results: Rust [Result<T, Error::ConfChangeError(msg)>] ---------- *)

Definition err := N.

Inductive R (A : Type) : Type :=
| ROk (a : A)
| RErr (e : err).
Arguments ROk {A} a.
Arguments RErr {A} e.

Definition rbind {A B} (r : R A) (f : A -> R B) : R B :=
  match r with ROk a => f a | RErr e => RErr e end.

Notation "x <-r r ;; k" := (rbind r (fun x => k))
  (at level 61, r at next level, right associativity).

(* one code per distinct error message *)
Definition e_no_progress_voter : err := 1201%N.     (* "no progress for voter {id}" *)
Definition e_no_progress_learner : err := 1202%N.   (* "no progress for learner {id}" *)
Definition e_learner_outgoing : err := 1203%N.      (* "{id} is in learners and outgoing voters" *)
Definition e_learner_incoming : err := 1204%N.      (* "{id} is in learners and incoming voters" *)
Definition e_no_progress_next : err := 1205%N.      (* "no progress for learner(next) {id}" *)
Definition e_next_not_outgoing : err := 1206%N.     (* "{id} is in learners_next and outgoing voters" (raised when it is NOT in outgoing) *)
Definition e_next_nonjoint : err := 1207%N.         (* "learners_next must be empty when not joint" *)
Definition e_autoleave_nonjoint : err := 1208%N.    (* "auto_leave must be false when not joint" *)
Definition e_already_joint : err := 1209%N.         (* "config is already joint" *)
Definition e_zero_voter_joint : err := 1210%N.      (* "can't make a zero-voter config joint" *)
Definition e_leave_nonjoint : err := 1211%N.        (* "can't leave a non-joint config" *)
Definition e_not_joint : err := 1212%N.             (* "configuration is not joint: {cfg:?}" *)
Definition e_simple_in_joint : err := 1213%N.       (* "can't apply simple config change in joint config" *)
Definition e_more_than_one : err := 1214%N.         (* "more than one voter changed without entering joint config" *)
Definition e_removed_all : err := 1215%N.           (* "removed all voters" *)

(* fatal!(.., "invalid restore: ..") in Raft::new *)
Definition site_invalid_restore : site := 1250%N.

(* ---------- data ---------- *)

(* tracker::Configuration; voters.incoming / voters.outgoing flattened *)
Record conf := mkConf {
  incoming : idset;
  outgoing : idset;
  learners : idset;
  learners_next : idset;
  auto_leave : bool
}.

Definition empty_conf : conf := mkConf [] [] [] [] false.

(* eraftpb::ConfChangeType; wire values AddNode = 0, RemoveNode = 1, AddLearnerNode = 2 *)
Inductive cctype := AddNode | RemoveNode | AddLearnerNode.

(* eraftpb::ConfChangeSingle *)
Definition ccsingle := (cctype * N)%type.

(* confchange::MapChangeType / MapChange *)
Inductive mct := MAdd | MRemove.
Definition changes := list (N * mct).

(* eraftpb::ConfState (vectors: arbitrary order, duplicates possible) *)
Record conf_state := mkCS {
  cs_voters : list N;
  cs_learners : list N;
  cs_voters_outgoing : list N;
  cs_learners_next : list N;
  cs_auto_leave : bool
}.

(* ---------- IncrChangeMap ---------- *)

(* changes.iter().rfind(|(i,_)| *i == id) *)
Fixpoint last_change (id : N) (chs : changes) : option mct :=
  match chs with
  | [] => None
  | (i, t) :: rest =>
      match last_change id rest with
      | Some t' => Some t'
      | None => if (i =? id)%N then Some t else None
      end
  end.

(* IncrChangeMap::contains; [base] = key set of the tracker's progress map *)
Definition contains (base : idset) (chs : changes) (id : N) : bool :=
  match last_change id chs with
  | Some MRemove => false
  | Some MAdd => true
  | None => mem id base
  end.

(* confchange::joint *)
Definition joint (c : conf) : bool := negb (is_empty (outgoing c)).

(* ---------- check_invariants ---------- *)

Fixpoint check_learners (c : conf) (base : idset) (chs : changes) (l : list N) : R unit :=
  match l with
  | [] => ROk tt
  | id :: rest =>
      if negb (contains base chs id) then RErr e_no_progress_learner
      else if mem id (outgoing c) then RErr e_learner_outgoing
      else if mem id (incoming c) then RErr e_learner_incoming
      else check_learners c base chs rest
  end.

Fixpoint check_learners_next (c : conf) (base : idset) (chs : changes) (l : list N) : R unit :=
  match l with
  | [] => ROk tt
  | id :: rest =>
      if negb (contains base chs id) then RErr e_no_progress_next
      else if negb (mem id (outgoing c)) then RErr e_next_not_outgoing
      else check_learners_next c base chs rest
  end.

Definition check_invariants (c : conf) (base : idset) (chs : changes) : R unit :=
  (* cfg.voters().ids(): incoming, then outgoing *)
  if negb (forallb (contains base chs) (incoming c ++ outgoing c)) then RErr e_no_progress_voter else
  _ <-r check_learners c base chs (learners c) ;;
  _ <-r check_learners_next c base chs (learners_next c) ;;
  if negb (joint c) then
    if negb (is_empty (learners_next c)) then RErr e_next_nonjoint
    else if auto_leave c then RErr e_autoleave_nonjoint
    else ROk tt
  else ROk tt.

(* ---------- Changer::apply and helpers ---------- *)

Definition set_incoming (c : conf) (s : idset) : conf :=
  mkConf s (outgoing c) (learners c) (learners_next c) (auto_leave c).
Definition set_outgoing (c : conf) (s : idset) : conf :=
  mkConf (incoming c) s (learners c) (learners_next c) (auto_leave c).
Definition set_learners (c : conf) (s : idset) : conf :=
  mkConf (incoming c) (outgoing c) s (learners_next c) (auto_leave c).
Definition set_learners_next (c : conf) (s : idset) : conf :=
  mkConf (incoming c) (outgoing c) (learners c) s (auto_leave c).
Definition set_auto_leave (c : conf) (b : bool) : conf :=
  mkConf (incoming c) (outgoing c) (learners c) (learners_next c) b.

Definition init_progress (c : conf) (chs : changes) (id : N) (is_learner : bool)
  : conf * changes :=
  ((if is_learner then set_learners c (insert id (learners c))
    else set_incoming c (insert id (incoming c))),
   chs ++ [(id, MAdd)]).

Definition make_voter (base : idset) (c : conf) (chs : changes) (id : N) : conf * changes :=
  if negb (contains base chs id) then init_progress c chs id false
  else
    (mkConf (insert id (incoming c)) (outgoing c)
            (remove id (learners c)) (remove id (learners_next c)) (auto_leave c),
     chs).

Definition make_learner (base : idset) (c : conf) (chs : changes) (id : N) : conf * changes :=
  if negb (contains base chs id) then init_progress c chs id true
  else if mem id (learners c) then (c, chs)
  else
    let inc := remove id (incoming c) in
    let lrn := remove id (learners c) in
    let nxt := remove id (learners_next c) in
    if mem id (outgoing c)
    then (mkConf inc (outgoing c) lrn (insert id nxt) (auto_leave c), chs)
    else (mkConf inc (outgoing c) (insert id lrn) nxt (auto_leave c), chs).

Definition remove_node (base : idset) (c : conf) (chs : changes) (id : N) : conf * changes :=
  if negb (contains base chs id) then (c, chs)
  else
    (mkConf (remove id (incoming c)) (outgoing c)
            (remove id (learners c)) (remove id (learners_next c)) (auto_leave c),
     if negb (mem id (outgoing c)) then chs ++ [(id, MRemove)] else chs).

(* one iteration of the loop of Changer::apply *)
Definition apply_one (base : idset) (st : conf * changes) (cc : ccsingle) : conf * changes :=
  let '(c, chs) := st in
  let '(ty, id) := cc in
  if (id =? 0)%N then (c, chs)
  else match ty with
       | AddNode => make_voter base c chs id
       | AddLearnerNode => make_learner base c chs id
       | RemoveNode => remove_node base c chs id
       end.

Definition apply_loop (base : idset) (st : conf * changes) (ccs : list ccsingle)
  : conf * changes :=
  fold_left (apply_one base) ccs st.

Definition apply_changes (base : idset) (c : conf) (chs : changes) (ccs : list ccsingle)
  : R (conf * changes) :=
  let st := apply_loop base (c, chs) ccs in
  if is_empty (incoming (fst st)) then RErr e_removed_all else ROk st.

(* check_and_copy: the copy is the identity in a pure model *)
Definition check_and_copy (c : conf) (base : idset) : R unit :=
  check_invariants c base [].

(* ---------- Changer::simple / enter_joint / leave_joint ----------
   [c] = tracker.conf(), [base] = key set of tracker.progress() *)

Definition simple (c : conf) (base : idset) (ccs : list ccsingle) : R (conf * changes) :=
  if joint c then RErr e_simple_in_joint else
  _ <-r check_and_copy c base ;;
  st <-r apply_changes base c [] ccs ;;
  let '(c', chs) := st in
  if (1 <? symdiff_count (incoming c') (incoming c))%nat then RErr e_more_than_one else
  _ <-r check_invariants c' base chs ;;
  ROk (c', chs).

Definition enter_joint (al : bool) (c : conf) (base : idset) (ccs : list ccsingle)
  : R (conf * changes) :=
  if joint c then RErr e_already_joint else
  _ <-r check_and_copy c base ;;
  if is_empty (incoming c) then RErr e_zero_voter_joint else
  let c1 := set_outgoing c (union (outgoing c) (incoming c)) in
  st <-r apply_changes base c1 [] ccs ;;
  let '(c2, chs) := st in
  let c3 := set_auto_leave c2 al in
  _ <-r check_invariants c3 base chs ;;
  ROk (c3, chs).

(* the Remove entries pushed while iterating cfg.voters.outgoing (here: in
   increasing order; the Rust order is the hash order) *)
Definition leave_removals (c : conf) : changes :=
  map (fun id => (id, MRemove))
      (filter (fun id => negb (mem id (incoming c)) && negb (mem id (learners c)))
              (outgoing c)).

Definition leave_joint (c : conf) (base : idset) : R (conf * changes) :=
  if negb (joint c) then RErr e_leave_nonjoint else
  _ <-r check_and_copy c base ;;
  if is_empty (outgoing c) then RErr e_not_joint else
  let c1 := mkConf (incoming c) (outgoing c)
                   (union (learners c) (learners_next c)) [] (auto_leave c) in
  let chs := leave_removals c1 in
  let c2 := mkConf (incoming c1) [] (learners c1) (learners_next c1) false in
  _ <-r check_invariants c2 base chs ;;
  ROk (c2, chs).

(* ---------- ProgressTracker::apply_conf on the key set ---------- *)

Definition apply_change (p : idset) (ch : N * mct) : idset :=
  match snd ch with
  | MAdd => insert (fst ch) p
  | MRemove => remove (fst ch) p
  end.

Definition apply_conf (base : idset) (chs : changes) : idset :=
  fold_left apply_change chs base.

(* tracker state: configuration and progress key set *)
Definition tracker := (conf * idset)%type.
Definition empty_tracker : tracker := (empty_conf, []).

Definition commit (t : tracker) (r : R (conf * changes)) : R tracker :=
  match r with
  | ROk (c', chs) => ROk (c', apply_conf (snd t) chs)
  | RErr e => RErr e
  end.

Definition do_simple (t : tracker) (ccs : list ccsingle) : R tracker :=
  commit t (simple (fst t) (snd t) ccs).
Definition do_enter_joint (al : bool) (t : tracker) (ccs : list ccsingle) : R tracker :=
  commit t (enter_joint al (fst t) (snd t) ccs).
Definition do_leave_joint (t : tracker) : R tracker :=
  commit t (leave_joint (fst t) (snd t)).

(* ---------- restore.rs ---------- *)

Definition to_conf_change_single (cs : conf_state) : list ccsingle * list ccsingle :=
  let outg := map (fun id => (AddNode, id)) (cs_voters_outgoing cs) in
  let inc :=
    map (fun id => (RemoveNode, id)) (cs_voters_outgoing cs)
    ++ map (fun id => (AddNode, id)) (cs_voters cs)
    ++ map (fun id => (AddLearnerNode, id)) (cs_learners cs)
    ++ map (fun id => (AddLearnerNode, id)) (cs_learners_next cs) in
  (outg, inc).

(* for cc in list { simple(&[cc])?; apply_conf } *)
Fixpoint simple_each (t : tracker) (l : list ccsingle) : R tracker :=
  match l with
  | [] => ROk t
  | cc :: rest =>
      t' <-r do_simple t [cc] ;;
      simple_each t' rest
  end.

Definition restore (t : tracker) (cs : conf_state) : R tracker :=
  let '(outg, inc) := to_conf_change_single cs in
  match outg with
  | [] => simple_each t inc
  | _ =>
      t1 <-r simple_each t outg ;;
      do_enter_joint (cs_auto_leave cs) t1 inc
  end.

(* ---------- ConfState ---------- *)

(* Configuration::to_conf_state (vectors in increasing order here, hash order
   in the Rust; every consumer is order-insensitive) *)
Definition to_conf_state (c : conf) : conf_state :=
  mkCS (incoming c) (learners c) (outgoing c) (learners_next c) (auto_leave c).

Definition eq_without_order (l r : list N) : bool :=
  forallb (fun x => mem x r) l && forallb (fun x => mem x l) r.

Definition conf_state_eq (l r : conf_state) : bool :=
  (list_eqb (cs_voters l) (cs_voters r)
   && list_eqb (cs_learners l) (cs_learners r)
   && list_eqb (cs_voters_outgoing l) (cs_voters_outgoing r)
   && list_eqb (cs_learners_next l) (cs_learners_next r)
   && Bool.eqb (cs_auto_leave l) (cs_auto_leave r))
  ||
  (eq_without_order (cs_voters l) (cs_voters r)
   && eq_without_order (cs_learners l) (cs_learners r)
   && eq_without_order (cs_voters_outgoing l) (cs_voters_outgoing r)
   && eq_without_order (cs_learners_next l) (cs_learners_next r)
   && Bool.eqb (cs_auto_leave l) (cs_auto_leave r)).

(* The configuration part of Raft::new: restore from the empty tracker, then
   the fatal! on a ConfState mismatch.  Err = Ok (RErr e); panic = Panic site. *)
Definition raft_new_restore (cs : conf_state) : Res (R tracker) :=
  match restore empty_tracker cs with
  | RErr e => Ok (RErr e)
  | ROk t =>
      if conf_state_eq (to_conf_state (fst t)) cs then Ok (ROk t)
      else Panic site_invalid_restore
  end.

(* ---------- ConfChangeV2 classification and Raft::apply_conf_change ---------- *)

(* eraftpb::ConfChangeTransition; wire values Auto = 0, Implicit = 1, Explicit = 2 *)
Inductive transition := Auto | Implicit | Explicit.

Record ccv2 := mkV2 { v2_transition : transition; v2_changes : list ccsingle }.

(* ConfChangeV2::enter_joint *)
Definition v2_enter_joint (cc : ccv2) : option bool :=
  if negb (match v2_transition cc with Auto => true | _ => false end)
     || (1 <? length (v2_changes cc))%nat
  then match v2_transition cc with
       | Auto | Implicit => Some true
       | Explicit => Some false
       end
  else None.

(* ConfChangeV2::leave_joint *)
Definition v2_leave_joint (cc : ccv2) : bool :=
  match v2_transition cc with Auto => true | _ => false end
  && match v2_changes cc with [] => true | _ => false end.

(* ConfChange (V1) ::into_v2 *)
Definition v1_into_v2 (ty : cctype) (id : N) : ccv2 := mkV2 Auto [(ty, id)].

(* Raft::apply_conf_change up to and including prs.apply_conf *)
Definition apply_conf_change (t : tracker) (cc : ccv2) : R tracker :=
  if v2_leave_joint cc then do_leave_joint t
  else match v2_enter_joint cc with
       | Some al => do_enter_joint al t (v2_changes cc)
       | None => do_simple t (v2_changes cc)
       end.
