(* C12, part 3: quorum overlap across configuration changes.

   A set of ids [q] DECIDES a (joint) configuration when it contains a majority
   of each non-empty half.  This is exactly JointConfig::vote_result(..) == Won
   for the vote map in which the ids of [q] vote yes
   (/repo/src/quorum/majority.rs: an empty half is Won by convention, otherwise
   yes >= majority(len) with majority(n) = n/2 + 1; /repo/src/quorum/joint.rs:
   Won iff both halves are Won), and ProgressTracker::has_quorum. *)
From RV Require Import Base.Prelude Base.IdSet Base.IdSetProofs M.ConfChange
  M.ConfChangeSpec M.ConfChangeOps.

Local Open Scope N_scope.

Definition count_in (q v : list N) : nat := length (filter (fun x => mem x q) v).

(* util::majority *)
Definition majority (n : nat) : nat := (n / 2 + 1)%nat.

(* MajorityConfig::vote_result == Won *)
Definition maj_won (q v : list N) : bool :=
  is_empty v || (majority (length v) <=? count_in q v)%nat.

(* JointConfig::vote_result == Won *)
Definition decides (q : list N) (c : conf) : bool :=
  maj_won q (incoming c) && maj_won q (outgoing c).

(* ---------- two majorities of the same set intersect ---------- *)

Lemma maj_intersect : forall q1 q2 v,
  v <> [] -> maj_won q1 v = true -> maj_won q2 v = true ->
  exists x, mem x v = true /\ mem x q1 = true /\ mem x q2 = true.
Proof.
  intros q1 q2 v Hne H1 H2. unfold maj_won in *.
  destruct v as [|z v]; [contradiction|]. cbn [is_empty orb] in *.
  apply Nat.leb_le in H1. apply Nat.leb_le in H2. unfold majority, count_in in *.
  destruct (filter_pigeonhole (fun x => mem x q1) (fun x => mem x q2) (z :: v)) as [x [Hx [Ha Hb]]].
  - lia.
  - exists x. split; [apply mem_In; assumption|auto].
Qed.

(* ---------- majorities of two sets that differ by at most one id ---------- *)

Lemma filter_mem_same_length : forall v v',
  NoDup v -> NoDup v' ->
  length (filter (fun x => mem x v') v) = length (filter (fun x => mem x v) v').
Proof.
  intros v v' Hv Hv'. apply Nat.le_antisymm.
  - apply NoDup_incl_len; [apply NoDup_filter; assumption|].
    intros x Hx. apply filter_In in Hx. destruct Hx as [Hx Hm].
    apply filter_In. split; [apply mem_In; assumption|apply mem_In; assumption].
  - apply NoDup_incl_len; [apply NoDup_filter; assumption|].
    intros x Hx. apply filter_In in Hx. destruct Hx as [Hx Hm].
    apply filter_In. split; [apply mem_In; assumption|apply mem_In; assumption].
Qed.

Lemma maj_intersect_delta : forall q1 q2 v v',
  NoDup v -> NoDup v' -> v <> [] -> v' <> [] ->
  (symdiff_count v' v <= 1)%nat ->
  maj_won q1 v = true -> maj_won q2 v' = true ->
  exists x, mem x q1 = true /\ mem x q2 = true /\ mem x v = true /\ mem x v' = true.
Proof.
  intros q1 q2 v v' Hv Hv' Hne Hne' Hd H1 H2. unfold maj_won in *.
  destruct v as [|z v0] eqn:Ev; [contradiction|]. rewrite <- Ev in *. clear Hne.
  destruct v' as [|z' v0'] eqn:Ev'; [contradiction|]. rewrite <- Ev' in *. clear Hne'.
  assert (E1 : is_empty v = false) by (rewrite Ev; reflexivity).
  assert (E2 : is_empty v' = false) by (rewrite Ev'; reflexivity).
  rewrite E1 in H1. rewrite E2 in H2. cbn [orb] in *. clear Ev Ev' E1 E2 z v0 z' v0'.
  apply Nat.leb_le in H1. apply Nat.leb_le in H2.
  unfold majority, count_in, symdiff_count, diff in *.
  set (u := v ++ filter (fun x => negb (mem x v)) v').
  set (f1 := fun x => mem x q1 && mem x v).
  set (f2 := fun x => mem x q2 && mem x v').
  (* sizes *)
  pose proof (filter_partition_length (fun x => mem x v') v) as P1.
  pose proof (filter_partition_length (fun x => mem x v) v') as P2.
  pose proof (filter_mem_same_length v v' Hv Hv') as P3.
  cbv beta in P1, P2.
  assert (Lu : length u = (length v + length (filter (fun x => negb (mem x v)) v'))%nat).
  { unfold u. apply app_length. }
  (* f1 counts at least the q1-members of v *)
  assert (L1 : (length (filter (fun x => mem x q1) v) <= length (filter f1 u))%nat).
  { unfold u. rewrite filter_app, app_length.
    assert (E : filter f1 v = filter (fun x => mem x q1) v).
    { apply filter_ext_in. intros x Hx. unfold f1. apply mem_In in Hx. rewrite Hx.
      apply andb_true_r. }
    rewrite E. lia. }
  (* f2 counts at least the q2-members of v' *)
  assert (L2 : (length (filter (fun x => mem x q2) v') <= length (filter f2 u))%nat).
  { apply NoDup_incl_len; [apply NoDup_filter; assumption|].
    intros x Hx. apply filter_In in Hx. destruct Hx as [Hx Hq].
    apply filter_In. split.
    - unfold u. apply in_or_app. destruct (mem x v) eqn:Em.
      + left. apply mem_In. assumption.
      + right. apply filter_In. split; [assumption|]. rewrite Em. reflexivity.
    - unfold f2. rewrite Hq. apply mem_In in Hx. rewrite Hx. reflexivity. }
  destruct (filter_pigeonhole f1 f2 u) as [x [Hx [Ha Hb]]].
  - lia.
  - unfold f1, f2 in Ha, Hb. apply andb_true_iff in Ha. apply andb_true_iff in Hb.
    exists x. tauto.
Qed.

(* ---------- the three operations ---------- *)

Theorem overlap_simple : forall c p ccs c' chs q1 q2,
  Valid c p -> simple c p ccs = ROk (c', chs) ->
  decides q1 c = true -> decides q2 c' = true ->
  exists x, mem x q1 = true /\ mem x q2 = true.
Proof.
  intros c p ccs c' chs q1 q2 [V Hne] H D1 D2.
  destruct (changer_preserves_simple c p ccs c' chs V H) as [V' Hne'].
  destruct (simple_delta c p ccs c' chs H) as [Hd _].
  unfold decides in *. apply andb_true_iff in D1. apply andb_true_iff in D2.
  destruct (maj_intersect_delta q1 q2 (incoming c) (incoming c')) as [x Hx];
    try tauto; try (apply sorted_NoDup; eauto with srt).
  exists x. tauto.
Qed.

Theorem overlap_enter : forall al c p ccs c' chs q1 q2,
  Valid c p -> enter_joint al c p ccs = ROk (c', chs) ->
  decides q1 c = true -> decides q2 c' = true ->
  exists x, mem x q1 = true /\ mem x q2 = true.
Proof.
  intros al c p ccs c' chs q1 q2 [V Hne] H D1 D2.
  destruct (joint_shape_enter al c p ccs c' chs V H) as [_ [_ [Ho _]]].
  unfold decides in *. apply andb_true_iff in D1. apply andb_true_iff in D2.
  rewrite Ho in D2.
  destruct (maj_intersect q1 q2 (incoming c)) as [x Hx]; try tauto.
  exists x. tauto.
Qed.

Theorem overlap_leave : forall c p c' chs q1 q2,
  Valid c p -> leave_joint c p = ROk (c', chs) ->
  decides q1 c = true -> decides q2 c' = true ->
  exists x, mem x q1 = true /\ mem x q2 = true.
Proof.
  intros c p c' chs q1 q2 [V Hne] H D1 D2.
  destruct (joint_shape_leave c p c' chs V H) as [_ [Hi _]].
  unfold decides in *. apply andb_true_iff in D1. apply andb_true_iff in D2.
  rewrite Hi in D2.
  destruct (maj_intersect q1 q2 (incoming c)) as [x Hx]; try tauto.
  exists x. tauto.
Qed.

(* The hypothesis "at least one voter" is necessary: every set decides the
   bootstrap (empty) configuration, so there is no overlap across the first
   simple change that creates the first voter. *)
Example overlap_bootstrap_refuted :
  ValidB empty_conf [] /\
  simple empty_conf [] [(AddNode, 1)] = ROk (mkConf [1] [] [] [] false, [(1, MAdd)]) /\
  decides [] empty_conf = true /\
  decides [1] (mkConf [1] [] [] [] false) = true /\
  ~ exists x, mem x [] = true /\ mem x [1] = true.
Proof.
  split; [apply ValidB_empty|]. split; [reflexivity|]. split; [reflexivity|].
  split; [reflexivity|]. intros [x [H _]]. discriminate.
Qed.
