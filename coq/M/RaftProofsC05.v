(* C05 / C04 at the node model: leader append-only, committed prefix immutable, the
   consistency check of handle_append_entries (C05); the leader commit rule and the
   follower commit bound (C04).  Everything is stated on the logical log of property C14
   (M/RaftLogProofs.v: abs, ll_ents, ll_get) under the node-level representation invariant
   LI rw r := RepInv rw (r_log r) of M/RaftProofsRepInv.v.
   Part 1  relations on logs: [grows] (same base, entries only appended), [crel] (commit
           index monotone, base monotone, every retained entry at or below the old commit
           index unchanged); the RaftLog operations.
   Part 2  [crel] for every function of M/Raft.v and every RawNode entry point, storage
           writes included; traces.
   Part 3  [grows] for a node that is leader of the same term before and after the call.
   Part 4  the consistency check of handle_append_entries.
   Part 5  C04: the leader commit rule, the leader's own matched index, the follower's
           commit bound.
   Statements are pinned in Props/C05.v and Props/C04.v (sections "node level"). *)
From RV Require Import Base.Prelude Base.IdSet M.Util M.UtilProofs M.Proto M.MemStorage
  M.MemStorageProofs M.Inflights M.Progress M.RaftLog M.Quorum M.ConfChange M.Msg M.Raft
  M.RawNode M.RaftProofs M.RaftLogProofs M.RaftLogProofsOps M.RaftLogProofsStore
  M.RaftLogProofsSlice M.RaftLogProofsHistory
  M.RaftProofsC15 M.RaftProofsC09 M.RaftProofsC08 M.RaftProofsC13 M.RaftProofsC07
  M.RaftProofsRepInv.
From RV Require M.RaftProofsC16.
From RecordUpdate Require Import RecordSet.
Import RecordSetNotations.

Local Open Scope N_scope.
Transparent log_append last_index stamp.

Ltac splits := repeat match goal with |- _ /\ _ => split end.

(* ================================================================== *)
(* Part 1. Relations on logs                                            *)
(* ================================================================== *)

(* the logical log only grows at its end *)
Definition grows (l l' : raft_log) : Prop :=
  ll_base (abs l') = ll_base (abs l) /\ ll_bterm (abs l') = ll_bterm (abs l)
  /\ exists suffix, ll_ents (abs l') = ll_ents (abs l) ++ suffix.

(* the committed prefix is immutable: the commit index and the base do not decrease and
   every entry at or below the old commit index that the new log retains is unchanged *)
Definition crel (l l' : raft_log) : Prop :=
  committed l <= committed l'
  /\ ll_base (abs l) <= ll_base (abs l')
  /\ preserves_upto (committed l) (abs l) (abs l').

Lemma grows_refl l : grows l l.
Proof. unfold grows. splits; auto. exists nil. rewrite app_nil_r. reflexivity. Qed.

Lemma grows_trans a b c : grows a b -> grows b c -> grows a c.
Proof.
  intros (A1 & A2 & s1 & A3) (B1 & B2 & s2 & B3). unfold grows. splits; try congruence.
  exists (s1 ++ s2). rewrite B3, A3, app_assoc. reflexivity.
Qed.

Lemma grows_abs_eq l l' : abs l' = abs l -> grows l l'.
Proof. intros E. unfold grows. rewrite E. splits; auto. exists nil. rewrite app_nil_r. reflexivity. Qed.

(* an entry of a log that only grew is still there *)
Lemma grows_get l l' i e : grows l l' -> ll_get (abs l) i = Some e -> ll_get (abs l') i = Some e.
Proof.
  intros (A1 & _ & s & A3) H. unfold ll_get in *. rewrite A1, A3.
  destruct (i <=? ll_base (abs l)); [discriminate|].
  rewrite nth_error_app1; [exact H|]. apply nth_error_Some. congruence.
Qed.

Lemma crel_refl l : crel l l.
Proof. unfold crel. splits; try lia. apply preserves_refl. reflexivity. Qed.

Lemma crel_trans a b c : crel a b -> crel b c -> crel a c.
Proof.
  intros (A1 & A2 & A3) (B1 & B2 & B3). unfold crel. splits; try lia.
  intros i Hi Hb. rewrite (B3 i ltac:(lia) Hb). apply A3; lia.
Qed.

Lemma crel_abs_eq l l' : abs l' = abs l -> committed l <= committed l' -> crel l l'.
Proof. intros E H. unfold crel. rewrite E. splits; try lia. apply preserves_refl. reflexivity. Qed.

Lemma crel_same_su l l' : same_su l l' -> committed l <= committed l' -> crel l l'.
Proof. intros S. apply crel_abs_eq. apply same_su_abs. exact S. Qed.

Lemma grows_crel rw l l' : RepInv rw l -> grows l l' -> committed l <= committed l' -> crel l l'.
Proof.
  intros HI G H. pose proof G as (A1 & _). unfold crel. splits; try lia.
  intros i Hi Hb. rewrite A1 in Hb. pose proof (ri_commit rw l HI) as Hc.
  destruct (proj2 (ll_get_some_iff (abs l) i) ltac:(lia)) as [e E].
  rewrite E. apply (grows_get l l'); assumption.
Qed.

(* ---- the RaftLog operations ---- *)
Lemma commit_to_crel rw l tc l' : commit_to l tc = Ok l' -> RepInv rw l -> crel l l'.
Proof.
  intros H HI. destruct (commit_to_pres rw _ _ _ H HI) as [_ S]. apply crel_same_su; [exact S|].
  unfold commit_to in H. destruct (tc <=? committed l) eqn:E; [inversion H; lia|].
  destruct (last_index l <? tc); [discriminate|]. inversion H; subst. cbn. lia.
Qed.

Lemma log_maybe_commit_crel rw l i t l' b :
  RaftLog.maybe_commit l i t = Ok (l', b) -> RepInv rw l -> crel l l'.
Proof.
  unfold RaftLog.maybe_commit. intros H HI.
  destruct (committed l <? i); [|inversion H; apply crel_refl].
  inv_bind H. destruct (term_ok_eq x t); [|inversion H; apply crel_refl].
  inv_bind H. inversion H; subst. eapply commit_to_crel; eassumption.
Qed.

Lemma set_limit_crel l k : crel l (set_limit l k).
Proof. apply crel_abs_eq; [apply abs_ext; reflexivity|cbn; lia]. Qed.

(* appending at or before the end, above the commit index *)
Lemma log_append_rel rw l e0 t l' li :
  log_append l (e0 :: t) = Ok (l', li) -> RepInv rw l ->
  contiguous_from (e_index e0) (e0 :: t) -> persisted l < e_index e0 ->
  e_index e0 + N.of_nat (length (e0 :: t)) <= u64_max ->
  abs l' = ll_append (abs l) (e0 :: t) /\ committed l < e_index e0 <= ll_last (abs l) + 1
  /\ committed l' = committed l /\ crel l l'.
Proof.
  intros H HI Hc Hp Hb.
  assert (Hcm : committed l < e_index e0).
  { destruct (N.lt_ge_cases (committed l) (e_index e0)) as [Hlt|Hge]; [exact Hlt|]. exfalso.
    destruct (N.eq_dec (e_index e0) 0) as [Hz|Hz].
    - unfold log_append in H. rewrite Hz in H. cbn in H. discriminate.
    - assert (Hf : log_append l (e0 :: t) = Panic site_l_append_range) by (apply log_append_fatal_iff; lia).
      rewrite Hf in H. discriminate. }
  assert (Hs : e_index e0 <= ll_last (abs l) + 1).
  { destruct (N.le_gt_cases (e_index e0) (ll_last (abs l) + 1)) as [Hle|Hgt]; [exact Hle|]. exfalso.
    rewrite (log_append_gap_panics rw l e0 t HI Hcm Hgt) in H. discriminate. }
  destruct (log_append_ok rw l e0 t HI Hc Hcm Hs Hp Hb) as (l2 & Ha2 & Hr & Habs & Hc2 & _).
  rewrite H in Ha2. inversion Ha2; subst l2. splits; auto.
  unfold crel. splits; try lia.
  - rewrite Habs. unfold ll_append. cbn [ll_base]. lia.
  - eapply (committed_immutable_append rw); eassumption.
Qed.

(* appending exactly at the end only grows the log *)
Lemma ll_append_at_end L e0 t :
  e_index e0 = ll_last L + 1 ->
  ll_base (ll_append L (e0 :: t)) = ll_base L /\ ll_bterm (ll_append L (e0 :: t)) = ll_bterm L
  /\ ll_ents (ll_append L (e0 :: t)) = ll_ents L ++ e0 :: t.
Proof.
  intros H. unfold ll_append, ll_last in *. cbn [ll_base ll_bterm ll_ents]. splits; auto.
  f_equal. apply firstn_all2. lia.
Qed.

Lemma maybe_append_crel rw l i t cmt ents l' res :
  maybe_append l i t cmt ents = Ok (l', res) -> RepInv rw l ->
  contiguous_from (i + 1) ents -> i + N.of_nat (length ents) < u64_max -> crel l l'.
Proof.
  intros H HI Hc Hb. unfold maybe_append in H. rewrite (match_term_abs rw l i t HI) in H.
  destruct (ll_match (abs l) i t); cbn [bind negb] in H; [|inversion H; subst; apply crel_refl].
  rewrite (find_conflict_abs rw l ents HI) in H. cbn [bind] in H.
  destruct (find_conflict_shape (abs l) ents (i + 1) Hc ltac:(lia))
    as [H0|(Hn0 & H1 & H2 & e & r & Hsk & Hi)].
  - rewrite H0 in H. change (0 =? 0) with true in H. cbn [bind] in H.
    destruct (u64_max <? _); [discriminate|]. inv_bind H. inversion H; subst.
    eapply commit_to_crel; eassumption.
  - set (ci := ll_find_conflict (abs l) ents) in *.
    destruct (ci =? 0) eqn:E0; [lia|].
    destruct (ci <=? committed l) eqn:E1; [discriminate|].
    destruct (i =? u64_max) eqn:E2; [discriminate|].
    destruct (ci <? i + 1) eqn:E3; [discriminate|].
    destruct (N.of_nat (length ents) <? ci - (i + 1)) eqn:E4; [discriminate|]. cbv zeta in H.
    rewrite Hsk in H.
    assert (Hce : contiguous_from (e_index e) (e :: r)).
    { rewrite <- Hsk, Hi.
      replace ci with (i + 1 + N.of_nat (N.to_nat (ci - (i + 1)))) at 1 by lia.
      apply contig_skipn. exact Hc. }
    assert (Hlen : length (e :: r) = (length ents - N.to_nat (ci - (i + 1)))%nat).
    { rewrite <- Hsk. apply skipn_length. }
    pose proof (ll_last_upper rw l HI) as Hup.
    assert (Hgap : e_index e <= ll_last (abs l) + 1).
    { destruct (N.le_gt_cases (e_index e) (ll_last (abs l) + 1)) as [Hle|Hgt]; [exact Hle|]. exfalso.
      rewrite (log_append_gap_panics rw l e r HI) in H by lia. discriminate. }
    destruct (trunc_append_ok (unst l) e r ltac:(lia)) as (u' & Hu & Hsn & Hcase).
    set (p := N.min (persisted l) (ci - 1)).
    destruct (append_unstable_abs rw l e r u' p HI Hce ltac:(lia) Hgap ltac:(lia) ltac:(lia)
                ltac:(lia) Hsn Hcase) as [Habs Hr].
    unfold log_append in H. destruct (e_index e =? 0) eqn:E5; [lia|].
    destruct (e_index e - 1 <? committed l) eqn:E6; [lia|].
    rewrite Hu in H. cbn [bind fst] in H.
    assert (Hl1 : (if ci - 1 <? persisted (set_unst l u') then set_persisted (set_unst l u') (ci - 1)
                   else set_unst l u') = set_persisted (set_unst l u') p).
    { cbn [set_unst persisted]. subst p.
      destruct (ci - 1 <? persisted l) eqn:E7.
      - rewrite N.min_r by lia. reflexivity.
      - rewrite N.min_l by lia. reflexivity. }
    rewrite Hl1 in H.
    destruct (u64_max <? _); [discriminate|]. inv_bind H. inversion H; subst.
    eapply crel_trans; [|eapply commit_to_crel; [exact Hx|exact Hr]].
    unfold crel. cbn [set_persisted set_unst committed]. splits; try lia.
    + rewrite Habs. unfold ll_append. cbn [ll_base]. lia.
    + rewrite Habs. intros j Hj _. apply ll_get_append_below; lia.
Qed.

Lemma log_restore_crel rw l s l' :
  log_restore l s = Ok l' -> RepInv rw l -> s_index s < u64_max ->
  crel l l' /\ abs l' = mkLL (s_index s) (Some (s_term s)) [] /\ committed l <= s_index s
  /\ committed l' = s_index s.
Proof.
  intros H HI Hb.
  assert (Hc : committed l <= s_index s).
  { destruct (N.le_gt_cases (committed l) (s_index s)) as [Hle|Hgt]; [exact Hle|]. exfalso.
    rewrite (proj2 (log_restore_panics_iff l s) Hgt) in H. discriminate. }
  destruct (log_restore_ok rw l s HI Hc Hb) as (l2 & Hr2 & Hr & Habs & Hcm & _).
  rewrite H in Hr2. inversion Hr2; subst l2. splits; auto.
  unfold crel. splits; try lia.
  - rewrite Habs. cbn [ll_base]. pose proof (base_le_committed rw l HI). lia.
  - eapply (committed_immutable_restore rw); eassumption.
Qed.

(* ================================================================== *)
(* Part 2. The committed prefix is immutable: every function            *)
(* ================================================================== *)
Definition rcrel (r r' : raft) : Prop := crel (r_log r) (r_log r').

Lemma rcrel_eq r r' : r_log r' = r_log r -> rcrel r r'.
Proof. unfold rcrel. intros ->. apply crel_refl. Qed.

Lemma rcrel_trans a b c : rcrel a b -> rcrel b c -> rcrel a c.
Proof. apply crel_trans. Qed.

Lemma become_follower_rcrel r t l r' : become_follower r t l = Ok r' -> rcrel r r'.
Proof. intros H. apply become_follower_log in H. unfold rcrel. rewrite H. apply set_limit_crel. Qed.

Lemma maybe_commit_rcrel rw r r' b : Raft.maybe_commit r = Ok (r', b) -> LI rw r -> rcrel r r'.
Proof.
  unfold Raft.maybe_commit. intros H HI. inv_bind H. destruct x as [l' b'].
  pose proof (log_maybe_commit_crel rw _ _ _ _ _ Hx HI) as C.
  destruct b'; [destruct (get_pr r (r_id r))|]; inversion H; subst; exact C.
Qed.

(* appending stamped entries after the last index *)
Lemma append_entry_rel rw r es r' ok :
  append_entry r es = Ok (r', ok) -> LI rw r -> room (N.of_nat (length es)) r ->
  rcrel r r' /\ grows (r_log r) (r_log r').
Proof.
  intros H HI Hroom. destruct (append_entry_spec _ _ _ _ H) as (_ & _ & Hl).
  destruct ok.
  2:{ unfold rcrel. rewrite Hl. split; [apply crel_refl|apply grows_refl]. }
  destruct Hl as (x & Hx & Hl). unfold rcrel. rewrite Hl. clear Hl H.
  destruct es as [|e es].
  - cbn in Hx. inversion Hx; subst. cbn [fst]. split; [apply crel_refl|apply grows_refl].
  - destruct x as [l' li]. cbn [fst].
    remember (stamp (e :: es) (r_term r) (last_index (r_log r) + 1)) as st eqn:Est.
    pose proof (stamp_contig (e :: es) (r_term r) (last_index (r_log r) + 1)) as Hc.
    pose proof (stamp_length (e :: es) (r_term r) (last_index (r_log r) + 1)) as Hlen.
    rewrite <- Est in Hc, Hlen.
    destruct st as [|e0 t0]; [cbn in Hlen; discriminate|].
    assert (Hi0 : e_index e0 = last_index (r_log r) + 1) by (destruct Hc; assumption).
    unfold room in Hroom.
    destruct (log_append_rel rw _ _ _ _ _ Hx HI) as (A & _ & _ & C).
    + rewrite Hi0. exact Hc.
    + rewrite Hi0. pose proof (RepInv_persisted_le_last rw _ HI). lia.
    + rewrite Hi0, Hlen. lia.
    + split; [exact C|]. unfold grows. rewrite A.
      destruct (ll_append_at_end (abs (r_log r)) e0 t0) as (B1 & B2 & B3).
      { rewrite Hi0, (abs_last rw _ HI). reflexivity. }
      splits; auto. eauto.
Qed.

Lemma become_leader_rel rw r r' :
  become_leader r = Ok r' -> LI rw r -> room 1 r -> rcrel r r' /\ grows (r_log r) (r_log r').
Proof.
  unfold become_leader. intros H HI Hroom.
  destruct (role_eqb (r_state r) Follower); [discriminate|].
  inv_bind H. apply reset_log in Hx.
  match type of H with (match ?g with _ => _ end) = _ => destruct g as [pr|] end; [|discriminate].
  inv_bind H. destruct x0 as [r6 ok]. destruct ok; [|discriminate]. inversion H; subst. clear H.
  destruct (append_entry_rel rw _ _ _ _ Hx0) as [A B].
  - eapply LI_same; [|exact HI]. cbn. exact Hx.
  - eapply room_same; [|exact Hroom]. cbn. rewrite Hx. reflexivity.
  - unfold rcrel in *. cbn in A, B. rewrite Hx in A, B. split; assumption.
Qed.

Lemma poll_gen_rcrel rw rc r from v r' res :
  (forall ra ra', rc ra = Ok ra' -> LI rw ra -> room 1 ra -> rcrel ra ra') ->
  poll_gen rc r from v = Ok (r', res) -> LI rw r -> room 1 r -> rcrel r r'.
Proof.
  unfold poll_gen. intros Hrc H HI Hroom.
  set (r0 := r <| r_prs := (r_prs r) <| t_votes := Quorum.record_vote (t_votes (r_prs r)) from v |> |>) in *.
  assert (H0 : LI rw r0) by exact HI. assert (Hr0 : room 1 r0) by exact Hroom.
  assert (C0 : rcrel r r0) by (apply rcrel_eq; reflexivity).
  eapply rcrel_trans; [exact C0|]. clearbody r0.
  destruct (Quorum.tracker_vote_result _ _ _).
  - inversion H; subst. apply rcrel_eq; reflexivity.
  - inv_bind H. inversion H; subst. eapply become_follower_rcrel; eassumption.
  - destruct (role_eqb (r_state r0) PreCandidate).
    + inv_bind H. inversion H; subst. eapply Hrc; eassumption.
    + inv_bind H. inv_bind H. inversion H; subst.
      eapply rcrel_trans; [exact (proj1 (become_leader_rel rw _ _ Hx H0 Hr0))|].
      apply rcrel_eq. eapply bcast_append_log; exact Hx0.
Qed.

Lemma campaign_real_rcrel rw tr r r' :
  campaign_real tr r = Ok r' -> LI rw r -> room 1 r -> rcrel r r'.
Proof.
  unfold campaign_real. intros H HI Hroom. inv_bind H. pose proof (become_candidate_log _ _ Hx) as El.
  inv_bind H. destruct x0 as [r2 res].
  assert (H1 : LI rw x) by (eapply LI_same; eassumption).
  assert (R1 : room 1 x) by (eapply room_same; [|exact Hroom]; rewrite El; reflexivity).
  assert (C2 : rcrel r r2).
  { eapply rcrel_trans; [apply rcrel_eq; exact El|].
    eapply poll_gen_rcrel; [|exact Hx0|exact H1|exact R1]. intros ra ra' Hp; discriminate. }
  destruct res.
  - inv_bind H. apply send_vote_requests_log in H. eapply rcrel_trans; [exact C2|apply rcrel_eq; exact H].
  - inv_bind H. apply send_vote_requests_log in H. eapply rcrel_trans; [exact C2|apply rcrel_eq; exact H].
  - inversion H; subst. exact C2.
Qed.

Lemma poll_rcrel rw r from v r' res :
  poll r from v = Ok (r', res) -> LI rw r -> room 1 r -> rcrel r r'.
Proof. unfold poll. apply poll_gen_rcrel. intros ra ra'. apply campaign_real_rcrel. Qed.

Lemma campaign_pre_rcrel rw r r' : campaign_pre r = Ok r' -> LI rw r -> room 1 r -> rcrel r r'.
Proof.
  unfold campaign_pre. intros H HI Hroom. inv_bind H. pose proof (become_pre_candidate_log _ _ Hx) as El.
  inv_bind H. destruct x0 as [r2 res].
  assert (H1 : LI rw x) by (eapply LI_same; eassumption).
  assert (R1 : room 1 x) by (eapply room_same; [|exact Hroom]; rewrite El; reflexivity).
  assert (C2 : rcrel r r2).
  { eapply rcrel_trans; [apply rcrel_eq; exact El|]. eapply poll_rcrel; eassumption. }
  destruct res.
  - inv_bind H. apply send_vote_requests_log in H. eapply rcrel_trans; [exact C2|apply rcrel_eq; exact H].
  - inv_bind H. apply send_vote_requests_log in H. eapply rcrel_trans; [exact C2|apply rcrel_eq; exact H].
  - inversion H; subst. exact C2.
Qed.

Lemma hup_rcrel rw r tl r' : hup r tl = Ok r' -> LI rw r -> room 1 r -> rcrel r r'.
Proof.
  intros H HI Hroom. apply hup_spec in H.
  destruct H as [[_ ->]|[(_ & _ & ->)|[(_ & _ & _ & ->)|(_ & _ & _ & Hc)]]];
    try (apply rcrel_eq; reflexivity).
  unfold hup_campaign in Hc. destruct tl; [eapply campaign_real_rcrel; eassumption|].
  destruct (r_pre_vote r); [eapply campaign_pre_rcrel|eapply campaign_real_rcrel]; eassumption.
Qed.

Lemma maybe_commit_by_vote_rcrel rw r m r' : maybe_commit_by_vote r m = Ok r' -> LI rw r -> rcrel r r'.
Proof.
  intros H HI. apply maybe_commit_by_vote_spec in H.
  destruct H as [-> |(l' & b & _ & _ & _ & _ & Hmc & [-> |(_ & _ & _ & Hbf)])];
    [apply rcrel_eq; reflexivity| |].
  - exact (log_maybe_commit_crel rw _ _ _ _ _ Hmc HI).
  - eapply rcrel_trans; [|eapply become_follower_rcrel; exact Hbf].
    exact (log_maybe_commit_crel rw _ _ _ _ _ Hmc HI).
Qed.

Lemma handle_append_entries_rcrel rw r m r' :
  handle_append_entries r m = Ok r' -> append_wf m -> LI rw r -> rcrel r r'.
Proof.
  unfold handle_append_entries. intros H (W1 & W4) HI.
  destruct (negb (r_pending_request_snapshot r =? INVALID_INDEX)).
  { apply rcrel_eq. eapply send_request_snapshot_log; exact H. }
  destruct (m_index m <? committed (r_log r)).
  { apply rcrel_eq. eapply send_log; exact H. }
  inv_bind H. destruct x as [l' res].
  pose proof (maybe_append_crel rw _ _ _ _ _ _ _ Hx HI W1 W4) as C.
  destruct res as [[a b]|].
  - apply send_log in H. unfold rcrel. rewrite H. exact C.
  - inv_bind H. destruct x as [hi [ht|]]; [|discriminate].
    apply send_log in H. unfold rcrel. rewrite H. exact C.
Qed.

Lemma handle_heartbeat_rcrel rw r m r' : handle_heartbeat r m = Ok r' -> LI rw r -> rcrel r r'.
Proof.
  unfold handle_heartbeat. intros H HI. inv_bind H.
  pose proof (commit_to_crel rw _ _ _ Hx HI) as C.
  match type of H with (if ?c then _ else _) = _ => destruct c end.
  - apply send_request_snapshot_log in H. unfold rcrel. rewrite H. exact C.
  - apply send_log in H. unfold rcrel. rewrite H. exact C.
Qed.

Lemma post_conf_change_rcrel rw r r' cs : post_conf_change r = Ok (r', cs) -> LI rw r -> rcrel r r'.
Proof.
  intros H HI. destruct (post_conf_change_pres rw _ _ _ H HI) as [_ S].
  apply crel_same_su; [exact S|].
  (* the commit index moves only through maybe_commit *)
  unfold post_conf_change in H.
  set (r0 := r <| r_promotable := voters_contains (conf_of r) (r_id r) |>) in *.
  assert (E0 : r_log r0 = r_log r) by reflexivity. assert (H0 : LI rw r0) by exact HI. clearbody r0.
  match type of H with (if ?c then _ else _) = _ => destruct c end; [inversion H; subst; rewrite E0; lia|].
  match type of H with (if ?c then _ else _) = _ => destruct c end; [inversion H; subst; rewrite E0; lia|].
  inv_bind H. destruct x as [r1 b]. pose proof (maybe_commit_rcrel rw _ _ _ Hx H0) as (C & _).
  inv_bind H.
  assert (E2 : r_log x = r_log r1).
  { destruct b; [eapply bcast_append_log; exact Hx0|].
    apply lf_log. revert Hx0. apply for_each_peer_lf. intros ra id ra' Hf.
    destruct (get_pr ra id); [|discriminate]. inv_bind Hf. destruct x0 as [[rb pb] bb].
    inversion Hf; subst. eapply lf_trans; [eapply maybe_send_append_lf; eassumption|apply put_pr_lf]. }
  inv_bind H.
  assert (E3 : r_log x0 = r_log x).
  { destruct (ro_last_pending_request_ctx (r_read_only x)); [|inversion Hx1; reflexivity].
    destruct (ro_recv_ack (r_read_only x) (r_id x) l) as [ro' acks].
    destruct acks as [a|]; [|inversion Hx1; reflexivity].
    match type of Hx1 with (if ?c then _ else _) = _ => destruct c end; [|inversion Hx1; reflexivity].
    inv_bind Hx1. destruct x1 as [ro2 rss]. apply respond_reads_log in Hx1. rewrite Hx1. reflexivity. }
  inversion H; subst.
  assert (E4 : r_log (match r_lead_transferee x0 with
                      | Some e => if negb (voters_contains (conf_of x0) e)
                                  then x0 <| r_lead_transferee := None |> else x0
                      | None => x0 end) = r_log x0).
  { destruct (r_lead_transferee x0); [|reflexivity].
    destruct (negb (voters_contains (conf_of x0) n)); reflexivity. }
  rewrite E4, E3, E2. rewrite E0 in C. exact C.
Qed.

Lemma restore_rcrel rw r s r' b :
  restore r s = Ok (r', b) -> s_index s < u64_max -> LI rw r -> rcrel r r'.
Proof.
  unfold restore. intros H Hb HI.
  destruct (s_index s <? committed (r_log r)); [inversion H; subst; apply rcrel_eq; reflexivity|].
  destruct (negb (role_eqb (r_state r) Follower)).
  { inv_bind H. inversion H; subst. eapply become_follower_rcrel; eassumption. }
  match type of H with (if ?c then _ else _) = _ => destruct c end;
    [inversion H; subst; apply rcrel_eq; reflexivity|].
  inv_bind H.
  match type of H with (if ?c then _ else _) = _ => destruct c end.
  { inv_bind H. inversion H; subst. exact (commit_to_crel rw _ _ _ Hx0 HI). }
  inv_bind H.
  destruct (log_restore_pres rw _ _ _ Hx0 HI Hb) as (A & _).
  destruct (log_restore_crel rw _ _ _ Hx0 HI Hb) as (C & _).
  destruct (ConfChange.restore empty_tracker (s_cs s)) as [[c' ids']|e]; [|discriminate].
  inv_bind H. destruct x1 as [r1 new_cs].
  match type of Hx1 with post_conf_change ?ra = _ => assert (Ha : LI rw ra) by exact A end.
  pose proof (post_conf_change_rcrel rw _ _ _ Hx1 Ha) as C1.
  match type of H with (if ?c then _ else _) = _ => destruct c end; [discriminate|].
  destruct (get_pr r1 (r_id r1)) as [pr|]; [|discriminate].
  destruct (next_idx pr =? 0); [discriminate|]. inversion H; subst.
  unfold rcrel in *. cbn in *. eapply crel_trans; [exact C|exact C1].
Qed.

Lemma handle_snapshot_rcrel rw r m r' :
  handle_snapshot r m = Ok r' -> s_index (m_snapshot m) < u64_max -> LI rw r -> rcrel r r'.
Proof.
  unfold handle_snapshot. intros H Hb HI. inv_bind H. destruct x as [r1 ok].
  pose proof (restore_rcrel rw _ _ _ _ Hx Hb HI) as C.
  destruct ok; apply send_log in H; unfold rcrel in *; rewrite H; exact C.
Qed.

Lemma handle_append_response_rcrel rw r m r' :
  handle_append_response r m = Ok r' -> LI rw r -> rcrel r r'.
Proof.
  intros H HI. destruct (handle_append_response_pres rw _ _ _ H HI) as [_ _].
  unfold handle_append_response in H. inv_bind H. clear Hx.
  destruct (get_pr r (m_from m)) as [pr|]; [|inversion H; subst; apply rcrel_eq; reflexivity].
  destruct (m_reject m).
  { destruct (maybe_decr_to _ _ _ _) as [pr1 dec]. destruct dec.
    - apply send_append_to_log in H. apply rcrel_eq. exact H.
    - inversion H; subst. apply rcrel_eq; reflexivity. }
  destruct (maybe_update _ _) as [pr1 upd]. destruct upd; cbn [negb] in H.
  2:{ inversion H; subst. apply rcrel_eq; reflexivity. }
  inv_bind H. clear Hx. inv_bind H. destruct x1 as [r1 cmt].
  match type of Hx with Raft.maybe_commit ?ra = _ => assert (Ha : LI rw ra) by exact HI end.
  pose proof (maybe_commit_rcrel rw _ _ _ Hx Ha) as C. inv_bind H. inv_bind H.
  assert (E2 : r_log x1 = r_log r1).
  { destruct cmt.
    - destruct (should_bcast_commit r1); [eapply bcast_append_log; eassumption|].
      inversion Hx0; reflexivity.
    - destruct (is_paused _); [eapply send_append_to_log; eassumption|].
      inversion Hx0; reflexivity. }
  apply send_append_aggressively_log in Hx1.
  assert (E4 : r_log r' = r_log x2).
  { destruct (r_lead_transferee x2); [|inversion H; reflexivity].
    destruct (n =? m_from m); [|inversion H; reflexivity].
    destruct (get_pr x2 (m_from m)); [|discriminate].
    destruct (matched p =? last_index (r_log x2)); [eapply send_timeout_now_log; exact H|].
    inversion H; reflexivity. }
  unfold rcrel in *. rewrite E4, Hx1, E2. exact C.
Qed.

Lemma step_leader_rcrel rw r m r' c :
  step_leader r m = Ok (r', c) -> msg_wf (last_index (r_log r)) m -> LI rw r -> rcrel r r'.
Proof.
  unfold step_leader. intros H (_ & Wp & _ & _) HI.
  destruct (m_type m =? MsgBeat).
  { inv_bind H. inversion H; subst. apply rcrel_eq. eapply bcast_heartbeat_log; exact Hx. }
  destruct (m_type m =? MsgCheckQuorum).
  { destruct (quorum_recently_active (r_prs r) (r_id r)) as [prs' active] eqn:Eq.
    destruct active; cbn [negb] in H.
    - inversion H; subst. apply rcrel_eq; reflexivity.
    - inv_bind H. inversion H; subst. apply become_follower_rcrel in Hx. exact Hx. }
  destruct (m_type m =? MsgPropose) eqn:Ep.
  { apply N.eqb_eq in Ep. specialize (Wp Ep).
    destruct (m_entries m) as [|e0 es] eqn:Ee; [discriminate|]. rewrite <- Ee in *.
    destruct (get_pr r (r_id r)); [|inversion H; subst; apply rcrel_eq; reflexivity].
    destruct (r_lead_transferee r); [inversion H; subst; apply rcrel_eq; reflexivity|].
    dfilter H. pose proof (filter_conf_changes_log _ _ _ _ _ _ _ F) as El.
    pose proof (filter_length _ _ _ _ _ _ _ F) as Hlen.
    assert (H1 : LI rw a) by (eapply LI_same; eassumption).
    destruct c0; cbn [negb] in H; [|inversion H; subst; apply rcrel_eq; exact El].
    inv_bind H. destruct x as [r2 appended].
    destruct (append_entry_rel rw _ _ _ _ Hx H1) as (C & _).
    { unfold room. rewrite El, Hlen. exact Wp. }
    assert (C2 : rcrel r r2) by (unfold rcrel in *; rewrite El in C; exact C).
    destruct appended; cbn [negb] in H.
    - inv_bind H. inversion H; subst. apply bcast_append_log in Hx0.
      unfold rcrel in *. rewrite Hx0. exact C2.
    - inversion H; subst. exact C2. }
  destruct (m_type m =? MsgReadIndex).
  { inv_bind H. destruct (negb x); [inversion H; subst; apply rcrel_eq; reflexivity|].
    assert (Hans : forall ra c',
      (x0 <- handle_ready_read_index r m (committed (r_log r)) ;;
       let '(r1, om) := x0 in
       r2 <- match om with Some mm => send r1 mm | None => Ok r1 end ;; Ok (r2, E_OK)) = Ok (ra, c') ->
      rcrel r ra).
    { intros ra c' Ha. inv_bind Ha. destruct x0 as [r1 om]. inv_bind Ha. inversion Ha; subst.
      apply handle_ready_read_index_log in Hx0. apply rcrel_eq.
      destruct om; [apply send_log in Hx1|inversion Hx1; subst]; congruence. }
    match type of H with (if ?c then _ else _) = _ => destruct c end; [eapply Hans; exact H|].
    destruct (ro_option (r_read_only r) =? 0); [|eapply Hans; exact H].
    inv_bind H. inv_bind H. inv_bind H. inversion H; subst.
    apply bcast_heartbeat_with_ctx_log in Hx2. apply rcrel_eq. exact Hx2. }
  destruct (m_type m =? MsgAppendResponse).
  { inv_bind H. inversion H; subst. eapply handle_append_response_rcrel; eassumption. }
  destruct (m_type m =? MsgHeartbeatResponse).
  { inv_bind H. inversion H; subst. apply rcrel_eq. eapply handle_heartbeat_response_log; eassumption. }
  destruct (m_type m =? MsgSnapStatus).
  { inv_bind H. inversion H; subst. apply rcrel_eq. eapply handle_snapshot_status_log; eassumption. }
  destruct (m_type m =? MsgUnreachable).
  { inv_bind H. inversion H; subst. apply rcrel_eq. eapply handle_unreachable_log; eassumption. }
  destruct (m_type m =? MsgTransferLeader).
  { inv_bind H. inversion H; subst. apply rcrel_eq. eapply handle_transfer_leader_log; eassumption. }
  inversion H; subst. apply rcrel_eq; reflexivity.
Qed.

Lemma step_candidate_rcrel rw r m r' c :
  step_candidate r m = Ok (r', c) -> msg_wf (last_index (r_log r)) m -> LI rw r -> rcrel r r'.
Proof.
  unfold step_candidate. intros H (We & _ & Wa & Ws) HI.
  destruct (m_type m =? MsgPropose). { inversion H; subst. apply rcrel_eq; reflexivity. }
  match type of H with (if ?c then _ else _) = _ => destruct c eqn:E1 end.
  { destruct (negb (r_term r =? m_term m)); [discriminate|].
    inv_bind H. destruct (become_follower_pres rw _ _ _ _ Hx HI) as [H1 L1].
    pose proof (become_follower_rcrel _ _ _ _ Hx) as C1.
    inv_bind H. inversion H; subst. eapply rcrel_trans; [exact C1|].
    destruct (m_type m =? MsgAppend) eqn:Ea.
    { apply N.eqb_eq in Ea. eapply handle_append_entries_rcrel; [exact Hx0|exact (Wa Ea)|exact H1]. }
    destruct (m_type m =? MsgHeartbeat) eqn:Eh; [eapply handle_heartbeat_rcrel; eassumption|].
    cbn [orb] in E1. apply N.eqb_eq in E1.
    eapply handle_snapshot_rcrel; [exact Hx0|exact (Ws E1)|exact H1]. }
  match type of H with (if ?c then _ else _) = _ => destruct c eqn:E2 end.
  2:{ inversion H; subst. apply rcrel_eq; reflexivity. }
  match type of H with (if ?c then _ else _) = _ => destruct c end.
  { inversion H; subst. apply rcrel_eq; reflexivity. }
  inv_bind H. destruct x as [r1 res]. inv_bind H. inversion H; subst. cbn [fst] in Hx0.
  specialize (We (elect_type_vote_resp _ E2)).
  eapply rcrel_trans; [eapply poll_rcrel; eassumption|].
  eapply maybe_commit_by_vote_rcrel; [exact Hx0|]. eapply poll_pres; eassumption.
Qed.

Lemma step_follower_rcrel rw r m r' c :
  step_follower r m = Ok (r', c) -> msg_wf (last_index (r_log r)) m -> LI rw r -> rcrel r r'.
Proof.
  unfold step_follower. intros H (We & _ & Wa & Ws) HI.
  destruct (m_type m =? MsgPropose).
  { destruct (r_leader_id r =? INVALID_ID); [inversion H; subst; apply rcrel_eq; reflexivity|].
    destruct (r_disable_proposal_forwarding r); [inversion H; subst; apply rcrel_eq; reflexivity|].
    inv_bind H. inversion H; subst. apply rcrel_eq. eapply send_log; eassumption. }
  destruct (m_type m =? MsgAppend) eqn:Ea.
  { apply N.eqb_eq in Ea. inv_bind H. inversion H; subst.
    exact (handle_append_entries_rcrel rw _ _ _ Hx (Wa Ea) HI). }
  destruct (m_type m =? MsgHeartbeat).
  { inv_bind H. inversion H; subst. exact (handle_heartbeat_rcrel rw _ _ _ Hx HI). }
  destruct (m_type m =? MsgSnapshot) eqn:Es.
  { apply N.eqb_eq in Es. inv_bind H. inversion H; subst.
    exact (handle_snapshot_rcrel rw _ _ _ Hx (Ws Es) HI). }
  destruct (m_type m =? MsgTransferLeader).
  { destruct (r_leader_id r =? INVALID_ID); [inversion H; subst; apply rcrel_eq; reflexivity|].
    inv_bind H. inversion H; subst. apply rcrel_eq. eapply send_log; eassumption. }
  destruct (m_type m =? MsgTimeoutNow) eqn:Et.
  { destruct (r_promotable r); [|inversion H; subst; apply rcrel_eq; reflexivity].
    inv_bind H. inversion H; subst. eapply hup_rcrel; [exact Hx|exact HI|].
    apply We. unfold elect_type. rewrite Et. rewrite ?orb_true_r. reflexivity. }
  destruct (m_type m =? MsgReadIndex).
  { destruct (r_leader_id r =? INVALID_ID); [inversion H; subst; apply rcrel_eq; reflexivity|].
    inv_bind H. inversion H; subst. apply rcrel_eq. eapply send_log; eassumption. }
  destruct (m_type m =? MsgReadIndexResp).
  { destruct (m_entries m) as [|e [|e2 es]]; try (inversion H; subst; apply rcrel_eq; reflexivity).
    inv_bind H. inversion H; subst. destruct x as [l' b].
    exact (log_maybe_commit_crel rw _ _ _ _ _ Hx HI). }
  inversion H; subst. apply rcrel_eq; reflexivity.
Qed.

Lemma step_body_rcrel rw r m r' c :
  RaftProofsC08.step_body r m = Ok (r', c) -> msg_wf (last_index (r_log r)) m -> LI rw r -> rcrel r r'.
Proof.
  unfold RaftProofsC08.step_body. intros H W HI.
  destruct (m_type m =? MsgHup) eqn:Eh.
  { inv_bind H. inversion H; subst. eapply hup_rcrel; [exact Hx|exact HI|].
    apply (proj1 W). unfold elect_type. rewrite Eh. reflexivity. }
  match type of H with (if ?c then _ else _) = _ => destruct c end.
  { inv_bind H. inv_bind H.
    match type of H with (if ?c then _ else _) = _ => destruct c end.
    - inv_bind H. apply send_log in Hx1.
      destruct (m_type m =? MsgRequestVote); inversion H; subst; apply rcrel_eq; exact Hx1.
    - inv_bind H. inv_bind H. inv_bind H. inversion H; subst. apply send_log in Hx2.
      eapply rcrel_trans; [apply rcrel_eq; exact Hx2|].
      eapply maybe_commit_by_vote_rcrel; [exact Hx3|]. eapply LI_same; eassumption. }
  unfold step_role in H. destruct (r_state r).
  - eapply step_follower_rcrel; eassumption.
  - eapply step_candidate_rcrel; eassumption.
  - eapply step_leader_rcrel; eassumption.
  - eapply step_candidate_rcrel; eassumption.
Qed.

(* C05 (2), per call: step *)
Theorem step_rcrel rw r m r' c :
  step r m = Ok (r', c) -> msg_wf (last_index (r_log r)) m -> LI rw r -> rcrel r r'.
Proof.
  intros H W HI. rewrite step_decompose in H. inv_bind H. apply step_prologue_spec in Hx.
  destruct x as [[r1 c1]|r1].
  - inversion H; subst. apply rcrel_eq. apply lf_log. apply Hx.
  - destruct Hx as [-> |(_ & l & Hbf)]; [eapply step_body_rcrel; eassumption|].
    destruct (become_follower_pres rw _ _ _ _ Hbf HI) as [H1 L1].
    eapply rcrel_trans; [eapply become_follower_rcrel; exact Hbf|].
    eapply step_body_rcrel; [exact H| |exact H1]. rewrite L1. exact W.
Qed.

Theorem tick_rcrel rw r r' b : tick r = Ok (r', b) -> LI rw r -> room 1 r -> rcrel r r'.
Proof.
  unfold tick. intros H HI Hroom.
  assert (Hel : forall ra b', tick_election r = Ok (ra, b') -> rcrel r ra).
  { unfold tick_election. intros ra b' He.
    match type of He with (if ?c then _ else _) = _ => destruct c end;
      [inversion He; subst; apply rcrel_eq; reflexivity|].
    inv_bind He. inversion He; subst. destruct x as [r1 c]. cbn [fst].
    eapply rcrel_trans; [|eapply step_rcrel; [exact Hx| |exact HI]]; [apply rcrel_eq; reflexivity|].
    unfold msg_wf. cbn. splits; try (intros E; discriminate). intros _. exact Hroom. }
  assert (Hhb : forall ra b', tick_heartbeat r = Ok (ra, b') -> rcrel r ra).
  { unfold tick_heartbeat. intros ra b' He. inv_bind He. destruct x as [r1 hr].
    assert (H1 : LI rw r1 /\ rcrel r r1).
    { match type of Hx with (if ?c then _ else _) = _ => destruct c end;
        [|inversion Hx; subst; split; [exact HI|apply rcrel_eq; reflexivity]].
      inv_bind Hx. destruct x as [rb hb]. inversion Hx; subst.
      assert (Hb : LI rw rb /\ rcrel r rb).
      { destruct (r_check_quorum _); [|inversion Hx0; subst; split; [exact HI|apply rcrel_eq; reflexivity]].
        inv_bind Hx0. inversion Hx0; subst. destruct x as [rc cc]. cbn [fst].
        match type of Hx1 with step ?ra ?mm = _ =>
          assert (Wc : msg_wf (last_index (r_log ra)) mm)
            by (apply msg_wf_plain; cbn; [reflexivity|discriminate|discriminate|discriminate]);
          assert (Ha : LI rw ra) by exact HI end.
        split; [eapply step_pres; eassumption|].
        eapply rcrel_trans; [|eapply step_rcrel; eassumption]. apply rcrel_eq; reflexivity. }
      match goal with |- LI rw (if ?c then _ else _) /\ _ => destruct c end; exact Hb. }
    destruct H1 as [H1 C1].
    destruct (negb (is_leader r1)); [inversion He; subst; exact C1|].
    match type of He with (if ?c then _ else _) = _ => destruct c end; [|inversion He; subst; exact C1].
    inv_bind He. inversion He; subst. destruct x as [rb cb]. cbn [fst].
    eapply rcrel_trans; [exact C1|].
    match type of Hx0 with step ?ra ?mm = _ =>
      assert (Wc : msg_wf (last_index (r_log ra)) mm)
        by (apply msg_wf_plain; cbn; [reflexivity|discriminate|discriminate|discriminate]);
      assert (Ha : LI rw ra) by exact H1 end.
    eapply rcrel_trans; [|eapply step_rcrel; eassumption]. apply rcrel_eq; reflexivity. }
  destruct (r_state r); first [eapply Hel; exact H|eapply Hhb; exact H].
Qed.

Theorem on_persist_entries_rcrel rw r i t r' : on_persist_entries r i t = Ok r' -> LI rw r -> rcrel r r'.
Proof.
  intros H HI. destruct (on_persist_entries_pres rw _ _ _ _ H HI) as [_ S].
  apply crel_same_su; [exact S|].
  unfold on_persist_entries in H. inv_bind H. destruct x as [l' upd].
  destruct (maybe_persist_pres rw _ _ _ _ _ Hx HI) as [A B].
  assert (Ec : committed l' = committed (r_log r)).
  { destruct (maybe_persist_ok rw _ i t HI) as (l2 & b2 & Hm & _ & _ & Hc & _).
    rewrite Hx in Hm. inversion Hm; subst. exact Hc. }
  match type of H with (if ?c then _ else _) = _ => destruct c end; [|inversion H; subst; cbn; lia].
  match type of H with (match ?g with _ => _ end) = _ => destruct g as [pr|] end;
    [|inversion H; subst; cbn; lia].
  destruct (maybe_update pr i) as [pr' u]. destruct u; [|inversion H; subst; cbn; lia].
  inv_bind H. destruct x as [r1 c].
  match type of Hx0 with Raft.maybe_commit ?ra = _ => assert (Ha : LI rw ra) by exact A end.
  destruct (maybe_commit_rcrel rw _ _ _ Hx0 Ha) as (C & _). cbn in C.
  match type of H with (if ?c then _ else _) = _ => destruct c end.
  - apply bcast_append_log in H. rewrite H. lia.
  - inversion H; subst. lia.
Qed.

Theorem on_persist_snap_rcrel rw r i r' :
  on_persist_snap r i = Ok r' -> LI rw r ->
  (persisted (r_log r) < i -> i < next_of (store (r_log r))) -> rcrel r r'.
Proof.
  intros H HI Hn. destruct (on_persist_snap_pres rw _ _ _ H HI Hn) as [_ S].
  apply crel_same_su; [exact S|].
  unfold on_persist_snap in H. inv_bind H. destruct x as [l' b]. inversion H; subst. cbn.
  unfold maybe_persist_snap in Hx. destruct (persisted _ <? i); [|inversion Hx; lia].
  destruct (committed _ <? i); [discriminate|]. destruct (_ <=? i); [discriminate|]. inversion Hx; cbn; lia.
Qed.

Theorem commit_apply_rel rw r a r' :
  commit_apply r a = Ok r' -> LI rw r -> (is_leader r = true -> room 1 r) ->
  rcrel r r' /\ grows (r_log r) (r_log r').
Proof.
  unfold commit_apply, commit_apply_internal. cbn [negb]. intros H HI Hroom.
  inv_bind H. destruct (applied_to_pres rw _ _ _ Hx HI) as (A & B1 & B2 & B3).
  assert (Eabs : abs x = abs (r_log r)) by (apply abs_ext; assumption).
  assert (C1 : crel (r_log r) x) by (apply crel_abs_eq; [exact Eabs|lia]).
  assert (G1 : grows (r_log r) x) by (apply grows_abs_eq; exact Eabs).
  match type of H with (if ?c then _ else _) = _ => destruct c eqn:Ec end;
    [|inversion H; subst; split; assumption].
  inv_bind H. destruct x0 as [r1 ok]. destruct ok; cbn [negb] in H; [|discriminate].
  inversion H; subst. cbn.
  apply andb_prop in Ec. destruct Ec as [_ El]. change (is_leader r = true) in El.
  destruct (append_entry_rel rw _ _ _ _ Hx0 A) as (C2 & G2).
  { unfold room. cbn. rewrite (last_index_eq _ _ B2 B1). exact (Hroom El). }
  cbn in C2, G2. unfold rcrel in *.
  split; [eapply crel_trans; eassumption|eapply grows_trans; eassumption].
Qed.

Theorem raft_apply_conf_change_rcrel rw r cc r' ocs :
  raft_apply_conf_change r cc = Ok (r', ocs) -> LI rw r -> rcrel r r'.
Proof.
  unfold raft_apply_conf_change. intros H HI.
  match type of H with (match ?g with _ => _ end) = _ => destruct g as [[c' chs]|e] end.
  - inv_bind H. destruct x as [r1 cs]. inversion H; subst. cbn [fst].
    match type of Hx with post_conf_change ?ra = _ => assert (Ha : LI rw ra) by exact HI end.
    exact (post_conf_change_rcrel rw _ _ _ Hx Ha).
  - inversion H; subst. apply rcrel_eq; reflexivity.
Qed.

Theorem load_state_rcrel r hs r' : load_state r hs = Ok r' -> rcrel r r'.
Proof.
  unfold load_state. intros H.
  match type of H with (if ?c then _ else _) = _ => destruct c eqn:E end; [discriminate|].
  inversion H; subst. apply orb_false_elim in E. destruct E as [E1 _].
  unfold rcrel. cbn. apply crel_abs_eq; [apply abs_ext; reflexivity|cbn; lia].
Qed.

(* ---- RawNode entry points, storage writes, traces ---- *)
Lemma on_persist_ready_crel rw n k n' :
  rn_on_persist_ready n k = Ok n' -> persist_pre n k -> NLI rw n -> crel (nlog n) (nlog n').
Proof.
  unfold rn_on_persist_ready, persist_pre, nlog. intros H P HI.
  destruct (fold_records (rn_records n) k 0 0 0) as [[[recs i] t] si]. cbn [snd] in P.
  apply bind_ok in H. destruct H as (ra & Ha & H). apply bind_ok in H. destruct H as (rb & Hb & H).
  inversion H; subst n'. cbn.
  assert (H1 : LI rw ra /\ rcrel (rn_raft n) ra).
  { destruct (negb (si =? 0)); [|inversion Ha; subst ra; split; [exact HI|apply rcrel_eq; reflexivity]].
    split; [exact (proj1 (on_persist_snap_pres rw _ _ _ Ha HI P))|exact (on_persist_snap_rcrel rw _ _ _ Ha HI P)]. }
  destruct H1 as [H1 C1].
  destruct (negb (i =? 0)); [|inversion Hb; subst rb; exact C1].
  eapply crel_trans; [exact C1|exact (on_persist_entries_rcrel rw _ _ _ _ Hb H1)].
Qed.

Lemma commit_ready_crel rw n rd n' :
  commit_ready n rd = Ok n' -> commit_pre n -> NLI rw n -> crel (nlog n) (nlog n').
Proof.
  intros H P HI. destruct (commit_ready_pres rw _ _ _ H P HI) as (_ & B & _ & (C1 & _) & _).
  apply crel_abs_eq; [exact B|lia].
Qed.

Lemma advance_append_crel rw n rd n' lr :
  rn_advance_append n rd = Ok (n', lr) -> advance_pre n -> NLI rw n -> crel (nlog n) (nlog n').
Proof.
  intros H [P1 P2] HI.
  destruct (rn_advance_append_inv _ _ _ _ H) as (n1 & n2 & n3 & lr3 & H1 & H2 & H3 & _ & _ & _ & _ & Hn' & _).
  destruct (commit_ready_pres rw _ _ _ H1 P1 HI) as (A1 & _ & C1 & (_ & D2 & _) & E1 & F1).
  assert (P2' : persist_pre n1 (rn_max_number n1)).
  { unfold persist_pre in *. rewrite E1, F1, D2, C1. exact P2. }
  assert (E : nlog n' = nlog n2) by (subst n'; exact (gen_light_ready_log _ _ _ H3)).
  rewrite E. eapply crel_trans; [eapply commit_ready_crel; eassumption|eapply on_persist_ready_crel; eassumption].
Qed.

Lemma store_write_base rw l st' :
  store_write l st' -> RepInv rw l -> ll_base (abs l) <= ll_base (abs (set_store l st')).
Proof.
  intros W HI. destruct W.
  - rewrite (proj2 (write_meta_pres rw l m' H H0 H1 H2 HI)). lia.
  - destruct (write_entries_pres rw l st' HI H H0) as (_ & -> & _). lia.
  - destruct (write_snapshot_pres rw l s st' HI H H0) as (_ & -> & _). lia.
  - destruct (write_entries_after_snapshot_pres rw l s st' HI H H0 H1) as (_ & -> & _). lia.
  - assert (HF : RepInv false l) by (apply RepInv_close_window; [apply (RepInv_true rw); exact HI|exact H0]).
    destruct (N.le_gt_cases ci (first_of (store l))) as [Hle|Hgt].
    + rewrite (store_compact_noop false l ci HF Hle) in H4. inversion H4; subst st'.
      replace (set_store l (store l)) with l by (destruct l; reflexivity). lia.
    + destruct (store_compact_ok l ci HF H Hgt H1 H2 H3) as (st2 & Hc2 & _ & Habs & _).
      rewrite H4 in Hc2. inversion Hc2; subst st2. rewrite Habs. unfold abs. rewrite H. cbn [ll_base]. lia.
Qed.

(* C05 (2), per call of the RawNode API (and per storage write) *)
Theorem exec_crel rw n o n' ot :
  exec n o = Ok (n', ot) -> op_wf n o -> NLI rw n -> crel (nlog n) (nlog n').
Proof.
  intros H W HI. unfold NLI in HI.
  assert (Hstep : forall m x, step (rn_raft n) m = Ok x -> msg_wf (nlast n) m ->
            crel (nlog n) (r_log (fst x))).
  { intros m [r1 c1] Hs Wm. cbn [fst]. exact (step_rcrel rw _ _ _ _ Hs Wm HI). }
  assert (Hplain : forall m x, step (rn_raft n) m = Ok x ->
            elect_type (m_type m) = false -> m_type m <> MsgPropose -> m_type m <> MsgAppend ->
            m_type m <> MsgSnapshot -> crel (nlog n) (r_log (fst x))).
  { intros m x Hs A B C0 D. eapply Hstep; [exact Hs|apply msg_wf_plain; assumption]. }
  destruct o; cbn [exec op_wf] in H, W; unfold quiet, quiet1 in H;
    try (inv_bind H; inversion H; subst; clear H).
  - unfold rn_step, lift2 in Hx. destruct (is_local_msg (m_type m)); [inversion Hx; subst; apply crel_refl|].
    match type of Hx with (if ?c then _ else _) = _ => destruct c end; [|inversion Hx; subst; apply crel_refl].
    inv_bind Hx. inversion Hx; subst. cbn. eapply Hstep; eassumption.
  - unfold rn_tick in Hx. inv_bind Hx. destruct x0 as [r1 b1]. inversion Hx; subst. cbn.
    exact (tick_rcrel rw _ _ _ Hx0 HI W).
  - unfold rn_campaign, lift2 in Hx. inv_bind Hx. inversion Hx; subst. cbn.
    eapply Hstep; [exact Hx0|]. unfold msg_wf. cbn. splits; try (intros E; discriminate). intros _. exact W.
  - unfold rn_propose, lift2 in Hx. inv_bind Hx. inversion Hx; subst. cbn.
    eapply Hstep; [exact Hx0|]. unfold msg_wf. cbn. splits; try (intros E; discriminate). intros _. exact W.
  - unfold rn_propose_conf_change, lift2 in Hx. inv_bind Hx. inversion Hx; subst. cbn.
    eapply Hstep; [exact Hx0|]. unfold msg_wf. cbn. splits; try (intros E; discriminate). intros _. exact W.
  - unfold rn_apply_conf_change in Hx. inv_bind Hx. destruct x0 as [r1 o1]. inversion Hx; subst. cbn.
    exact (raft_apply_conf_change_rcrel rw _ _ _ _ Hx0 HI).
  - rewrite (rn_ping_log _ _ Hx). apply crel_refl.
  - destruct x as [n1 rd]. cbn [fst]. rewrite (rn_ready_log _ _ _ Hx). apply crel_refl.
  - (* advance *)
    destruct x as [n1 lr]. cbn [fst]. destruct W as [W1 W2].
    unfold rn_advance in Hx. inv_bind Hx. destruct x as [n2 lr2]. cbn [fst snd] in Hx.
    inv_bind Hx. inversion Hx; subst.
    destruct (rn_advance_append_pres rw _ _ _ _ Hx0 W1 HI) as (A1 & B1 & _).
    eapply crel_trans; [eapply advance_append_crel; eassumption|].
    unfold rn_advance_apply_to, lift in Hx1. inv_bind Hx1. inversion Hx1; subst. unfold nlog. cbn.
    refine (proj1 (commit_apply_rel rw _ _ _ Hx2 A1 _)). intros _.
    unfold nroom, room in *. unfold NLI, LI in A1. unfold nlog in B1.
    rewrite (abs_last rw _ A1), B1, <- (abs_last rw _ HI). exact W2.
  - destruct x as [n1 lr]. cbn [fst]. eapply advance_append_crel; eassumption.
  - unfold rn_advance_append_async in Hx. eapply commit_ready_crel; eassumption.
  - eapply on_persist_ready_crel; eassumption.
  - unfold rn_advance_apply, rn_advance_apply_to, lift in Hx. inv_bind Hx. inversion Hx; subst. unfold nlog. cbn.
    exact (proj1 (commit_apply_rel rw _ _ _ Hx0 HI W)).
  - unfold rn_advance_apply_to, lift in Hx. inv_bind Hx. inversion Hx; subst. unfold nlog. cbn.
    exact (proj1 (commit_apply_rel rw _ _ _ Hx0 HI W)).
  - unfold rn_report_unreachable in Hx. inv_bind Hx. inversion Hx; subst. cbn.
    eapply Hplain; [exact Hx0| | | |]; cbn; (reflexivity || discriminate).
  - unfold rn_report_snapshot in Hx. inv_bind Hx. inversion Hx; subst. cbn.
    eapply Hplain; [exact Hx0| | | |]; cbn; (reflexivity || discriminate).
  - destruct x as [n1 c]. cbn [fst]. rewrite (rn_request_snapshot_log _ _ _ Hx). apply crel_refl.
  - unfold rn_transfer_leader in Hx. inv_bind Hx. inversion Hx; subst. cbn.
    eapply Hplain; [exact Hx0| | | |]; cbn; (reflexivity || discriminate).
  - unfold rn_read_index in Hx. inv_bind Hx. inversion Hx; subst. cbn.
    eapply Hplain; [exact Hx0| | | |]; cbn; (reflexivity || discriminate).
  - (* storage write *)
    inversion H; subst. change (crel (nlog n) (set_store (nlog n) m)).
    destruct (store_write_pres rw _ _ W HI) as (_ & _ & P).
    unfold crel. cbn [set_store committed]. splits; [lia|exact (store_write_base rw _ _ W HI)|exact P].
Qed.

Theorem wrun_crel rw n n' : wrun n n' -> NLI rw n -> crel (nlog n) (nlog n').
Proof.
  intros R. induction R as [|n o n1 ot n' W E R IH]; intros HI; [apply crel_refl|].
  eapply crel_trans; [eapply exec_crel; eassumption|]. apply IH. eapply exec_pres; eassumption.
Qed.

(* the trace form: an entry once at or below the commit index stays what it is for as long
   as the log retains its index, and the commit index never goes back *)
Theorem committed_entries_stable c st sa dr n0 n n' :
  rn_new c st sa dr = Ok (inr n0) -> SInv st -> trig_log st = false ->
  wrun n0 n -> wrun n n' ->
  committed (nlog n) <= committed (nlog n')
  /\ forall i e, i <= committed (nlog n) -> ll_get (abs (nlog n)) i = Some e ->
       ll_base (abs (nlog n')) < i -> ll_get (abs (nlog n')) i = Some e.
Proof.
  intros H Hs Hq R1 R2. destruct (rn_new_pres _ _ _ _ _ H Hs Hq) as (A & _).
  pose proof (wrun_pres true _ _ R1 A) as HI.
  destruct (wrun_crel true _ _ R2 HI) as (C1 & _ & C3). split; [exact C1|].
  intros i e Hi Hg Hb. rewrite (C3 i Hi Hb). exact Hg.
Qed.

(* a snapshot install, exactly: the log becomes the empty log based at the snapshot, which
   is at or above the old commit index (entries leave the log only by being covered) *)
Theorem restore_installs rw r s r' :
  restore r s = Ok (r', true) -> s_index s < u64_max -> LI rw r ->
  abs (r_log r') = mkLL (s_index s) (Some (s_term s)) []
  /\ committed (r_log r) <= s_index s /\ s_index s <= committed (r_log r').
Proof.
  unfold restore. intros H Hb HI.
  destruct (s_index s <? committed (r_log r)); [discriminate|].
  destruct (negb (role_eqb (r_state r) Follower)). { inv_bind H. discriminate. }
  match type of H with (if ?c then _ else _) = _ => destruct c end; [discriminate|].
  inv_bind H.
  match type of H with (if ?c then _ else _) = _ => destruct c end. { inv_bind H. discriminate. }
  inv_bind H.
  destruct (log_restore_pres rw _ _ _ Hx0 HI Hb) as (A & _).
  destruct (log_restore_crel rw _ _ _ Hx0 HI Hb) as (_ & Habs & Hc & Hc').
  destruct (ConfChange.restore empty_tracker (s_cs s)) as [[c' ids']|e]; [|discriminate].
  inv_bind H. destruct x1 as [r1 new_cs].
  match type of Hx1 with post_conf_change ?ra = _ => assert (Ha : LI rw ra) by exact A end.
  destruct (post_conf_change_pres rw _ _ _ Hx1 Ha) as [_ S].
  destruct (post_conf_change_rcrel rw _ _ _ Hx1 Ha) as (C & _).
  match type of H with (if ?c then _ else _) = _ => destruct c end; [discriminate|].
  destruct (get_pr r1 (r_id r1)) as [pr|]; [|discriminate].
  destruct (next_idx pr =? 0); [discriminate|]. inversion H; subst. cbn in *.
  rewrite (same_su_abs _ _ S). splits; [exact Habs|exact Hc|lia].
Qed.

(* ================================================================== *)
(* Part 3. A leader only appends                                        *)
(* ================================================================== *)
Lemma rgrows_eq r r' : r_log r' = r_log r -> grows (r_log r) (r_log r').
Proof. intros ->. apply grows_refl. Qed.

Lemma same_su_grows l l' : same_su l l' -> grows l l'.
Proof. intros S. apply grows_abs_eq. apply same_su_abs. exact S. Qed.

Lemma handle_append_response_su rw r m r' :
  handle_append_response r m = Ok r' -> LI rw r -> same_su (r_log r) (r_log r').
Proof.
  intros H HI.
  unfold handle_append_response in H. inv_bind H. clear Hx.
  destruct (get_pr r (m_from m)) as [pr|]; [|inversion H; subst; apply same_su_refl].
  destruct (m_reject m).
  { destruct (maybe_decr_to _ _ _ _) as [pr1 dec]. destruct dec.
    - apply send_append_to_log in H. rewrite H. apply same_su_refl.
    - inversion H; subst. apply same_su_refl. }
  destruct (maybe_update _ _) as [pr1 upd]. destruct upd; cbn [negb] in H.
  2:{ inversion H; subst. apply same_su_refl. }
  inv_bind H. clear Hx. inv_bind H. destruct x1 as [r1 cmt].
  match type of Hx with Raft.maybe_commit ?ra = _ => assert (Ha : LI rw ra) by exact HI end.
  destruct (maybe_commit_pres rw _ _ _ Hx Ha) as [_ C]. cbn in C. inv_bind H. inv_bind H.
  assert (E2 : r_log x1 = r_log r1).
  { destruct cmt.
    - destruct (should_bcast_commit r1); [eapply bcast_append_log; eassumption|].
      inversion Hx0; reflexivity.
    - destruct (is_paused _); [eapply send_append_to_log; eassumption|].
      inversion Hx0; reflexivity. }
  apply send_append_aggressively_log in Hx1.
  assert (E4 : r_log r' = r_log x2).
  { destruct (r_lead_transferee x2); [|inversion H; reflexivity].
    destruct (n =? m_from m); [|inversion H; reflexivity].
    destruct (get_pr x2 (m_from m)); [|discriminate].
    destruct (matched p =? last_index (r_log x2)); [eapply send_timeout_now_log; exact H|].
    inversion H; reflexivity. }
  rewrite E4, Hx1, E2. exact C.
Qed.

(* whatever a node in the leader role is stepped with in step_leader, its log only grows
   (a demotion by MsgCheckQuorum leaves the log alone) *)
Lemma step_leader_grows rw r m r' c :
  step_leader r m = Ok (r', c) -> msg_wf (last_index (r_log r)) m -> LI rw r ->
  grows (r_log r) (r_log r').
Proof.
  unfold step_leader. intros H (_ & Wp & _ & _) HI.
  destruct (m_type m =? MsgBeat).
  { inv_bind H. inversion H; subst. apply rgrows_eq. eapply bcast_heartbeat_log; exact Hx. }
  destruct (m_type m =? MsgCheckQuorum).
  { destruct (quorum_recently_active (r_prs r) (r_id r)) as [prs' active] eqn:Eq.
    destruct active; cbn [negb] in H.
    - inversion H; subst. apply grows_refl.
    - inv_bind H. inversion H; subst. rewrite (become_follower_log _ _ _ _ Hx). cbn.
      apply grows_abs_eq. apply abs_ext; reflexivity. }
  destruct (m_type m =? MsgPropose) eqn:Ep.
  { apply N.eqb_eq in Ep. specialize (Wp Ep).
    destruct (m_entries m) as [|e0 es] eqn:Ee; [discriminate|]. rewrite <- Ee in *.
    destruct (get_pr r (r_id r)); [|inversion H; subst; apply grows_refl].
    destruct (r_lead_transferee r); [inversion H; subst; apply grows_refl|].
    dfilter H. pose proof (filter_conf_changes_log _ _ _ _ _ _ _ F) as El.
    pose proof (filter_length _ _ _ _ _ _ _ F) as Hlen.
    assert (H1 : LI rw a) by (eapply LI_same; eassumption).
    destruct c0; cbn [negb] in H; [|inversion H; subst; apply rgrows_eq; exact El].
    inv_bind H. destruct x as [r2 appended].
    destruct (append_entry_rel rw _ _ _ _ Hx H1) as (_ & G).
    { unfold room. rewrite El, Hlen. exact Wp. }
    rewrite El in G.
    destruct appended; cbn [negb] in H.
    - inv_bind H. inversion H; subst. apply bcast_append_log in Hx0. rewrite Hx0. exact G.
    - inversion H; subst. exact G. }
  destruct (m_type m =? MsgReadIndex).
  { inv_bind H. destruct (negb x); [inversion H; subst; apply grows_refl|].
    assert (Hans : forall ra c',
      (x0 <- handle_ready_read_index r m (committed (r_log r)) ;;
       let '(r1, om) := x0 in
       r2 <- match om with Some mm => send r1 mm | None => Ok r1 end ;; Ok (r2, E_OK)) = Ok (ra, c') ->
      grows (r_log r) (r_log ra)).
    { intros ra c' Ha. inv_bind Ha. destruct x0 as [r1 om]. inv_bind Ha. inversion Ha; subst.
      apply handle_ready_read_index_log in Hx0. apply rgrows_eq.
      destruct om; [apply send_log in Hx1|inversion Hx1; subst]; congruence. }
    match type of H with (if ?c then _ else _) = _ => destruct c end; [eapply Hans; exact H|].
    destruct (ro_option (r_read_only r) =? 0); [|eapply Hans; exact H].
    inv_bind H. inv_bind H. inv_bind H. inversion H; subst.
    apply bcast_heartbeat_with_ctx_log in Hx2. apply rgrows_eq. exact Hx2. }
  destruct (m_type m =? MsgAppendResponse).
  { inv_bind H. inversion H; subst. apply same_su_grows. eapply handle_append_response_su; eassumption. }
  destruct (m_type m =? MsgHeartbeatResponse).
  { inv_bind H. inversion H; subst. apply rgrows_eq. eapply handle_heartbeat_response_log; eassumption. }
  destruct (m_type m =? MsgSnapStatus).
  { inv_bind H. inversion H; subst. apply rgrows_eq. eapply handle_snapshot_status_log; eassumption. }
  destruct (m_type m =? MsgUnreachable).
  { inv_bind H. inversion H; subst. apply rgrows_eq. eapply handle_unreachable_log; eassumption. }
  destruct (m_type m =? MsgTransferLeader).
  { inv_bind H. inversion H; subst. apply rgrows_eq. eapply handle_transfer_leader_log; eassumption. }
  inversion H; subst. apply grows_refl.
Qed.

Lemma step_body_leader_grows rw r m r' c :
  r_state r = Leader -> RaftProofsC08.step_body r m = Ok (r', c) ->
  msg_wf (last_index (r_log r)) m -> LI rw r -> grows (r_log r) (r_log r').
Proof.
  unfold RaftProofsC08.step_body. intros Hs H W HI.
  assert (Hl : is_leader r = true) by (unfold is_leader; rewrite Hs; reflexivity).
  destruct (m_type m =? MsgHup).
  { inv_bind H. inversion H; subst. apply hup_spec in Hx.
    destruct Hx as [[_ ->]|[(C & _)|[(C & _)|(C & _)]]]; [apply grows_refl|congruence|congruence|congruence]. }
  match type of H with (if ?c then _ else _) = _ => destruct c end.
  { inv_bind H. inv_bind H.
    match type of H with (if ?c then _ else _) = _ => destruct c end.
    - inv_bind H. apply send_log in Hx1.
      destruct (m_type m =? MsgRequestVote); inversion H; subst; apply rgrows_eq; exact Hx1.
    - inv_bind H. inv_bind H. inv_bind H. inversion H; subst.
      destruct (send_exact _ _ _ Hx2) as (m' & Em & _). apply send_log in Hx2.
      apply maybe_commit_by_vote_spec in Hx3.
      destruct Hx3 as [-> |(l' & b & _ & _ & _ & Hnl & _)]; [apply rgrows_eq; exact Hx2|].
      exfalso. rewrite Em in Hnl. unfold is_leader in *. cbn in Hnl. congruence. }
  unfold step_role in H. rewrite Hs in H. eapply step_leader_grows; eassumption.
Qed.

(* C05 (1), step: leader of the same term before and after => the log only grew *)
Theorem step_leader_append_only rw r m r' c :
  step r m = Ok (r', c) -> r_state r = Leader -> r_state r' = Leader -> r_term r' = r_term r ->
  msg_wf (last_index (r_log r)) m -> LI rw r -> grows (r_log r) (r_log r').
Proof.
  intros H Hs Hs' Ht W HI. rewrite step_decompose in H. inv_bind H. apply step_prologue_spec in Hx.
  destruct x as [[r1 c1]|r1].
  - inversion H; subst. apply rgrows_eq. apply lf_log. apply Hx.
  - destruct Hx as [-> |(Hlt & l & Hbf)]; [eapply step_body_leader_grows; eassumption|].
    exfalso. apply become_follower_fields in Hbf. destruct Hbf as (_ & _ & _ & _ & _ & _ & Ht1 & _).
    assert (Hb : RaftProofsC16.step_body r1 m = Ok (r', c)) by exact H.
    apply RaftProofsC16.step_body_term in Hb. destruct Hb as [_ [Hb|[Hb _]]]; lia.
Qed.

Theorem tick_leader_append_only rw r r' b :
  tick r = Ok (r', b) -> r_state r = Leader -> LI rw r -> grows (r_log r) (r_log r').
Proof.
  unfold tick. intros H Hs HI. rewrite Hs in H. unfold tick_heartbeat in H.
  inv_bind H. destruct x as [r1 hr].
  (* a local message (term 0) stepped into a leader goes to step_leader *)
  assert (Hloc : forall ra mm x, r_state ra = Leader -> m_term mm = 0 -> (m_type mm =? MsgHup) = false ->
            (m_type mm =? MsgRequestVote) || (m_type mm =? MsgRequestPreVote) = false ->
            msg_wf (last_index (r_log ra)) mm -> LI rw ra -> step ra mm = Ok x ->
            grows (r_log ra) (r_log (fst x)) /\ LI rw (fst x)).
  { intros ra mm [rb cb] Hsa Hz Hh Hv Wm Ha Hst. cbn [fst].
    split; [|eapply step_pres; eassumption].
    rewrite (step_same_term ra mm (or_introl Hz) Hh Hv) in Hst.
    unfold step_role in Hst. rewrite Hsa in Hst. eapply step_leader_grows; eassumption. }
  assert (H1 : grows (r_log r) (r_log r1) /\ LI rw r1).
  { match type of Hx with (if ?c then _ else _) = _ => destruct c end;
      [|inversion Hx; subst; split; [apply grows_refl|exact HI]].
    inv_bind Hx. destruct x as [rb hb]. inversion Hx; subst.
    assert (Hb : grows (r_log r) (r_log rb) /\ LI rw rb).
    { destruct (r_check_quorum _); [|inversion Hx0; subst; split; [apply grows_refl|exact HI]].
      inv_bind Hx0. inversion Hx0; subst.
      match type of Hx1 with step ?ra ?mm = _ =>
        destruct (Hloc ra mm x Hs eq_refl eq_refl eq_refl) as [A B];
          [apply msg_wf_plain; cbn; [reflexivity|discriminate|discriminate|discriminate]|exact HI|exact Hx1|] end.
      split; [exact A|exact B]. }
    match goal with |- grows _ (r_log (if ?c then _ else _)) /\ _ => destruct c end; exact Hb. }
  destruct H1 as [G1 H1].
  destruct (negb (is_leader r1)) eqn:El; [inversion H; subst; exact G1|].
  match type of H with (if ?c then _ else _) = _ => destruct c end; [|inversion H; subst; exact G1].
  inv_bind H. inversion H; subst.
  assert (Hs1 : r_state r1 = Leader).
  { apply negb_false_iff in El. unfold is_leader in El. destruct (r_state r1); try discriminate. reflexivity. }
  match type of Hx0 with step ?ra ?mm = _ =>
    destruct (Hloc ra mm x Hs1 eq_refl eq_refl eq_refl) as [A _];
      [apply msg_wf_plain; cbn; [reflexivity|discriminate|discriminate|discriminate]|exact H1|exact Hx0|] end.
  eapply grows_trans; [exact G1|exact A].
Qed.

Theorem on_persist_entries_grows rw r i t r' :
  on_persist_entries r i t = Ok r' -> LI rw r -> grows (r_log r) (r_log r').
Proof. intros H HI. apply same_su_grows. exact (proj2 (on_persist_entries_pres rw _ _ _ _ H HI)). Qed.

Theorem raft_apply_conf_change_grows rw r cc r' ocs :
  raft_apply_conf_change r cc = Ok (r', ocs) -> LI rw r -> grows (r_log r) (r_log r').
Proof. intros H HI. apply same_su_grows. exact (proj2 (raft_apply_conf_change_pres rw _ _ _ _ H HI)). Qed.

(* C05 (1), every RawNode entry point: a node that is leader of the same term before and
   after the call has only appended to its log *)
Theorem exec_leader_append_only rw n o n' ot :
  exec n o = Ok (n', ot) -> op_wf n o -> NLI rw n -> (forall m, o <> OSetStore m) ->
  r_state (rn_raft n) = Leader -> r_state (rn_raft n') = Leader ->
  r_term (rn_raft n') = r_term (rn_raft n) -> grows (nlog n) (nlog n').
Proof.
  intros H W HI Hns Hs Hs' Ht. unfold NLI in HI.
  assert (Hstep : forall m x, step (rn_raft n) m = Ok x -> msg_wf (nlast n) m ->
            r_state (fst x) = Leader -> r_term (fst x) = r_term (rn_raft n) ->
            grows (nlog n) (r_log (fst x))).
  { intros m [r1 c1] Hst Wm A B. cbn [fst] in *. exact (step_leader_append_only rw _ _ _ _ Hst Hs A B Wm HI). }
  assert (Haa : forall rd n1 lr, advance_pre n -> rn_advance_append n rd = Ok (n1, lr) ->
            grows (nlog n) (nlog n1) /\ NLI rw n1 /\ last_index (nlog n1) = last_index (nlog n)
            /\ is_leader (rn_raft n1) = is_leader (rn_raft n1)).
  { intros rd n1 lr P Ha. destruct (rn_advance_append_pres rw _ _ _ _ Ha P HI) as (A & B & _).
    splits; auto; [apply grows_abs_eq; exact B|].
    unfold nlog in *. rewrite (abs_last rw _ A), B. symmetry. apply (abs_last rw). exact HI. }
  destruct o; try (exfalso; eapply Hns; reflexivity); cbn [exec op_wf] in H, W; unfold quiet, quiet1 in H;
    inv_bind H; inversion H; subst; clear H; cbn [fst] in *.
  - unfold rn_step, lift2 in Hx. destruct (is_local_msg (m_type m)); [inversion Hx; subst; apply grows_refl|].
    match type of Hx with (if ?c then _ else _) = _ => destruct c end; [|inversion Hx; subst; apply grows_refl].
    inv_bind Hx. inversion Hx; subst. cbn in *. eapply Hstep; eassumption.
  - unfold rn_tick in Hx. inv_bind Hx. destruct x0 as [r1 b1]. inversion Hx; subst. cbn.
    exact (tick_leader_append_only rw _ _ _ Hx0 Hs HI).
  - unfold rn_campaign, lift2 in Hx. inv_bind Hx. inversion Hx; subst. cbn in *.
    eapply Hstep; [exact Hx0| |exact Hs'|exact Ht].
    unfold msg_wf. cbn. splits; try (intros E; discriminate). intros _. exact W.
  - unfold rn_propose, lift2 in Hx. inv_bind Hx. inversion Hx; subst. cbn in *.
    eapply Hstep; [exact Hx0| |exact Hs'|exact Ht].
    unfold msg_wf. cbn. splits; try (intros E; discriminate). intros _. exact W.
  - unfold rn_propose_conf_change, lift2 in Hx. inv_bind Hx. inversion Hx; subst. cbn in *.
    eapply Hstep; [exact Hx0| |exact Hs'|exact Ht].
    unfold msg_wf. cbn. splits; try (intros E; discriminate). intros _. exact W.
  - unfold rn_apply_conf_change in Hx. inv_bind Hx. destruct x0 as [r1 o1]. inversion Hx; subst. cbn.
    exact (raft_apply_conf_change_grows rw _ _ _ _ Hx0 HI).
  - rewrite (rn_ping_log _ _ Hx). apply grows_refl.
  - destruct x as [n1 rd]. cbn [fst]. rewrite (rn_ready_log _ _ _ Hx). apply grows_refl.
  - destruct x as [n1 lr]. cbn [fst] in *. destruct W as [W1 W2].
    unfold rn_advance in Hx. inv_bind Hx. destruct x as [n2 lr2]. cbn [fst snd] in Hx.
    inv_bind Hx. inversion Hx; subst.
    destruct (Haa _ _ _ W1 Hx0) as (G1 & A1 & L1 & _).
    eapply grows_trans; [exact G1|].
    unfold rn_advance_apply_to, lift in Hx1. inv_bind Hx1. inversion Hx1; subst. unfold nlog. cbn.
    refine (proj2 (commit_apply_rel rw _ _ _ Hx2 A1 _)). intros _.
    unfold nroom, room, nlog in *. rewrite L1. exact W2.
  - destruct x as [n1 lr]. cbn [fst] in *. exact (proj1 (Haa _ _ _ W Hx)).
  - unfold rn_advance_append_async in Hx. destruct (commit_ready_pres rw _ _ _ Hx W HI) as (_ & B & _).
    apply grows_abs_eq. exact B.
  - destruct (rn_on_persist_ready_pres rw _ _ _ Hx W HI) as (_ & S). apply same_su_grows. exact S.
  - unfold rn_advance_apply, rn_advance_apply_to, lift in Hx. inv_bind Hx. inversion Hx; subst. unfold nlog. cbn.
    exact (proj2 (commit_apply_rel rw _ _ _ Hx0 HI W)).
  - unfold rn_advance_apply_to, lift in Hx. inv_bind Hx. inversion Hx; subst. unfold nlog. cbn.
    exact (proj2 (commit_apply_rel rw _ _ _ Hx0 HI W)).
  - unfold rn_report_unreachable in Hx. inv_bind Hx. inversion Hx; subst. cbn in *.
    eapply Hstep; [exact Hx0| |exact Hs'|exact Ht].
    apply msg_wf_plain; cbn; (reflexivity || discriminate).
  - unfold rn_report_snapshot in Hx. inv_bind Hx. inversion Hx; subst. cbn in *.
    eapply Hstep; [exact Hx0| |exact Hs'|exact Ht].
    apply msg_wf_plain; cbn; (reflexivity || discriminate).
  - destruct x as [n1 c]. cbn [fst]. rewrite (rn_request_snapshot_log _ _ _ Hx). apply grows_refl.
  - unfold rn_transfer_leader in Hx. inv_bind Hx. inversion Hx; subst. cbn in *.
    eapply Hstep; [exact Hx0| |exact Hs'|exact Ht].
    apply msg_wf_plain; cbn; (reflexivity || discriminate).
  - unfold rn_read_index in Hx. inv_bind Hx. inversion Hx; subst. cbn in *.
    eapply Hstep; [exact Hx0| |exact Hs'|exact Ht].
    apply msg_wf_plain; cbn; (reflexivity || discriminate).
Qed.

(* the storage writes: the logical log is unchanged, except that a compaction forgets a
   prefix at or below the applied index *)
Theorem store_write_forgets_prefix rw l st' :
  store_write l st' -> RepInv rw l ->
  abs (set_store l st') = abs l
  \/ exists k, ll_ents (abs (set_store l st')) = skipn k (ll_ents (abs l))
       /\ ll_base (abs (set_store l st')) = ll_base (abs l) + N.of_nat k
       /\ ll_base (abs (set_store l st')) < applied l.
Proof.
  intros W HI. destruct W.
  - left. exact (proj2 (write_meta_pres rw l m' H H0 H1 H2 HI)).
  - left. exact (proj1 (proj2 (write_entries_pres rw l st' HI H H0))).
  - left. exact (proj1 (proj2 (write_snapshot_pres rw l s st' HI H H0))).
  - left. exact (proj1 (proj2 (write_entries_after_snapshot_pres rw l s st' HI H H0 H1))).
  - assert (HF : RepInv false l) by (apply RepInv_close_window; [apply (RepInv_true rw); exact HI|exact H0]).
    destruct (N.le_gt_cases ci (first_of (store l))) as [Hle|Hgt].
    + left. rewrite (store_compact_noop false l ci HF Hle) in H4. inversion H4; subst st'.
      replace (set_store l (store l)) with l by (destruct l; reflexivity). reflexivity.
    + right. destruct (store_compact_ok l ci HF H Hgt H1 H2 H3) as (st2 & Hc2 & _ & Habs & _).
      rewrite H4 in Hc2. inversion Hc2; subst st2. rewrite Habs. cbn [ll_base ll_ents].
      exists (N.to_nat (ci - first_of (store l))). split; [reflexivity|].
      unfold abs. rewrite H. cbn [ll_base]. pose proof (first_pos _ (ri_store rw l HI)). lia.
Qed.

(* ================================================================== *)
(* Part 4. The consistency check of handle_append_entries               *)
(* ================================================================== *)
Lemma find_conflict_prefix_match L ents : forall j,
  contiguous_from j ents -> 0 < j ->
  forall k e, nth_error ents k = Some e ->
    (ll_find_conflict L ents = 0 \/ j + N.of_nat k < ll_find_conflict L ents) ->
    ll_match L (e_index e) (e_term e) = true.
Proof.
  induction ents as [|e0 rest IH]; intros j Hc Hj k e Hk Hci; [destruct k; discriminate|].
  destruct Hc as [He Hc]. cbn [ll_find_conflict] in Hci.
  destruct (ll_match L (e_index e0) (e_term e0)) eqn:Em.
  - destruct k as [|k]; cbn [nth_error] in Hk.
    + inversion Hk; subst. exact Em.
    + apply (IH (j + 1) Hc ltac:(lia) k e Hk). destruct Hci as [Hci|Hci]; [left; exact Hci|right; lia].
  - exfalso. destruct Hci as [Hci|Hci]; lia.
Qed.

Lemma ll_match_get L i t :
  ll_match L i t = true -> t <> 0 -> ll_base L < i ->
  exists e', ll_get L i = Some e' /\ e_term e' = t.
Proof.
  intros Hm Ht Hb. pose proof (ll_match_in_range L i t Hm Ht) as Hr.
  unfold ll_match, ll_term in Hm.
  destruct ((i <? ll_base L) || (ll_last L <? i)) eqn:E; [cbn in Hm; lia|].
  destruct (i =? ll_base L) eqn:E2; [lia|].
  destruct (ll_get L i) as [e'|]; cbn in Hm; [exists e'; split; [reflexivity|lia]|lia].
Qed.

Lemma ll_get_append_at L e0 t k :
  ll_base L < e_index e0 -> e_index e0 <= ll_last L + 1 ->
  ll_get (ll_append L (e0 :: t)) (e_index e0 + N.of_nat k) = nth_error (e0 :: t) k.
Proof.
  intros H1 H2. unfold ll_get, ll_append, ll_last in *. cbn [ll_base ll_ents].
  destruct (e_index e0 + N.of_nat k <=? ll_base L) eqn:E; [lia|].
  rewrite nth_error_app2; rewrite firstn_length; [|lia]. f_equal. lia.
Qed.

(* the three ways handle_append_entries answers; an acceptance of (2) is the consistency
   check: the follower's log has term m_log_term at m_index, afterwards every message entry
   has a log entry with its index and term, and from the first conflicting index on the log
   holds exactly the message's entries *)
Theorem append_check rw r m r' :
  handle_append_entries r m = Ok r' -> LI rw r ->
  contiguous_from (m_index m + 1) (m_entries m) -> nz_terms (m_entries m) ->
  (m_index m <= last_index (r_log r) \/ m_log_term m <> 0) ->
  m_index m + N.of_nat (length (m_entries m)) < u64_max ->
  let L := abs (r_log r) in
  let i := m_index m in
  let lastnew := m_index m + N.of_nat (length (m_entries m)) in
  exists resp, r_msgs r' = r_msgs r ++ [resp] /\ m_type resp = MsgAppendResponse /\
  ( (* (0) a snapshot was requested: the append is not looked at *)
    (r_pending_request_snapshot r <> INVALID_INDEX /\ r_log r' = r_log r /\ m_reject resp = true)
    \/ (* (1) stale: everything up to the commit index is known to match *)
    (r_pending_request_snapshot r = INVALID_INDEX /\ i < committed (r_log r) /\ r_log r' = r_log r
     /\ m_reject resp = false /\ m_index resp = committed (r_log r))
    \/ (* (2) accepted *)
    (r_pending_request_snapshot r = INVALID_INDEX /\ committed (r_log r) <= i
     /\ ll_term L i = SOk (m_log_term m)
     /\ m_reject resp = false /\ m_index resp = lastnew
     /\ abs (r_log r') = ll_maybe_append L i (m_entries m)
     /\ committed (r_log r') = N.max (committed (r_log r)) (N.min (m_commit m) lastnew)
     /\ (forall k e, nth_error (m_entries m) k = Some e ->
           exists e', ll_get (abs (r_log r')) (i + 1 + N.of_nat k) = Some e'
                      /\ e_term e' = e_term e /\ e_index e' = e_index e)
     /\ (forall k e, nth_error (m_entries m) k = Some e ->
           ll_find_conflict L (m_entries m) <> 0 ->
           ll_find_conflict L (m_entries m) <= i + 1 + N.of_nat k ->
           ll_get (abs (r_log r')) (i + 1 + N.of_nat k) = Some e))
    \/ (* (3) rejected: no such term at m_index *)
    (r_pending_request_snapshot r = INVALID_INDEX /\ committed (r_log r) <= i
     /\ ll_term L i <> SOk (m_log_term m) /\ r_log r' = r_log r
     /\ m_reject resp = true /\ m_index resp = i) ).
Proof.
  intros H HI Hc Hnz Hit Hb L i lastnew. unfold handle_append_entries in H.
  rewrite (abs_last rw _ HI) in Hit. fold L in Hit.
  destruct (negb (r_pending_request_snapshot r =? INVALID_INDEX)) eqn:Ep.
  { apply negb_true_iff, N.eqb_neq in Ep. unfold send_request_snapshot in H.
    inv_bind H. destruct x; [|discriminate].
    destruct (send_exact _ _ _ H) as (m' & -> & Ty & _ & _ & _ & _ & Rj).
    exists m'. split; [reflexivity|]. split; [exact Ty|]. left. auto. }
  apply negb_false_iff, N.eqb_eq in Ep.
  destruct (m_index m <? committed (r_log r)) eqn:Elt.
  { apply N.ltb_lt in Elt. destruct (send_exact _ _ _ H) as (m' & -> & Ty & _ & _ & Ix & _ & Rj).
    exists m'. split; [reflexivity|]. split; [exact Ty|]. right; left. splits; auto. }
  apply N.ltb_ge in Elt. inv_bind H. destruct x as [l' res].
  destruct (ll_match L i (m_log_term m)) eqn:Em.
  - (* accepted *)
    remember (ll_find_conflict L (m_entries m)) as ci eqn:Eci.
    assert (Hci : ci = 0 \/ committed (r_log r) < ci).
    { destruct (N.eq_dec ci 0) as [Hz|Hz]; [left; exact Hz|]. right.
      destruct (N.lt_ge_cases (committed (r_log r)) ci) as [Hlt|Hge]; [exact Hlt|]. exfalso.
      rewrite (maybe_append_fatal rw _ _ _ _ _ HI Em) in Hx; [discriminate|]. fold L. rewrite <- Eci. lia. }
    destruct (maybe_append_ok rw _ _ _ (m_commit m) _ HI Hc Hnz Hit Hb Em ltac:(fold L; rewrite <- Eci; exact Hci))
      as (l2 & Hm2 & Hr & Habs & Hcm & _).
    rewrite Hx in Hm2. inversion Hm2; subst l2 res. clear Hm2.
    destruct (send_exact _ _ _ H) as (m' & Er' & Ty & _ & _ & Ix & _ & Rj).
    assert (Elog : r_log r' = l') by (rewrite Er'; reflexivity).
    assert (Emsg : r_msgs r' = r_msgs r ++ [m']) by (rewrite Er'; reflexivity).
    clear Er' H. rewrite Elog.
    exists m'. split; [exact Emsg|]. split; [exact Ty|]. right; right; left.
    assert (Hterm : ll_term L i = SOk (m_log_term m)).
    { unfold ll_match in Em. destruct (ll_term L i) as [t'|]; cbn in Em; [f_equal; lia|discriminate]. }
    assert (Hil : i <= ll_last L).
    { destruct Hit as [Hit|Hit]; [exact Hit|]. apply (ll_match_in_range _ _ _ Em Hit). }
    pose proof (base_le_committed rw _ HI) as Hbc. fold L in Hbc.
    fold L in Habs. splits; auto.
    + (* every message entry has a log entry with its index and term *)
      intros k e Hk. unfold ll_maybe_append in Habs. rewrite <- Eci in Habs.
      assert (Hidx : e_index e = i + 1 + N.of_nat k) by (apply (contig_nth _ _ _ _ Hc Hk)).
      assert (Hte : e_term e <> 0) by (unfold nz_terms in Hnz; rewrite Forall_forall in Hnz; apply Hnz; eapply nth_error_In; exact Hk).
      destruct (ci =? 0) eqn:E0.
      * rewrite Habs. apply N.eqb_eq in E0.
        pose proof (find_conflict_prefix_match L _ _ Hc ltac:(lia) k e Hk ltac:(left; congruence)) as Hme.
        destruct (ll_match_get L _ _ Hme Hte ltac:(lia)) as (e' & Hg & Ht').
        exists e'. rewrite <- Hidx. split; [exact Hg|]. split; [exact Ht'|].
        apply (ll_get_index L); [exact (abs_wf rw _ HI)|exact Hg].
      * apply N.eqb_neq in E0. destruct Hci as [Hci|Hci]; [lia|].
        destruct (find_conflict_props L _ (i + 1) Hc Hnz ltac:(lia) ltac:(lia))
          as [[Hz _]|(_ & F1 & F2 & F3 & e1 & r1 & Hsk & Hi1)]; rewrite <- Eci in *; [lia|].
        unfold i in Hsk. rewrite Hsk in Habs. rewrite Habs. fold i in Hsk.
        destruct (N.lt_ge_cases (i + 1 + N.of_nat k) ci) as [Hlt|Hge].
        -- rewrite ll_get_append_below by lia.
           pose proof (find_conflict_prefix_match L _ _ Hc ltac:(lia) k e Hk ltac:(right; rewrite <- Eci; lia)) as Hme.
           destruct (ll_match_get L _ _ Hme Hte ltac:(lia)) as (e' & Hg & Ht').
           exists e'. rewrite <- Hidx. split; [exact Hg|]. split; [exact Ht'|].
           apply (ll_get_index L); [exact (abs_wf rw _ HI)|exact Hg].
        -- exists e. split; [|split; reflexivity].
           replace (i + 1 + N.of_nat k) with (e_index e1 + N.of_nat (k - N.to_nat (ci - (i + 1)))) by lia.
           rewrite ll_get_append_at by lia. rewrite <- Hsk, nth_error_skipn'.
           replace (N.to_nat (ci - (i + 1)) + (k - N.to_nat (ci - (i + 1))))%nat with k by lia. exact Hk.
    + (* from the first conflict on: exactly the message's entries *)
      intros k e Hk Hn0 Hge. unfold ll_maybe_append in Habs. rewrite <- Eci in *.
      destruct (ci =? 0) eqn:E0; [apply N.eqb_eq in E0; lia|].
      destruct Hci as [Hci|Hci]; [lia|].
      destruct (find_conflict_props L _ (i + 1) Hc Hnz ltac:(lia) ltac:(lia))
        as [[Hz _]|(_ & F1 & F2 & F3 & e1 & r1 & Hsk & Hi1)]; rewrite <- Eci in *; [lia|].
      unfold i in Hsk. rewrite Hsk in Habs. rewrite Habs. fold i in Hsk.
      replace (i + 1 + N.of_nat k) with (e_index e1 + N.of_nat (k - N.to_nat (ci - (i + 1)))) by lia.
      rewrite ll_get_append_at by lia. rewrite <- Hsk, nth_error_skipn'.
      replace (N.to_nat (ci - (i + 1)) + (k - N.to_nat (ci - (i + 1))))%nat with k by lia. exact Hk.
  - (* rejected *)
    rewrite (maybe_append_reject rw _ _ _ _ _ HI Em) in Hx. inversion Hx; subst l' res. clear Hx.
    inv_bind H. destruct x as [hi [ht|]]; [|discriminate].
    destruct (send_exact _ _ _ H) as (m' & -> & Ty & _ & _ & Ix & _ & Rj).
    exists m'. split; [reflexivity|]. split; [exact Ty|]. right; right; right. cbn [r_log].
    splits; auto.
    intros C. unfold ll_match in Em. fold L in C. rewrite C in Em. cbn in Em. lia.
Qed.

(* the literal reading "a non-reject answer only after the term check" is false of the model
   (and of the Rust): an append anchored below the commit index is answered without any
   check, with index = commit index (case (1) above) *)
Module C05Samples.
  Import Samples RepInvSamples.
  Definition stale : msg :=
    msg_default <| m_type := MsgAppend |> <| m_from := 2 |> <| m_to := 1 |> <| m_term := 1 |>
      <| m_index := 0 |> <| m_log_term := 5 |>.
  Example stale_append_not_checked :
    committed (nlog f3) = 1
    /\ ll_term (abs (nlog f3)) 0 = SOk 0
    /\ exists r' resp, handle_append_entries (rn_raft f3) stale = Ok r'
         /\ r_msgs r' = r_msgs (rn_raft f3) ++ [resp]
         /\ m_reject resp = false /\ m_index resp = 1 /\ r_log r' = r_log (rn_raft f3).
  Proof.
    split; [reflexivity|]. split; [reflexivity|]. eexists. eexists.
    split; [vm_compute; reflexivity|]. repeat split.
  Qed.
End C05Samples.

(* ================================================================== *)
(* Part 5. C04: the commit rule                                         *)
(* ================================================================== *)

(* (4) the leader: maybe_commit moves the commit index exactly to the quorum index of the
   matched indexes, only upwards, and only if the entry there has the leader's term *)
Theorem maybe_commit_rule rw r r' :
  Raft.maybe_commit r = Ok (r', true) -> LI rw r ->
  let mci := fst (prs_maximal_committed_index (r_prs r)) in
  committed (r_log r') = mci /\ committed (r_log r) < mci /\ mci <= last_index (r_log r)
  /\ ll_term (abs (r_log r)) mci = SOk (r_term r)
  /\ abs (r_log r') = abs (r_log r) /\ persisted (r_log r') = persisted (r_log r)
  /\ applied (r_log r') = applied (r_log r).
Proof.
  intros H HI. cbv zeta. unfold Raft.maybe_commit in H.
  set (mci := fst (prs_maximal_committed_index (r_prs r))) in *. inv_bind H. destruct x as [l' b].
  assert (Hb : b = true).
  { destruct b; [reflexivity|]. inversion H. }
  subst b.
  assert (Hl : r_log r' = l').
  { destruct (get_pr r (r_id r)); inversion H; reflexivity. }
  rewrite Hl. clear H Hl. unfold RaftLog.maybe_commit in Hx.
  destruct (committed (r_log r) <? mci) eqn:E; [|discriminate]. apply N.ltb_lt in E.
  rewrite (term_abs rw _ _ HI) in Hx. cbn [bind] in Hx.
  destruct (term_ok_eq (ll_term (abs (r_log r)) mci) (r_term r)) eqn:Et; [|discriminate].
  inv_bind Hx. inversion Hx; subst x. clear Hx. unfold commit_to in Hx0.
  destruct (mci <=? committed (r_log r)) eqn:E2; [lia|].
  destruct (last_index (r_log r) <? mci) eqn:E3; [discriminate|]. inversion Hx0; subst l'.
  cbn [set_committed committed persisted applied]. splits; auto; try lia.
  destruct (ll_term (abs (r_log r)) mci); cbn in Et; [f_equal; lia|discriminate].
Qed.

Theorem maybe_commit_false r r' : Raft.maybe_commit r = Ok (r', false) -> r' = r.
Proof.
  unfold Raft.maybe_commit. intros H. inv_bind H. destruct x as [l' b].
  destruct b; [destruct (get_pr r (r_id r)); discriminate|]. inversion H; subst. clear H.
  unfold RaftLog.maybe_commit in Hx.
  destruct (_ <? _); [|inversion Hx; apply set_log_same].
  inv_bind Hx. destruct (term_ok_eq _ _); [inv_bind Hx; discriminate|]. inversion Hx; apply set_log_same.
Qed.

(* the leader's own matched index *)
Lemma pget_map (g : N * progress -> progress) m id :
  pget (map (fun kp => (fst kp, g kp)) m) id = option_map (fun p => g (id, p)) (pget m id).
Proof.
  induction m as [|[k p] t IH]; cbn [map pget fst]; [reflexivity|].
  destruct (k =? id) eqn:E; [apply N.eqb_eq in E; subst; reflexivity|exact IH].
Qed.

(* appending never counts: append_entry leaves the whole progress tracker alone *)
Theorem append_entry_prs r es r' ok : append_entry r es = Ok (r', ok) -> r_prs r' = r_prs r.
Proof.
  unfold append_entry, maybe_increase_uncommitted_size. intros H.
  destruct (r_max_uncommitted_size r =? u64_max).
  - cbn [negb] in H. inv_bind H. inversion H; reflexivity.
  - match type of H with context [if ?c then (_, true) else _] => destruct c end; cbn [negb] in H.
    + inv_bind H. inversion H; reflexivity.
    + inversion H; reflexivity.
Qed.

(* a term change (reset) restarts the own matched index from what is persisted *)
Theorem reset_self_matched r t r' pr :
  reset r t = Ok r' -> get_pr r (r_id r) = Some pr ->
  exists pr', get_pr r' (r_id r') = Some pr' /\ matched pr' = persisted (r_log r)
              /\ r_id r' = r_id r /\ r_log r' = r_log r.
Proof.
  unfold reset. intros H Hg.
  set (r0 := if negb (r_term r =? t) then r <| r_term := t |> <| r_vote := INVALID_ID |> else r) in H.
  assert (E0 : r_id r0 = r_id r /\ r_log r0 = r_log r /\ t_progress (r_prs r0) = t_progress (r_prs r))
    by (subst r0; destruct (negb (r_term r =? t)); auto).
  destruct E0 as (Ei & El & Ep). clearbody r0.
  destruct (r_draws r0) as [|d ds]; [discriminate|]. inversion H; subst r'. clear H.
  unfold get_pr in *. cbn. rewrite Ei, El, Ep.
  rewrite (pget_map (fun kp => if fst kp =? r_id r then _ else _)). rewrite Hg. cbn [option_map fst].
  rewrite N.eqb_refl. eexists. split; [reflexivity|]. cbn. auto.
Qed.

Lemma maybe_send_append_prs r to pr ae r' pr' b :
  maybe_send_append r to pr ae = Ok (r', pr', b) -> r_prs r' = r_prs r /\ r_id r' = r_id r.
Proof.
  intros H. destruct (maybe_send_append_cases _ _ _ _ _ _ _ H) as [(_ & -> & _)|(_ & _ & C)]; [auto|].
  destruct C as [(_ & s & _ & _ & -> & _)|[(_ & _ & t & ents & _ & _ & _ & -> & _)|
                 (_ & _ & _ & t & ents & msgs' & _ & _ & _ & _ & ->)]]; auto.
Qed.

Lemma for_each_send_append_self ids self : forall r r',
  for_each_peer ids self send_append_to r = Ok r' -> get_pr r' self = get_pr r self.
Proof.
  induction ids as [|id rest IH]; intros r r' H; cbn [for_each_peer] in H.
  - inversion H; reflexivity.
  - destruct (id =? self) eqn:E; [apply IH; exact H|].
    inv_bind H. rewrite (IH _ _ H). unfold send_append_to in Hx.
    destruct (get_pr r id); [|discriminate]. inv_bind Hx. destruct x0 as [[r1 pr1] b1]. inversion Hx; subst.
    destruct (maybe_send_append_prs _ _ _ _ _ _ _ Hx0) as [Ep _].
    unfold get_pr, put_pr. cbn. rewrite Ep. apply pget_pput_other. apply N.eqb_neq in E. congruence.
Qed.

Lemma bcast_append_self r r' : bcast_append r = Ok r' -> get_pr r' (r_id r) = get_pr r (r_id r).
Proof. unfold bcast_append. apply for_each_send_append_self. Qed.

Lemma log_maybe_commit_persisted l i t l' b :
  RaftLog.maybe_commit l i t = Ok (l', b) -> persisted l' = persisted l.
Proof.
  unfold RaftLog.maybe_commit. intros H. destruct (_ <? _); [|inversion H; reflexivity].
  inv_bind H. destruct (term_ok_eq _ _); [|inversion H; reflexivity].
  inv_bind H. inversion H; subst. unfold commit_to in Hx0.
  destruct (_ <=? _); [inversion Hx0; reflexivity|]. destruct (_ <? _); [discriminate|].
  inversion Hx0; reflexivity.
Qed.

Lemma maybe_commit_self r r' b pr :
  Raft.maybe_commit r = Ok (r', b) -> get_pr r (r_id r) = Some pr ->
  exists pr', get_pr r' (r_id r) = Some pr' /\ matched pr' = matched pr /\ r_id r' = r_id r
              /\ persisted (r_log r') = persisted (r_log r).
Proof.
  unfold Raft.maybe_commit. intros H Hg. inv_bind H. destruct x as [l3 b3].
  apply log_maybe_commit_persisted in Hx. rewrite Hg in H.
  destruct b3; injection H as E _; rewrite <- E.
  - eexists. split; [unfold get_pr, put_pr; cbn; apply pget_pput_same|].
    split; [unfold update_committed; destruct (_ <? _); reflexivity|]. split; [reflexivity|exact Hx].
  - exists pr. split; [exact Hg|]. split; [reflexivity|]. split; [reflexivity|exact Hx].
Qed.

(* ... and afterwards it is raised only by on_persist_entries, to an index whose persistence
   the application reported and the storage confirms (term check of maybe_persist) *)
Theorem on_persist_entries_self_matched rw r i t r' pr :
  on_persist_entries r i t = Ok r' -> LI rw r -> get_pr r (r_id r) = Some pr ->
  exists pr', get_pr r' (r_id r) = Some pr' /\
    (matched pr' = matched pr
     \/ (matched pr < i /\ matched pr' = i /\ is_leader r = true
         /\ persisted (r_log r) < i /\ persisted (r_log r') = i
         /\ storage_term (store (r_log r)) i = Ok (SOk t))).
Proof.
  unfold on_persist_entries. intros H HI Hg. inv_bind H. destruct x as [l' upd].
  destruct (maybe_persist_ok rw _ i t HI) as (l2 & b2 & Hm & _ & _ & _ & _ & _ & _ & Hup).
  rewrite Hx in Hm. inversion Hm; subst l2 b2. clear Hm.
  destruct upd; cbn [andb] in H.
  2:{ inversion H; subst. exists pr. split; [exact Hg|left; reflexivity]. }
  destruct (Hup eq_refl) as (P1 & P2 & _ & _ & P5).
  change (is_leader (r <| r_log := l' |>)) with (is_leader r) in H.
  destruct (is_leader r) eqn:El.
  2:{ inversion H; subst. exists pr. split; [exact Hg|left; reflexivity]. }
  change (get_pr (r <| r_log := l' |>) (r_id (r <| r_log := l' |>))) with (get_pr r (r_id r)) in H.
  rewrite Hg in H. destruct (maybe_update pr i) as [pr1 u] eqn:Eu.
  assert (Hm1 : matched pr1 = (if matched pr <? i then i else matched pr) /\ u = (matched pr <? i)).
  { unfold maybe_update in Eu. injection Eu as E1 E2. rewrite <- E1, <- E2. split; [|reflexivity].
    destruct (matched pr <? i); cbn; match goal with |- matched (if ?c then _ else _) = _ => destruct c end; reflexivity. }
  destruct Hm1 as [Hm1 Hu].
  set (r1 := put_pr (r <| r_log := l' |>) (r_id (r <| r_log := l' |>)) pr1) in *.
  assert (Hg1 : get_pr r1 (r_id r) = Some pr1) by (unfold r1, get_pr, put_pr; cbn; apply pget_pput_same).
  assert (Hfin : forall pr', matched pr' = matched pr1 ->
            matched pr' = matched pr
            \/ (matched pr < i /\ matched pr' = i /\ true = true /\ persisted (r_log r) < i
                /\ persisted l' = i /\ storage_term (store (r_log r)) i = Ok (SOk t))).
  { intros pr' E. rewrite E, Hm1. destruct (matched pr <? i) eqn:Elt; [right|left; reflexivity].
    apply N.ltb_lt in Elt. splits; auto. }
  destruct u.
  2:{ inversion H; subst. exists pr1. split; [exact Hg1|]. cbn [r_log]. apply Hfin. reflexivity. }
  inv_bind H. destruct x as [r2 c].
  destruct (maybe_commit_self r1 r2 c pr1 Hx0 Hg1) as (pr2 & G2 & M2 & I2 & Hp2).
  change (r_id r1) with (r_id r) in G2, I2. change (persisted (r_log r1)) with (persisted l') in Hp2.
  match type of H with (if ?c then _ else _) = _ => destruct c end.
  - pose proof (bcast_append_self _ _ H) as Hs. rewrite I2 in Hs.
    exists pr2. split; [rewrite Hs; exact G2|].
    rewrite (bcast_append_log _ _ H), Hp2. apply Hfin. exact M2.
  - inversion H; subst. exists pr2. split; [exact G2|]. rewrite Hp2. apply Hfin. exact M2.
Qed.

(* (5) the follower: a heartbeat commits exactly up to m_commit and never beyond the log *)
Theorem handle_heartbeat_commit rw r m r' :
  handle_heartbeat r m = Ok r' -> LI rw r ->
  committed (r_log r') = N.max (committed (r_log r)) (m_commit m)
  /\ committed (r_log r') <= last_index (r_log r')
  /\ abs (r_log r') = abs (r_log r).
Proof.
  unfold handle_heartbeat. intros H HI. inv_bind H.
  destruct (commit_to_pres rw _ _ _ Hx HI) as [A S].
  assert (Ec : committed x = N.max (committed (r_log r)) (m_commit m)).
  { unfold commit_to in Hx. destruct (m_commit m <=? committed (r_log r)) eqn:E; [inversion Hx; lia|].
    destruct (last_index (r_log r) <? m_commit m); [discriminate|]. inversion Hx; subst. cbn. lia. }
  assert (El : r_log r' = x).
  { match type of H with (if ?c then _ else _) = _ => destruct c end.
    - apply send_request_snapshot_log in H. exact H.
    - apply send_log in H. exact H. }
  rewrite El. splits; [exact Ec|eapply RepInv_committed_le_last; exact A|apply same_su_abs; exact S].
Qed.

Lemma send_panic_sites r m s : send r m = Panic s -> s = site_send_vote_term0 \/ s = site_send_term_set.
Proof.
  unfold send. intros H. apply bind_panic in H. destruct H as [H|(x & _ & H)]; [|discriminate].
  destruct (is_vote_type _).
  - destruct (m_term _ =? 0); [inversion H; auto|discriminate].
  - destruct (negb _); [inversion H; auto|]. destruct (_ && _); discriminate.
Qed.

(* the range check of commit_to is the panic site 1412: it fires exactly when the leader's
   commit index is beyond both the follower's commit index and its last index *)
Theorem handle_heartbeat_panics_1412 rw r m :
  LI rw r ->
  (handle_heartbeat r m = Panic site_l_commit_range
   <-> committed (r_log r) < m_commit m /\ last_index (r_log r) < m_commit m).
Proof.
  intros HI. unfold handle_heartbeat. rewrite (abs_last rw _ HI).
  rewrite <- (commit_to_panics_iff rw _ (m_commit m) HI).
  destruct (commit_to (r_log r) (m_commit m)) as [l'|s] eqn:E; cbn [bind].
  - split; [|discriminate]. intros H. exfalso.
    destruct (commit_to_pres rw _ _ _ E HI) as [A _].
    assert (Hsend : forall ra mm, send ra mm = Panic site_l_commit_range -> False).
    { intros ra mm Hs. apply send_panic_sites in Hs. destruct Hs as [Hs|Hs]; vm_compute in Hs; discriminate. }
    match type of H with (if ?c then _ else _) = _ => destruct c end; [|exact (Hsend _ _ H)].
    unfold send_request_snapshot in H. cbn [r_log] in H.
    match type of H with context [RaftLog.term ?la ?ix] => rewrite (term_abs rw la ix A) in H end.
    cbn [bind] in H. destruct (ll_term _ _); [exact (Hsend _ _ H)|vm_compute in H; discriminate].
  - split; intros H; inversion H; reflexivity.
Qed.

(* a new leader starts counting itself from what it has persisted *)
Theorem become_leader_self_matched r r' pr :
  become_leader r = Ok r' -> get_pr r (r_id r) = Some pr ->
  exists pr', get_pr r' (r_id r) = Some pr' /\ matched pr' = persisted (r_log r).
Proof.
  unfold become_leader. intros H Hg.
  destruct (role_eqb (r_state r) Follower); [discriminate|].
  inv_bind H. destruct (reset_self_matched _ _ _ _ Hx Hg) as (pr0 & G0 & M0 & I0 & L0).
  change (get_pr (x <| r_leader_id := r_id x |> <| r_state := Leader |> <| r_uncommitted_size := 0 |>
                    <| r_last_log_tail_index := last_index (r_log (x <| r_leader_id := r_id x |> <| r_state := Leader |>)) |>)
                 (r_id (x <| r_leader_id := r_id x |> <| r_state := Leader |> <| r_uncommitted_size := 0 |>
                    <| r_last_log_tail_index := last_index (r_log (x <| r_leader_id := r_id x |> <| r_state := Leader |>)) |>)))
    with (get_pr x (r_id x)) in H.
  rewrite G0 in H. inv_bind H. destruct x0 as [r6 ok]. destruct ok; [|discriminate]. inversion H; subst r6.
  apply append_entry_prs in Hx0. exists (become_replicate pr0).
  split; [|exact M0]. unfold get_pr. rewrite Hx0. cbn. rewrite <- I0. apply pget_pput_same.
Qed.

(* ================================================================== *)
(* definitions spelled out; samples                                     *)
(* ================================================================== *)
Lemma grows_def l l' :
  grows l l' <->
  ll_base (abs l') = ll_base (abs l) /\ ll_bterm (abs l') = ll_bterm (abs l)
  /\ exists suffix, ll_ents (abs l') = ll_ents (abs l) ++ suffix.
Proof. reflexivity. Qed.

Lemma crel_def l l' :
  crel l l' <->
  committed l <= committed l' /\ ll_base (abs l) <= ll_base (abs l')
  /\ forall i, i <= committed l -> ll_base (abs l') < i -> ll_get (abs l') i = ll_get (abs l) i.
Proof. reflexivity. Qed.

Lemma rcrel_def r r' : rcrel r r' <-> crel (r_log r) (r_log r').
Proof. reflexivity. Qed.

Module C04Samples.
  Import Samples.
  (* the single-voter leader of Samples: after its Ready was written and commit_ready ran,
     the persistence notice raises its own matched index from 0 to 1 = persisted, and with
     it the commit index (quorum index of the matched indexes) from 0 to 1 *)
  Definition nmid : rawnode. Proof. from_ok (commit_ready node2 (snd ready1)). Defined.
  Example ex_persist_commits :
    exists r' pr pr',
      on_persist_entries (rn_raft nmid) 1 1 = Ok r'
      /\ get_pr (rn_raft nmid) 1 = Some pr /\ matched pr = 0 /\ committed (nlog nmid) = 0
      /\ get_pr r' 1 = Some pr' /\ matched pr' = 1 /\ persisted (r_log r') = 1
      /\ committed (r_log r') = 1 /\ r_term r' = 1.
  Proof. eexists. eexists. eexists. vm_compute. repeat split; reflexivity. Qed.
End C04Samples.
