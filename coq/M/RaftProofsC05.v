(* C05 / C04 at the node model: leader append-only, committed prefix immutable, the
   consistency check of handle_append_entries (C05); the leader commit rule and the
   follower commit bound (C04).  Everything is stated on the logical log of property C14
   (M/RaftLogProofs.v: abs, ll_ents, ll_get) under the node-level representation invariant
   LI rw r := RepInv rw (r_log r) of M/RaftProofsRepInv.v.
   Part 1  relations on logs: [grows] (same base, entries only appended), [crel] (commit
           index monotone, base monotone, every retained entry at or below the old commit
           index unchanged); the RaftLog operations.
   Part 2  [crel] for every function of M/Raft.v and every RawNode entry point, storage
           writes included; traces.
   Part 3  [grows] for a node that is leader of the same term before and after the call.
   Part 4  the consistency check of handle_append_entries.
   Part 5  C04: the leader commit rule, the leader's own matched index, the follower's
           commit bound.
   Statements are pinned in Props/C05.v and Props/C04.v (sections "node level"). *)
From RV Require Import Base.Prelude Base.IdSet M.Util M.UtilProofs M.Proto M.MemStorage
  M.MemStorageProofs M.Inflights M.Progress M.RaftLog M.Quorum M.ConfChange M.Msg M.Raft
  M.RawNode M.RaftProofs M.RaftLogProofs M.RaftLogProofsOps M.RaftLogProofsStore
  M.RaftLogProofsSlice M.RaftLogProofsHistory
  M.RaftProofsC15 M.RaftProofsC09 M.RaftProofsC08 M.RaftProofsC13 M.RaftProofsC07
  M.RaftProofsRepInv.
From RecordUpdate Require Import RecordSet.
Import RecordSetNotations.

Local Open Scope N_scope.
Transparent log_append last_index stamp.

Ltac splits := repeat match goal with |- _ /\ _ => split end.

(* ================================================================== *)
(* Part 1. Relations on logs                                            *)
(* ================================================================== *)

(* the logical log only grows at its end *)
Definition grows (l l' : raft_log) : Prop :=
  ll_base (abs l') = ll_base (abs l) /\ ll_bterm (abs l') = ll_bterm (abs l)
  /\ exists suffix, ll_ents (abs l') = ll_ents (abs l) ++ suffix.

(* the committed prefix is immutable: the commit index and the base do not decrease and
   every entry at or below the old commit index that the new log retains is unchanged *)
Definition crel (l l' : raft_log) : Prop :=
  committed l <= committed l'
  /\ ll_base (abs l) <= ll_base (abs l')
  /\ preserves_upto (committed l) (abs l) (abs l').

Lemma grows_refl l : grows l l.
Proof. unfold grows. splits; auto. exists nil. rewrite app_nil_r. reflexivity. Qed.

Lemma grows_trans a b c : grows a b -> grows b c -> grows a c.
Proof.
  intros (A1 & A2 & s1 & A3) (B1 & B2 & s2 & B3). unfold grows. splits; try congruence.
  exists (s1 ++ s2). rewrite B3, A3, app_assoc. reflexivity.
Qed.

Lemma grows_abs_eq l l' : abs l' = abs l -> grows l l'.
Proof. intros E. unfold grows. rewrite E. splits; auto. exists nil. rewrite app_nil_r. reflexivity. Qed.

(* an entry of a log that only grew is still there *)
Lemma grows_get l l' i e : grows l l' -> ll_get (abs l) i = Some e -> ll_get (abs l') i = Some e.
Proof.
  intros (A1 & _ & s & A3) H. unfold ll_get in *. rewrite A1, A3.
  destruct (i <=? ll_base (abs l)); [discriminate|].
  rewrite nth_error_app1; [exact H|]. apply nth_error_Some. congruence.
Qed.

Lemma crel_refl l : crel l l.
Proof. unfold crel. splits; try lia. apply preserves_refl. reflexivity. Qed.

Lemma crel_trans a b c : crel a b -> crel b c -> crel a c.
Proof.
  intros (A1 & A2 & A3) (B1 & B2 & B3). unfold crel. splits; try lia.
  intros i Hi Hb. rewrite (B3 i ltac:(lia) Hb). apply A3; lia.
Qed.

Lemma crel_abs_eq l l' : abs l' = abs l -> committed l <= committed l' -> crel l l'.
Proof. intros E H. unfold crel. rewrite E. splits; try lia. apply preserves_refl. reflexivity. Qed.

Lemma crel_same_su l l' : same_su l l' -> committed l <= committed l' -> crel l l'.
Proof. intros S. apply crel_abs_eq. apply same_su_abs. exact S. Qed.

Lemma grows_crel rw l l' : RepInv rw l -> grows l l' -> committed l <= committed l' -> crel l l'.
Proof.
  intros HI G H. pose proof G as (A1 & _). unfold crel. splits; try lia.
  intros i Hi Hb. rewrite A1 in Hb. pose proof (ri_commit rw l HI) as Hc.
  destruct (proj2 (ll_get_some_iff (abs l) i) ltac:(lia)) as [e E].
  rewrite E. apply (grows_get l l'); assumption.
Qed.

(* ---- the RaftLog operations ---- *)
Lemma commit_to_crel rw l tc l' : commit_to l tc = Ok l' -> RepInv rw l -> crel l l'.
Proof.
  intros H HI. destruct (commit_to_pres rw _ _ _ H HI) as [_ S]. apply crel_same_su; [exact S|].
  unfold commit_to in H. destruct (tc <=? committed l) eqn:E; [inversion H; lia|].
  destruct (last_index l <? tc); [discriminate|]. inversion H; subst. cbn. lia.
Qed.

Lemma log_maybe_commit_crel rw l i t l' b :
  RaftLog.maybe_commit l i t = Ok (l', b) -> RepInv rw l -> crel l l'.
Proof.
  unfold RaftLog.maybe_commit. intros H HI.
  destruct (committed l <? i); [|inversion H; apply crel_refl].
  inv_bind H. destruct (term_ok_eq x t); [|inversion H; apply crel_refl].
  inv_bind H. inversion H; subst. eapply commit_to_crel; eassumption.
Qed.

Lemma set_limit_crel l k : crel l (set_limit l k).
Proof. apply crel_abs_eq; [apply abs_ext; reflexivity|cbn; lia]. Qed.

(* appending at or before the end, above the commit index *)
Lemma log_append_rel rw l e0 t l' li :
  log_append l (e0 :: t) = Ok (l', li) -> RepInv rw l ->
  contiguous_from (e_index e0) (e0 :: t) -> persisted l < e_index e0 ->
  e_index e0 + N.of_nat (length (e0 :: t)) <= u64_max ->
  abs l' = ll_append (abs l) (e0 :: t) /\ committed l < e_index e0 <= ll_last (abs l) + 1
  /\ committed l' = committed l /\ crel l l'.
Proof.
  intros H HI Hc Hp Hb.
  assert (Hcm : committed l < e_index e0).
  { destruct (N.lt_ge_cases (committed l) (e_index e0)) as [Hlt|Hge]; [exact Hlt|]. exfalso.
    destruct (N.eq_dec (e_index e0) 0) as [Hz|Hz].
    - unfold log_append in H. rewrite Hz in H. cbn in H. discriminate.
    - assert (Hf : log_append l (e0 :: t) = Panic site_l_append_range) by (apply log_append_fatal_iff; lia).
      rewrite Hf in H. discriminate. }
  assert (Hs : e_index e0 <= ll_last (abs l) + 1).
  { destruct (N.le_gt_cases (e_index e0) (ll_last (abs l) + 1)) as [Hle|Hgt]; [exact Hle|]. exfalso.
    rewrite (log_append_gap_panics rw l e0 t HI Hcm Hgt) in H. discriminate. }
  destruct (log_append_ok rw l e0 t HI Hc Hcm Hs Hp Hb) as (l2 & Ha2 & Hr & Habs & Hc2 & _).
  rewrite H in Ha2. inversion Ha2; subst l2. splits; auto.
  unfold crel. splits; try lia.
  - rewrite Habs. unfold ll_append. cbn [ll_base]. lia.
  - eapply (committed_immutable_append rw); eassumption.
Qed.

(* appending exactly at the end only grows the log *)
Lemma ll_append_at_end L e0 t :
  e_index e0 = ll_last L + 1 ->
  ll_base (ll_append L (e0 :: t)) = ll_base L /\ ll_bterm (ll_append L (e0 :: t)) = ll_bterm L
  /\ ll_ents (ll_append L (e0 :: t)) = ll_ents L ++ e0 :: t.
Proof.
  intros H. unfold ll_append, ll_last in *. cbn [ll_base ll_bterm ll_ents]. splits; auto.
  f_equal. apply firstn_all2. lia.
Qed.

Lemma maybe_append_crel rw l i t cmt ents l' res :
  maybe_append l i t cmt ents = Ok (l', res) -> RepInv rw l ->
  contiguous_from (i + 1) ents -> i + N.of_nat (length ents) < u64_max -> crel l l'.
Proof.
  intros H HI Hc Hb. unfold maybe_append in H. rewrite (match_term_abs rw l i t HI) in H.
  destruct (ll_match (abs l) i t); cbn [bind negb] in H; [|inversion H; subst; apply crel_refl].
  rewrite (find_conflict_abs rw l ents HI) in H. cbn [bind] in H.
  destruct (find_conflict_shape (abs l) ents (i + 1) Hc ltac:(lia))
    as [H0|(Hn0 & H1 & H2 & e & r & Hsk & Hi)].
  - rewrite H0 in H. change (0 =? 0) with true in H. cbn [bind] in H.
    destruct (u64_max <? _); [discriminate|]. inv_bind H. inversion H; subst.
    eapply commit_to_crel; eassumption.
  - set (ci := ll_find_conflict (abs l) ents) in *.
    destruct (ci =? 0) eqn:E0; [lia|].
    destruct (ci <=? committed l) eqn:E1; [discriminate|].
    destruct (i =? u64_max) eqn:E2; [discriminate|].
    destruct (ci <? i + 1) eqn:E3; [discriminate|].
    destruct (N.of_nat (length ents) <? ci - (i + 1)) eqn:E4; [discriminate|]. cbv zeta in H.
    rewrite Hsk in H.
    assert (Hce : contiguous_from (e_index e) (e :: r)).
    { rewrite <- Hsk, Hi.
      replace ci with (i + 1 + N.of_nat (N.to_nat (ci - (i + 1)))) at 1 by lia.
      apply contig_skipn. exact Hc. }
    assert (Hlen : length (e :: r) = (length ents - N.to_nat (ci - (i + 1)))%nat).
    { rewrite <- Hsk. apply skipn_length. }
    pose proof (ll_last_upper rw l HI) as Hup.
    assert (Hgap : e_index e <= ll_last (abs l) + 1).
    { destruct (N.le_gt_cases (e_index e) (ll_last (abs l) + 1)) as [Hle|Hgt]; [exact Hle|]. exfalso.
      rewrite (log_append_gap_panics rw l e r HI) in H by lia. discriminate. }
    destruct (trunc_append_ok (unst l) e r ltac:(lia)) as (u' & Hu & Hsn & Hcase).
    set (p := N.min (persisted l) (ci - 1)).
    destruct (append_unstable_abs rw l e r u' p HI Hce ltac:(lia) Hgap ltac:(lia) ltac:(lia)
                ltac:(lia) Hsn Hcase) as [Habs Hr].
    unfold log_append in H. destruct (e_index e =? 0) eqn:E5; [lia|].
    destruct (e_index e - 1 <? committed l) eqn:E6; [lia|].
    rewrite Hu in H. cbn [bind fst] in H.
    assert (Hl1 : (if ci - 1 <? persisted (set_unst l u') then set_persisted (set_unst l u') (ci - 1)
                   else set_unst l u') = set_persisted (set_unst l u') p).
    { cbn [set_unst persisted]. subst p.
      destruct (ci - 1 <? persisted l) eqn:E7.
      - rewrite N.min_r by lia. reflexivity.
      - rewrite N.min_l by lia. reflexivity. }
    rewrite Hl1 in H.
    destruct (u64_max <? _); [discriminate|]. inv_bind H. inversion H; subst.
    eapply crel_trans; [|eapply commit_to_crel; [exact Hx|exact Hr]].
    unfold crel. cbn [set_persisted set_unst committed]. splits; try lia.
    + rewrite Habs. unfold ll_append. cbn [ll_base]. lia.
    + rewrite Habs. intros j Hj _. apply ll_get_append_below; lia.
Qed.

Lemma log_restore_crel rw l s l' :
  log_restore l s = Ok l' -> RepInv rw l -> s_index s < u64_max ->
  crel l l' /\ abs l' = mkLL (s_index s) (Some (s_term s)) [] /\ committed l <= s_index s
  /\ committed l' = s_index s.
Proof.
  intros H HI Hb.
  assert (Hc : committed l <= s_index s).
  { destruct (N.le_gt_cases (committed l) (s_index s)) as [Hle|Hgt]; [exact Hle|]. exfalso.
    rewrite (proj2 (log_restore_panics_iff l s) Hgt) in H. discriminate. }
  destruct (log_restore_ok rw l s HI Hc Hb) as (l2 & Hr2 & Hr & Habs & Hcm & _).
  rewrite H in Hr2. inversion Hr2; subst l2. splits; auto.
  unfold crel. splits; try lia.
  - rewrite Habs. cbn [ll_base]. pose proof (base_le_committed rw l HI). lia.
  - eapply (committed_immutable_restore rw); eassumption.
Qed.
