(* Model of /repo/src/tracker/progress.rs (struct Progress) and tracker/state.rs. *)
From RV Require Import Base.Prelude M.Inflights.

Inductive pstate := Probe | Replicate | Snapshot.

Definition pstate_eqb (a b : pstate) : bool :=
  match a, b with
  | Probe, Probe | Replicate, Replicate | Snapshot, Snapshot => true
  | _, _ => false
  end.

Record progress := mkPr {
  matched : N;
  next_idx : N;
  pr_state : pstate;
  paused : bool;
  pending_snapshot : N;
  pending_request_snapshot : N;
  recent_active : bool;
  ins : inflights;
  commit_group_id : N;
  committed_index : N
}.

Definition INVALID_INDEX : N := 0.
Definition INVALID_ID : N := 0.

Definition site_update_state_snapshot : site := 1951%N. (* panic!("updating progress state in unhandled state") *)
Definition site_u64_overflow : site := 1952%N.          (* u64 add overflow (debug build) *)
Definition site_u64_underflow : site := 1953%N.         (* u64 sub underflow (debug build) *)

Definition set_matched (p : progress) v := mkPr v (next_idx p) (pr_state p) (paused p) (pending_snapshot p) (pending_request_snapshot p) (recent_active p) (ins p) (commit_group_id p) (committed_index p).
Definition set_next_idx (p : progress) v := mkPr (matched p) v (pr_state p) (paused p) (pending_snapshot p) (pending_request_snapshot p) (recent_active p) (ins p) (commit_group_id p) (committed_index p).
Definition set_paused (p : progress) v := mkPr (matched p) (next_idx p) (pr_state p) v (pending_snapshot p) (pending_request_snapshot p) (recent_active p) (ins p) (commit_group_id p) (committed_index p).
Definition set_pending_snapshot (p : progress) v := mkPr (matched p) (next_idx p) (pr_state p) (paused p) v (pending_request_snapshot p) (recent_active p) (ins p) (commit_group_id p) (committed_index p).
Definition set_pending_request_snapshot (p : progress) v := mkPr (matched p) (next_idx p) (pr_state p) (paused p) (pending_snapshot p) v (recent_active p) (ins p) (commit_group_id p) (committed_index p).
Definition set_recent_active (p : progress) v := mkPr (matched p) (next_idx p) (pr_state p) (paused p) (pending_snapshot p) (pending_request_snapshot p) v (ins p) (commit_group_id p) (committed_index p).
Definition set_ins (p : progress) v := mkPr (matched p) (next_idx p) (pr_state p) (paused p) (pending_snapshot p) (pending_request_snapshot p) (recent_active p) v (commit_group_id p) (committed_index p).
Definition set_commit_group_id (p : progress) v := mkPr (matched p) (next_idx p) (pr_state p) (paused p) (pending_snapshot p) (pending_request_snapshot p) (recent_active p) (ins p) v (committed_index p).
Definition set_committed_index (p : progress) v := mkPr (matched p) (next_idx p) (pr_state p) (paused p) (pending_snapshot p) (pending_request_snapshot p) (recent_active p) (ins p) (commit_group_id p) v.

Definition pr_new (next : N) (ins_size : nat) : progress :=
  mkPr 0 next Probe false 0 0 false (Inflights.new ins_size) 0 0.

Definition reset_state (p : progress) (st : pstate) : progress :=
  mkPr (matched p) (next_idx p) st false 0 (pending_request_snapshot p) (recent_active p)
       (Inflights.reset (ins p)) (commit_group_id p) (committed_index p).

Definition pr_reset (p : progress) (next : N) : progress :=
  mkPr 0 next Probe false 0 INVALID_INDEX false (Inflights.reset (ins p))
       (commit_group_id p) (committed_index p).

Definition become_probe (p : progress) : progress :=
  match pr_state p with
  | Snapshot =>
      let ps := pending_snapshot p in
      set_next_idx (reset_state p Probe) (N.max (matched p + 1) (ps + 1))
  | _ => set_next_idx (reset_state p Probe) (matched p + 1)
  end.

Definition become_replicate (p : progress) : progress :=
  set_next_idx (reset_state p Replicate) (matched p + 1).

Definition become_snapshot (p : progress) (snapshot_idx : N) : progress :=
  set_pending_snapshot (reset_state p Snapshot) snapshot_idx.

Definition snapshot_failure (p : progress) : progress := set_pending_snapshot p 0.

Definition is_snapshot_caught_up (p : progress) : bool :=
  pstate_eqb (pr_state p) Snapshot && (pending_snapshot p <=? matched p)%N.

Definition resume (p : progress) : progress := set_paused p false.
Definition pause (p : progress) : progress := set_paused p true.

Definition maybe_update (p : progress) (n : N) : progress * bool :=
  let need := (matched p <? n)%N in
  let p1 := if need then resume (set_matched p n) else p in
  let p2 := if (next_idx p1 <? n + 1)%N then set_next_idx p1 (n + 1) else p1 in
  (p2, need).

Definition update_committed (p : progress) (ci : N) : progress :=
  if (committed_index p <? ci)%N then set_committed_index p ci else p.

Definition optimistic_update (p : progress) (n : N) : progress := set_next_idx p (n + 1).

Definition maybe_decr_to (p : progress) (rejected match_hint request_snapshot : N) : progress * bool :=
  if pstate_eqb (pr_state p) Replicate then
    if (rejected <? matched p)%N || ((rejected =? matched p)%N && (request_snapshot =? INVALID_INDEX)%N)
    then (p, false)
    else if (request_snapshot =? INVALID_INDEX)%N then (set_next_idx p (matched p + 1), true)
    else (set_pending_request_snapshot p request_snapshot, true)
  else
    if ((next_idx p =? 0)%N || negb (next_idx p - 1 =? rejected)%N) && (request_snapshot =? INVALID_INDEX)%N
    then (p, false)
    else
      let p1 :=
        if (request_snapshot =? INVALID_INDEX)%N then
          let n1 := N.min rejected (match_hint + 1) in
          set_next_idx p (if (n1 <? matched p + 1)%N then matched p + 1 else n1)
        else if (pending_request_snapshot p =? INVALID_INDEX)%N then
          set_pending_request_snapshot p request_snapshot
        else p in
      (resume p1, true).

Definition is_paused (p : progress) : bool :=
  match pr_state p with
  | Probe => paused p
  | Replicate => Inflights.full (ins p)
  | Snapshot => true
  end.

Definition update_state (p : progress) (last : N) : Res progress :=
  match pr_state p with
  | Replicate =>
      i <- Inflights.add (ins p) last ;;
      Ok (set_ins (optimistic_update p last) i)
  | Probe => Ok (pause p)
  | Snapshot => Panic site_update_state_snapshot
  end.
