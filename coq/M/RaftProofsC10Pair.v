(* C10, part 6 — pair convergence: one leader L and one follower F of the same term in a
   deterministic lock-step schedule.  See the header of Props/C10.v for what is assumed
   and what is proved. *)
From RV Require Import Base.Prelude Base.IdSet Base.IdSetProofs M.Util M.UtilProofs M.Proto
  M.MemStorage M.MemStorageProofs M.Inflights M.InflightsProofs M.Progress M.RaftLog
  M.RaftLogProofs M.RaftLogProofsOps M.RaftLogProofsSlice M.RaftLogProofsHistory M.Quorum
  M.ConfChange M.Msg M.Raft M.RaftProofs M.RaftProofsC15 M.RaftProofsC09 M.RaftProofsC10.
From RecordUpdate Require Import RecordSet.
Import RecordSetNotations.

Local Open Scope N_scope.

(* ================================================================== *)
(* 6.1 logical logs: the leader's log and a follower's log that agrees *)
(*     with it up to a frontier                                        *)
(* ================================================================== *)

(* what we need of the leader's logical log *)
Record LeaderLog (LL : LL) : Prop := mkLeaderLog {
  lg_wf : ll_wf LL;
  lg_nz : forall e, In e (ll_ents LL) -> e_term e <> 0;
  lg_bound : ll_last LL < u64_max
}.

Lemma ll_get_in L i e : ll_get L i = Some e -> In e (ll_ents L).
Proof.
  unfold ll_get. destruct (i <=? ll_base L); [discriminate|]. apply nth_error_In.
Qed.

Lemma leader_term_in_range LL i :
  LeaderLog LL -> ll_base LL < i <= ll_last LL ->
  exists e, ll_get LL i = Some e /\ ll_term LL i = SOk (e_term e) /\ e_term e <> 0 /\ e_index e = i.
Proof.
  intros HL Hi. destruct (proj2 (ll_get_some_iff LL i) Hi) as [e He].
  exists e. split; [exact He|]. split.
  - unfold ll_term. destruct ((i <? ll_base LL) || (ll_last LL <? i)) eqn:E.
    { apply orb_prop in E. lia. }
    destruct (i =? ll_base LL) eqn:E2; [lia|]. rewrite He. reflexivity.
  - split; [apply (lg_nz LL HL); eapply ll_get_in; exact He|].
    apply (ll_get_index LL i e (lg_wf LL HL) He).
Qed.

Lemma term_beyond_last L i : ll_last L < i -> ll_term L i = SOk 0.
Proof.
  intros H. unfold ll_term. destruct (ll_last L <? i) eqn:E; [|lia]. rewrite orb_true_r. reflexivity.
Qed.

(* the follower's logical log FL agrees with the leader's on [lo, a] and disagrees at
   every later index of the leader's log (a is the exact agreement frontier) *)
Record Agree (LL FL : LL) (lo a : N) : Prop := mkAgree {
  ag_lo : lo <= a;
  ag_lastL : a <= ll_last LL;
  ag_lastF : a <= ll_last FL;
  ag_eq : forall i, lo <= i <= a -> ll_term FL i = ll_term LL i;
  ag_ne : forall i, a < i <= ll_last LL -> ll_term FL i <> ll_term LL i
}.

(* entries taken from the leader's log *)
Definition from_leader (LL : LL) (ents : list entry) : Prop :=
  forall e, In e ents -> ll_get LL (e_index e) = Some e.

Lemma from_leader_range LL p k :
  ll_wf LL -> ll_base LL <= p ->
  from_leader LL (firstn k (ll_range LL (p + 1) (ll_last LL + 1))).
Proof.
  intros Hw Hp e He. apply In_firstn_in in He. apply In_nth_error in He. destruct He as [j Hj].
  unfold ll_range in Hj.
  assert (Hlen : (j < N.to_nat (ll_last LL + 1 - (p + 1)))%nat).
  { destruct (Nat.lt_ge_cases j (N.to_nat (ll_last LL + 1 - (p + 1)))) as [H|H]; [exact H|].
    exfalso. assert (Hn : nth_error (firstn (N.to_nat (ll_last LL + 1 - (p + 1)))
               (skipn (N.to_nat (p + 1 - ll_base LL - 1)) (ll_ents LL))) j = None).
    { apply nth_error_None. rewrite firstn_length. lia. }
    congruence. }
  rewrite nth_error_firstn_lt in Hj by exact Hlen.
  rewrite nth_error_skipn' in Hj.
  pose proof (contig_nth _ _ _ _ Hw Hj) as Hidx.
  unfold ll_get. destruct (e_index e <=? ll_base LL) eqn:E; [lia|].
  rewrite <- Hj. f_equal. lia.
Qed.

(* the conflict search of maybe_append over a batch of leader entries: nothing conflicts
   up to the frontier, and the first entry beyond it does *)
Lemma find_conflict_agree LL FL lo a : LeaderLog LL -> Agree LL FL lo a -> ll_base LL <= lo ->
  forall ents j,
    contiguous_from j ents -> from_leader LL ents -> lo < j -> j <= a + 1 ->
    ll_find_conflict FL ents = if j + N.of_nat (length ents) <=? a + 1 then 0 else a + 1.
Proof.
  intros HL HA Hb. induction ents as [|e rest IH]; intros j Hc Hf Hlo Hja; cbn [ll_find_conflict length].
  - destruct (j + N.of_nat 0 <=? a + 1) eqn:E; [reflexivity|lia].
  - destruct Hc as [Hi Hc].
    assert (Hge : ll_get LL (e_index e) = Some e) by (apply Hf; left; reflexivity).
    assert (Hin : ll_base LL < e_index e <= ll_last LL).
    { apply ll_get_some_iff. eauto. }
    destruct (leader_term_in_range LL (e_index e) HL Hin) as (e' & He' & Ht & Hnz & _).
    rewrite Hge in He'. inversion He'; subst e'.
    destruct (N.eq_dec j (a + 1)) as [Hj|Hj].
    + (* the frontier is crossed here *)
      assert (Hm : ll_match FL (e_index e) (e_term e) = false).
      { unfold ll_match. pose proof (ag_ne LL FL lo a HA (e_index e) ltac:(lia)) as Hne.
        rewrite Ht in Hne. destruct (ll_term FL (e_index e)) as [t'|er]; cbn; [|reflexivity].
        apply N.eqb_neq. congruence. }
      rewrite Hm. destruct (j + N.of_nat (S (length rest)) <=? a + 1) eqn:E; [lia|]. lia.
    + assert (Hm : ll_match FL (e_index e) (e_term e) = true).
      { unfold ll_match. rewrite (ag_eq LL FL lo a HA (e_index e)) by lia. rewrite Ht. cbn.
        apply N.eqb_refl. }
      rewrite Hm. rewrite (IH (j + 1)); try assumption; try lia.
      * destruct (j + 1 + N.of_nat (length rest) <=? a + 1) eqn:E1;
          destruct (j + N.of_nat (S (length rest)) <=? a + 1) eqn:E2; try reflexivity; lia.
      * intros x Hx. apply Hf. right. exact Hx.
Qed.

Lemma nth_error_from_leader LL ents j k e :
  ll_wf LL -> contiguous_from j ents -> from_leader LL ents -> nth_error ents k = Some e ->
  ll_get LL (j + N.of_nat k) = Some e.
Proof.
  intros Hw Hc Hf Hn. pose proof (contig_nth _ _ _ _ Hc Hn) as Hi.
  rewrite <- Hi. apply Hf. eapply nth_error_In. exact Hn.
Qed.

(* after accepting a batch of leader entries that starts at or below the frontier, the
   follower's log agrees up to the end of the batch (or the old frontier, if larger) and
   has nothing of the leader's beyond it *)
Lemma agree_after_append LL FL lo a p ents :
  LeaderLog LL -> Agree LL FL lo a -> ll_base LL <= lo -> ll_wf FL -> ll_base FL <= a ->
  lo <= p <= a ->
  contiguous_from (p + 1) ents -> from_leader LL ents ->
  p + N.of_nat (length ents) <= ll_last LL ->
  Agree LL (ll_maybe_append FL p ents) lo (N.max a (p + N.of_nat (length ents))) /\
  ll_find_conflict FL ents = (if p + N.of_nat (length ents) <=? a then 0 else a + 1).
Proof.
  intros HL HA Hb HwF HbF Hp Hc Hf Hlen.
  pose proof (find_conflict_agree LL FL lo a HL HA Hb ents (p + 1) Hc Hf ltac:(lia) ltac:(lia)) as Hci.
  assert (Hci' : ll_find_conflict FL ents = (if p + N.of_nat (length ents) <=? a then 0 else a + 1)).
  { rewrite Hci. destruct (p + 1 + N.of_nat (length ents) <=? a + 1) eqn:E1;
      destruct (p + N.of_nat (length ents) <=? a) eqn:E2; try reflexivity; lia. }
  split; [|exact Hci'].
  unfold ll_maybe_append. rewrite Hci'.
  destruct (p + N.of_nat (length ents) <=? a) eqn:E.
  - change (0 =? 0) with true. cbv iota. rewrite N.max_l by lia. exact HA.
  - destruct (a + 1 =? 0) eqn:E0; [lia|].
    rewrite N.max_r by lia.
    pose proof (ag_lo _ _ _ _ HA) as A1. pose proof (ag_lastL _ _ _ _ HA) as A2.
    pose proof (ag_lastF _ _ _ _ HA) as A3.
    (* the appended suffix *)
    set (k := N.to_nat (a + 1 - (p + 1))).
    assert (Hk : (k < length ents)%nat) by (subst k; lia).
    destruct (skipn k ents) as [|e0 suf] eqn:Esk.
    { exfalso. assert (length (skipn k ents) = 0%nat) by (rewrite Esk; reflexivity).
      rewrite skipn_length in H. lia. }
    assert (Hcs : contiguous_from (a + 1) (e0 :: suf)).
    { rewrite <- Esk. replace (a + 1) with (p + 1 + N.of_nat k) by (subst k; lia).
      apply contig_skipn. exact Hc. }
    assert (He0 : e_index e0 = a + 1) by (destruct Hcs; assumption).
    assert (Hslen : length (e0 :: suf) = (length ents - k)%nat).
    { rewrite <- Esk. apply skipn_length. }
    unfold ll_append. rewrite He0.
    set (FL' := mkLL (ll_base FL) (ll_bterm FL)
                     (firstn (N.to_nat (a + 1 - ll_base FL - 1)) (ll_ents FL) ++ e0 :: suf)).
    assert (Hlast' : ll_last FL' = p + N.of_nat (length ents)).
    { unfold ll_last, FL'. cbn [ll_base ll_ents]. rewrite app_length, firstn_length, Hslen.
      unfold ll_last in A3. subst k. lia. }
    (* terms of FL' *)
    assert (Hlow : forall i, i <= a -> ll_term FL' i = ll_term FL i).
    { intros i Hi. unfold ll_term. rewrite Hlast'. change (ll_base FL') with (ll_base FL).
      change (ll_bterm FL') with (ll_bterm FL).
      destruct (i <? ll_base FL) eqn:E1; cbn [orb]; [reflexivity|].
      destruct (p + N.of_nat (length ents) <? i) eqn:E2; [lia|].
      destruct (ll_last FL <? i) eqn:E3; [lia|].
      destruct (i =? ll_base FL) eqn:E4; [reflexivity|].
      assert (Hg : ll_get FL' i = ll_get FL i).
      { pose proof (ll_get_append_below FL e0 suf i ltac:(lia) ltac:(lia)) as Hga.
        unfold ll_append in Hga. rewrite He0 in Hga. exact Hga. }
      rewrite Hg. reflexivity. }
    assert (Hmid : forall i, a < i <= p + N.of_nat (length ents) -> ll_term FL' i = ll_term LL i).
    { intros i Hi.
      assert (Hg : ll_get FL' i = ll_get LL i).
      { unfold ll_get at 1. change (ll_base FL') with (ll_base FL).
        destruct (i <=? ll_base FL) eqn:E1; [lia|].
        unfold FL'. cbn [ll_ents].
        rewrite nth_error_app2 by (rewrite firstn_length; unfold ll_last in A3; lia).
        rewrite firstn_length.
        replace (N.to_nat (i - ll_base FL - 1) -
                 Nat.min (N.to_nat (a + 1 - ll_base FL - 1)) (length (ll_ents FL)))%nat
          with (N.to_nat (i - (a + 1))) by (unfold ll_last in A3; lia).
        destruct (nth_error (e0 :: suf) (N.to_nat (i - (a + 1)))) as [e|] eqn:En.
        - rewrite <- Esk in En. rewrite nth_error_skipn' in En.
          pose proof (nth_error_from_leader LL ents (p + 1) _ e (lg_wf LL HL) Hc Hf En) as Hl.
          rewrite <- Hl. f_equal. subst k. lia.
        - apply nth_error_None in En. rewrite Hslen in En. subst k. lia. }
      destruct (leader_term_in_range LL i HL ltac:(lia)) as (e & He & Ht & _).
      rewrite Ht. unfold ll_term. rewrite Hlast'. change (ll_base FL') with (ll_base FL).
      destruct (i <? ll_base FL) eqn:E1; [lia|].
      destruct (p + N.of_nat (length ents) <? i) eqn:E2; [lia|]. cbn [orb].
      destruct (i =? ll_base FL) eqn:E3; [lia|]. rewrite Hg, He. reflexivity. }
    constructor.
    + lia.
    + exact Hlen.
    + rewrite Hlast'. lia.
    + intros i Hi. destruct (N.le_gt_cases i a) as [Hia|Hia].
      * rewrite Hlow by exact Hia. apply (ag_eq _ _ _ _ HA). lia.
      * apply Hmid. lia.
    + intros i Hi. rewrite (term_beyond_last FL' i) by (rewrite Hlast'; lia).
      destruct (leader_term_in_range LL i HL ltac:(lia)) as (e & _ & Ht & Hnz & _).
      rewrite Ht. intros Heq. inversion Heq. congruence.
Qed.

(* ================================================================== *)
(* 6.2 the follower                                                    *)
(* ================================================================== *)

Section Pair.

(* LL: the leader's logical log (constant during the run: nothing is proposed);
   T: the common term; l, f: the two ids; lo: the index from which the leader's log is
   retained and the follower is known to agree (the initial [matched]) *)
Variables (LL : LL) (T l f lo : N) (rw : bool).
Hypothesis HLL : LeaderLog LL.
Hypothesis Hlo : ll_base LL <= lo.
Hypothesis HloT : exists t, ll_term LL lo = SOk t.
Hypothesis HT : T <> 0.
Hypothesis Hlf : l <> f.

Lemma leader_term_from_lo i : lo <= i <= ll_last LL -> exists t, ll_term LL i = SOk t.
Proof.
  intros Hi. destruct (N.eq_dec i lo) as [->|Hne]; [exact HloT|].
  destruct (leader_term_in_range LL i HLL ltac:(lia)) as (e & _ & Ht & _). eauto.
Qed.

(* a MsgAppend of the leader that reflects its log *)
Definition snd_app (m : msg) : Prop :=
  m_type m = MsgAppend /\ m_term m = T /\ m_from m = l /\ m_to m = f /\
  lo <= m_index m <= ll_last LL /\
  ll_term LL (m_index m) = SOk (m_log_term m) /\
  exists k, m_entries m = firstn k (ll_range LL (m_index m + 1) (ll_last LL + 1)).

(* a MsgHeartbeat of the leader whose commit index is at most b *)
Definition snd_hb (b : N) (m : msg) : Prop :=
  m_type m = MsgHeartbeat /\ m_term m = T /\ m_from m = l /\ m_to m = f /\
  m_commit m <= b /\ m_context m = [].

Definition qmsg_ok (b : N) (m : msg) : Prop := snd_app m \/ snd_hb b m.

(* a response of the follower that is truthful at frontier b *)
Definition resp_ok (b : N) (m : msg) : Prop :=
  m_term m = T /\ m_from m = f /\ m_to m = l /\
  ((m_type m = MsgHeartbeatResponse /\ m_context m = []) \/
   (m_type m = MsgAppendResponse /\ m_reject m = false /\ m_index m <= b) \/
   (m_type m = MsgAppendResponse /\ m_reject m = true /\ m_request_snapshot m = 0 /\
    b < m_index m)).

(* [rep] answers the append [m] *)
Definition answers (m rep : msg) : Prop :=
  m_type rep = MsgAppendResponse /\
  ((m_reject rep = false /\
    (m_index rep = m_index m + N.of_nat (length (m_entries m)) \/ m_index m < m_index rep)) \/
   (m_reject rep = true /\ m_index rep = m_index m)).

Record FInv (a : N) (F : raft) : Prop := mkFInv {
  fi_state : r_state F = Follower;
  fi_term : r_term F = T;
  fi_id : r_id F = f;
  fi_rep : RepInv rw (r_log F);
  fi_snapreq : r_pending_request_snapshot F = 0;
  fi_agree : Agree LL (abs (r_log F)) lo a;
  fi_commit : committed (r_log F) <= a
}.

(* nothing but log, queue, election counter and leader id differs *)
Definition follower_frame (F F' : raft) : Prop :=
  F' = F <| r_log := r_log F' |> <| r_msgs := r_msgs F' |>
         <| r_election_elapsed := r_election_elapsed F' |> <| r_leader_id := r_leader_id F' |>.

Ltac red_log :=
  repeat match goal with
  | |- context [r_log (?x <| r_msgs := ?y |>)] => change (r_log (x <| r_msgs := y |>)) with (r_log x)
  | |- context [r_log (?x <| r_log := ?y |>)] => change (r_log (x <| r_log := y |>)) with y
  end.

Lemma snd_app_entries m :
  snd_app m ->
  contiguous_from (m_index m + 1) (m_entries m) /\ from_leader LL (m_entries m) /\
  nz_terms (m_entries m) /\
  m_index m + N.of_nat (length (m_entries m)) <= ll_last LL.
Proof.
  intros (_ & _ & _ & _ & Hi & _ & k & Hk). rewrite Hk.
  split.
  { apply contig_firstn. apply ll_range_contig; [apply (lg_wf LL HLL)|]. unfold ll_first. lia. }
  assert (Hf : from_leader LL (firstn k (ll_range LL (m_index m + 1) (ll_last LL + 1)))).
  { apply from_leader_range; [apply (lg_wf LL HLL)|lia]. }
  split; [exact Hf|]. split.
  - apply Forall_forall. intros e He. apply (lg_nz LL HLL). eapply ll_get_in. apply Hf. exact He.
  - rewrite firstn_length. rewrite ll_range_length by (unfold ll_first; lia). lia.
Qed.

(* handle_append_entries on a sound append *)
Lemma follower_handles_append a r m r' :
  RepInv rw (r_log r) -> r_pending_request_snapshot r = 0 ->
  Agree LL (abs (r_log r)) lo a -> committed (r_log r) <= a ->
  r_term r = T -> r_id r = f ->
  snd_app m -> handle_append_entries r m = Ok r' ->
  exists a' rep,
    a <= a' /\ RepInv rw (r_log r') /\ Agree LL (abs (r_log r')) lo a' /\
    committed (r_log r') <= a' /\
    r' = r <| r_log := r_log r' |> <| r_msgs := r_msgs r ++ [rep] |> /\
    resp_ok a' rep /\ answers m rep.
Proof.
  intros HI Hq HA Hc Ht Hid Hs H.
  pose proof (snd_app_entries m Hs) as (Ec & Ef & Enz & Elen).
  destruct Hs as (Sty & Stm & Sfr & Sto & Sidx & Sterm & _).
  unfold handle_append_entries in H. rewrite Hq in H.
  change (0 =? INVALID_INDEX) with true in H. cbn [negb] in H.
  destruct (m_index m <? committed (r_log r)) eqn:Ecm.
  - (* below the follower's commit index: answer with the commit index *)
    rewrite send_plain in H by reflexivity. inversion H; subst r'; clear H.
    exists a. eexists. split; [lia|]. split; [exact HI|]. split; [exact HA|]. split; [exact Hc|].
    split; [destruct r; reflexivity|]. split.
    + unfold resp_ok. cbn. split; [exact Ht|]. split; [exact Hid|]. split; [exact Sfr|].
      right. left. split; [reflexivity|]. split; [reflexivity|]. exact Hc.
    + unfold answers. cbn. split; [reflexivity|]. left. split; [reflexivity|]. right. lia.
  - destruct (N.le_gt_cases (m_index m) a) as [Hle|Hgt].
    + (* at or below the frontier: accepted *)
      assert (Hmatch : ll_match (abs (r_log r)) (m_index m) (m_log_term m) = true).
      { unfold ll_match. rewrite (ag_eq _ _ _ _ HA) by lia. rewrite Sterm. cbn. apply N.eqb_refl. }
      pose proof (base_le_committed rw _ HI) as Hbase.
      destruct (agree_after_append LL (abs (r_log r)) lo a (m_index m) (m_entries m) HLL HA Hlo
                  (abs_wf rw _ HI) ltac:(lia) ltac:(lia) Ec Ef Elen) as [HA' Hci].
      destruct (maybe_append_ok rw (r_log r) (m_index m) (m_log_term m) (m_commit m) (m_entries m)
                  HI Ec Enz) as (l' & Hok & HI' & Habs & Hcm' & _).
      { left. pose proof (ag_lastF _ _ _ _ HA). lia. }
      { pose proof (lg_bound LL HLL). lia. }
      { exact Hmatch. }
      { cbv zeta. rewrite Hci. destruct (_ <=? a); [left; reflexivity|right; lia]. }
      rewrite Hok in H. cbn [bind] in H.
      rewrite send_plain in H by reflexivity. inversion H; subst r'; clear H.
      exists (N.max a (m_index m + N.of_nat (length (m_entries m)))). eexists.
      split; [lia|]. red_log.
      split; [exact HI'|]. split; [rewrite Habs; exact HA'|]. split; [rewrite Hcm'; lia|].
      split; [destruct r; reflexivity|]. split.
      * unfold resp_ok. cbn. split; [exact Ht|]. split; [exact Hid|]. split; [exact Sfr|].
        right. left. split; [reflexivity|]. split; [reflexivity|]. lia.
      * unfold answers. cbn. split; [reflexivity|]. left. split; [reflexivity|]. left. reflexivity.
    + (* beyond the frontier: rejected with a hint, the log is untouched *)
      assert (Hmatch : ll_match (abs (r_log r)) (m_index m) (m_log_term m) = false).
      { unfold ll_match. pose proof (ag_ne _ _ _ _ HA (m_index m) ltac:(lia)) as Hne.
        rewrite Sterm in Hne. destruct (ll_term (abs (r_log r)) (m_index m)); cbn; [|reflexivity].
        apply N.eqb_neq. congruence. }
      assert (H' : handle_append_entries r m = Ok r').
      { unfold handle_append_entries. rewrite Hq. change (0 =? INVALID_INDEX) with true. cbn [negb].
        rewrite Ecm. exact H. }
      destruct (follower_reject_hint rw r m r' HI Hq ltac:(lia) Hmatch H') as (hi & ht & -> & _).
      exists a. eexists. split; [lia|]. red_log.
      split; [exact HI|]. split; [exact HA|]. split; [exact Hc|].
      split; [destruct r; reflexivity|]. split.
      * unfold resp_ok. cbn. split; [exact Ht|]. split; [exact Hid|]. split; [exact Sfr|].
        right. right. split; [reflexivity|]. split; [reflexivity|]. split; [reflexivity|]. exact Hgt.
      * unfold answers. cbn. split; [reflexivity|]. right. auto.
Qed.

(* handle_heartbeat on a sound heartbeat *)
Lemma follower_handles_heartbeat a r m r' :
  RepInv rw (r_log r) -> r_pending_request_snapshot r = 0 ->
  Agree LL (abs (r_log r)) lo a -> committed (r_log r) <= a ->
  r_term r = T -> r_id r = f ->
  snd_hb a m -> handle_heartbeat r m = Ok r' ->
  exists rep,
    RepInv rw (r_log r') /\ abs (r_log r') = abs (r_log r) /\ committed (r_log r') <= a /\
    r' = r <| r_log := r_log r' |> <| r_msgs := r_msgs r ++ [rep] |> /\
    resp_ok a rep /\ m_type rep = MsgHeartbeatResponse.
Proof.
  intros HI Hq HA Hc Ht Hid (Sty & Stm & Sfr & Sto & Scm & Sctx) H.
  unfold handle_heartbeat in H.
  destruct (commit_to_ok rw (r_log r) (m_commit m) HI) as (l' & Hok & HI' & Habs & Hcm & _).
  { pose proof (ag_lastF _ _ _ _ HA). lia. }
  rewrite Hok in H. cbn [bind] in H.
  change (r_pending_request_snapshot (r <| r_log := l' |>)) with (r_pending_request_snapshot r) in H.
  rewrite Hq in H. change (0 =? INVALID_INDEX) with true in H. cbn [negb] in H.
  rewrite send_plain in H by reflexivity. inversion H; subst r'; clear H.
  eexists. red_log. split; [exact HI'|]. split; [exact Habs|]. split; [lia|].
  split; [destruct r; reflexivity|]. split; [|reflexivity].
  unfold resp_ok. cbn. split; [exact Ht|]. split; [exact Hid|]. split; [exact Sfr|].
  left. split; [reflexivity|exact Sctx].
Qed.

(* Raft::step of a follower on a same-term MsgAppend / MsgHeartbeat *)
Lemma step_follower_same_term F m :
  r_state F = Follower -> r_term F = T -> m_term m = T ->
  (m_type m = MsgAppend ->
   step F m = (r' <- handle_append_entries
                       (F <| r_election_elapsed := 0 |> <| r_leader_id := m_from m |>) m ;;
               Ok (r', E_OK))) /\
  (m_type m = MsgHeartbeat ->
   step F m = (r' <- handle_heartbeat
                       (F <| r_election_elapsed := 0 |> <| r_leader_id := m_from m |>) m ;;
               Ok (r', E_OK))).
Proof.
  intros Hs Ht Hm. unfold step. rewrite Hm, Ht.
  assert (E0 : (T =? 0) = false) by (apply N.eqb_neq; exact HT). rewrite E0, N.ltb_irrefl.
  cbn [bind]. rewrite Hs. split; intros Hty; rewrite Hty.
  - change (MsgAppend =? MsgHup) with false. change (MsgAppend =? MsgRequestVote) with false.
    change (MsgAppend =? MsgRequestPreVote) with false. cbn [orb].
    unfold step_follower. rewrite Hty. reflexivity.
  - change (MsgHeartbeat =? MsgHup) with false. change (MsgHeartbeat =? MsgRequestVote) with false.
    change (MsgHeartbeat =? MsgRequestPreVote) with false. cbn [orb].
    unfold step_follower. rewrite Hty. reflexivity.
Qed.

(* one message of the leader handled by the follower *)
Lemma follower_step a F m F' c :
  FInv a F -> qmsg_ok a m -> step F m = Ok (F', c) ->
  exists a' rep,
    a <= a' /\ FInv a' F' /\ follower_frame F F' /\ r_election_elapsed F' = 0 /\
    r_msgs F' = r_msgs F ++ [rep] /\ resp_ok a' rep /\
    (snd_app m -> answers m rep) /\
    (snd_hb a m -> m_type rep = MsgHeartbeatResponse).
Proof.
  intros [Fs Ft Fi Fr Fq Fa Fc] Hm H.
  set (F1 := F <| r_election_elapsed := 0 |> <| r_leader_id := m_from m |>) in *.
  destruct Hm as [Hm|Hm].
  - pose proof Hm as (Sty & Stm & _).
    destruct (step_follower_same_term F m Fs Ft Stm) as [E _]. rewrite (E Sty) in H. clear E.
    fold F1 in H. inv_bind H. inversion H; subst x c; clear H.
    destruct (follower_handles_append a F1 m F' Fr Fq Fa Fc Ft Fi Hm Hx)
      as (a' & rep & Hle & HI' & HA' & Hc' & Heq & Hr & Hans).
    exists a', rep. split; [exact Hle|]. split.
    { constructor; [rewrite Heq; exact Fs|rewrite Heq; exact Ft|rewrite Heq; exact Fi|exact HI'|
                    rewrite Heq; exact Fq|exact HA'|exact Hc']. }
    split; [rewrite Heq; unfold follower_frame, F1; destruct F; reflexivity|].
    split; [rewrite Heq; reflexivity|]. split; [rewrite Heq; reflexivity|].
    split; [exact Hr|]. split; [intros _; exact Hans|].
    intros (Sty' & _). rewrite Sty in Sty'. discriminate Sty'.
  - pose proof Hm as (Sty & Stm & _).
    destruct (step_follower_same_term F m Fs Ft Stm) as [_ E]. rewrite (E Sty) in H. clear E.
    fold F1 in H. inv_bind H. inversion H; subst x c; clear H.
    destruct (follower_handles_heartbeat a F1 m F' Fr Fq Fa Fc Ft Fi Hm Hx)
      as (rep & HI' & Habs & Hc' & Heq & Hr & Hty).
    exists a, rep. split; [lia|]. split.
    { constructor; [rewrite Heq; exact Fs|rewrite Heq; exact Ft|rewrite Heq; exact Fi|exact HI'|
                    rewrite Heq; exact Fq|rewrite Habs; exact Fa|exact Hc']. }
    split; [rewrite Heq; unfold follower_frame, F1; destruct F; reflexivity|].
    split; [rewrite Heq; reflexivity|]. split; [rewrite Heq; reflexivity|].
    split; [exact Hr|]. split; [|intros _; exact Hty].
    intros (Sty' & _). rewrite Sty in Sty'. discriminate Sty'.
Qed.

End Pair.
